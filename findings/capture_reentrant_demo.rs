//! F10 (C16): `CaptureLayer::on_event` / `on_record` render field values while the storage write lock
//! is held.  A value whose `Debug` impl itself emits a tracing event (or panics) therefore re-enters
//! the layer under the lock: deadlock (or a poisoned storage).  `on_new_span` renders the values
//! before taking the lock and is not affected.
use std::{fmt, sync::mpsc, time::Duration};
use tracing_capture::{CaptureLayer, SharedStorage};
use tracing_subscriber::layer::SubscriberExt;

struct Loud;
impl fmt::Debug for Loud {
    fn fmt(&self, f: &mut fmt::Formatter<'_>) -> fmt::Result {
        tracing::info!("rendering Loud");
        f.write_str("Loud")
    }
}
struct Bomb;
impl fmt::Debug for Bomb {
    fn fmt(&self, _: &mut fmt::Formatter<'_>) -> fmt::Result {
        panic!("Debug impl of the guest panics")
    }
}

fn with_timeout(name: &str, f: impl FnOnce() + Send + 'static) -> bool {
    let (tx, rx) = mpsc::channel();
    std::thread::spawn(move || {
        f();
        let _ = tx.send(());
    });
    let ok = rx.recv_timeout(Duration::from_secs(3)).is_ok();
    println!("{name}: {}", if ok { "completed" } else { "DID NOT COMPLETE within 3 s (deadlock)" });
    ok
}

fn main() {
    let mut all_ok = true;
    // 1. a span attribute that logs while it is rendered: fine (rendered before the lock is taken)
    all_ok &= with_timeout("span attribute with a logging Debug impl", || {
        let storage = SharedStorage::default();
        tracing::subscriber::with_default(tracing_subscriber::registry().with(CaptureLayer::new(&storage)), || {
            let _span = tracing::info_span!("s", v = ?Loud);
        });
        // (tracing-core drops events emitted while the dispatcher is already entered on this thread)
        assert_eq!(storage.lock().all_spans().len(), 1);
    });
    // 2. the same value in an event
    all_ok &= with_timeout("event field with a logging Debug impl", || {
        let storage = SharedStorage::default();
        tracing::subscriber::with_default(tracing_subscriber::registry().with(CaptureLayer::new(&storage)), || {
            tracing::info!(v = ?Loud, "outer");
        });
        assert!(storage.lock().all_events().len() >= 1);
    });
    // 3. ... and in a later record
    all_ok &= with_timeout("recorded value with a logging Debug impl", || {
        let storage = SharedStorage::default();
        tracing::subscriber::with_default(tracing_subscriber::registry().with(CaptureLayer::new(&storage)), || {
            let span = tracing::info_span!("s", v = tracing::field::Empty);
            span.record("v", tracing::field::debug(Loud));
        });
        assert_eq!(storage.lock().all_events().len(), 1);
    });
    // 4. a Debug impl that panics (the guest catches its own panic): the storage must stay usable
    all_ok &= with_timeout("event field whose Debug impl panics", || {
        let storage = SharedStorage::default();
        tracing::subscriber::with_default(tracing_subscriber::registry().with(CaptureLayer::new(&storage)), || {
            let r = std::panic::catch_unwind(|| tracing::info!(v = ?Bomb, "outer"));
            assert!(r.is_err());
            tracing::info!("after the guest's own panic");
        });
        assert_eq!(storage.lock().all_events().len(), 1);
    });
    if !all_ok {
        eprintln!("C16 violated: a capture-layer callback did not complete / poisoned its storage");
        std::process::exit(1);
    }
    println!("OK");
}
