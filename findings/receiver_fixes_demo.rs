use std::borrow::Cow;
use tracing_tunnel::*;
use tracing_subscriber::{layer::SubscriberExt, Registry};
use tracing_capture::{CaptureLayer, SharedStorage};

fn cs(kind: CallSiteKind, name: &str, nfields: usize) -> CallSiteData {
    CallSiteData { kind, name: Cow::Owned(name.into()), target: Cow::Borrowed("demo"), level: TracingLevel::Info,
        module_path: None, file: None, line: None, fields: (0..nfields).map(|i| Cow::Owned(format!("f{i}"))).collect() }
}
fn vals(range: std::ops::Range<usize>) -> TracedValues<String> { range.map(|i| (format!("f{i}"), TracedValue::from(i as i64))).collect() }

fn f2() -> bool {
    // 40-field call site; 20 values at creation, 20 more recorded; restart host; enter -> panic
    let storage = SharedStorage::default();
    let sub = Registry::default().with(CaptureLayer::new(&storage));
    tracing::subscriber::with_default(sub, || {
        let mut r = TracingEventReceiver::default();
        r.receive(TracingEvent::NewCallSite { id: 0, data: cs(CallSiteKind::Span, "f2", 40) });
        r.receive(TracingEvent::NewSpan { id: 1, parent_id: None, metadata_id: 0, values: vals(0..20) });
        r.receive(TracingEvent::ValuesRecorded { id: 1, values: vals(20..40) });
        let md = r.persist_metadata(); let (spans, _local) = r.persist();
        let mut r = TracingEventReceiver::new(md, spans, LocalSpans::default());
        let res = std::panic::catch_unwind(std::panic::AssertUnwindSafe(|| r.try_receive(TracingEvent::SpanEntered { id: 1 })));
        std::mem::forget(r);
        matches!(res, Ok(Ok(())))
    })
}
fn f3() -> bool {
    let storage = SharedStorage::default();
    let sub = Registry::default().with(CaptureLayer::new(&storage));
    tracing::subscriber::with_default(sub, || {
        let mut r = TracingEventReceiver::default();
        r.receive(TracingEvent::NewCallSite { id: 0, data: cs(CallSiteKind::Span, "f3", 1) });
        r.receive(TracingEvent::NewSpan { id: 1, parent_id: None, metadata_id: 0, values: vals(0..0) });
        r.receive(TracingEvent::NewSpan { id: 2, parent_id: Some(1), metadata_id: 0, values: vals(0..0) });
        r.receive(TracingEvent::SpanDropped { id: 1 });
        let md = r.persist_metadata(); let (spans, _local) = r.persist();
        let mut r = TracingEventReceiver::new(md, spans, LocalSpans::default());
        let res = r.try_receive(TracingEvent::SpanEntered { id: 2 });
        println!("  F3 result: {res:?}");
        res.is_ok()
    })
}
fn f4() -> bool {
    let storage = SharedStorage::default();
    let sub = Registry::default().with(CaptureLayer::new(&storage));
    tracing::subscriber::with_default(sub, || {
        let outer = tracing::info_span!("host_outer");
        let _g = outer.enter();
        let before = tracing::Span::current().id();
        let mut r = TracingEventReceiver::default();
        r.receive(TracingEvent::NewCallSite { id: 0, data: cs(CallSiteKind::Span, "f4", 0) });
        r.receive(TracingEvent::NewSpan { id: 1, parent_id: None, metadata_id: 0, values: vals(0..0) });
        r.receive(TracingEvent::SpanEntered { id: 1 });
        r.receive(TracingEvent::SpanEntered { id: 1 });
        let _ = r.persist();
        let after = tracing::Span::current().id();
        println!("  F4 current before {before:?} after {after:?}");
        before == after
    })
}
fn main() {
    std::panic::set_hook(Box::new(|_| {}));
    let r = [("F2", f2()), ("F3", f3()), ("F4", f4())];
    for (n, ok) in r { println!("{n}: {}", if ok { "ok" } else { "DEFECT" }); }
}
