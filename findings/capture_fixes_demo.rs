use tracing_capture::{CaptureLayer, SharedStorage};
use tracing_subscriber::{layer::SubscriberExt, filter::LevelFilter, Registry};

fn f5() -> bool {
    // follows_from towards a span that is already closed
    let storage = SharedStorage::default();
    let sub = Registry::default().with(CaptureLayer::new(&storage));
    let res = std::panic::catch_unwind(std::panic::AssertUnwindSafe(|| {
        tracing::subscriber::with_default(sub, || {
            let a = tracing::info_span!("a");
            let a_id = a.id().unwrap();
            drop(a); // closed
            let b = tracing::info_span!("b");
            b.follows_from(a_id);
        });
    }));
    let usable = std::panic::catch_unwind(std::panic::AssertUnwindSafe(|| storage.lock().all_spans().len())).is_ok();
    res.is_ok() && usable
}
fn f6() -> bool {
    // two capture layers with their own storages and filters in one subscriber
    let s1 = SharedStorage::default();
    let s2 = SharedStorage::default();
    let sub = Registry::default()
        .with(CaptureLayer::new(&s1))
        .with(CaptureLayer::new(&s2).with_filter(LevelFilter::INFO));
    let res = std::panic::catch_unwind(std::panic::AssertUnwindSafe(|| {
        tracing::subscriber::with_default(sub, || {
            let outer = tracing::debug_span!("outer");
            let _g = outer.enter();
            let inner = tracing::info_span!("inner", x = 1);
            let _h = inner.enter();
            tracing::info!("event");
        });
    }));
    if res.is_err() { return false; }
    let ok1 = std::panic::catch_unwind(std::panic::AssertUnwindSafe(|| { let s = s1.lock(); s.all_spans().len() == 2 && s.all_events().len() == 1 && s.all_spans().nth(1).unwrap().parent().is_some() })).unwrap_or(false);
    let ok2 = std::panic::catch_unwind(std::panic::AssertUnwindSafe(|| { let s = s2.lock(); s.all_spans().len() == 1 && s.all_events().len() == 1 && s.all_spans().next().unwrap().parent().is_none() && s.all_events().next().unwrap().parent().is_some() })).unwrap_or(false);
    println!("  F6 storage1 ok {ok1}, storage2 ok {ok2}");
    ok1 && ok2
}
fn main() {
    std::panic::set_hook(Box::new(|_| {}));
    for (n, ok) in [("F5", f5()), ("F6", f6())] { println!("{n}: {}", if ok { "ok" } else { "DEFECT" }); }
}
