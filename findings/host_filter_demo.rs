use std::borrow::Cow;
use tracing_capture::{CaptureLayer, SharedStorage};
use tracing_subscriber::{filter::LevelFilter, layer::SubscriberExt, Registry};
use tracing_tunnel::*;

fn cs(kind: CallSiteKind, name: &str, level: TracingLevel) -> CallSiteData {
    CallSiteData { kind, name: Cow::Owned(name.into()), target: Cow::Borrowed("demo3"), level,
        module_path: None, file: None, line: None, fields: vec![Cow::Borrowed("x")] }
}
fn main() {
    // host limited to INFO by a global level filter
    let storage = SharedStorage::default();
    let sub = Registry::default().with(LevelFilter::INFO).with(CaptureLayer::new(&storage));
    let mut results = vec![];
    tracing::subscriber::with_default(sub, || {
        let mut r = TracingEventReceiver::default();
        let vals: TracedValues<String> = [("x".to_owned(), TracedValue::from(1_i64))].into_iter().collect();
        let evs = vec![
            TracingEvent::NewCallSite { id: 0, data: cs(CallSiteKind::Span, "dbg_span", TracingLevel::Debug) },
            TracingEvent::NewCallSite { id: 1, data: cs(CallSiteKind::Span, "info_span", TracingLevel::Info) },
            TracingEvent::NewCallSite { id: 2, data: cs(CallSiteKind::Event, "dbg_event", TracingLevel::Debug) },
            TracingEvent::NewCallSite { id: 3, data: cs(CallSiteKind::Event, "info_event", TracingLevel::Info) },
            TracingEvent::NewSpan { id: 1, parent_id: None, metadata_id: 0, values: vals.clone() },
            TracingEvent::SpanEntered { id: 1 },
            TracingEvent::NewSpan { id: 2, parent_id: None, metadata_id: 1, values: vals.clone() },
            TracingEvent::SpanEntered { id: 2 },
            TracingEvent::NewEvent { metadata_id: 2, parent: None, values: vals.clone() },
            TracingEvent::NewEvent { metadata_id: 3, parent: None, values: vals.clone() },
            TracingEvent::ValuesRecorded { id: 1, values: vals.clone() },
            TracingEvent::SpanExited { id: 2 },
            TracingEvent::SpanExited { id: 1 },
            TracingEvent::SpanDropped { id: 2 },
            TracingEvent::SpanDropped { id: 1 },
        ];
        for ev in evs { results.push(r.try_receive(ev).is_ok()); }
    });
    let s = storage.lock();
    let spans: Vec<_> = s.all_spans().map(|sp| sp.metadata().name()).collect();
    let events: Vec<_> = s.all_events().map(|e| e.metadata().name()).collect();
    println!("accepted all: {}, spans {:?}, events {:?}", results.iter().all(|x| *x), spans, events);
    assert!(results.iter().all(|x| *x), "filtering must not reject valid events");
    assert_eq!(spans, ["info_span"], "the DEBUG span must not reach a host limited to INFO");
    assert_eq!(events, ["info_event"], "the DEBUG event must not reach a host limited to INFO");
    let info = s.all_spans().next().unwrap();
    assert!(info.parent().is_none());
    assert_eq!(info.stats().entered, 1);
    assert_eq!(info.stats().exited, 1);
    assert!(info.stats().is_closed);
    println!("ok");
}
