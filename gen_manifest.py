#!/usr/bin/env python3
"""Regenerates MANIFEST.json from props.py (claimed properties) and properties.jsonl."""
import json, os, sys
ROOT = os.path.dirname(os.path.abspath(__file__))
sys.path.insert(0, ROOT)
from props import PROPS
from manifest_texts import LEVEL_TEXT, NOT_APPLICABLE, HOOK_COMMITS, CLAIMED

ids = [json.loads(l)["id"] for l in open(os.path.join(ROOT, "properties.jsonl"))]
checks = []
for pid in ids:
    if pid not in CLAIMED:
        continue
    t = LEVEL_TEXT[pid]
    checks.append({
        "property_id": pid,
        "quick_cmd": f"./check {pid} --tier quick",
        "thorough_cmd": f"./check {pid} --tier thorough",
        "evidence_file": f"evidence/{pid}.json",
        "replay_cmd_template": "./check replay {path}",
        "engine": "coq-model+correspondence",
        "level_claimed": {"category": "proof", "text": t["text"], "design_ref": t["design_ref"]},
        "level_note": t["note"],
        "technique": t["technique"],
    })
manifest = {
    "version": 1,
    "setup_cmd": "./setup.sh",
    "hooks": {
        "guard": "cargo feature `verif-hooks` of tracing-tunnel (off by default)",
        "enable": "harness/Cargo.toml depends on /repo/tunnel by path with features = [\"sender\", \"receiver\", \"verif-hooks\"]; every check rebuilds the harness (and with it /repo's working tree) with `cargo build --release --offline`",
        "baseline_off_cmd": "cd /repo && (cargo nextest run --workspace --no-fail-fast --tool-config-file pb:/w/lib/nextest.toml --profile pb --test-threads 8 --offline || cargo test --workspace --no-fail-fast --offline)",
        "source_commits": HOOK_COMMITS,
        "add_only": True,
    },
    "engines": [{
        "name": "coq-model+correspondence",
        "path": "coq/ (Gallina models, proofs, Props/Cxx.v), harness/ (Rust, runs /repo), check (driver)",
        "serves_properties": [c["property_id"] for c in checks],
        "kind_free_text": "machine-checked proof in Coq 8.16.1 over hand-written executable models; models tied to /repo on every run by a correspondence check evaluated with vm_compute inside Coq",
    }],
    "checks": checks,
    "not_applicable": [{"property_id": p, "reason": NOT_APPLICABLE[p]} for p in ids if p not in CLAIMED],
    "notes": "See DESIGN.md. known_findings.txt lists recorded findings and fixes.",
}
json.dump(manifest, open(os.path.join(ROOT, "MANIFEST.json"), "w"), indent=1)
print("claimed:", [c["property_id"] for c in checks])
