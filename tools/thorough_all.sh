#!/bin/bash
# Runs every thorough check once (from a `vp run --with-repo` snapshot: the harness is pointed at the
# snapshot of /repo so that patches applied to /repo meanwhile do not disturb the run).
set -u
if [ -n "${VP_RUN_REPO:-}" ]; then
  sed -i "s#\"/repo/#\"$VP_RUN_REPO/#g" harness/Cargo.toml
fi
./setup.sh > setup.log 2>&1 || { echo "setup failed"; tail -20 setup.log; exit 2; }
for p in ${@:-C01 C02 C03 C04 C05 C06 C07 C08 C09 C10 C11 C12 C13 C14 C15 C16 C17 C18 C19 C20}; do
  s=$(date +%s)
  VERIF_SEED=${VERIF_SEED:-0} ./check $p --tier thorough > out-$p.log 2>&1
  rc=$?
  echo "$p rc=$rc $(( $(date +%s) - s ))s | $(grep -c VIOLATION out-$p.log) viol | $(tail -1 out-$p.log)"
done
