#!/usr/bin/env python3
import json, sys, subprocess, os
pid, n1, n2 = sys.argv[1], sys.argv[2], sys.argv[3]
p = next(json.loads(l) for l in open('/verif/properties.jsonl') if json.loads(l)['id'] == pid)
wt = f"/tmp/mut-{pid.lower()}"
if not os.path.isdir(wt):
    subprocess.run(["git", "-C", "/repo", "worktree", "add", "--detach", wt, "HEAD"], check=True, stdout=subprocess.DEVNULL, stderr=subprocess.DEVNULL)
os.makedirs(f"{wt}-out", exist_ok=True)
text = f"""You are testing a verification effort by producing realistic *property-breaking changes* (seeded defects) for a Rust repository. Work ONLY inside the scratch git worktree {wt} (a checkout of slowli/tracing-toolbox: crates `tracing-tunnel` in tunnel/, `tracing-capture` in capture/) and the output directory {wt}-out/. Never read or write /verif or /repo. The sandbox is offline: always pass `--offline` to cargo (and set CARGO_NET_OFFLINE=true). The repository's test suite is run with: `cargo nextest run --workspace --no-fail-fast --offline` (40 tests, all pass on the unchanged tree).

The property (given, fixed):

id: {pid}
title: {p.get('title','')}
statement: {p['statement']}
quantifier: {p['quantifier']['text']}
code anchors: {json.dumps(p.get('anchors', {}).get('mechanism', []))}

Task: produce TWO independent changes (numbered {n1} and {n2}) to the non-test source code of the repository, each of which
 (a) still compiles, and the unchanged test suite still passes with it (40 passed);
 (b) breaks the property above (the code's behaviour on some input/history/schedule contradicts the statement);
 (c) looks like something a maintainer could plausibly write (a refactoring that went subtly wrong, an optimisation, a fast path, a cache, an off-by-one, a forgotten write-back, a reordering of two statements, a relaxed lock, two cooperating edits that each look fine alone) - not sabotage like `if x == 42 {{ panic!() }}`, and it must not special-case magic constants;
 (d) needs something SPECIFIC to manifest: a particular interleaving, a crash/persist/drop at a particular point, a multi-step sequence of operations, an unusual-but-legal input (boundary sizes, re-used ids, duplicate names, deep nesting, unusual value kinds ...), or two cooperating sites. Changes that ordinary use would expose at once (every span breaks) are NOT wanted. Prefer changes different in kind from one another, and touching different functions.
Do not touch code under `#[cfg(feature = "verif-hooks")]` / `cfg(test)`; do not change public signatures used by tests.

For each change k in {{{n1}, {n2}}} write:
  {wt}-out/k/patch.diff   - `git diff` of the change against the worktree HEAD (must apply with `git apply` to a clean checkout)
  {wt}-out/k/demo/        - a small standalone cargo binary crate (Cargo.toml with an empty `[workspace]` table, path dependencies `tracing-tunnel = {{ path = "{wt}/tunnel", features = ["sender", "receiver"] }}` and/or `tracing-capture = {{ path = "{wt}/capture" }}` as needed, plus crates.io dependencies ONLY among those already in {wt}/Cargo.lock, e.g. tracing, tracing-core, tracing-subscriber, serde_json, serde, assert_matches; copy {wt}/Cargo.lock into the demo dir before building so that it resolves offline) whose `cargo run --offline` exits 0 on the unchanged tree and exits non-zero (panic/assert naming the violated clause) with the change applied. The demo must use only the crates' public API.
  {wt}-out/k/meta.json    - JSON object: {{"property": "{pid}", "summary": "<what was changed and why it breaks the property>", "needs_to_manifest": "<the specific input / sequence / schedule needed>", "files_touched": [...], "suite_passes_with_patch": true, "demo_cmd": "...", "demo_result_with_patch": "...", "demo_result_without_patch": "..."}}

Procedure for each change: edit the worktree; run the suite (must be 40 passed); build+run the demo (must fail); save `git diff > patch.diff`; `git checkout -- .`; run the demo again (must pass). Leave the worktree clean (git status shows no modified tracked files) when you finish, and delete the demo's `target/` directories to save disk. Thread-schedule-dependent demos should loop enough iterations to fail reliably with the change (>= 95% of runs) and never fail without it.

Final message: for each change, a 3-line description (what, what it needs to manifest, demo outcome with/without)."""
print(text)
