"""usage: tools/seed_prompt.py Cxx <n1> <n2> [extra text] > prompt.txt   (needs /tmp/mut-cxx-out/property.json)
Prompt for a fresh sub-agent that seeds two changes breaking property Cxx in the scratch worktree /tmp/mut-cxx."""
import json,sys
pid=sys.argv[1]; n1=sys.argv[2]; n2=sys.argv[3]; extra=sys.argv[4] if len(sys.argv)>4 else ""
p=json.load(open(f"/tmp/mut-{pid.lower()}-out/property.json"))
wt=f"/tmp/mut-{pid.lower()}"; out=f"{wt}-out"
print(f"""You are helping test a verification effort by seeding realistic defects into a Rust code base (mutation seeding for an authorized internal test; nothing is ever committed upstream).

The code base is a git worktree of slowli/tracing-toolbox at {wt} (crates `tracing-tunnel` in tunnel/, `tracing-capture` in capture/). Work ONLY inside {wt} and {out}. Do not look at or touch /repo or /verif. There is no network: always pass --offline to cargo (CARGO_NET_OFFLINE=true); every crate needed is already cached. The pinned test suite is run with: `cd {wt} && cargo nextest run --workspace --no-fail-fast --offline` (40 tests, all pass on the unchanged tree).

Here is a semantic property of the code base that should hold (JSON):

{json.dumps(p,indent=1)}

{extra}

Task: produce TWO different, independent changes to the library source (not tests) each of which BREAKS this property while (a) still compiling, (b) still passing the whole pinned test suite unedited (40 passed), and (c) looking like a plausible slip or 'simplification' a maintainer could make (a refactor, an optimisation, a reordered check, an off-by-one, a forgotten case), not sabotage. Prefer changes that need something SPECIFIC to manifest - a multi-step sequence of operations, an unusual but legal input, a particular interleaving, a fault at a particular point, or two cooperating sites that each look fine alone - not changes that ordinary use exposes at once. The two changes should break the property in different ways / different code locations.

For each change n in {{{n1},{n2}}} create the directory {out}/<n>/ containing:
 * patch.diff  - `git diff` of the change relative to the unchanged worktree (must apply with `git apply` on a clean checkout; only library source files);
 * demo/       - a small standalone cargo binary crate (Cargo.toml with an empty `[workspace]` table, path dependencies on {wt}/tunnel and/or {wt}/capture with the features it needs, e.g. `tracing-tunnel = {{ path = "{wt}/tunnel", features = ["sender","receiver"] }}`; other crates only from those already in {wt}/Cargo.lock; copy {wt}/Cargo.lock into demo/ before building) whose `cargo run --offline` exits 0 on the UNCHANGED tree and exits non-zero (panic or assertion failure with a clear message) when the patch is applied. The demo demonstrates the violated property through the public API only.
 * meta.json   - {{"property": "{pid}", "summary": <what the change does and why it breaks the property>, "needs_to_manifest": <what specific input / sequence / schedule is needed>, "files_touched": [...], "suite_passes_with_patch": true, "demo_cmd": ..., "demo_result_with_patch": ..., "demo_result_without_patch": ...}}

Verify everything yourself: with the patch applied run the full suite (must be 40 passed) and the demo (must fail); then `git -C {wt} checkout -- .` and run the demo again (must pass). Leave the worktree CLEAN (no patch applied, `git status` empty) when you finish, and delete demo/target directories to save disk. If a change turns out to fail the existing tests, pick another one. Report briefly what the two changes are.""")
