#!/usr/bin/env python3
"""Extracts the manifest_texts entry from integration/Cxx.md into integration/Cxx.manifest.json."""
import ast, json, re, sys, os
ROOT = os.path.dirname(os.path.dirname(os.path.abspath(__file__)))
pid = sys.argv[1]
md = open(os.path.join(ROOT, "integration", f"{pid}.md")).read()
blocks = re.findall(r"```python\n(.*?)```", md, re.S)
for b in blocks:
    try:
        d = ast.literal_eval("{" + b.strip().rstrip(",") + "}")
    except Exception as e:
        continue
    entry = d.get(pid)
    if isinstance(entry, dict) and "technique" in entry:
        json.dump(entry, open(os.path.join(ROOT, "integration", f"{pid}.manifest.json"), "w"), indent=1)
        print("wrote manifest entry for", pid)
        break
else:
    print("no manifest entry found for", pid); sys.exit(1)
