#!/usr/bin/env python3
"""tools/debug_case.py <replay.json> <judge_name> '<replacement gallina function>' [import]
Re-evaluates the recorded judge term with the judge function replaced (to see which component fails)."""
import json, subprocess, sys, os
r = json.load(open(sys.argv[1])); name = sys.argv[2]; repl = sys.argv[3]
imp = sys.argv[4] if len(sys.argv) > 4 else "Judge." + r["property"]
term = r["case"]["judge"].replace(name + " ", "(" + repl + ") ", 1)
open("/tmp/dbg.v", "w").write(f"From TT Require Import Base.Prelude {imp}.\nOpen Scope string_scope.\nEval vm_compute in ({term}).\n")
print(subprocess.run(["coqc", "-Q", "/verif/coq/theories", "TT", "/tmp/dbg.v"], capture_output=True, text=True).stdout[-3000:])
for f in os.listdir("/tmp"):
    if f.startswith("dbg."): os.remove(os.path.join("/tmp", f))
