#!/usr/bin/env python3
import sys, subprocess, os
tag, area = sys.argv[1], sys.argv[2]
wt = f"/tmp/ref-{tag}"
if not os.path.isdir(wt):
    subprocess.run(["git", "-C", "/repo", "worktree", "add", "--detach", wt, "HEAD"], check=True, stdout=subprocess.DEVNULL, stderr=subprocess.DEVNULL)
os.makedirs(f"{wt}-out", exist_ok=True)
print(f"""You are helping to test a verification tool for false alarms. Work ONLY inside the scratch git worktree {wt} (a checkout of slowli/tracing-toolbox: crates `tracing-tunnel` in tunnel/, `tracing-capture` in capture/) and the output directory {wt}-out/. Never read or write /verif or /repo. The sandbox is offline: always pass `--offline` to cargo (CARGO_NET_OFFLINE=true). Test suite: `cargo nextest run --workspace --no-fail-fast --offline` (40 tests pass on the unchanged tree).

Task: produce FOUR independent, *behaviour-preserving* refactorings (numbered 1..4) of the non-test code in: {area}.
Each must be the kind of harmless rewrite a maintainer does routinely: restructure control flow (match vs if-let chains, early returns, extracting/inlining a helper function, iterator chains vs loops), rename private items/locals, change a private helper's signature, reorder independent statements that have no observable effect on each other, replace a container operation by an equivalent one (e.g. `entry().or_insert` vs `contains_key`+`insert`), add capacity hints, change how an intermediate value is computed - while preserving EXACTLY the observable behaviour: the same results/errors from every public function on every input, the same calls to the `tracing` Subscriber / Layer callbacks in the same order with the same arguments, the same serde output, the same panics (or absence of them), the same data in every public accessor. Do not change public API signatures, do not change any semantics even in corner cases (think about duplicates, empty inputs, error precedence when several checks could fail, order of side effects before an early return). Make each refactoring substantial enough to be a real rewrite (10-60 changed lines), not a whitespace/comment change.
Important: the crate `tracing-tunnel` has a cargo feature `verif-hooks` (file tunnel/src/receiver/verif_hooks.rs and a few `#[cfg(feature = "verif-hooks")]` lines). Keep those lines where they are relative to the surrounding logic, and make sure `cargo build --offline -p tracing-tunnel --features sender,receiver,verif-hooks` still compiles after each refactoring (if you rename a private field that verif_hooks.rs reads, update verif_hooks.rs accordingly, preserving what it reports).

For each refactoring k write {wt}-out/k/patch.diff (`git diff` against the worktree HEAD, must apply with `git apply` to a clean checkout) and {wt}-out/k/meta.json = {{"summary": "<what was rewritten>", "why_equivalent": "<argument that behaviour is identical, incl. corner cases>", "files_touched": [...]}}. Procedure per refactoring: edit; run the suite (must be 40 passed); build with the verif-hooks feature as above; save the diff; `git checkout -- .`. Leave the worktree clean at the end.

Final message: one line per refactoring.""")
