#!/bin/bash
# Measures which lines of /repo's non-test sources the correspondence runs execute (quick tier, seed 0):
# builds the harness with `-C instrument-coverage` on the nightly toolchain (llvm-tools) into a scratch
# target directory and prints llvm-cov's report and the uncovered lines.  Not a registered check; the
# numbers quoted in DESIGN.md 14.6c come from this script.
set -eu
ROOT=$(cd "$(dirname "$0")/.." && pwd)
OUT=${1:-/root/scratch/coverage}
B=$(dirname "$(rustup which --toolchain nightly rustc)")/../lib/rustlib/x86_64-unknown-linux-gnu/bin
rm -rf "$OUT/run" && mkdir -p "$OUT/run"
# (instrumented build scripts / proc macros write their profiles next to the crate they run in unless told otherwise)
(cd "$ROOT/harness" && LLVM_PROFILE_FILE="$OUT/build-%p.profraw" RUSTFLAGS="-C instrument-coverage" CARGO_TARGET_DIR="$OUT/target" CARGO_NET_OFFLINE=true cargo +nightly build --release --offline 2>&1 | tail -1)
for p in C01 C02 C03 C04 C05 C06 C07 C08 C09 C10 C11 C12 C13 C14 C15 C16 C17 C18 C19 C20; do
  LLVM_PROFILE_FILE="$OUT/run/$p-%p.profraw" "$OUT/target/release/tt-harness" gen $p --tier quick --seed 0 --out "$OUT/run/out-$p" --shards 1 --scale 1 > /dev/null 2>&1 || echo "$p: harness exit $?"
  rm -rf "$OUT/run/out-$p"
done
rm -f "$OUT"/build-*.profraw
"$B/llvm-profdata" merge -sparse "$OUT"/run/*.profraw -o "$OUT/all.profdata"
SRC=$(find /repo/tunnel/src /repo/capture/src -name '*.rs' | grep -v '/tests')
"$B/llvm-cov" report "$OUT/target/release/tt-harness" -instr-profile="$OUT/all.profdata" $SRC
echo "--- lines never executed ---"
"$B/llvm-cov" show "$OUT/target/release/tt-harness" -instr-profile="$OUT/all.profdata" $SRC --show-line-counts-or-regions 2>/dev/null \
  | awk '/^\/repo\// {f=$0} /^ +[0-9]+\| +0\|/ {print f " " $0}'
