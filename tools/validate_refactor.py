#!/usr/bin/env python3
"""False-alarm test: applies a behaviour-preserving refactoring (patch) to /repo, runs the given
checks (quick tier) and expects every one of them to exit 0 without a VIOLATION line; reverts /repo.

usage: tools/validate_refactor.py <tag> <n> <check ids...>       (patch: /tmp/ref-<tag>-out/<n>/patch.diff)
Result is recorded under /verif/seeded/harmless/<tag>-<n>/ (patch.diff, meta.json)."""
import json, os, shutil, subprocess, sys, time
tag, n = sys.argv[1], sys.argv[2]
checks = sys.argv[3:]
src = f"/tmp/ref-{tag}-out/{n}"
ENV = dict(os.environ, CARGO_NET_OFFLINE="true")


def sh(cmd, cwd=None, timeout=3600):
    p = subprocess.run(cmd, cwd=cwd, shell=True, stdout=subprocess.PIPE, stderr=subprocess.STDOUT, text=True, timeout=timeout, env=ENV)
    return p.returncode, p.stdout


patch = os.path.join(src, "patch.diff")
assert sh("git status --porcelain --untracked-files=no", "/repo")[1].strip() == "", "/repo not clean"
rc, out = sh(f"git apply {patch}", "/repo")
assert rc == 0, out
results = {}
try:
    for c in checks:
        t0 = time.time()
        rc, out = sh(f"./check {c} --tier quick", "/verif")
        lines = [l for l in out.splitlines() if l.startswith(("VIOLATION", "KNOWN-FINDING", "INFRASTRUCTURE")) or l.startswith(c)]
        results[c] = {"exit": rc, "lines": lines, "wall_s": round(time.time() - t0, 1)}
        rp = [l.split("replay=")[1].split()[0] for l in lines if l.startswith("VIOLATION")]
        if rp and os.path.exists(os.path.join("/verif", rp[0])):
            r = json.load(open(os.path.join("/verif", rp[0])))
            results[c]["replay_reason"] = r.get("reason")
            results[c]["no_longer_checks"] = r.get("no_longer_checks")
        print(c, results[c]["exit"], lines[-1:] if lines else "", flush=True)
finally:
    sh("git checkout -- .", "/repo")
dst = f"/verif/seeded/harmless/{tag}-{n}"
shutil.rmtree(dst, ignore_errors=True)
os.makedirs(dst)
shutil.copy(patch, dst)
meta = json.load(open(os.path.join(src, "meta.json")))
meta.update({"kind": "behaviour-preserving refactoring (false-alarm test)", "check_results": results,
             "alarms": [c for c, r in results.items() if r["exit"] != 0]})
json.dump(meta, open(os.path.join(dst, "meta.json"), "w"), indent=1)
print(json.dumps(meta["alarms"]))
