#!/bin/bash
# usage: runall.sh <seed> <tier> [props...]
seed=$1; tier=$2; shift 2
props=${@:-C01 C02 C03 C04 C05 C06 C07 C08 C09 C10 C11 C12 C13 C14 C15 C16 C17 C18 C19 C20}
cd /verif
for p in $props; do
  s=$(date +%s)
  VERIF_SEED=$seed ./check $p --tier $tier > /tmp/tt-runall-out-$p-$seed-$tier.log 2>&1
  rc=$?
  e=$(date +%s)
  echo "$p seed=$seed tier=$tier rc=$rc $((e-s))s $(grep -c VIOLATION /tmp/tt-runall-out-$p-$seed-$tier.log) viol | $(tail -1 /tmp/tt-runall-out-$p-$seed-$tier.log)"
done
