#!/usr/bin/env python3
"""Confirms a seeded change (patch + demo) in its scratch worktree, then runs the registered check
against it in /repo and records everything under /verif/seeded/<id>/.

usage: tools/validate_seed.py <Cxx> <n> [<check ids to run, default = Cxx>]"""
import json, os, shutil, subprocess, sys, time
prop, n = sys.argv[1], sys.argv[2]
checks = sys.argv[3:] or [prop]
wt = f"/tmp/mut-{prop.lower()}"
src = f"{wt}-out/{n}"
sid = f"{prop}-{n}"
ENV = dict(os.environ, CARGO_NET_OFFLINE="true")

def sh(cmd, cwd=None, timeout=1800):
    p = subprocess.run(cmd, cwd=cwd, shell=True, stdout=subprocess.PIPE, stderr=subprocess.STDOUT, text=True, timeout=timeout, env=ENV)
    return p.returncode, p.stdout

log = {}
patch = os.path.join(src, "patch.diff")
assert sh("git status --porcelain --untracked-files=no", wt)[1].strip() == "", "worktree not clean"
rc, out = sh(f"git apply --check {patch}", wt); assert rc == 0, out
sh(f"git apply {patch}", wt)
rc, out = sh("cargo nextest run --workspace --no-fail-fast --offline 2>&1 | tail -5", wt)
log["suite_with_patch"] = out.strip().splitlines()[-3:]
suite_ok = "40 passed" in out and "failed" not in out.split("Summary")[-1]
demo = os.path.join(src, "demo")
sh(f"cp {wt}/Cargo.lock {demo}/Cargo.lock")
rc1, out1 = sh("cargo run --offline 2>&1 | tail -6", demo)
rcx, _ = sh("cargo run --offline >/dev/null 2>&1", demo)
log["demo_with_patch_exit"] = rcx
log["demo_with_patch_tail"] = out1.strip().splitlines()[-4:]
sh("git checkout -- .", wt)
rcy, out2 = sh("cargo run --offline >/dev/null 2>&1", demo)
log["demo_without_patch_exit"] = rcy
shutil.rmtree(os.path.join(demo, "target"), ignore_errors=True)
confirmed = suite_ok and rcx != 0 and rcy == 0
log["confirmed"] = confirmed
print(sid, "confirmed" if confirmed else "NOT CONFIRMED", log)
if not confirmed:
    sys.exit(1)

# run the registered checks against the change in /repo
assert sh("git status --porcelain --untracked-files=no", "/repo")[1].strip() == "", "/repo not clean"
rc, out = sh(f"git apply {patch}", "/repo"); assert rc == 0, out
results = {}
try:
    for c in checks:
        t0 = time.time()
        rc, out = sh(f"./check {c} --tier quick", "/verif", timeout=3600)
        lines = [l for l in out.splitlines() if l.startswith(("VIOLATION", "KNOWN-FINDING", "INFRASTRUCTURE")) or l.startswith(c)]
        results[c] = {"exit": rc, "lines": lines, "wall_s": round(time.time() - t0, 1)}
        rp = [l.split("replay=")[1].split()[0] for l in lines if l.startswith("VIOLATION")]
        if rp and os.path.exists(os.path.join("/verif", rp[0])):
            results[c]["replay_reason"] = json.load(open(os.path.join("/verif", rp[0]))).get("reason")
finally:
    sh("git checkout -- .", "/repo")
print(json.dumps(results, indent=1))
dst = f"/verif/seeded/{sid}"
shutil.rmtree(dst, ignore_errors=True)
os.makedirs(dst)
shutil.copy(patch, dst)
shutil.copytree(demo, os.path.join(dst, "demo"), ignore=shutil.ignore_patterns("target"))
meta = json.load(open(os.path.join(src, "meta.json")))
meta.update({"breaks_property": prop, "confirmation": log,
             "what_was_run": f"in {wt}: git apply patch.diff; cargo nextest run --workspace --no-fail-fast --offline; demo `cargo run --offline` with and without the patch; then in /repo: git apply, ./check <id> --tier quick, git checkout -- .",
             "check_results": results,
             "detected_by": [c for c, r in results.items() if r["exit"] == 1]})
json.dump(meta, open(os.path.join(dst, "meta.json"), "w"), indent=1)
