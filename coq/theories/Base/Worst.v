(** Two runs of the implementation that must behave alike (owned / borrowed keys, a fresh receiver / one
    restored from stale metadata, an explicit root / an explicit parent that no longer exists, a quiet /
    a hostile rendering of the same values) are both judged, against the same model input; the case
    gets the worse verdict.  Neither run can mask a failure of the other. *)
From TT Require Export Base.Prelude.

Definition vrank (v : verdict) : N :=
  match v with
  | PropFail => 4
  | Mismatch => 3
  | KnownF _ => 2
  | Agree => 1
  | OutOfScope => 0
  end.

Definition vworst (a b : verdict) : verdict := if vrank a <? vrank b then b else a.

Lemma vworst_agree a b : vworst a b = Agree -> (a = Agree \/ a = OutOfScope) /\ (b = Agree \/ b = OutOfScope).
Proof. destruct a, b; cbv; intros H; try discriminate; auto. Qed.

Lemma vworst_propfail a b : a = PropFail \/ b = PropFail -> vworst a b = PropFail.
Proof. intros [-> | ->]; destruct a || destruct b; reflexivity. Qed.
