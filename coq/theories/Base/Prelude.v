(** Shared prelude: verdicts of the correspondence judge, small list helpers. *)
From Coq Require Export List ZArith NArith Bool String Lia.
Export ListNotations.
Open Scope N_scope.

(** Result of judging one correspondence case.
    [Agree]      : the implementation's output equals the model's and satisfies the property's
                   executable statement;
    [Mismatch]   : the implementation's output differs from the model's (correspondence broken) but
                   the property's executable statement still holds on it;
    [PropFail]   : the implementation's own output violates the property's executable statement;
    [OutOfScope] : the case does not meet the theorem's hypotheses (counted, never judged);
    [KnownF n]   : [PropFail] inside the n-th listed known class of this property. *)
Inductive verdict := Agree | Mismatch | PropFail | OutOfScope | KnownF (n : N).

Definition judge_of (hyp corr ok : bool) : verdict :=
  if negb hyp then OutOfScope else if negb ok then PropFail else if negb corr then Mismatch else Agree.

(** bytes -> string, used by the harness for strings that are not printable ASCII *)
Definition bs (l : list N) : string :=
  fold_right (fun n s => String (Ascii.ascii_of_N n) s) EmptyString l.

Definition option_eqb {A} (eqb : A -> A -> bool) (x y : option A) : bool :=
  match x, y with
  | Some a, Some b => eqb a b
  | None, None => true
  | _, _ => false
  end.

Fixpoint list_eqb {A} (eqb : A -> A -> bool) (x y : list A) : bool :=
  match x, y with
  | [], [] => true
  | a :: x', b :: y' => eqb a b && list_eqb eqb x' y'
  | _, _ => false
  end.

Definition pair_eqb {A B} (ea : A -> A -> bool) (eb : B -> B -> bool) (x y : A * B) : bool :=
  ea (fst x) (fst y) && eb (snd x) (snd y).

Lemma option_eqb_spec {A} (eqb : A -> A -> bool) :
  (forall a b, eqb a b = true <-> a = b) -> forall x y, option_eqb eqb x y = true <-> x = y.
Proof.
  intros H [a|] [b|]; simpl; try rewrite H; split; intros E; try congruence; try discriminate.
Qed.

Lemma list_eqb_spec {A} (eqb : A -> A -> bool) :
  (forall a b, eqb a b = true <-> a = b) -> forall x y, list_eqb eqb x y = true <-> x = y.
Proof.
  intros H x; induction x as [|a x IH]; intros [|b y]; simpl; split; intros E;
    try congruence; try discriminate.
  - apply andb_true_iff in E as [E1 E2]. apply H in E1. apply IH in E2. congruence.
  - injection E as -> ->. apply andb_true_iff; split; [apply H | apply IH]; reflexivity.
Qed.

Lemma pair_eqb_spec {A B} (ea : A -> A -> bool) (eb : B -> B -> bool) :
  (forall a b, ea a b = true <-> a = b) -> (forall a b, eb a b = true <-> a = b) ->
  forall x y, pair_eqb ea eb x y = true <-> x = y.
Proof.
  intros HA HB [a b] [c d]; unfold pair_eqb; simpl. rewrite andb_true_iff, HA, HB.
  split; [intros [-> ->]; reflexivity | intros E; injection E as -> ->; auto].
Qed.
