(** Proofs about the storage model ([Storage.v]) and its query API ([Queries.v]):
    [storage_wf] is an invariant of every valid mutation sequence, mutations and queries never
    panic (and the fuelled loops never run out of fuel) on reachable storages, and the queries
    are a consistent view of one forest. *)
From TT Require Import Capture.Queries.
From Coq Require Import Sorting.Sorted Sorting.Permutation.

(** * Lists *)
Lemma modify_spec {A} (f : A -> A) (l : list A) : forall i,
  match modify i f l with
  | Some l' =>
      (i < List.length l)%nat /\ List.length l' = List.length l /\
      forall j, nth_error l' j = if Nat.eqb j i then option_map f (nth_error l j) else nth_error l j
  | None => (List.length l <= i)%nat
  end.
Proof.
  induction l as [|x l IH]; intros i.
  - destruct i; simpl; lia.
  - destruct i as [|i].
    + simpl. split; [lia|]. split; [reflexivity|].
      intros [|j]; reflexivity.
    + specialize (IH i). simpl. destruct (modify i f l) as [l'|].
      * destruct IH as (H1 & H2 & H3). simpl. split; [lia|]. split; [lia|].
        intros [|j]; simpl; [reflexivity|]. apply H3.
      * simpl. lia.
Qed.

Lemma nth_error_snoc {A} (l : list A) (x : A) (j : nat) :
  nth_error (l ++ [x]) j =
  if Nat.ltb j (List.length l) then nth_error l j
  else if Nat.eqb j (List.length l) then Some x else None.
Proof.
  destruct (Nat.ltb_spec j (List.length l)) as [H|H].
  - apply nth_error_app1. exact H.
  - rewrite nth_error_app2 by exact H.
    destruct (Nat.eqb_spec j (List.length l)) as [->|Hne].
    + rewrite Nat.sub_diag. reflexivity.
    + destruct (j - List.length l)%nat as [|k] eqn:E; [lia|]. cbn. destruct k; reflexivity.
Qed.

Lemma sorted_snoc (l : list N) (x : N) :
  StronglySorted N.lt l -> (forall y, In y l -> y < x) -> StronglySorted N.lt (l ++ [x]).
Proof.
  induction 1 as [|a l Hs IH Ha]; intros Hx; cbn.
  - constructor; constructor.
  - constructor.
    + apply IH. intros y Hy. apply Hx. right. exact Hy.
    + apply Forall_app. split; [exact Ha|]. constructor; [|constructor]. apply Hx. left. reflexivity.
Qed.

Lemma last_cons_indep {A} (l : list A) (x d d' : A) : last (x :: l) d = last (x :: l) d'.
Proof.
  revert x. induction l as [|y l IH]; intros x; [reflexivity|].
  change (last (y :: l) d = last (y :: l) d'). apply IH.
Qed.

Lemma nodup_app {A} (l1 l2 : list A) :
  NoDup l1 -> NoDup l2 -> (forall x, In x l1 -> In x l2 -> False) -> NoDup (l1 ++ l2).
Proof.
  induction 1 as [|a l1 Ha Hn IH]; intros H2 Hd; cbn; [exact H2|].
  constructor.
  - rewrite in_app_iff. intros [H|H]; [contradiction|]. apply (Hd a); [left; reflexivity|exact H].
  - apply IH; [exact H2|]. intros x Hx. apply Hd. right. exact Hx.
Qed.

Lemma nodup_bound (l : list N) (n : nat) :
  NoDup l -> (forall x, In x l -> x < N.of_nat n) -> (List.length l <= n)%nat.
Proof.
  intros Hn Hb. rewrite <- (map_length N.to_nat l), <- (seq_length n 0).
  apply NoDup_incl_length.
  - apply FinFun.Injective_map_NoDup; [|exact Hn]. intros x y. apply N2Nat.inj.
  - intros k Hk. apply in_map_iff in Hk as (x & <- & Hx). apply in_seq. specialize (Hb x Hx). lia.
Qed.

(** [before a b l]: [a] occurs in [l] at an earlier position than some occurrence of [b] *)
Definition before (a b : N) (l : list N) : Prop := exists l1 l2 l3, l = l1 ++ a :: l2 ++ b :: l3.

Lemma before_cons x a b l : before a b l -> before a b (x :: l).
Proof. intros (l1 & l2 & l3 & ->). exists (x :: l1), l2, l3. reflexivity. Qed.
Lemma before_head a b l : In b l -> before a b (a :: l).
Proof. intros H. apply in_split in H as (l2 & l3 & ->). exists [], l2, l3. reflexivity. Qed.
Lemma before_app_l a b l l' : before a b l -> before a b (l ++ l').
Proof.
  intros (l1 & l2 & l3 & ->). exists l1, l2, (l3 ++ l').
  rewrite <- !app_assoc. cbn. rewrite <- !app_assoc. reflexivity.
Qed.
Lemma before_app_r a b l l' : before a b l' -> before a b (l ++ l').
Proof. intros (l1 & l2 & l3 & ->). exists (l ++ l1), l2, l3. rewrite <- app_assoc. reflexivity. Qed.

Lemma sorted_nodup (l : list N) : StronglySorted N.lt l -> NoDup l.
Proof.
  induction 1 as [|a l Hs IH Ha]; constructor; [|exact IH].
  intros Hin. rewrite Forall_forall in Ha. specialize (Ha a Hin). lia.
Qed.

Section Proofs.
Context {SP EP : Type}.
Implicit Type st : storage SP EP.

(** * Arena lookups *)
Lemma get_span_lt st i r : get_span st i = Some r -> i < nspans st.
Proof.
  unfold get_span, nspans. intros H.
  assert (Hlt : (N.to_nat i < List.length (st_spans st))%nat) by (apply nth_error_Some; congruence).
  lia.
Qed.
Lemma get_span_ex st i : i < nspans st -> exists r, get_span st i = Some r.
Proof.
  unfold get_span, nspans. intros H.
  destruct (nth_error (st_spans st) (N.to_nat i)) as [r|] eqn:E; [eauto|].
  apply nth_error_None in E. lia.
Qed.
Lemma get_event_lt st i r : get_event st i = Some r -> i < nevents st.
Proof.
  unfold get_event, nevents. intros H.
  assert (Hlt : (N.to_nat i < List.length (st_events st))%nat) by (apply nth_error_Some; congruence).
  lia.
Qed.
Lemma get_event_ex st i : i < nevents st -> exists r, get_event st i = Some r.
Proof.
  unfold get_event, nevents. intros H.
  destruct (nth_error (st_events st) (N.to_nat i)) as [r|] eqn:E; [eauto|].
  apply nth_error_None in E. lia.
Qed.

(** lookups after appending one entry / after modifying one entry, with [N] indices *)
Lemma nth_error_snoc_N {A} (l : list A) (x : A) (i : N) :
  nth_error (l ++ [x]) (N.to_nat i) =
  if i =? N.of_nat (List.length l) then Some x else nth_error l (N.to_nat i).
Proof.
  rewrite nth_error_snoc.
  destruct (N.eqb_spec i (N.of_nat (List.length l))) as [->|Hne].
  - rewrite Nat2N.id, Nat.ltb_irrefl, Nat.eqb_refl. reflexivity.
  - destruct (Nat.ltb_spec (N.to_nat i) (List.length l)) as [H|H]; [reflexivity|].
    destruct (Nat.eqb_spec (N.to_nat i) (List.length l)) as [E|E]; [lia|].
    symmetry. apply nth_error_None. exact H.
Qed.

Lemma modify_N {A} (f : A -> A) (l : list A) (p : N) :
  match modify (N.to_nat p) f l with
  | Some l' =>
      p < N.of_nat (List.length l) /\ List.length l' = List.length l /\
      forall i : N, nth_error l' (N.to_nat i) =
                    if i =? p then option_map f (nth_error l (N.to_nat i)) else nth_error l (N.to_nat i)
  | None => N.of_nat (List.length l) <= p
  end.
Proof.
  pose proof (modify_spec f l (N.to_nat p)) as H.
  destruct (modify (N.to_nat p) f l) as [l'|]; [|lia].
  destruct H as (H1 & H2 & H3). split; [lia|]. split; [exact H2|].
  intros i. rewrite H3.
  destruct (N.eqb_spec i p) as [->|Hne]; [rewrite Nat.eqb_refl; reflexivity|].
  destruct (Nat.eqb_spec (N.to_nat i) (N.to_nat p)) as [E|E]; [|reflexivity].
  apply N2Nat.inj in E. contradiction.
Qed.

Lemma parent_of_is_span st c p : parent_of st c = Some p -> is_span st c.
Proof.
  unfold parent_of, is_span. destruct (get_span st c) as [r|] eqn:E; [|discriminate].
  intros _. eapply get_span_lt; eauto.
Qed.
Lemma ev_parent_of_is_event st e p : ev_parent_of st e = Some p -> is_event st e.
Proof.
  unfold ev_parent_of, is_event. destruct (get_event st e) as [r|] eqn:E; [|discriminate].
  intros _. eapply get_event_lt; eauto.
Qed.

Lemma opt_eqb_some (a : option N) (i : N) : option_eqb N.eqb a (Some i) = true <-> a = Some i.
Proof. apply option_eqb_spec. intros x y. apply N.eqb_eq. Qed.

(** * Effect of the mutations on lookups *)
Definition child_added (b : bool) (n : N) (r : span_rec SP) : span_rec SP := if b then add_child r n else r.
Definition event_added (b : bool) (n : N) (r : span_rec SP) : span_rec SP := if b then add_event r n else r.

Lemma push_span_effect st payload par :
  opt_id_ok st par = true ->
  exists st', push_span st payload par = Done (st', nspans st) /\
    st_events st' = st_events st /\
    st_root_event_ids st' = st_root_event_ids st /\
    st_root_span_ids st' = st_root_span_ids st ++ (match par with None => [nspans st] | Some _ => [] end) /\
    nspans st' = nspans st + 1 /\
    forall i, get_span st' i =
      if i =? nspans st then Some (mk_span payload (nspans st) par [] [] [])
      else option_map (child_added (option_eqb N.eqb par (Some i)) (nspans st)) (get_span st i).
Proof.
  intros Hok. unfold push_span. destruct par as [p|].
  - cbn in Hok. unfold id_ok in Hok. apply N.ltb_lt in Hok.
    pose proof (modify_N (fun r => add_child r (nspans st))
                  (st_spans st ++ [mk_span payload (nspans st) (Some p) [] [] []]) p) as HM.
    destruct (modify (N.to_nat p) _ _) as [l'|].
    2:{ rewrite app_length in HM. cbn in HM. unfold nspans in Hok. lia. }
    destruct HM as (_ & Hlen & Hnth).
    eexists. split; [reflexivity|]. cbn [st_events st_root_event_ids st_root_span_ids].
    split; [reflexivity|]. split; [reflexivity|]. split; [rewrite app_nil_r; reflexivity|].
    split.
    { unfold nspans at 1. cbn [st_spans]. rewrite Hlen, app_length. cbn. unfold nspans. lia. }
    intros i. unfold get_span at 1. cbn [st_spans]. rewrite Hnth, nth_error_snoc_N.
    fold (nspans st). fold (get_span st i).
    destruct (N.eqb_spec i (nspans st)) as [->|Hn].
    + destruct (N.eqb_spec (nspans st) p) as [E|_]; [lia|]. reflexivity.
    + cbn [option_eqb]. rewrite (N.eqb_sym p i). destruct (i =? p); cbn; destruct (get_span st i); reflexivity.
  - eexists. split; [reflexivity|]. cbn [st_events st_root_event_ids st_root_span_ids].
    split; [reflexivity|]. split; [reflexivity|]. split; [reflexivity|].
    split.
    { unfold nspans at 1. cbn [st_spans]. rewrite app_length. cbn. unfold nspans. lia. }
    intros i. unfold get_span at 1. cbn [st_spans]. rewrite nth_error_snoc_N.
    fold (nspans st). fold (get_span st i). cbn [option_eqb child_added].
    destruct (i =? nspans st); [reflexivity|]. destruct (get_span st i); reflexivity.
Qed.

Lemma push_event_effect st payload par :
  opt_id_ok st par = true ->
  exists st', push_event st payload par = Done (st', nevents st) /\
    st_events st' = st_events st ++ [mk_event payload (nevents st) par] /\
    st_root_span_ids st' = st_root_span_ids st /\
    st_root_event_ids st' = st_root_event_ids st ++ (match par with None => [nevents st] | Some _ => [] end) /\
    nspans st' = nspans st /\
    forall i, get_span st' i =
      option_map (event_added (option_eqb N.eqb par (Some i)) (nevents st)) (get_span st i).
Proof.
  intros Hok. unfold push_event. destruct par as [p|].
  - cbn in Hok. unfold id_ok in Hok. apply N.ltb_lt in Hok.
    pose proof (modify_N (fun r => add_event r (nevents st)) (st_spans st) p) as HM.
    destruct (modify (N.to_nat p) _ _) as [l'|].
    2:{ unfold nspans in Hok. lia. }
    destruct HM as (_ & Hlen & Hnth).
    eexists. split; [reflexivity|]. cbn [st_events st_root_event_ids st_root_span_ids].
    split; [reflexivity|]. split; [reflexivity|]. split; [rewrite app_nil_r; reflexivity|].
    split.
    { unfold nspans. cbn [st_spans]. rewrite Hlen. reflexivity. }
    intros i. unfold get_span at 1. cbn [st_spans]. rewrite Hnth. fold (get_span st i).
    cbn [option_eqb]. rewrite (N.eqb_sym p i). destruct (i =? p); cbn; destruct (get_span st i); reflexivity.
  - eexists. split; [reflexivity|]. cbn [st_events st_root_event_ids st_root_span_ids].
    split; [reflexivity|]. split; [reflexivity|]. split; [reflexivity|].
    split; [reflexivity|].
    intros i. unfold get_span at 1. cbn [st_spans]. fold (get_span st i). cbn [option_eqb event_added].
    destruct (get_span st i); reflexivity.
Qed.

Lemma on_follows_from_effect st id t :
  id_ok st id = true ->
  exists st', on_follows_from st id t = Done st' /\
    st_events st' = st_events st /\
    st_root_span_ids st' = st_root_span_ids st /\
    st_root_event_ids st' = st_root_event_ids st /\
    nspans st' = nspans st /\
    forall i, get_span st' i =
      option_map (fun r => if i =? id then add_follows r t else r) (get_span st i).
Proof.
  intros Hok. unfold id_ok in Hok. apply N.ltb_lt in Hok. unfold on_follows_from.
  pose proof (modify_N (fun r => add_follows r t) (st_spans st) id) as HM.
  destruct (modify (N.to_nat id) _ _) as [l'|].
  2:{ unfold nspans in Hok. lia. }
  destruct HM as (_ & Hlen & Hnth).
  eexists. split; [reflexivity|]. cbn [st_events st_root_event_ids st_root_span_ids].
  split; [reflexivity|]. split; [reflexivity|]. split; [reflexivity|].
  split.
  { unfold nspans. cbn [st_spans]. rewrite Hlen. reflexivity. }
  intros i. unfold get_span at 1. cbn [st_spans]. rewrite Hnth. fold (get_span st i).
  destruct (i =? id); destruct (get_span st i); reflexivity.
Qed.

Lemma on_span_update_effect st id f :
  id_ok st id = true ->
  exists st', on_span_update st id f = Done st' /\
    st_events st' = st_events st /\
    st_root_span_ids st' = st_root_span_ids st /\
    st_root_event_ids st' = st_root_event_ids st /\
    nspans st' = nspans st /\
    forall i, get_span st' i =
      option_map (fun r => if i =? id then set_payload f r else r) (get_span st i).
Proof.
  intros Hok. unfold id_ok in Hok. apply N.ltb_lt in Hok. unfold on_span_update.
  pose proof (modify_N (set_payload f) (st_spans st) id) as HM.
  destruct (modify (N.to_nat id) _ _) as [l'|].
  2:{ unfold nspans in Hok. lia. }
  destruct HM as (_ & Hlen & Hnth).
  eexists. split; [reflexivity|]. cbn [st_events st_root_event_ids st_root_span_ids].
  split; [reflexivity|]. split; [reflexivity|]. split; [reflexivity|].
  split.
  { unfold nspans. cbn [st_spans]. rewrite Hlen. reflexivity. }
  intros i. unfold get_span at 1. cbn [st_spans]. rewrite Hnth. fold (get_span st i).
  destruct (i =? id); destruct (get_span st i); reflexivity.
Qed.

(** * [storage_wf] is preserved by every valid mutation *)
Lemma empty_wf : storage_wf (@empty_storage SP EP).
Proof.
  assert (Hs : forall i, get_span (@empty_storage SP EP) i = None)
    by (intros i; unfold get_span; cbn; destruct (N.to_nat i); reflexivity).
  assert (He : forall i, get_event (@empty_storage SP EP) i = None)
    by (intros i; unfold get_event; cbn; destruct (N.to_nat i); reflexivity).
  constructor; unfold parent_of, ev_parent_of, is_span, is_event, nspans, nevents; cbn [empty_storage st_spans st_events st_root_span_ids st_root_event_ids List.length];
    try (intros; rewrite ?Hs, ?He in *; discriminate); try solve [constructor].
  - intros s. split; [intros []|]. intros [H _]. lia.
  - intros e. split; [intros []|]. intros [H _]. lia.
Qed.

(** modifications that keep id, parent, children and events of every span and add only existing
    follows-from targets *)
Lemma wf_same_skeleton st st' (g : N -> span_rec SP -> span_rec SP) :
  storage_wf st ->
  st_events st' = st_events st ->
  st_root_span_ids st' = st_root_span_ids st ->
  st_root_event_ids st' = st_root_event_ids st ->
  nspans st' = nspans st ->
  (forall i, get_span st' i = option_map (g i) (get_span st i)) ->
  (forall i r, sp_id (g i r) = sp_id r /\ sp_parent_id (g i r) = sp_parent_id r /\
               sp_child_ids (g i r) = sp_child_ids r /\ sp_event_ids (g i r) = sp_event_ids r /\
               forall t, In t (sp_follows_from_ids (g i r)) -> In t (sp_follows_from_ids r) \/ is_span st t) ->
  storage_wf st'.
Proof.
  intros W Hev Hrs Hre Hn Hget Hg.
  assert (Hpar : forall i, parent_of st' i = parent_of st i).
  { intros i. unfold parent_of. rewrite Hget. destruct (get_span st i) as [r|]; cbn; [|reflexivity].
    apply Hg. }
  assert (Hge : forall e, get_event st' e = get_event st e) by (intros e; unfold get_event; rewrite Hev; reflexivity).
  assert (Hep : forall e, ev_parent_of st' e = ev_parent_of st e) by (intros e; unfold ev_parent_of; rewrite Hge; reflexivity).
  assert (Hne : nevents st' = nevents st) by (unfold nevents; rewrite Hev; reflexivity).
  assert (Hinv : forall i r', get_span st' i = Some r' -> exists r, get_span st i = Some r /\ r' = g i r).
  { intros i r'. rewrite Hget. destruct (get_span st i) as [r|]; cbn; [|discriminate].
    intros E. injection E as <-. eauto. }
  constructor; unfold is_span, is_event; rewrite ?Hrs, ?Hre, ?Hn, ?Hne.
  - intros s r' E. destruct (Hinv _ _ E) as (r & E0 & ->). destruct (Hg s r) as (-> & _). eapply wf_span_id; eauto.
  - intros e r. rewrite Hge. apply (wf_event_id st W).
  - intros c p. rewrite Hpar. apply (wf_parent_lt st W).
  - intros p r' c E. destruct (Hinv _ _ E) as (r & E0 & ->). destruct (Hg p r) as (_ & _ & -> & _).
    rewrite Hpar. eapply wf_children; eauto.
  - intros p r' E. destruct (Hinv _ _ E) as (r & E0 & ->). destruct (Hg p r) as (_ & _ & -> & _).
    eapply wf_children_sorted; eauto.
  - intros s. rewrite Hpar. apply (wf_roots st W).
  - apply (wf_roots_sorted st W).
  - intros e p. rewrite Hep. apply (wf_event_parent st W).
  - intros p r' e E. destruct (Hinv _ _ E) as (r & E0 & ->). destruct (Hg p r) as (_ & _ & _ & -> & _).
    rewrite Hep. eapply wf_events; eauto.
  - intros p r' E. destruct (Hinv _ _ E) as (r & E0 & ->). destruct (Hg p r) as (_ & _ & _ & -> & _).
    eapply wf_events_sorted; eauto.
  - intros e. rewrite Hep. apply (wf_root_events st W).
  - apply (wf_root_events_sorted st W).
  - intros s r' t E Hin. destruct (Hinv _ _ E) as (r & E0 & ->). destruct (Hg s r) as (_ & _ & _ & _ & Hf).
    destruct (Hf t Hin) as [H|H]; [|exact H]. eapply (wf_follows st W); eauto.
Qed.

Lemma on_follows_from_wf st id t st' :
  storage_wf st -> id_ok st id = true -> id_ok st t = true ->
  on_follows_from st id t = Done st' -> storage_wf st'.
Proof.
  intros W H1 H2 E. destruct (on_follows_from_effect st id t H1) as (st0 & E0 & Hev & Hrs & Hre & Hn & Hget).
  rewrite E0 in E. injection E as <-.
  eapply wf_same_skeleton with (g := fun i r => if i =? id then add_follows r t else r); eauto.
  intros i r. destruct (i =? id); cbn; repeat split; auto.
  intros x Hin. apply in_app_iff in Hin. destruct Hin as [Hin|[<-|[]]]; [left; exact Hin|right].
  unfold id_ok in H2. apply N.ltb_lt in H2. exact H2.
Qed.

Lemma on_span_update_wf st id f st' :
  storage_wf st -> id_ok st id = true -> on_span_update st id f = Done st' -> storage_wf st'.
Proof.
  intros W H1 E. destruct (on_span_update_effect st id f H1) as (st0 & E0 & Hev & Hrs & Hre & Hn & Hget).
  rewrite E0 in E. injection E as <-.
  eapply wf_same_skeleton with (g := fun i r => if i =? id then set_payload f r else r); eauto.
  intros i r. destruct (i =? id); cbn; repeat split; auto.
Qed.

Lemma push_span_wf st payload par st' id :
  storage_wf st -> opt_id_ok st par = true ->
  push_span st payload par = Done (st', id) -> storage_wf st'.
Proof.
  intros W Hok E.
  destruct (push_span_effect st payload par Hok) as (st0 & E0 & Hev & Hre & Hrs & Hn & Hget).
  rewrite E0 in E. injection E as <- <-.
  set (n := nspans st) in *.
  assert (Hparn : forall p, par = Some p -> p < n).
  { intros p ->. cbn in Hok. unfold id_ok in Hok. apply N.ltb_lt in Hok. exact Hok. }
  assert (Hpar : forall i, parent_of st0 i = if i =? n then par else parent_of st i).
  { intros i. unfold parent_of. rewrite Hget. destruct (i =? n); [reflexivity|].
    destruct (get_span st i) as [r|]; cbn; [|reflexivity]. unfold child_added.
    destruct (option_eqb N.eqb par (Some i)); reflexivity. }
  assert (Hge : forall e, get_event st0 e = get_event st e) by (intros e; unfold get_event; rewrite Hev; reflexivity).
  assert (Hep : forall e, ev_parent_of st0 e = ev_parent_of st e) by (intros e; unfold ev_parent_of; rewrite Hge; reflexivity).
  assert (Hne : nevents st0 = nevents st) by (unfold nevents; rewrite Hev; reflexivity).
  assert (Hold : forall i r, get_span st i = Some r -> i <> n).
  { intros i r E1 ->. apply get_span_lt in E1. subst n. lia. }
  assert (Hinv : forall i r', get_span st0 i = Some r' ->
            (i = n /\ r' = mk_span payload n par [] [] []) \/
            (i <> n /\ exists r, get_span st i = Some r /\
                                 r' = child_added (option_eqb N.eqb par (Some i)) n r)).
  { intros i r'. rewrite Hget. destruct (N.eqb_spec i n) as [->|Hne'].
    - intros E1. injection E1 as <-. left. auto.
    - destruct (get_span st i) as [r|]; cbn; [|discriminate]. intros E1. injection E1 as <-. right. eauto. }
  assert (Hnopar : forall c, parent_of st c <> Some n).
  { intros c Hc. pose proof (wf_parent_lt st W _ _ Hc) as H1. apply parent_of_is_span in Hc.
    unfold is_span in Hc. subst n. lia. }
  constructor; unfold is_span, is_event; rewrite ?Hre, ?Hrs, ?Hn, ?Hne.
  - intros s r' E1. destruct (Hinv _ _ E1) as [[-> ->]|(Hs & r & E2 & ->)]; [reflexivity|].
    unfold child_added. destruct (option_eqb N.eqb par (Some s)); cbn; eapply wf_span_id; eauto.
  - intros e r. rewrite Hge. apply (wf_event_id st W).
  - intros c p. rewrite Hpar. destruct (N.eqb_spec c n) as [->|Hc].
    + apply Hparn.
    + apply (wf_parent_lt st W).
  - intros p r' c E1. rewrite Hpar. destruct (Hinv _ _ E1) as [[-> ->]|(Hs & r & E2 & ->)].
    + cbn [sp_child_ids]. split; [intros []|]. destruct (N.eqb_spec c n) as [->|Hc].
      * intros H. apply Hparn in H. lia.
      * intros H. exfalso. eapply Hnopar; eauto.
    + unfold child_added. destruct (option_eqb N.eqb par (Some p)) eqn:Eb.
      * apply opt_eqb_some in Eb. cbn [add_child sp_child_ids]. rewrite in_app_iff.
        rewrite (wf_children st W p r c E2). cbn [In]. destruct (N.eqb_spec c n) as [->|Hc].
        -- split; [intros _; exact Eb|]. intros _. right. left. reflexivity.
        -- split; [intros [H|[H|[]]]; [exact H|congruence]|]. intros H. left. exact H.
      * assert (Hne' : par <> Some p) by (intros H; apply opt_eqb_some in H; congruence).
        rewrite (wf_children st W p r c E2). destruct (N.eqb_spec c n) as [->|Hc]; [|tauto].
        split; [intros H; apply parent_of_is_span in H; unfold is_span in H; fold n in H; lia|intros H; contradiction].
  - intros p r' E1. destruct (Hinv _ _ E1) as [[-> ->]|(Hs & r & E2 & ->)]; [constructor|].
    unfold child_added. destruct (option_eqb N.eqb par (Some p)); [|eapply wf_children_sorted; eauto].
    cbn [add_child sp_child_ids]. apply sorted_snoc; [eapply wf_children_sorted; eauto|].
    intros y Hy. apply (wf_children st W p r y E2) in Hy. apply parent_of_is_span in Hy. exact Hy.
  - intros s. rewrite Hpar, in_app_iff, (wf_roots st W s). unfold is_span. fold n.
    destruct (N.eqb_spec s n) as [->|Hs].
    + destruct par as [p|]; cbn [In]; intuition (try discriminate; try lia).
    + destruct par as [p|]; cbn [In]; intuition (try congruence; try lia).
  - destruct par as [p|]; [rewrite app_nil_r; apply (wf_roots_sorted st W)|].
    apply sorted_snoc; [apply (wf_roots_sorted st W)|]. intros y Hy. apply (wf_roots st W) in Hy. apply Hy.
  - intros e p. rewrite Hep. intros H. apply (wf_event_parent st W) in H. unfold is_span in H. lia.
  - intros p r' e E1. rewrite Hep. destruct (Hinv _ _ E1) as [[-> ->]|(Hs & r & E2 & ->)].
    + cbn [sp_event_ids]. split; [intros []|]. intros H. apply (wf_event_parent st W) in H.
      unfold is_span in H. fold n in H. lia.
    + unfold child_added. destruct (option_eqb N.eqb par (Some p)); cbn [add_child sp_event_ids];
        eapply wf_events; eauto.
  - intros p r' E1. destruct (Hinv _ _ E1) as [[-> ->]|(Hs & r & E2 & ->)]; [constructor|].
    unfold child_added. destruct (option_eqb N.eqb par (Some p)); cbn [add_child sp_event_ids];
      eapply wf_events_sorted; eauto.
  - intros e. rewrite Hep. apply (wf_root_events st W).
  - apply (wf_root_events_sorted st W).
  - intros s r' t E1 Hin. destruct (Hinv _ _ E1) as [[-> ->]|(Hs & r & E2 & ->)]; [destruct Hin|].
    assert (Hin' : In t (sp_follows_from_ids r)).
    { unfold child_added in Hin. destruct (option_eqb N.eqb par (Some s)); exact Hin. }
    pose proof (wf_follows st W s r t E2 Hin') as H. unfold is_span in H. lia.
Qed.

Lemma push_event_wf st payload par st' id :
  storage_wf st -> opt_id_ok st par = true ->
  push_event st payload par = Done (st', id) -> storage_wf st'.
Proof.
  intros W Hok E.
  destruct (push_event_effect st payload par Hok) as (st0 & E0 & Hev & Hrs & Hre & Hn & Hget).
  rewrite E0 in E. injection E as <- <-.
  set (m := nevents st) in *.
  assert (Hparn : forall p, par = Some p -> p < nspans st).
  { intros p ->. cbn in Hok. unfold id_ok in Hok. apply N.ltb_lt in Hok. exact Hok. }
  assert (Hpar : forall i, parent_of st0 i = parent_of st i).
  { intros i. unfold parent_of. rewrite Hget.
    destruct (get_span st i) as [r|]; cbn; [|reflexivity]. unfold event_added.
    destruct (option_eqb N.eqb par (Some i)); reflexivity. }
  assert (Hge : forall e, get_event st0 e =
                          if e =? m then Some (mk_event payload m par) else get_event st e).
  { intros e. unfold get_event. rewrite Hev, nth_error_snoc_N. reflexivity. }
  assert (Hep : forall e, ev_parent_of st0 e = if e =? m then par else ev_parent_of st e).
  { intros e. unfold ev_parent_of. rewrite Hge. destruct (e =? m); reflexivity. }
  assert (Hne : nevents st0 = m + 1).
  { unfold nevents. rewrite Hev, app_length. cbn. subst m. unfold nevents. lia. }
  assert (Hinv : forall i r', get_span st0 i = Some r' ->
            exists r, get_span st i = Some r /\ r' = event_added (option_eqb N.eqb par (Some i)) m r).
  { intros i r'. rewrite Hget. destruct (get_span st i) as [r|]; cbn; [|discriminate].
    intros E1. injection E1 as <-. eauto. }
  assert (Hnoev : forall p, ev_parent_of st m <> Some p).
  { intros p Hc. apply ev_parent_of_is_event in Hc. unfold is_event in Hc. fold m in Hc. lia. }
  constructor; unfold is_span, is_event; rewrite ?Hre, ?Hrs, ?Hn, ?Hne.
  - intros s r' E1. destruct (Hinv _ _ E1) as (r & E2 & ->).
    unfold event_added. destruct (option_eqb N.eqb par (Some s)); cbn; eapply wf_span_id; eauto.
  - intros e r. rewrite Hge. destruct (N.eqb_spec e m) as [->|He].
    + intros E1. injection E1 as <-. reflexivity.
    + apply (wf_event_id st W).
  - intros c p. rewrite Hpar. apply (wf_parent_lt st W).
  - intros p r' c E1. rewrite Hpar. destruct (Hinv _ _ E1) as (r & E2 & ->).
    unfold event_added. destruct (option_eqb N.eqb par (Some p)); cbn [add_event sp_child_ids];
      eapply wf_children; eauto.
  - intros p r' E1. destruct (Hinv _ _ E1) as (r & E2 & ->).
    unfold event_added. destruct (option_eqb N.eqb par (Some p)); cbn [add_event sp_child_ids];
      eapply wf_children_sorted; eauto.
  - intros s. rewrite Hpar. apply (wf_roots st W).
  - apply (wf_roots_sorted st W).
  - intros e p. rewrite Hep. destruct (N.eqb_spec e m) as [->|He].
    + apply Hparn.
    + apply (wf_event_parent st W).
  - intros p r' e E1. rewrite Hep. destruct (Hinv _ _ E1) as (r & E2 & ->).
    unfold event_added. destruct (option_eqb N.eqb par (Some p)) eqn:Eb.
    + apply opt_eqb_some in Eb. cbn [add_event sp_event_ids]. rewrite in_app_iff.
      rewrite (wf_events st W p r e E2). cbn [In]. destruct (N.eqb_spec e m) as [->|He].
      * split; [intros _; exact Eb|]. intros _. right. left. reflexivity.
      * split; [intros [H|[H|[]]]; [exact H|congruence]|]. intros H. left. exact H.
    + assert (Hne' : par <> Some p) by (intros H; apply opt_eqb_some in H; congruence).
      rewrite (wf_events st W p r e E2). destruct (N.eqb_spec e m) as [->|He]; [|tauto].
      split; [intros H; exfalso; eapply Hnoev; eauto|intros H; contradiction].
  - intros p r' E1. destruct (Hinv _ _ E1) as (r & E2 & ->).
    unfold event_added. destruct (option_eqb N.eqb par (Some p)); [|eapply wf_events_sorted; eauto].
    cbn [add_event sp_event_ids]. apply sorted_snoc; [eapply wf_events_sorted; eauto|].
    intros y Hy. apply (wf_events st W p r y E2) in Hy. apply ev_parent_of_is_event in Hy. exact Hy.
  - intros e. rewrite Hep, in_app_iff, (wf_root_events st W e). unfold is_event. fold m.
    destruct (N.eqb_spec e m) as [->|He].
    + destruct par as [p|]; cbn [In]; intuition (try discriminate; try lia).
    + destruct par as [p|]; cbn [In]; intuition (try congruence; try lia).
  - destruct par as [p|]; [rewrite app_nil_r; apply (wf_root_events_sorted st W)|].
    apply sorted_snoc; [apply (wf_root_events_sorted st W)|]. intros y Hy.
    apply (wf_root_events st W) in Hy. apply Hy.
  - intros s r' t E1 Hin. destruct (Hinv _ _ E1) as (r & E2 & ->).
    assert (Hin' : In t (sp_follows_from_ids r)).
    { unfold event_added in Hin. destruct (option_eqb N.eqb par (Some s)); exact Hin. }
    apply (wf_follows st W s r t E2 Hin').
Qed.

(** * Valid mutations never panic, and every reachable storage is well-formed *)
Lemma step_valid_done st o :
  op_valid st o = true -> exists st', step st o = Done st'.
Proof.
  destruct o as [payload par|payload par|id t|id f]; cbn [op_valid step]; intros Hok.
  - destruct (push_span_effect st payload par Hok) as (st' & -> & _). cbn. eauto.
  - destruct (push_event_effect st payload par Hok) as (st' & -> & _). cbn. eauto.
  - apply andb_true_iff in Hok as [H1 H2].
    destruct (on_follows_from_effect st id t H1) as (st' & -> & _). eauto.
  - destruct (on_span_update_effect st id f Hok) as (st' & -> & _). eauto.
Qed.

Lemma step_wf st o st' :
  storage_wf st -> op_valid st o = true -> step st o = Done st' -> storage_wf st'.
Proof.
  destruct o as [payload par|payload par|id t|id f]; cbn [op_valid step]; intros W Hok E.
  - destruct (push_span st payload par) as [[st1 i]| |] eqn:E1; cbn in E; try discriminate.
    injection E as <-. eapply push_span_wf; eauto.
  - destruct (push_event st payload par) as [[st1 i]| |] eqn:E1; cbn in E; try discriminate.
    injection E as <-. eapply push_event_wf; eauto.
  - apply andb_true_iff in Hok as [H1 H2]. exact (on_follows_from_wf st id t st' W H1 H2 E).
  - eapply on_span_update_wf; eauto.
Qed.

Lemma reachable_wf st : reachable st -> storage_wf st.
Proof.
  induction 1 as [|st o st' Hr IH Hok E]; [apply empty_wf|]. eapply step_wf; eauto.
Qed.

Lemma reachable_step_done st o :
  reachable st -> op_valid st o = true -> exists st', step st o = Done st' /\ reachable st'.
Proof.
  intros Hr Hok. destruct (step_valid_done st o Hok) as (st' & E). exists st'. split; [exact E|].
  eapply reach_step; eauto.
Qed.

Lemma valid_run_reachable ops : forall st,
  reachable st -> valid_ops st ops = true -> exists st', run st ops = Done st' /\ reachable st'.
Proof.
  induction ops as [|o ops IH]; intros st Hr Hv; cbn [run valid_ops] in *.
  - eauto.
  - apply andb_true_iff in Hv as [Hok Hv].
    destruct (reachable_step_done st o Hr Hok) as (st1 & E & Hr1). rewrite E in *. cbn [bind].
    apply IH; assumption.
Qed.

(** * Iterators over id lists *)
Lemma it_drain_S (resolve : N -> outcome unit) f front k it :
  it_drain resolve (S f) front k it =
  (do x <- (if front k then it_next resolve it else it_next_back resolve it);
   match x with
   | None => Done []
   | Some (i, it') => do l <- it_drain resolve f front (S k) it'; Done (i :: l)
   end).
Proof. reflexivity. Qed.

Lemma it_drain_front (resolve : N -> outcome unit) : forall it k,
  (forall i, In i it -> resolve i = Done tt) ->
  it_drain resolve (S (List.length it)) (fun _ => true) k it = Done it.
Proof.
  induction it as [|i it IH]; intros k Hres; cbn [List.length]; rewrite it_drain_S; cbn [it_next bind].
  - reflexivity.
  - rewrite (Hres i (or_introl eq_refl)). cbn [bind].
    rewrite IH by (intros j Hj; apply Hres; right; exact Hj). reflexivity.
Qed.

Lemma it_drain_back (resolve : N -> outcome unit) : forall it k,
  (forall i, In i it -> resolve i = Done tt) ->
  it_drain resolve (S (List.length it)) (fun _ => false) k it = Done (rev it).
Proof.
  induction it as [|i it IH] using rev_ind; intros k Hres.
  - reflexivity.
  - rewrite app_length. cbn [List.length]. rewrite Nat.add_1_r.
    rewrite it_drain_S. unfold it_next_back. rewrite rev_unit.
    rewrite (Hres i) by (apply in_app_iff; right; left; reflexivity). cbn [bind].
    rewrite rev_involutive.
    rewrite IH by (intros j Hj; apply Hres; apply in_app_iff; left; exact Hj). reflexivity.
Qed.

(** any interleaving of [next] and [next_back] yields every id exactly once *)
Lemma it_drain_mixed (resolve : N -> outcome unit) (front : nat -> bool) : forall n it k,
  List.length it = n ->
  (forall i, In i it -> resolve i = Done tt) ->
  exists l, it_drain resolve (S n) front k it = Done l /\ Permutation l it.
Proof.
  induction n as [|n IH]; intros it k Hlen Hres.
  - destruct it; [|discriminate]. exists []. split; [|constructor].
    rewrite it_drain_S. unfold it_next_back. cbn. destruct (front k); reflexivity.
  - rewrite it_drain_S. destruct (front k).
    + destruct it as [|i it]; [discriminate|]. cbn [it_next].
      rewrite (Hres i (or_introl eq_refl)). cbn [bind].
      destruct (IH it (S k)) as (l & E & HP); [cbn in Hlen; lia|intros j Hj; apply Hres; right; exact Hj|].
      rewrite E. cbn [bind]. exists (i :: l). split; [reflexivity|]. constructor. exact HP.
    + destruct (rev it) as [|i r] eqn:Er.
      { apply (f_equal (@List.length N)) in Er. rewrite rev_length in Er. cbn in Er. lia. }
      assert (Eit : it = rev r ++ [i]).
      { rewrite <- (rev_involutive it), Er. reflexivity. }
      unfold it_next_back. rewrite Er.
      rewrite (Hres i) by (rewrite Eit; apply in_app_iff; right; left; reflexivity). cbn [bind].
      destruct (IH (rev r) (S k)) as (l & E & HP).
      { rewrite Eit, app_length in Hlen. cbn in Hlen. lia. }
      { intros j Hj. apply Hres. rewrite Eit. apply in_app_iff. left. exact Hj. }
      rewrite E. cbn [bind]. exists (i :: l). split; [reflexivity|].
      rewrite Eit. apply Permutation_cons_app. rewrite app_nil_r. exact HP.
Qed.

Lemma it_next_len (resolve : N -> outcome unit) it i it' :
  it_next resolve it = Done (Some (i, it')) -> it_len it = it_len it' + 1.
Proof.
  destruct it as [|j r]; cbn [it_next]; [discriminate|].
  destruct (resolve j); cbn [bind]; try discriminate. intros E. injection E as <- <-.
  unfold it_len. cbn [List.length]. lia.
Qed.
Lemma it_next_back_len (resolve : N -> outcome unit) it i it' :
  it_next_back resolve it = Done (Some (i, it')) -> it_len it = it_len it' + 1.
Proof.
  unfold it_next_back. destruct (rev it) as [|j r] eqn:Er; [discriminate|].
  destruct (resolve j); cbn [bind]; try discriminate. intros E. injection E as <- <-.
  unfold it_len. rewrite rev_length. apply (f_equal (@List.length N)) in Er.
  rewrite rev_length in Er. cbn in Er. lia.
Qed.
Lemma it_next_none (resolve : N -> outcome unit) it :
  it_next resolve it = Done None <-> it_len it = 0.
Proof.
  destruct it as [|j r]; cbn [it_next]; unfold it_len; cbn [List.length].
  - split; reflexivity.
  - split; [|lia]. destruct (resolve j); cbn [bind]; discriminate.
Qed.
Lemma it_next_back_none (resolve : N -> outcome unit) it :
  it_next_back resolve it = Done None <-> it_len it = 0.
Proof.
  unfold it_next_back, it_len. destruct (rev it) as [|j r] eqn:Er.
  - apply (f_equal (@List.length N)) in Er. rewrite rev_length in Er. cbn in Er. rewrite Er. split; reflexivity.
  - apply (f_equal (@List.length N)) in Er. rewrite rev_length in Er. cbn in Er. split; [|lia].
    destruct (resolve j); cbn [bind]; discriminate.
Qed.

Lemma it_collect_done resolve it :
  (forall i, In i it -> resolve i = Done tt) -> it_collect resolve it = Done it.
Proof. apply it_drain_front. Qed.
Lemma it_collect_back_done resolve it :
  (forall i, In i it -> resolve i = Done tt) -> it_collect_back resolve it = Done (rev it).
Proof. apply it_drain_back. Qed.

(** collecting succeeds only if every id resolves, and then yields the ids themselves *)
Lemma it_collect_inv resolve : forall it l,
  it_collect resolve it = Done l -> l = it /\ forall i, In i it -> resolve i = Done tt.
Proof.
  unfold it_collect. intros it. generalize O. induction it as [|i it IH]; intros k l.
  - cbn. intros E. injection E as <-. split; [reflexivity|intros i []].
  - cbn [List.length]. rewrite it_drain_S. cbn [it_next]. destruct (resolve i) as [[]| |] eqn:Ei; cbn [bind]; try discriminate.
    destruct (it_drain resolve (S (List.length it)) (fun _ => true) (S k) it) as [l'| |] eqn:E'; cbn [bind]; try discriminate.
    intros E. injection E as <-. destruct (IH _ _ E') as (-> & Hres). split; [reflexivity|].
    intros j [<-|Hj]; [exact Ei|apply Hres; exact Hj].
Qed.

(** * Queries on a well-formed storage *)
Definition children_of st (s : N) : list N :=
  match get_span st s with Some r => sp_child_ids r | None => [] end.
Definition events_of st (s : N) : list N :=
  match get_span st s with Some r => sp_event_ids r | None => [] end.
Definition follows_of st (s : N) : list N :=
  match get_span st s with Some r => sp_follows_from_ids r | None => [] end.

Lemma span_at_done st s r : span_at st s = Done r <-> get_span st s = Some r.
Proof. unfold span_at. destruct (get_span st s); split; intros E; try discriminate; congruence. Qed.
Lemma event_at_done st e r : event_at st e = Done r <-> get_event st e = Some r.
Proof. unfold event_at. destruct (get_event st e); split; intros E; try discriminate; congruence. Qed.
Lemma resolve_span_done st s : resolve_span st s = Done tt <-> is_span st s.
Proof.
  unfold resolve_span, span_at, is_span. destruct (get_span st s) as [r|] eqn:E; cbn [bind].
  - split; [intros _; eapply get_span_lt; eauto|reflexivity].
  - split; [discriminate|]. intros H. destruct (get_span_ex st s H) as (r & E'). congruence.
Qed.
Lemma resolve_event_done st e : resolve_event st e = Done tt <-> is_event st e.
Proof.
  unfold resolve_event, event_at, is_event. destruct (get_event st e) as [r|] eqn:E; cbn [bind].
  - split; [intros _; eapply get_event_lt; eauto|reflexivity].
  - split; [discriminate|]. intros H. destruct (get_event_ex st e H) as (r & E'). congruence.
Qed.

Section Wf.
Variable st : storage SP EP.
Hypothesis W : storage_wf st.

Lemma parent_of_lt c p : parent_of st c = Some p -> p < c /\ is_span st p /\ is_span st c.
Proof.
  intros H. pose proof (wf_parent_lt st W c p H) as H1. pose proof (parent_of_is_span st c p H) as H2.
  unfold is_span in *. repeat split; lia.
Qed.

Lemma children_of_iff p c : is_span st p -> (In c (children_of st p) <-> parent_of st c = Some p).
Proof.
  intros Hp. destruct (get_span_ex st p Hp) as (r & E). unfold children_of. rewrite E.
  apply (wf_children st W p r c E).
Qed.
Lemma children_of_sorted p : StronglySorted N.lt (children_of st p).
Proof.
  unfold children_of. destruct (get_span st p) as [r|] eqn:E; [|constructor].
  apply (wf_children_sorted st W p r E).
Qed.
Lemma events_of_iff p e : is_span st p -> (In e (events_of st p) <-> ev_parent_of st e = Some p).
Proof.
  intros Hp. destruct (get_span_ex st p Hp) as (r & E). unfold events_of. rewrite E.
  apply (wf_events st W p r e E).
Qed.
Lemma events_of_sorted p : StronglySorted N.lt (events_of st p).
Proof.
  unfold events_of. destruct (get_span st p) as [r|] eqn:E; [|constructor].
  apply (wf_events_sorted st W p r E).
Qed.

(** the queries never panic on existing items and return the stored links *)
Lemma parent_done s : is_span st s -> parent st s = Done (parent_of st s).
Proof.
  intros Hs. destruct (get_span_ex st s Hs) as (r & E). unfold parent, parent_of, span_at. rewrite E.
  cbn [bind]. destruct (sp_parent_id r) as [p|] eqn:Ep; [|reflexivity].
  assert (Hp : parent_of st s = Some p) by (unfold parent_of; rewrite E; exact Ep).
  apply parent_of_lt in Hp as (_ & Hp & _). destruct (get_span_ex st p Hp) as (rp & ->). reflexivity.
Qed.
Lemma children_done s : is_span st s -> children st s = Done (children_of st s).
Proof.
  intros Hs. destruct (get_span_ex st s Hs) as (r & E). unfold children, children_it, children_of, span_at. rewrite E.
  cbn [bind]. apply it_collect_done. intros c Hc. apply resolve_span_done.
  apply (wf_children st W s r c E) in Hc. apply parent_of_lt in Hc. apply Hc.
Qed.
Lemma events_done s : is_span st s -> events st s = Done (events_of st s).
Proof.
  intros Hs. destruct (get_span_ex st s Hs) as (r & E). unfold events, events_it, events_of, span_at. rewrite E.
  cbn [bind]. apply it_collect_done. intros e He. apply resolve_event_done.
  apply (wf_events st W s r e E) in He. eapply ev_parent_of_is_event; eauto.
Qed.
Lemma follows_from_done s : is_span st s -> follows_from st s = Done (follows_of st s).
Proof.
  intros Hs. destruct (get_span_ex st s Hs) as (r & E). unfold follows_from, follows_from_it, follows_of, span_at. rewrite E.
  cbn [bind]. apply it_collect_done. intros t Ht. apply resolve_span_done.
  apply (wf_follows st W s r t E Ht).
Qed.
Lemma root_spans_done : root_spans st = Done (st_root_span_ids st).
Proof.
  apply it_collect_done. intros s Hs. apply resolve_span_done. apply (wf_roots st W) in Hs. apply Hs.
Qed.
Lemma root_events_done : root_events st = Done (st_root_event_ids st).
Proof.
  apply it_collect_done. intros e He. apply resolve_event_done. apply (wf_root_events st W) in He. apply He.
Qed.
Lemma all_spans_done : all_spans st = Done (all_spans_it st).
Proof. apply it_collect_done. reflexivity. Qed.
Lemma all_events_done : all_events st = Done (all_events_it st).
Proof. apply it_collect_done. reflexivity. Qed.
Lemma event_parent_done e : is_event st e -> event_parent st e = Done (ev_parent_of st e).
Proof.
  intros He. destruct (get_event_ex st e He) as (r & E). unfold event_parent, ev_parent_of, event_at.
  rewrite E. cbn [bind]. destruct (ev_parent_id r) as [p|] eqn:Ep; [|reflexivity].
  assert (Hp : ev_parent_of st e = Some p) by (unfold ev_parent_of; rewrite E; exact Ep).
  apply (wf_event_parent st W) in Hp. destruct (get_span_ex st p Hp) as (rp & E'). unfold span_at.
  rewrite E'. reflexivity.
Qed.

(** inversion: a query that answers was asked about an existing item *)
Lemma parent_inv s x : parent st s = Done x -> is_span st s /\ x = parent_of st s.
Proof.
  intros E. assert (Hs : is_span st s).
  { unfold parent, span_at in E. destruct (get_span st s) as [r|] eqn:Er; [|discriminate].
    eapply get_span_lt; eauto. }
  rewrite (parent_done s Hs) in E. injection E as <-. auto.
Qed.
Lemma children_inv s l : children st s = Done l -> is_span st s /\ l = children_of st s.
Proof.
  intros E. assert (Hs : is_span st s).
  { unfold children, children_it, span_at in E. destruct (get_span st s) as [r|] eqn:Er; [|discriminate].
    eapply get_span_lt; eauto. }
  rewrite (children_done s Hs) in E. injection E as <-. auto.
Qed.
Lemma events_inv s l : events st s = Done l -> is_span st s /\ l = events_of st s.
Proof.
  intros E. assert (Hs : is_span st s).
  { unfold events, events_it, span_at in E. destruct (get_span st s) as [r|] eqn:Er; [|discriminate].
    eapply get_span_lt; eauto. }
  rewrite (events_done s Hs) in E. injection E as <-. auto.
Qed.
Lemma event_parent_inv e x : event_parent st e = Done x -> is_event st e /\ x = ev_parent_of st e.
Proof.
  intros E. assert (He : is_event st e).
  { unfold event_parent, event_at in E. destruct (get_event st e) as [r|] eqn:Er; [|discriminate].
    eapply get_event_lt; eauto. }
  rewrite (event_parent_done e He) in E. injection E as <-. auto.
Qed.

(** * Ancestors *)

(** [chain c l]: [l] is the chain of parent links starting at [c] and ending at a root *)
Inductive chain : option N -> list N -> Prop :=
| chain_nil : chain None []
| chain_cons p l : is_span st p -> chain (parent_of st p) l -> chain (Some p) (p :: l).

(** the proper-ancestor relation: transitive closure of the parent link *)
Inductive anc : N -> N -> Prop :=
| anc_parent a d : parent_of st d = Some a -> anc a d
| anc_up a m d : parent_of st d = Some m -> anc a m -> anc a d.

Lemma successors_inv : forall fuel cur l, successors fuel st cur = Done l -> chain cur l.
Proof.
  induction fuel as [|f IH]; intros [p|] l; cbn [successors]; try discriminate;
    try (intros E; injection E as <-; constructor).
  destruct (parent st p) as [next| |] eqn:Ep; cbn [bind]; try discriminate.
  destruct (successors f st next) as [l'| |] eqn:El; cbn [bind]; try discriminate.
  intros E. injection E as <-. apply parent_inv in Ep as (Hp & ->). constructor; [exact Hp|].
  apply IH. exact El.
Qed.

Lemma successors_total : forall fuel cur,
  match cur with Some p => is_span st p /\ (N.to_nat p < fuel)%nat | None => True end ->
  exists l, successors fuel st cur = Done l.
Proof.
  induction fuel as [|f IH]; intros [p|] H; cbn [successors]; eauto.
  - destruct H as [_ H]. lia.
  - destruct H as [Hp Hf]. rewrite (parent_done p Hp). cbn [bind].
    destruct (IH (parent_of st p)) as (l & ->).
    { destruct (parent_of st p) as [q|] eqn:Eq; [|exact I].
      apply parent_of_lt in Eq as (H1 & H2 & _). split; [exact H2|lia]. }
    cbn [bind]. eauto.
Qed.

Lemma chain_fun c l1 : chain c l1 -> forall l2, chain c l2 -> l1 = l2.
Proof.
  induction 1 as [|p l Hp Hc IH]; intros l2 H2; inversion H2; subst; [reflexivity|].
  f_equal. apply IH. assumption.
Qed.

Lemma ancestors_chain s l : ancestors st s = Done l <-> is_span st s /\ chain (parent_of st s) l.
Proof.
  unfold ancestors. split.
  - destruct (parent st s) as [first| |] eqn:Ep; cbn [bind]; try discriminate.
    apply parent_inv in Ep as (Hs & ->). intros E. split; [exact Hs|]. eapply successors_inv; eauto.
  - intros [Hs Hc]. rewrite (parent_done s Hs). cbn [bind].
    destruct (successors_total (List.length (st_spans st)) (parent_of st s)) as (l' & E).
    { destruct (parent_of st s) as [q|] eqn:Eq; [|exact I].
      apply parent_of_lt in Eq as (H1 & H2 & _). split; [exact H2|].
      unfold is_span, nspans in H2. lia. }
    rewrite E. f_equal. eapply chain_fun; [eapply successors_inv; eauto|exact Hc].
Qed.

Lemma ancestors_total s : is_span st s -> exists l, ancestors st s = Done l.
Proof.
  intros Hs. unfold ancestors. rewrite (parent_done s Hs). cbn [bind].
  apply successors_total. destruct (parent_of st s) as [q|] eqn:Eq; [|exact I].
  apply parent_of_lt in Eq as (H1 & H2 & _). split; [exact H2|]. unfold is_span, nspans in H2. lia.
Qed.

(** the same for events *)
Lemma event_ancestors_chain e l :
  event_ancestors st e = Done l <-> is_event st e /\ chain (ev_parent_of st e) l.
Proof.
  unfold event_ancestors. split.
  - destruct (event_parent st e) as [first| |] eqn:Ep; cbn [bind]; try discriminate.
    apply event_parent_inv in Ep as (Hs & ->). intros E. split; [exact Hs|]. eapply successors_inv; eauto.
  - intros [Hs Hc]. rewrite (event_parent_done e Hs). cbn [bind].
    destruct (successors_total (List.length (st_spans st)) (ev_parent_of st e)) as (l' & E).
    { destruct (ev_parent_of st e) as [q|] eqn:Eq; [|exact I].
      apply (wf_event_parent st W) in Eq. split; [exact Eq|]. unfold is_span, nspans in Eq. lia. }
    rewrite E. f_equal. eapply chain_fun; [eapply successors_inv; eauto|exact Hc].
Qed.
Lemma event_ancestors_total e : is_event st e -> exists l, event_ancestors st e = Done l.
Proof.
  intros He. unfold event_ancestors. rewrite (event_parent_done e He). cbn [bind].
  apply successors_total. destruct (ev_parent_of st e) as [q|] eqn:Eq; [|exact I].
  apply (wf_event_parent st W) in Eq. split; [exact Eq|]. unfold is_span, nspans in Eq. lia.
Qed.

(** shape of a chain *)
Lemma chain_unfold c l :
  chain c l ->
  match l with
  | [] => c = None
  | p :: l' => c = Some p /\ is_span st p /\ chain (parent_of st p) l'
  end.
Proof. destruct 1; auto. Qed.

Lemma chain_bound c l : chain c l -> forall x, In x l -> exists p, c = Some p /\ x <= p.
Proof.
  induction 1 as [|p l Hp Hc IH]; intros x Hx; [destruct Hx|].
  destruct Hx as [<-|Hx]; [exists p; split; [reflexivity|lia]|].
  destruct (IH x Hx) as (q & Eq & Hle). apply parent_of_lt in Eq as (H1 & _).
  exists p. split; [reflexivity|lia].
Qed.

Lemma chain_decreasing c l : chain c l -> StronglySorted (fun a b => b < a) l.
Proof.
  induction 1 as [|p l Hp Hc IH]; constructor; [exact IH|].
  apply Forall_forall. intros x Hx. destruct (chain_bound _ _ Hc x Hx) as (q & Eq & Hle).
  apply parent_of_lt in Eq as (H1 & _). lia.
Qed.

Lemma chain_last c l : chain c l -> forall s, parent_of st s = c -> parent_of st (last l s) = None.
Proof.
  induction 1 as [|p l Hp Hc IH]; intros s Hs; [exact Hs|].
  destruct l as [|q l']; [apply chain_unfold in Hc; exact Hc|].
  change (last (p :: q :: l') s) with (last (q :: l') s).
  rewrite (last_cons_indep l' q s p). apply IH. reflexivity.
Qed.

Lemma chain_in_anc c l : chain c l -> forall d a, parent_of st d = c -> (In a l <-> anc a d).
Proof.
  induction 1 as [|p l Hp Hc IH]; intros d a Hd.
  - split; [intros []|]. intros H. inversion H; congruence.
  - cbn [In]. rewrite (IH p a eq_refl). split.
    + intros [<-|H]; [apply anc_parent; exact Hd|eapply anc_up; eauto].
    + intros H. inversion H as [a' d' H1|a' m d' H1 H2]; subst.
      * left. congruence.
      * right. assert (m = p) by congruence. subst m. exact H2.
Qed.

Lemma anc_lt a d : anc a d -> a < d /\ is_span st a /\ is_span st d.
Proof.
  induction 1 as [a d H|a m d H Ham IH].
  - apply parent_of_lt in H. tauto.
  - apply parent_of_lt in H. destruct H as (H1 & H2 & H3). destruct IH as (H4 & H5 & _).
    repeat split; try assumption. lia.
Qed.

Lemma anc_trans a b c : anc a b -> anc b c -> anc a c.
Proof.
  intros Hab Hbc. induction Hbc as [b c H|b m c H Hbm IH].
  - eapply anc_up; eauto.
  - eapply anc_up; [exact H|]. apply IH. exact Hab.
Qed.

(** decomposition from the top: the first step goes to a child of the ancestor *)
Lemma anc_down a d : anc a d <-> exists k, parent_of st k = Some a /\ (k = d \/ anc k d).
Proof.
  split.
  - induction 1 as [a d H|a m d H Ham IH].
    + exists d. auto.
    + destruct IH as (k & Hk & [->|Hkm]).
      * exists m. split; [exact Hk|]. right. apply anc_parent. exact H.
      * exists k. split; [exact Hk|]. right. eapply anc_up; eauto.
  - intros (k & Hk & [->|Hkd]).
    + apply anc_parent. exact Hk.
    + eapply anc_trans; [apply anc_parent; exact Hk|exact Hkd].
Qed.

(** the ancestors of a span are linearly ordered *)
Lemma anc_linear a d : anc a d -> forall b, anc b d -> a = b \/ anc a b \/ anc b a.
Proof.
  induction 1 as [a d H|a m d H Ham IH]; intros b Hb.
  - inversion Hb as [b' d' H1|b' m' d' H1 H2]; subst.
    + left. congruence.
    + right. right. assert (m' = a) by congruence. subst m'. exact H2.
  - inversion Hb as [b' d' H1|b' m' d' H1 H2]; subst.
    + right. left. assert (m = b) by congruence. subst m. exact Ham.
    + assert (m' = m) by congruence. subst m'. apply IH. exact H2.
Qed.

Lemma anc_irrefl a : ~ anc a a.
Proof. intros H. apply anc_lt in H. lia. Qed.

Lemma ancestors_in_anc d l a : ancestors st d = Done l -> (In a l <-> anc a d).
Proof.
  intros E. apply ancestors_chain in E as (_ & Hc). eapply chain_in_anc; eauto.
Qed.

Lemma anc_iff_ancestors a d : anc a d <-> exists l, ancestors st d = Done l /\ In a l.
Proof.
  split.
  - intros H. destruct (anc_lt a d H) as (_ & _ & Hd). destruct (ancestors_total d Hd) as (l & E).
    exists l. split; [exact E|]. apply (ancestors_in_anc d l a E). exact H.
  - intros (l & E & Hin). apply (ancestors_in_anc d l a E). exact Hin.
Qed.

(** * Descendants *)

(** [pre ids l]: [l] is the pre-order traversal of the forest below the spans [ids]
    (each span followed by the traversal of its children, then its right siblings) *)
Inductive pre : list N -> list N -> Prop :=
| pre_nil : pre [] []
| pre_cons i tail l1 l2 :
    is_span st i -> pre (children_of st i) l1 -> pre tail l2 -> pre (i :: tail) (i :: l1 ++ l2).

(** one [next()] of the stack machine yields the head of the concatenated traversals *)
Lemma desc_next_spec layers ls :
  Forall2 pre layers ls ->
  match List.concat ls with
  | [] => exists layers', desc_next st layers = Done (None, layers')
  | x :: out => exists layers' ls', desc_next st layers = Done (Some x, layers') /\
                                    Forall2 pre layers' ls' /\ List.concat ls' = out
  end.
Proof.
  induction 1 as [|layer l layers ls Hp HF IH].
  - cbn. eexists. reflexivity.
  - inversion Hp as [|i tail l1 l2 Hi P1 P2]; subst.
    + cbn [List.concat app desc_next]. exact IH.
    + cbn [List.concat app desc_next]. destruct (get_span_ex st i Hi) as (r & E).
      unfold span_at. rewrite E. cbn [bind]. unfold children_of in P1. rewrite E in P1.
      destruct (sp_child_ids r) as [|c cs] eqn:Ec.
      * inversion P1; subst. exists (tail :: layers), (l2 :: ls).
        split; [reflexivity|]. split; [constructor; assumption|]. reflexivity.
      * exists ((c :: cs) :: tail :: layers), (l1 :: l2 :: ls).
        split; [reflexivity|]. split; [constructor; [assumption|constructor; assumption]|].
        cbn [List.concat]. rewrite app_assoc. reflexivity.
Qed.

Lemma desc_drain_spec : forall fuel layers ls,
  Forall2 pre layers ls -> (List.length (List.concat ls) < fuel)%nat ->
  desc_drain fuel st layers = Done (List.concat ls).
Proof.
  induction fuel as [|f IH]; intros layers ls HF Hlen; [lia|].
  cbn [desc_drain]. pose proof (desc_next_spec layers ls HF) as HN.
  destruct (List.concat ls) as [|x out] eqn:Ec.
  - destruct HN as (layers' & ->). reflexivity.
  - destruct HN as (layers' & ls' & -> & HF' & Hc'). cbn [bind].
    rewrite (IH layers' ls' HF') by (rewrite Hc'; cbn [List.length] in Hlen; lia).
    cbn [bind]. rewrite Hc'. reflexivity.
Qed.

Lemma children_of_span p c : In c (children_of st p) -> is_span st p.
Proof.
  unfold children_of. destruct (get_span st p) as [r|] eqn:E; [|intros []].
  intros _. eapply get_span_lt; eauto.
Qed.

Lemma pre_exists : forall (h : nat) ids,
  (forall i, In i ids -> is_span st i /\ nspans st <= i + N.of_nat h) -> exists l, pre ids l.
Proof.
  induction h as [|h IHh]; intros ids H.
  - destruct ids as [|i ids]; [exists []; constructor|].
    destruct (H i (or_introl eq_refl)) as [H1 H2]. unfold is_span in H1. lia.
  - induction ids as [|i ids IHids]; [exists []; constructor|].
    destruct (H i (or_introl eq_refl)) as [Hi Hb].
    destruct (IHh (children_of st i)) as (l1 & P1).
    { intros c Hc. apply (children_of_iff i c Hi) in Hc. apply parent_of_lt in Hc as (A & _ & C).
      split; [exact C|lia]. }
    destruct IHids as (l2 & P2); [intros j Hj; apply H; right; exact Hj|].
    exists (i :: l1 ++ l2). constructor; assumption.
Qed.

Lemma pre_in ids l : pre ids l -> forall d, In d l <-> exists i, In i ids /\ (d = i \/ anc i d).
Proof.
  induction 1 as [|i tail l1 l2 Hi P1 IH1 P2 IH2]; intros d.
  - split; [intros []|]. intros (i & [] & _).
  - cbn [In]. rewrite in_app_iff, IH1, IH2. split.
    + intros [E|[(k & Hk & Hd)|(j & Hj & Hd)]].
      * exists i. split; [left; reflexivity|]. left. symmetry. exact E.
      * exists i. split; [left; reflexivity|]. right. apply anc_down. exists k.
        split; [apply (children_of_iff i k Hi); exact Hk|]. destruct Hd as [->|Hd]; auto.
      * exists j. split; [right; exact Hj|exact Hd].
    + intros (j & [E|Hj] & Hd).
      * subst j. destruct Hd as [->|Hd]; [left; reflexivity|]. right. left.
        apply anc_down in Hd as (k & Hk & Hkd). exists k.
        split; [apply (children_of_iff i k Hi); exact Hk|]. destruct Hkd as [->|Hkd]; auto.
      * right. right. exists j. auto.
Qed.

Lemma pre_children_in i l : is_span st i -> pre (children_of st i) l -> forall d, In d l <-> anc i d.
Proof.
  intros Hi P d. rewrite (pre_in _ _ P d), anc_down. split.
  - intros (k & Hk & Hd). exists k. split; [apply (children_of_iff i k Hi); exact Hk|].
    destruct Hd as [->|Hd]; auto.
  - intros (k & Hk & Hd). exists k. split; [apply (children_of_iff i k Hi); exact Hk|].
    destruct Hd as [->|Hd]; auto.
Qed.

Definition antichain (ids : list N) : Prop := forall i j, In i ids -> In j ids -> ~ anc i j.

Lemma siblings_antichain p : antichain (children_of st p).
Proof.
  intros i j Hi Hj Ha. pose proof (children_of_span p i Hi) as Hp.
  apply (children_of_iff p i Hp) in Hi. apply (children_of_iff p j Hp) in Hj.
  pose proof (parent_of_lt _ _ Hi) as (H1 & _).
  inversion Ha as [a d H|a m d H Hm]; subst.
  - assert (i = p) by congruence. subst i. lia.
  - assert (m = p) by congruence. subst m. apply anc_lt in Hm. lia.
Qed.

Lemma pre_nodup ids l : pre ids l -> NoDup ids -> antichain ids -> NoDup l.
Proof.
  induction 1 as [|i tail l1 l2 Hi P1 IH1 P2 IH2]; intros ND AC; [constructor|].
  inversion ND as [|i' tail' Hnotin NDt]; subst.
  assert (N1 : NoDup l1) by (apply IH1; [apply sorted_nodup, children_of_sorted|apply siblings_antichain]).
  assert (N2 : NoDup l2) by (apply IH2; [exact NDt|intros a b Ha Hb; apply AC; right; assumption]).
  constructor.
  - rewrite in_app_iff. intros [Hin|Hin].
    + apply (pre_children_in i l1 Hi P1) in Hin. eapply anc_irrefl; eauto.
    + apply (pre_in _ _ P2) in Hin as (j & Hj & [->|Hd]); [contradiction|].
      apply (AC j i); [right; exact Hj|left; reflexivity|exact Hd].
  - apply nodup_app; [exact N1|exact N2|]. intros x H1 H2.
    apply (pre_children_in i l1 Hi P1) in H1.
    apply (pre_in _ _ P2) in H2 as (j & Hj & [->|Hd]).
    + apply (AC i j); [left; reflexivity|right; exact Hj|exact H1].
    + destruct (anc_linear i x H1 j Hd) as [E|[H|H]].
      * subst j. contradiction.
      * apply (AC i j); [left; reflexivity|right; exact Hj|exact H].
      * apply (AC j i); [right; exact Hj|left; reflexivity|exact H].
Qed.

Lemma pre_order ids l : pre ids l -> NoDup ids -> antichain ids ->
  forall d1 d2, In d1 l -> In d2 l -> anc d1 d2 -> before d1 d2 l.
Proof.
  induction 1 as [|i tail l1 l2 Hi P1 IH1 P2 IH2]; intros ND AC d1 d2 H1 H2 Ha; [destruct H1|].
  inversion ND as [|i' tail' Hnotin NDt]; subst.
  destruct H1 as [E|H1].
  - subst d1. destruct H2 as [E|H2]; [subst d2; exfalso; eapply anc_irrefl; eauto|].
    apply before_head. exact H2.
  - apply before_cons. apply in_app_iff in H1 as [H1|H1].
    + apply before_app_l. apply IH1; [apply sorted_nodup, children_of_sorted|apply siblings_antichain|exact H1| |exact Ha].
      apply (pre_children_in i l1 Hi P1). apply (pre_children_in i l1 Hi P1) in H1.
      eapply anc_trans; eauto.
    + apply before_app_r. apply IH2; [exact NDt|intros a b Ha' Hb'; apply AC; right; assumption|exact H1| |exact Ha].
      apply (pre_in _ _ P2). apply (pre_in _ _ P2) in H1 as (j & Hj & Hd). exists j. split; [exact Hj|].
      right. destruct Hd as [->|Hd]; [exact Ha|eapply anc_trans; eauto].
Qed.

(** the stack machine terminates within its fuel and computes the pre-order traversal *)
Lemma descendants_pre s : is_span st s ->
  exists l, descendants st s = Done l /\ pre (children_of st s) l.
Proof.
  intros Hs. destruct (pre_exists (List.length (st_spans st)) (children_of st s)) as (l & P).
  { intros c Hc. apply (children_of_iff s c Hs) in Hc. apply parent_of_lt in Hc as (_ & _ & C).
    split; [exact C|]. unfold nspans. lia. }
  exists l. split; [|exact P].
  assert (ND : NoDup (s :: l)).
  { constructor.
    - intros Hin. apply (pre_children_in s l Hs P) in Hin. eapply anc_irrefl; eauto.
    - eapply pre_nodup; [exact P|apply sorted_nodup, children_of_sorted|apply siblings_antichain]. }
  assert (Hb : (List.length (s :: l) <= List.length (st_spans st))%nat).
  { apply nodup_bound; [exact ND|]. intros x [<-|Hx]; [exact Hs|].
    apply (pre_children_in s l Hs P) in Hx. apply anc_lt in Hx. apply Hx. }
  destruct (get_span_ex st s Hs) as (r & E). unfold descendants, span_at. rewrite E. cbn [bind].
  unfold children_of in P. rewrite E in P.
  rewrite (desc_drain_spec (List.length (st_spans st)) [sp_child_ids r] [l]).
  - cbn [List.concat]. rewrite app_nil_r. reflexivity.
  - constructor; [exact P|constructor].
  - cbn [List.concat]. rewrite app_nil_r. cbn [List.length] in Hb. lia.
Qed.

Lemma descendants_inv s l : descendants st s = Done l -> is_span st s /\ pre (children_of st s) l.
Proof.
  intros E. assert (Hs : is_span st s).
  { unfold descendants, span_at in E. destruct (get_span st s) as [r|] eqn:Er; [|discriminate].
    eapply get_span_lt; eauto. }
  destruct (descendants_pre s Hs) as (l' & E' & P). rewrite E' in E. injection E as <-. auto.
Qed.

Lemma descendants_nodup s l : descendants st s = Done l -> NoDup l.
Proof.
  intros E. apply descendants_inv in E as (Hs & P).
  eapply pre_nodup; [exact P|apply sorted_nodup, children_of_sorted|apply siblings_antichain].
Qed.
Lemma descendants_anc s l d : descendants st s = Done l -> (In d l <-> anc s d).
Proof. intros E. apply descendants_inv in E as (Hs & P). apply pre_children_in; assumption. Qed.
Lemma descendants_order s l d1 d2 :
  descendants st s = Done l -> In d1 l -> In d2 l -> anc d1 d2 -> before d1 d2 l.
Proof.
  intros E. apply descendants_inv in E as (Hs & P).
  eapply pre_order; [exact P|apply sorted_nodup, children_of_sorted|apply siblings_antichain].
Qed.

(** * Descendant events *)
Lemma flat_events_done ds : (forall d, In d ds -> is_span st d) ->
  flat_events st ds = Done (flat_map (events_of st) ds).
Proof.
  induction ds as [|d ds IH]; intros H; cbn [flat_events flat_map]; [reflexivity|].
  rewrite (events_done d (H d (or_introl eq_refl))). cbn [bind].
  rewrite IH by (intros x Hx; apply H; right; exact Hx). reflexivity.
Qed.

Lemma descendant_events_inv s le :
  descendant_events st s = Done le ->
  exists l, descendants st s = Done l /\ le = flat_map (events_of st) l.
Proof.
  unfold descendant_events. destruct (descendants st s) as [l| |] eqn:E; cbn [bind]; try discriminate.
  intros E'. exists l. split; [reflexivity|].
  rewrite flat_events_done in E'; [injection E' as <-; reflexivity|].
  intros d Hd. apply (descendants_anc s l d E) in Hd. apply anc_lt in Hd. apply Hd.
Qed.

Lemma descendant_events_total s : is_span st s -> exists le, descendant_events st s = Done le.
Proof.
  intros Hs. destruct (descendants_pre s Hs) as (l & E & _). unfold descendant_events. rewrite E.
  cbn [bind]. rewrite flat_events_done; [eauto|].
  intros d Hd. apply (descendants_anc s l d E) in Hd. apply anc_lt in Hd. apply Hd.
Qed.

Lemma flat_events_in ds e : (forall d, In d ds -> is_span st d) ->
  (In e (flat_map (events_of st) ds) <-> exists d, In d ds /\ ev_parent_of st e = Some d).
Proof.
  intros H. rewrite in_flat_map. split; intros (d & Hd & He); exists d; (split; [exact Hd|]).
  - apply (events_of_iff d e (H d Hd)). exact He.
  - apply (events_of_iff d e (H d Hd)). exact He.
Qed.

Lemma flat_events_nodup ds : (forall d, In d ds -> is_span st d) -> NoDup ds ->
  NoDup (flat_map (events_of st) ds).
Proof.
  induction ds as [|d ds IH]; intros H ND; cbn [flat_map]; [constructor|].
  inversion ND as [|d' ds' Hnotin ND']; subst.
  apply nodup_app.
  - apply sorted_nodup, events_of_sorted.
  - apply IH; [intros x Hx; apply H; right; exact Hx|exact ND'].
  - intros e H1 H2. apply (events_of_iff d e (H d (or_introl eq_refl))) in H1.
    apply flat_events_in in H2 as (d2 & Hd2 & He2); [|intros x Hx; apply H; right; exact Hx].
    assert (d2 = d) by congruence. subst d2. contradiction.
Qed.

End Wf.

(** * Keys of items: equality and order *)
Lemma key_eq_spec (a b : item_key) : key_eq a b = true <-> a = b.
Proof.
  destruct a as [t1 i1], b as [t2 i2]. unfold key_eq. cbn [fst snd].
  rewrite andb_true_iff, !N.eqb_eq. split; [intros [-> ->]; reflexivity|intros E; injection E; auto].
Qed.
Lemma key_cmp_eq (a b : item_key) : key_cmp a b = Some Eq <-> key_eq a b = true.
Proof.
  destruct a as [t1 i1], b as [t2 i2]. unfold key_cmp, key_eq. cbn [fst snd].
  destruct (t1 =? t2); cbn [andb]; [|split; discriminate].
  rewrite N.eqb_eq, <- N.compare_eq_iff. split; [intros E; injection E; auto|intros ->; reflexivity].
Qed.
Lemma key_cmp_antisym (a b : item_key) : key_cmp b a = option_map CompOpp (key_cmp a b).
Proof.
  destruct a as [t1 i1], b as [t2 i2]. unfold key_cmp. cbn [fst snd]. rewrite (N.eqb_sym t2 t1).
  destruct (t1 =? t2); cbn [option_map]; [|reflexivity]. rewrite (N.compare_antisym i1 i2). reflexivity.
Qed.

(** * The statements of C17, for every storage reachable by valid mutations *)
Section Statements.
Variable st : storage SP EP.
Hypothesis R : reachable st.
Let W : storage_wf st := reachable_wf st R.

Lemma R_span_queries_total s : is_span st s ->
  (exists x, parent st s = Done x) /\ (exists l, children st s = Done l) /\
  (exists l, events st s = Done l) /\ (exists l, follows_from st s = Done l) /\
  (exists l, ancestors st s = Done l) /\ (exists l, descendants st s = Done l) /\
  (exists l, descendant_events st s = Done l).
Proof.
  intros Hs. repeat split.
  - rewrite (parent_done st W s Hs). eauto.
  - rewrite (children_done st W s Hs). eauto.
  - rewrite (events_done st W s Hs). eauto.
  - rewrite (follows_from_done st W s Hs). eauto.
  - apply (ancestors_total st W s Hs).
  - destruct (descendants_pre st W s Hs) as (l & E & _). eauto.
  - apply (descendant_events_total st W s Hs).
Qed.

(** ... and only there: asking about an id that is not in the arena panics *)
Lemma R_queries_only_on_items s e :
  ((exists x, parent st s = Done x) <-> is_span st s) /\
  ((exists x, event_parent st e = Done x) <-> is_event st e).
Proof.
  split; split.
  - intros (x & H). apply (parent_inv st W) in H. apply H.
  - intros H. rewrite (parent_done st W s H). eauto.
  - intros (x & H). apply (event_parent_inv st W) in H. apply H.
  - intros H. rewrite (event_parent_done st W e H). eauto.
Qed.

Lemma R_event_queries_total e : is_event st e ->
  (exists x, event_parent st e = Done x) /\ (exists l, event_ancestors st e = Done l).
Proof.
  intros He. split.
  - rewrite (event_parent_done st W e He). eauto.
  - apply (event_ancestors_total st W e He).
Qed.

Lemma in_iota n x : In x (iota n) <-> x < N.of_nat n.
Proof.
  unfold iota. rewrite in_map_iff. split.
  - intros (k & <- & Hk). apply in_seq in Hk. lia.
  - intros H. exists (N.to_nat x). split; [apply N2Nat.id|]. apply in_seq. lia.
Qed.

Lemma R_storage_queries_total :
  all_spans st = Done (iota (List.length (st_spans st))) /\
  all_events st = Done (iota (List.length (st_events st))) /\
  (exists l, root_spans st = Done l) /\ (exists l, root_events st = Done l).
Proof.
  split; [apply (all_spans_done st)|]. split; [apply (all_events_done st)|].
  split; [rewrite (root_spans_done st W)|rewrite (root_events_done st W)]; eauto.
Qed.

Lemma R_all_spans l s : all_spans st = Done l -> (In s l <-> is_span st s).
Proof. rewrite (all_spans_done st). intros E. injection E as <-. apply in_iota. Qed.
Lemma R_all_events l e : all_events st = Done l -> (In e l <-> is_event st e).
Proof. rewrite (all_events_done st). intros E. injection E as <-. apply in_iota. Qed.

Lemma iota_sorted n : StronglySorted N.lt (iota n).
Proof.
  unfold iota. generalize 0%nat. induction n as [|n IH]; intros k; cbn; constructor; [apply IH|].
  apply Forall_forall. intros x Hx. apply in_map_iff in Hx as (j & <- & Hj). apply in_seq in Hj. lia.
Qed.
Lemma R_all_spans_ordered l : all_spans st = Done l -> StronglySorted N.lt l.
Proof. rewrite (all_spans_done st). intros E. injection E as <-. apply iota_sorted. Qed.
Lemma R_all_events_ordered l : all_events st = Done l -> StronglySorted N.lt l.
Proof. rewrite (all_events_done st). intros E. injection E as <-. apply iota_sorted. Qed.

(** parent / children *)
Lemma R_parent_children_inverse p l c :
  children st p = Done l -> (In c l <-> parent st c = Done (Some p)).
Proof.
  intros E. apply (children_inv st W) in E as (Hp & ->). rewrite (children_of_iff st W p c Hp). split.
  - intros H. pose proof (parent_of_lt st W c p H) as (_ & _ & Hc). rewrite (parent_done st W c Hc).
    congruence.
  - intros H. apply (parent_inv st W) in H as (_ & H). congruence.
Qed.
Lemma R_children_ordered p l : children st p = Done l -> StronglySorted N.lt l /\ NoDup l.
Proof.
  intros E. apply (children_inv st W) in E as (Hp & ->).
  split; [|apply sorted_nodup]; apply (children_of_sorted st W).
Qed.
Lemma R_parent_before_child c p : parent st c = Done (Some p) -> p < c.
Proof.
  intros H. apply (parent_inv st W) in H as (_ & H). symmetry in H. apply (parent_of_lt st W) in H. apply H.
Qed.
Lemma R_event_parent_events_inverse p l e :
  events st p = Done l -> (In e l <-> event_parent st e = Done (Some p)).
Proof.
  intros E. apply (events_inv st W) in E as (Hp & ->). rewrite (events_of_iff st W p e Hp). split.
  - intros H. pose proof (ev_parent_of_is_event st e p H) as He. rewrite (event_parent_done st W e He).
    congruence.
  - intros H. apply (event_parent_inv st W) in H as (_ & H). congruence.
Qed.
Lemma R_events_ordered p l : events st p = Done l -> StronglySorted N.lt l /\ NoDup l.
Proof.
  intros E. apply (events_inv st W) in E as (Hp & ->).
  split; [|apply sorted_nodup]; apply (events_of_sorted st W).
Qed.

(** roots *)
Lemma R_root_spans_exact l s : root_spans st = Done l -> (In s l <-> parent st s = Done None).
Proof.
  rewrite (root_spans_done st W). intros E. injection E as <-. rewrite (wf_roots st W s). split.
  - intros [Hs Hp]. rewrite (parent_done st W s Hs). congruence.
  - intros H. apply (parent_inv st W) in H as (Hs & H). auto.
Qed.
Lemma R_root_spans_ordered l : root_spans st = Done l -> StronglySorted N.lt l /\ NoDup l.
Proof.
  rewrite (root_spans_done st W). intros E. injection E as <-.
  split; [|apply sorted_nodup]; apply (wf_roots_sorted st W).
Qed.
Lemma R_root_events_exact l e : root_events st = Done l -> (In e l <-> event_parent st e = Done None).
Proof.
  rewrite (root_events_done st W). intros E. injection E as <-. rewrite (wf_root_events st W e). split.
  - intros [He Hp]. rewrite (event_parent_done st W e He). congruence.
  - intros H. apply (event_parent_inv st W) in H as (He & H). auto.
Qed.
Lemma R_root_events_ordered l : root_events st = Done l -> StronglySorted N.lt l /\ NoDup l.
Proof.
  rewrite (root_events_done st W). intros E. injection E as <-.
  split; [|apply sorted_nodup]; apply (wf_root_events_sorted st W).
Qed.

(** ancestors *)
Lemma R_ancestors_unfold s l :
  ancestors st s = Done l ->
  match l with
  | [] => parent st s = Done None
  | p :: l' => parent st s = Done (Some p) /\ ancestors st p = Done l'
  end.
Proof.
  intros E. apply (ancestors_chain st W) in E as (Hs & Hc). rewrite (parent_done st W s Hs).
  apply chain_unfold in Hc. destruct l as [|p l'].
  - congruence.
  - destruct Hc as (Hp & Hsp & Hc). split; [congruence|]. apply (ancestors_chain st W). auto.
Qed.
Lemma R_ancestors_decreasing s l :
  ancestors st s = Done l -> StronglySorted (fun a b => b < a) (s :: l).
Proof.
  intros E. apply (ancestors_chain st W) in E as (Hs & Hc). constructor.
  - eapply chain_decreasing; eauto.
  - apply Forall_forall. intros x Hx. destruct (chain_bound st W _ _ Hc x Hx) as (q & Eq & Hle).
    apply (parent_of_lt st W) in Eq. lia.
Qed.
Lemma R_ancestors_end_at_root s l rs :
  ancestors st s = Done l -> root_spans st = Done rs -> In (last l s) rs.
Proof.
  intros E Er. apply (R_root_spans_exact rs _ Er).
  apply (ancestors_chain st W) in E as (Hs & Hc).
  pose proof (chain_last st _ _ Hc s eq_refl) as HL.
  assert (Hlast : is_span st (last l s)).
  { destruct l as [|p l']; [exact Hs|].
    assert (Hin : In (last (p :: l') s) (p :: l')).
    { rewrite (last_cons_indep l' p s p). clear. revert p. induction l' as [|q l' IH]; intros p; [left; reflexivity|].
      right. change (last (p :: q :: l') p) with (last (q :: l') p). rewrite (last_cons_indep l' q p q). apply IH. }
    destruct (chain_bound st W _ _ Hc _ Hin) as (q & Eq & Hle).
    apply (parent_of_lt st W) in Eq. unfold is_span in *. lia. }
  rewrite (parent_done st W _ Hlast). congruence.
Qed.
Lemma R_event_ancestors_unfold e l :
  event_ancestors st e = Done l ->
  match l with
  | [] => event_parent st e = Done None
  | p :: l' => event_parent st e = Done (Some p) /\ ancestors st p = Done l'
  end.
Proof.
  intros E. apply (event_ancestors_chain st W) in E as (He & Hc). rewrite (event_parent_done st W e He).
  apply chain_unfold in Hc. destruct l as [|p l'].
  - congruence.
  - destruct Hc as (Hp & Hsp & Hc). split; [congruence|]. apply (ancestors_chain st W). auto.
Qed.

(** descendants *)
Lemma R_descendants_nodup s l : descendants st s = Done l -> NoDup l.
Proof. apply (descendants_nodup st W). Qed.
Lemma R_descendants_exact s l d :
  descendants st s = Done l -> (In d l <-> exists a, ancestors st d = Done a /\ In s a).
Proof.
  intros E. rewrite (descendants_anc st W s l d E). apply (anc_iff_ancestors st W).
Qed.
Lemma R_descendants_parents_first s l d1 d2 a :
  descendants st s = Done l -> In d1 l -> In d2 l -> ancestors st d2 = Done a -> In d1 a ->
  before d1 d2 l.
Proof.
  intros E H1 H2 Ea Hin. apply (descendants_order st W s l d1 d2 E H1 H2).
  apply (anc_iff_ancestors st W). eauto.
Qed.

(** descendant events *)
Lemma R_descendant_events_exact s le l :
  descendant_events st s = Done le -> descendants st s = Done l ->
  NoDup le /\
  (forall e, In e le <-> exists d es, In d l /\ events st d = Done es /\ In e es) /\
  (forall e, In e le <-> exists d, In d l /\ event_parent st e = Done (Some d)).
Proof.
  intros Ee El. apply (descendant_events_inv st W) in Ee as (l' & El' & ->).
  rewrite El in El'. injection El' as <-.
  assert (Hsp : forall d, In d l -> is_span st d).
  { intros d Hd. apply (descendants_anc st W s l d El) in Hd. apply (anc_lt st W) in Hd. apply Hd. }
  split; [apply (flat_events_nodup st W l Hsp), (descendants_nodup st W s l El)|]. split.
  - intros e. rewrite in_flat_map. split.
    + intros (d & Hd & He). exists d, (events_of st d). split; [exact Hd|].
      split; [apply (events_done st W d (Hsp d Hd))|exact He].
    + intros (d & es & Hd & Ees & He). exists d. split; [exact Hd|].
      apply (events_inv st W) in Ees as (_ & ->). exact He.
  - intros e. rewrite (flat_events_in st W l e Hsp). split.
    + intros (d & Hd & He). exists d. split; [exact Hd|].
      rewrite (event_parent_done st W e (ev_parent_of_is_event st e d He)). congruence.
    + intros (d & Hd & He). exists d. split; [exact Hd|].
      apply (event_parent_inv st W) in He as (_ & He). congruence.
Qed.

(** every id slice handed out as an iterator resolves *)
Lemma R_span_slices_resolve it :
  (exists s, children_it st s = Done it \/ follows_from_it st s = Done it) \/ it = root_spans_it st ->
  forall i, In i it -> resolve_span st i = Done tt.
Proof.
  intros H i Hi. apply resolve_span_done. destruct H as [(s & [H|H])| ->].
  - unfold children_it, span_at in H. destruct (get_span st s) as [r|] eqn:E; cbn [bind] in H; [|discriminate].
    injection H as <-. apply (wf_children st W s r i E) in Hi. apply (parent_of_lt st W) in Hi. apply Hi.
  - unfold follows_from_it, span_at in H. destruct (get_span st s) as [r|] eqn:E; cbn [bind] in H; [|discriminate].
    injection H as <-. apply (wf_follows st W s r i E Hi).
  - apply (wf_roots st W) in Hi. apply Hi.
Qed.
Lemma R_event_slices_resolve it :
  (exists s, events_it st s = Done it) \/ it = root_events_it st ->
  forall i, In i it -> resolve_event st i = Done tt.
Proof.
  intros H i Hi. apply resolve_event_done. destruct H as [(s & H)| ->].
  - unfold events_it, span_at in H. destruct (get_span st s) as [r|] eqn:E; cbn [bind] in H; [|discriminate].
    injection H as <-. apply (wf_events st W s r i E) in Hi. eapply ev_parent_of_is_event; eauto.
  - apply (wf_root_events st W) in Hi. apply Hi.
Qed.

(** items *)
Lemma R_span_key tag s k : span_key st tag s = Done k -> is_span st s /\ k = (tag, s).
Proof.
  unfold span_key, span_at. destruct (get_span st s) as [r|] eqn:E; cbn [bind]; [|discriminate].
  intros E'. injection E' as <-. split; [eapply get_span_lt; eauto|]. rewrite (wf_span_id st W s r E). reflexivity.
Qed.
Lemma R_event_key tag e k : event_key st tag e = Done k -> is_event st e /\ k = (tag, e).
Proof.
  unfold event_key, event_at. destruct (get_event st e) as [r|] eqn:E; cbn [bind]; [|discriminate].
  intros E'. injection E' as <-. split; [eapply get_event_lt; eauto|]. rewrite (wf_event_id st W e r E). reflexivity.
Qed.
Lemma R_span_key_total tag s : is_span st s -> span_key st tag s = Done (tag, s).
Proof.
  intros Hs. destruct (get_span_ex st s Hs) as (r & E). unfold span_key, span_at. rewrite E. cbn [bind].
  rewrite (wf_span_id st W s r E). reflexivity.
Qed.
Lemma R_event_key_total tag e : is_event st e -> event_key st tag e = Done (tag, e).
Proof.
  intros He. destruct (get_event_ex st e He) as (r & E). unfold event_key, event_at. rewrite E. cbn [bind].
  rewrite (wf_event_id st W e r E). reflexivity.
Qed.

Lemma R_span_eq_identity tag a b ka kb :
  span_key st tag a = Done ka -> span_key st tag b = Done kb -> (key_eq ka kb = true <-> a = b).
Proof.
  intros Ha Hb. apply R_span_key in Ha as (_ & ->). apply R_span_key in Hb as (_ & ->).
  rewrite key_eq_spec. split; [intros E; injection E; auto|intros ->; reflexivity].
Qed.
Lemma R_span_order_capture tag a b ka kb :
  span_key st tag a = Done ka -> span_key st tag b = Done kb -> key_cmp ka kb = Some (a ?= b).
Proof.
  intros Ha Hb. apply R_span_key in Ha as (_ & ->). apply R_span_key in Hb as (_ & ->).
  unfold key_cmp. cbn [fst snd]. rewrite N.eqb_refl. reflexivity.
Qed.
Lemma R_event_eq_identity tag a b ka kb :
  event_key st tag a = Done ka -> event_key st tag b = Done kb -> (key_eq ka kb = true <-> a = b).
Proof.
  intros Ha Hb. apply R_event_key in Ha as (_ & ->). apply R_event_key in Hb as (_ & ->).
  rewrite key_eq_spec. split; [intros E; injection E; auto|intros ->; reflexivity].
Qed.
Lemma R_event_order_capture tag a b ka kb :
  event_key st tag a = Done ka -> event_key st tag b = Done kb -> key_cmp ka kb = Some (a ?= b).
Proof.
  intros Ha Hb. apply R_event_key in Ha as (_ & ->). apply R_event_key in Hb as (_ & ->).
  unfold key_cmp. cbn [fst snd]. rewrite N.eqb_refl. reflexivity.
Qed.
Lemma R_parent_less_in_order tag c p kc kp :
  parent st c = Done (Some p) -> span_key st tag c = Done kc -> span_key st tag p = Done kp ->
  key_cmp kp kc = Some Lt.
Proof.
  intros Hp Hc Hk. rewrite (R_span_order_capture tag p c kp kc Hk Hc). f_equal.
  apply N.compare_lt_iff. apply R_parent_before_child. exact Hp.
Qed.
End Statements.

(** items of different storages: never equal, never ordered *)
Lemma keys_across_storages (st1 st2 : storage SP EP) t1 t2 a b ka kb :
  t1 <> t2 -> span_key st1 t1 a = Done ka -> span_key st2 t2 b = Done kb ->
  key_eq ka kb = false /\ key_cmp ka kb = None.
Proof.
  intros Hne. unfold span_key. destruct (span_at st1 a); cbn [bind]; try discriminate.
  destruct (span_at st2 b); cbn [bind]; try discriminate. intros E1 E2. injection E1 as <-. injection E2 as <-.
  unfold key_eq, key_cmp. cbn [fst snd]. apply N.eqb_neq in Hne. rewrite Hne. auto.
Qed.
Lemma event_keys_across_storages (st1 st2 : storage SP EP) t1 t2 a b ka kb :
  t1 <> t2 -> event_key st1 t1 a = Done ka -> event_key st2 t2 b = Done kb ->
  key_eq ka kb = false /\ key_cmp ka kb = None.
Proof.
  intros Hne. unfold event_key. destruct (event_at st1 a); cbn [bind]; try discriminate.
  destruct (event_at st2 b); cbn [bind]; try discriminate. intros E1 E2. injection E1 as <-. injection E2 as <-.
  unfold key_eq, key_cmp. cbn [fst snd]. apply N.eqb_neq in Hne. rewrite Hne. auto.
Qed.

End Proofs.
