(** Hostile renderings: with the render-before-lock discipline of [capture/src/layer.rs] every
    well-formed hostile program is captured, without deadlock or poisoning, exactly as its quiet
    flattening (which the refinement theorem of [Capture/LayerProofs.v] covers); the lock-before-render
    discipline (finding F10) deadlocks resp. poisons the storage on concrete witnesses. *)
From TT Require Export Capture.LayerProofs Capture.Hostile.

Notation cap_all := (fun _ : cs_data => true).
Notation deliver0 := (layer_step cap_all layer_key0).

(** * Flattening preserves well-formedness *)

Lemma flat_evs_wf stale sites tid st : forall evs l b,
  forallb (wf_hev_b sites) evs = true -> flat_evs tid evs = (l, b) ->
  wf_steps stale sites st l = Some st.
Proof.
  induction evs as [|[cs pk vals effs] evs IH]; intros l b Hwf Hfl; cbn [flat_evs] in Hfl.
  - injection Hfl as <- <-. reflexivity.
  - cbn [forallb wf_hev_b] in Hwf. apply andb_true_iff in Hwf as [Hev Hwf].
    apply andb_true_iff in Hev as [Hev _]. apply andb_true_iff in Hev as [Hsite Hpk].
    destruct (has_bomb effs); [injection Hfl as <- <-; reflexivity|].
    destruct (flat_evs tid evs) as [l' b'] eqn:E. injection Hfl as <- <-.
    cbn [wf_steps]. unfold wf_step. cbn [fst snd]. rewrite Hsite.
    assert (Hp : wf_parent st pk = true) by (destruct pk; [reflexivity | reflexivity | discriminate]).
    rewrite Hp. cbn [andb]. apply (IH l' b' Hwf eq_refl).
Qed.

Lemma flat_effs_wf stale sites tid g st : forall effs l b,
  forallb (wf_heff_b sites) effs = true -> flat_effs tid g effs = (l, b) ->
  wf_steps stale sites st l = Some st.
Proof.
  induction effs as [|[evs|] effs IH]; intros l b Hwf Hfl; cbn [flat_effs] in Hfl.
  - injection Hfl as <- <-. reflexivity.
  - cbn [forallb wf_heff_b] in Hwf. apply andb_true_iff in Hwf as [Hevs Hwf].
    destruct g; [apply (IH l b Hwf Hfl)|].
    destruct (flat_evs tid evs) as [l1 b1] eqn:E1.
    pose proof (flat_evs_wf stale sites tid st evs l1 b1 Hevs E1) as H1.
    destruct b1; [injection Hfl as <- <-; exact H1|].
    destruct (flat_effs tid false effs) as [l2 b2] eqn:E2. injection Hfl as <- <-.
    rewrite wf_steps_app, H1. apply (IH l2 b2 Hwf eq_refl).
  - injection Hfl as <- <-. reflexivity.
Qed.

Lemma flat_effs_nil tid g : flat_effs tid g [] = ([], false).
Proof. reflexivity. Qed.

(** no bomb anywhere: the callback is not left by a panic *)
Lemma flat_evs_bomb_free tid : forall evs,
  forallb bomb_free_ev evs = true -> snd (flat_evs tid evs) = false.
Proof.
  induction evs as [|[cs pk vals effs] evs IH]; intros H; cbn [flat_evs]; [reflexivity|].
  cbn [forallb bomb_free_ev] in H. apply andb_true_iff in H as [H1 H2].
  assert (Hb : has_bomb effs = false).
  { clear -H1. induction effs as [|[evs'|] effs IH]; cbn in *; [reflexivity | |discriminate].
    apply andb_true_iff in H1 as [_ H1]. apply IH, H1. }
  rewrite Hb. specialize (IH H2). destruct (flat_evs tid evs) as [l b]. exact IH.
Qed.

Lemma flat_effs_bomb_free tid g : forall effs,
  forallb bomb_free_eff effs = true -> snd (flat_effs tid g effs) = false.
Proof.
  induction effs as [|[evs|] effs IH]; intros H; cbn [flat_effs]; [reflexivity | |discriminate].
  cbn [forallb bomb_free_eff] in H. apply andb_true_iff in H as [H1 H2].
  destruct g; [apply IH, H2|].
  pose proof (flat_evs_bomb_free tid evs H1) as Hb. destruct (flat_evs tid evs) as [l1 b1].
  cbn [snd] in Hb. subst b1. specialize (IH H2). destruct (flat_effs tid false effs) as [l2 b2]. exact IH.
Qed.

(** records and events leave the symbolic state alone *)
Lemma wf_step_passive stale sites st o st' :
  wf_step stale sites st o = Some st' ->
  match snd o with ORecord _ _ | OEvent _ _ _ => st' = st | _ => True end.
Proof.
  unfold wf_step. destruct o as [tid [cs p vals|k vals|k|k|k|k|k t|cs p vals]]; cbn [fst snd]; auto.
  - destruct (span_site st k); [|discriminate].
    destruct (live st k && wf_valset (site_fields sites n) vals); [|discriminate]. congruence.
  - destruct (wf_site_use sites KEvent cs vals && wf_parent st p); [|discriminate]. congruence.
Qed.

Lemma flatten_op_wf stale sites st h st' :
  wf_hop_b sites h = true -> wf_step stale sites st (quiet_op h) = Some st' ->
  wf_steps stale sites st (flatten_op h) = Some st'.
Proof.
  intros Hwf Hst. unfold flatten_op.
  destruct (flat_effs (h_tid h) (op_is_event (h_op h)) (op_effs h)) as [l b] eqn:E.
  unfold wf_hop_b in Hwf. apply andb_true_iff in Hwf as [Heffs Hop].
  assert (Hl : wf_steps stale sites st l = Some st).
  { apply (flat_effs_wf stale sites (h_tid h) (op_is_event (h_op h)) st (op_effs h) l b); [|exact E].
    unfold op_effs. destruct (renders (h_op h)); [exact Heffs | reflexivity]. }
  destruct b.
  - (* left by a panic: a record or an event *)
    rewrite Hl. f_equal. pose proof (wf_step_passive _ _ _ _ _ Hst) as Hp. unfold quiet_op in Hp. cbn [snd] in Hp.
    unfold op_effs in E.
    destruct (h_op h) as [cs p vals|k vals|k|k|k|k|k t|cs p vals]; cbn [renders] in E;
      try (cbn in E; discriminate); try (symmetry; exact Hp).
    destruct p; try (destruct (h_effs h); [cbn in E|]; discriminate).
    pose proof (flat_effs_bomb_free (h_tid h) false (h_effs h) Hop) as Hb. cbn [op_is_event] in E.
    rewrite E in Hb. discriminate.
  - rewrite wf_steps_app, Hl. cbn [wf_steps]. rewrite Hst. reflexivity.
Qed.

Lemma flatten_ops_wf stale sites : forall ops st st',
  forallb (wf_hop_b sites) ops = true -> wf_steps stale sites st (map quiet_op ops) = Some st' ->
  wf_steps stale sites st (flat_map flatten_op ops) = Some st'.
Proof.
  induction ops as [|h ops IH]; intros st st' Hwf Hst; cbn [map flat_map wf_steps] in *; [exact Hst|].
  apply andb_true_iff in Hwf as [Hh Hwf].
  destruct (wf_step stale sites st (quiet_op h)) as [st1|] eqn:E1; [|discriminate].
  rewrite wf_steps_app, (flatten_op_wf _ _ _ _ _ Hh E1). apply (IH st1 st' Hwf Hst).
Qed.

Lemma flat_evs_tid tid : forall evs, forallb (fun o => Nat.eqb (fst o) tid) (fst (flat_evs tid evs)) = true.
Proof.
  induction evs as [|[cs pk vals effs] evs IH]; cbn [flat_evs]; [reflexivity|].
  destruct (has_bomb effs); [reflexivity|]. destruct (flat_evs tid evs) as [l b]. cbn [fst forallb] in *.
  rewrite Nat.eqb_refl. exact IH.
Qed.
Lemma flat_effs_tid tid g : forall effs, forallb (fun o => Nat.eqb (fst o) tid) (fst (flat_effs tid g effs)) = true.
Proof.
  induction effs as [|[evs|] effs IH]; cbn [flat_effs]; [reflexivity | |reflexivity].
  destruct g; [exact IH|]. pose proof (flat_evs_tid tid evs) as H1. destruct (flat_evs tid evs) as [l1 b1].
  cbn [fst] in H1. destruct b1; [exact H1|]. destruct (flat_effs tid false effs) as [l2 b2]. cbn [fst] in *.
  rewrite forallb_app, H1. exact IH.
Qed.

Theorem flatten_wf hp : wf_hprog_b hp = true -> wf_prog_b (flatten hp) = true.
Proof.
  unfold wf_hprog_b. intros H. apply andb_true_iff in H as [H Hops]. apply andb_true_iff in H as [Hq _].
  unfold wf_prog_b, wf_prog_gen_b in *. apply andb_true_iff in Hq as [Hsites Hq].
  unfold flatten, quiet, sym_run in *. cbn [p_sites p_ops] in *. rewrite Hsites. cbn [andb].
  destruct (wf_steps false (hp_sites hp) sym_init (map quiet_op (hp_ops hp))) as [stf|] eqn:E; [|discriminate].
  rewrite (flatten_ops_wf false _ _ _ _ Hops E). reflexivity.
Qed.

Theorem flatten_single_threaded hp : wf_hprog_b hp = true -> single_threaded (flatten hp) = true.
Proof.
  unfold wf_hprog_b. intros H. apply andb_true_iff in H as [H _]. apply andb_true_iff in H as [_ Hs].
  unfold single_threaded, flatten, quiet in *. cbn [p_ops] in *.
  induction (hp_ops hp) as [|h ops IH]; cbn [map flat_map forallb] in *; [reflexivity|].
  apply andb_true_iff in Hs as [Hh Hs]. rewrite forallb_app, (IH Hs), andb_true_r.
  unfold quiet_op in Hh. cbn [fst] in Hh. apply Nat.eqb_eq in Hh. unfold flatten_op.
  pose proof (flat_effs_tid (h_tid h) (op_is_event (h_op h)) (op_effs h)) as Ht.
  destruct (flat_effs (h_tid h) (op_is_event (h_op h)) (op_effs h)) as [l b]. cbn [fst] in Ht. rewrite Hh in *.
  destruct b; [exact Ht|]. rewrite forallb_app, Ht. cbn. rewrite Hh. reflexivity.
Qed.

(** * The machine under [RenderFirst] *)

Lemma sub_steps_app {L} (dl : reg -> nat -> lcallback -> L -> result (reg * L)) sites ids a b s :
  sub_steps dl sites ids s (a ++ b) = (let* s1 := sub_steps dl sites ids s a in sub_steps dl sites ids s1 b).
Proof.
  revert s. induction a as [|o a IH]; intros s; cbn [app sub_steps]; [reflexivity|].
  destruct (sub_step dl sites ids s o) as [s1| | |]; cbn [rbind]; [apply IH | reflexivity..].
Qed.

Lemma sub_steps_one {L} (dl : reg -> nat -> lcallback -> L -> result (reg * L)) sites ids s o :
  sub_steps dl sites ids s [o] = sub_step dl sites ids s o.
Proof. cbn [sub_steps]. destruct (sub_step dl sites ids s o); reflexivity. Qed.

(** unfolding equations of the machine *)
Lemma render_eff_loud d sites tid evs guard held s :
  render_eff d sites tid (ELoud evs) guard held s
  = if guard then HOk s else hseq (fun ev => deliver_ev d sites tid ev held) evs s.
Proof. reflexivity. Qed.
Lemma render_eff_bomb d sites tid guard held s :
  render_eff d sites tid EBomb guard held s = HUnwound (if held then poison s else s).
Proof. reflexivity. Qed.
Lemma deliver_ev_eq d sites tid cs pk vals effs held s :
  deliver_ev d sites tid (HEv cs pk vals effs) held s
  = match nth_error sites cs with
    | None => HErr
    | Some meta => layer_cb d tid (render_effs d sites tid true effs) held (CbEvent meta pk vals) s
    end.
Proof. reflexivity. Qed.
Lemma render_effs_cons d sites tid guard e effs held s :
  render_effs d sites tid guard (e :: effs) held s
  = hbind (render_eff d sites tid e guard held s) (render_effs d sites tid guard effs held).
Proof. reflexivity. Qed.
Lemma render_effs_nil d sites tid guard held s : render_effs d sites tid guard [] held s = HOk s.
Proof. reflexivity. Qed.

(** under the guard a loud value is inert and a bomb goes off *)
Lemma render_guarded d sites tid held : forall effs s,
  render_effs d sites tid true effs held s
  = if has_bomb effs then HUnwound (if held then poison s else s) else HOk s.
Proof.
  unfold has_bomb.
  induction effs as [|[evs|] effs IH]; intros s; cbn [existsb is_bomb orb].
  - reflexivity.
  - rewrite render_effs_cons, render_eff_loud. cbn [hbind]. apply IH.
  - reflexivity.
Qed.

Lemma flat_effs_guarded tid : forall effs, flat_effs tid true effs = ([], has_bomb effs).
Proof.
  unfold has_bomb. induction effs as [|[evs|] effs IH]; cbn [flat_effs existsb is_bomb orb]; auto.
Qed.

(** an inner event, outside the lock: not captured if rendering its values panics *)
Lemma deliver_ev_render_first sites tid cs pk vals effs meta r st :
  nth_error sites cs = Some meta ->
  deliver_ev RenderFirst sites tid (HEv cs pk vals effs) false (r, st, LFree)
  = if has_bomb effs then HUnwound (r, st, LFree) else apply_cb tid (CbEvent meta pk vals) (r, st, LFree).
Proof.
  intros Hcs. rewrite deliver_ev_eq, Hcs. unfold layer_cb. cbn [touches negb fst].
  rewrite render_guarded. destruct (has_bomb effs); reflexivity.
Qed.

(** [on_event] of a contextual / root event answers the same on Registries [r] and [r1] *)
Definition ev_agree (tid : nat) (r r1 : reg) : Prop :=
  forall meta pk vals st, inner_parent_ok pk = true ->
    deliver0 r1 tid (CbEvent meta pk vals) st
    = (let* (_, st') := deliver0 r tid (CbEvent meta pk vals) st in ROk (r1, st')).

Lemma event_cb_reg r tid meta pk vals st :
  deliver0 r tid (CbEvent meta pk vals) st
  = (let* (_, st') := deliver0 r tid (CbEvent meta pk vals) st in ROk (r, st')).
Proof.
  cbn [layer_step negb].
  destruct (of_outcome (push_event st _ _)) as [[st1 e]| | |]; reflexivity.
Qed.

Lemma ev_agree_refl tid r : ev_agree tid r r.
Proof. intros meta pk vals st _. apply event_cb_reg. Qed.

Lemma scope_find_ext (r r1 : reg) (key : N) :
  (forall j, (j < reg_next r)%nat -> option_map shape (reg_get r1 j) = option_map shape (reg_get r j)) ->
  (forall k s p, reg_get r k = Some s -> rs_parent s = Some p -> (p < k)%nat) ->
  forall fuel c, (c < reg_next r)%nat ->
    scope_find r1 key (scope_from fuel r1 c) = scope_find r key (scope_from fuel r c).
Proof.
  intros Hsh Hpar. induction fuel as [|fuel IH]; intros c Hc; cbn [scope_from]; [reflexivity|].
  pose proof (Hsh c Hc) as Hc1.
  destruct (reg_get r c) as [s|] eqn:Es, (reg_get r1 c) as [s1|] eqn:Es1; cbn [option_map] in Hc1;
    try discriminate; [|reflexivity].
  injection Hc1 as Hm Hr Hp He. cbn [scope_find]. rewrite Es, Es1. unfold captured_id. rewrite He.
  destruct (ext_find key (rs_ext s)); [reflexivity|]. rewrite Hp.
  destruct (rs_parent s) as [p|] eqn:Ep; [|reflexivity].
  apply IH. pose proof (Hpar c s p Es Ep). lia.
Qed.

(** the commutation: an event callback right after [reg_new_span] (the new span allocated, not
    entered, not yet known to the layer) answers as it does just before *)
Lemma ev_agree_new_span sym r tid meta pk raw r1 id :
  reg_inv sym r -> wf_parent sym pk = true ->
  reg_new_span r tid meta pk raw = ROk (r1, id) -> ev_agree tid r r1.
Proof.
  intros I Hwf Hnew.
  destruct (new_span_ok sym r tid 0%nat meta pk raw I Hwf) as (r0 & E & Hsh & _ & I1).
  rewrite E in Hnew. injection Hnew as <- <-.
  set (ns := mk_rspan meta raw _ 1 []) in *. set (r1 := reg_app r0 ns) in *.
  set (sym1 := mk_sym (ss_spans sym ++ [mk_sspan 0%nat 1]) (ss_stacks sym)) in *.
  intros meta' pk' vals st Hpk. cbn [layer_step negb].
  assert (Hscope : match ctx_event_scope r1 tid pk' with
                   | Some scope => scope_find r1 layer_key0 scope | None => None end
                 = match ctx_event_scope r tid pk' with
                   | Some scope => scope_find r layer_key0 scope | None => None end).
  { destruct pk' as [| |j]; [|reflexivity|discriminate].
    unfold ctx_event_scope, ctx_event_span, ctx_lookup_current.
    rewrite (current_ok sym1 r1 tid I1), (current_ok sym r tid I).
    change (stk sym1 tid) with (stk sym tid).
    destruct (first_outer (stk sym tid)) as [c|] eqn:Ec; cbn [option_map]; [|reflexivity].
    apply first_outer_on_stack in Ec. destruct (inv_stack_present _ _ _ _ _ I Ec) as [s Hs].
    pose proof (reg_get_lt _ _ _ Hs) as Hlt. unfold scope_of.
    apply scope_find_ext; [|exact (ri_parent _ _ _ I)|exact Hlt].
    intros j Hj. unfold r1. rewrite reg_get_app. destruct Hsh as [Hn Hsh]. rewrite Hn.
    destruct (Nat.eqb_spec j (reg_next r)); [lia|]. apply Hsh. }
  rewrite Hscope. destruct (of_outcome (push_event st _ _)) as [[st1 e]| | |]; reflexivity.
Qed.

Section RenderFirst.
  Variable sites : list cs_data.
  Variable ids : list N.
  Notation flat_run := (sub_steps deliver0 sites ids).

  (** the events a loud value emits, delivered with the Registry in state [r1], against the flattened
      events run on [r] *)
  Lemma evs_flat tid r r1 : ev_agree tid r r1 -> forall evs l b st st' r',
    forallb (wf_hev_b sites) evs = true ->
    flat_evs tid evs = (l, b) ->
    flat_run (r, st) l = ROk (r', st') ->
    r' = r /\
    hseq (fun ev => deliver_ev RenderFirst sites tid ev false) evs (r1, st, LFree)
    = if b then HUnwound (r1, st', LFree) else HOk (r1, st', LFree).
  Proof.
    intros Hag. induction evs as [|[cs pk vals effs] evs IH]; intros l b st st' r' Hwf Hfl Hrun;
      cbn [flat_evs] in Hfl.
    - injection Hfl as <- <-. cbn [sub_steps] in Hrun. injection Hrun as <- <-. split; reflexivity.
    - cbn [forallb wf_hev_b] in Hwf. apply andb_true_iff in Hwf as [Hev Hwf].
      apply andb_true_iff in Hev as [Hev _]. apply andb_true_iff in Hev as [Hsite Hpk].
      unfold wf_site_use in Hsite. destruct (nth_error sites cs) as [meta|] eqn:Ecs; [|discriminate].
      cbn [hseq]. rewrite (deliver_ev_render_first _ _ _ _ _ _ meta _ _ Ecs).
      destruct (has_bomb effs).
      + injection Hfl as <- <-. cbn [sub_steps] in Hrun. injection Hrun as <- <-. split; reflexivity.
      + destruct (flat_evs tid evs) as [l' b'] eqn:E. injection Hfl as <- <-.
        cbn [sub_steps] in Hrun. apply rbind_ok in Hrun as ([r2 st2] & Hstep & Hrun).
        unfold sub_step in Hstep. cbn [fst snd] in Hstep. rewrite Ecs in Hstep.
        rewrite event_cb_reg in Hstep. apply rbind_ok in Hstep as ([r3 st3] & Hcb & Hst).
        injection Hst as <- <-.
        unfold apply_cb. rewrite (Hag meta pk vals st Hpk), Hcb. cbn [rbind hbind].
        apply (IH l' b' st3 st' r' Hwf eq_refl Hrun).
  Qed.

  Lemma effs_flat tid r r1 : ev_agree tid r r1 -> forall effs l b st st' r',
    forallb (wf_heff_b sites) effs = true ->
    flat_effs tid false effs = (l, b) ->
    flat_run (r, st) l = ROk (r', st') ->
    r' = r /\
    render_effs RenderFirst sites tid false effs false (r1, st, LFree)
    = if b then HUnwound (r1, st', LFree) else HOk (r1, st', LFree).
  Proof.
    intros Hag.
    induction effs as [|[evs|] effs IH]; intros l b st st' r' Hwf Hfl Hrun; cbn [flat_effs] in Hfl.
    - injection Hfl as <- <-. cbn [sub_steps] in Hrun. injection Hrun as <- <-. split; reflexivity.
    - cbn [forallb wf_heff_b] in Hwf. apply andb_true_iff in Hwf as [Hevs Hwf].
      rewrite render_effs_cons, render_eff_loud.
      destruct (flat_evs tid evs) as [l1 b1] eqn:E1. destruct b1.
      + injection Hfl as <- <-.
        destruct (evs_flat tid r r1 Hag evs l1 true st st' r' Hevs E1 Hrun) as [-> Hr].
        rewrite Hr. split; reflexivity.
      + destruct (flat_effs tid false effs) as [l2 b2] eqn:E2. injection Hfl as <- <-.
        rewrite sub_steps_app in Hrun. apply rbind_ok in Hrun as ([r2 st2] & Hrun1 & Hrun2).
        destruct (evs_flat tid r r1 Hag evs l1 false st st2 r2 Hevs E1 Hrun1) as [-> Hr].
        rewrite Hr. cbn [hbind]. apply (IH l2 b2 st2 st' r' Hwf eq_refl Hrun2).
    - injection Hfl as <- <-. cbn [sub_steps] in Hrun. injection Hrun as <- <-. split; reflexivity.
  Qed.

  Notation sim := (sim cap_all layer_key0).

  Lemma sim_live_touches sym a r st k :
    sim sym a r st -> live sym k = true -> is_captured (reg_get r k) = true.
  Proof.
    intros HS Hl. destruct (inv_live_present _ _ _ _ (sm_inv _ _ _ _ _ _ HS) Hl) as [s Hs].
    rewrite Hs. unfold is_captured.
    rewrite (span_ok_captured cap_all layer_key0 a k s (sm_span _ _ _ _ _ _ HS k s Hs)). reflexivity.
  Qed.

  (** one operation of the guest against its flattening *)
  Lemma hop_step_flat sym a r st h sym' r' st' :
    sim sym a r st ->
    wf_hop_b sites h = true ->
    wf_step true sites sym (quiet_op h) = Some sym' ->
    flat_run (r, st) (flatten_op h) = ROk (r', st') ->
    hop_step RenderFirst sites ids (r, st, LFree) h = HOk (r', st', LFree) \/
    hop_step RenderFirst sites ids (r, st, LFree) h = HUnwound (r', st', LFree).
  Proof.
    intros HS Hwf Hst Hrun. destruct h as [tid o effs].
    unfold wf_hop_b in Hwf. cbn [h_op h_effs] in Hwf. apply andb_true_iff in Hwf as [Heffs Hop].
    unfold flatten_op, op_effs, quiet_op in *. cbn [h_tid h_op h_effs] in *.
    unfold wf_step in Hst. cbn [fst snd] in Hst.
    unfold hop_step. cbn [h_tid h_op h_effs].
    assert (Hplain : forall o',
              flat_run (r, st) ([] ++ [(tid, o')]) = ROk (r', st') ->
              plain_free sites ids r st (tid, o') = HOk (r', st', LFree)).
    { intros o' H. cbn [app] in H. rewrite sub_steps_one in H. unfold plain_free. rewrite H. reflexivity. }
    destruct o as [cs pk vals|k vals|k|k|k|k|k t|cs pk vals]; cbn [renders op_is_event flat_effs] in Hrun;
      try (left; apply (Hplain _ Hrun)).
    - (* new span *)
      assert (Hbf : forallb bomb_free_eff effs = true).
      { destruct pk; [exact Hop | destruct effs; [reflexivity | discriminate]..]. }
      pose proof (flat_effs_bomb_free tid false effs Hbf) as Hb.
      destruct (flat_effs tid false effs) as [l b] eqn:E. cbn [snd] in Hb. subst b.
      rewrite sub_steps_app in Hrun. apply rbind_ok in Hrun as ([r2 st2] & Hrun1 & Hrun2).
      destruct (effs_flat tid r r (ev_agree_refl tid r) effs l false st st2 r2 Heffs E Hrun1) as [-> _].
      rewrite sub_steps_one in Hrun2. unfold sub_step in Hrun2. cbn [fst snd] in Hrun2.
      destruct (wf_site_use sites KSpan cs vals && wf_parent sym pk) eqn:Ew; [|discriminate].
      apply andb_true_iff in Ew as [_ Hpar].
      destruct (nth_error sites cs) as [meta|]; [|discriminate].
      apply rbind_ok in Hrun2 as ([r1 id] & Hnew & Hcb). rewrite Hnew.
      pose proof (ev_agree_new_span sym r tid meta pk _ r1 id (sm_inv _ _ _ _ _ _ HS) Hpar Hnew) as Hag.
      destruct (effs_flat tid r r1 Hag effs l false st st2 r Heffs E Hrun1) as [_ Hr].
      unfold value_cb, layer_cb. cbn [touches negb fst]. rewrite Hr. cbn [hbind acquire snd].
      unfold apply_cb. rewrite Hcb. left. reflexivity.
    - (* record *)
      destruct (span_site sym k) as [cs|]; [|discriminate].
      destruct (live sym k && wf_valset (site_fields sites cs) vals) eqn:Ew; [|discriminate].
      apply andb_true_iff in Ew as [Hl _].
      unfold value_cb, layer_cb. cbn [touches negb fst]. unfold ctx_span.
      rewrite (sim_live_touches _ _ _ _ _ HS Hl). cbn [negb].
      destruct (flat_effs tid false effs) as [l b] eqn:E. destruct b.
      + destruct (effs_flat tid r r (ev_agree_refl tid r) effs l true st st' r' Heffs E Hrun) as [-> Hr].
        rewrite Hr. right. reflexivity.
      + rewrite sub_steps_app in Hrun. apply rbind_ok in Hrun as ([r2 st2] & Hrun1 & Hrun2).
        destruct (effs_flat tid r r (ev_agree_refl tid r) effs l false st st2 r2 Heffs E Hrun1) as [-> Hr].
        rewrite Hr. cbn [hbind acquire snd]. rewrite sub_steps_one in Hrun2.
        unfold sub_step in Hrun2. cbn [fst snd] in Hrun2. unfold apply_cb. rewrite Hrun2. left. reflexivity.
    - (* event: under the guard *)
      destruct (wf_site_use sites KEvent cs vals && wf_parent sym pk) eqn:Ew; [|discriminate].
      apply andb_true_iff in Ew as [Hsite _]. unfold wf_site_use in Hsite.
      destruct (nth_error sites cs) as [meta|] eqn:Ecs; [|discriminate].
      unfold value_cb, layer_cb. cbn [touches negb fst]. rewrite render_guarded.
      rewrite flat_effs_guarded in Hrun. destruct (has_bomb effs).
      + cbn [sub_steps] in Hrun. injection Hrun as <- <-. right. reflexivity.
      + cbn [app] in Hrun. rewrite sub_steps_one in Hrun. unfold sub_step in Hrun. cbn [fst snd] in Hrun.
        rewrite Ecs in Hrun. cbn [hbind acquire snd]. unfold apply_cb. rewrite Hrun. left. reflexivity.
  Qed.

  Lemma hop_steps_flat : forall ops sym a r st symf,
    sim sym a r st ->
    forallb (wf_hop_b sites) ops = true ->
    wf_steps true sites sym (map quiet_op ops) = Some symf ->
    exists r' st',
      hop_steps RenderFirst sites ids (r, st, LFree) ops = HOk (r', st', LFree) /\
      flat_run (r, st) (flat_map flatten_op ops) = ROk (r', st').
  Proof.
    induction ops as [|h ops IH]; intros sym a r st symf HS Hwf Hst;
      cbn [map flat_map hop_steps wf_steps forallb] in *.
    - exists r, st. split; reflexivity.
    - apply andb_true_iff in Hwf as [Hh Hwf].
      destruct (wf_step true sites sym (quiet_op h)) as [sym1|] eqn:E1; [|discriminate].
      pose proof (flatten_op_wf true sites sym h sym1 Hh E1) as Hfl.
      destruct (steps_refine cap_all layer_key0 sites ids (flatten_op h) sym a r st sym1 HS Hfl)
        as (r1 & st1 & Hrun & HS1).
      destruct (IH sym1 _ r1 st1 symf HS1 Hwf Hst) as (r' & st' & Hh' & Hf').
      exists r', st'. rewrite sub_steps_app, Hrun. cbn [rbind]. split; [|exact Hf'].
      destruct (hop_step_flat sym a r st h sym1 r1 st1 HS Hh E1 Hrun) as [-> | ->]; exact Hh'.
  Qed.
End RenderFirst.

(** * The theorems *)

Lemma render_first_run ids hp :
  wf_hprog_b hp = true ->
  exists r st, hrun RenderFirst ids hp = HOk (r, st, LFree) /\
               layer_run cap_all ids (flatten hp) = ROk (r, st).
Proof.
  unfold wf_hprog_b. intros H. apply andb_true_iff in H as [H Hops]. apply andb_true_iff in H as [Hq _].
  unfold wf_prog_b, wf_prog_gen_b in Hq. apply andb_true_iff in Hq as [_ Hq].
  unfold sym_run, quiet in Hq. cbn [p_sites p_ops] in Hq.
  destruct (wf_steps false (hp_sites hp) sym_init (map quiet_op (hp_ops hp))) as [symf|] eqn:E; [|discriminate].
  apply wf_steps_stale_mono in E.
  apply (hop_steps_flat (hp_sites hp) ids (hp_ops hp) sym_init a_init reg_init empty_storage symf
           (sim_init cap_all layer_key0) Hops E).
Qed.

(** with the render-before-lock discipline every hostile program is captured as its flattening: no
    deadlock, no poisoning, the lock free at the end *)
Theorem render_first_captures_flattened : forall ids hp,
  wf_hprog_b hp = true ->
  hstorage_of (hrun RenderFirst ids hp) = storage_of (layer_run (fun _ => true) ids (flatten hp))
  /\ exists st, hstorage_of (hrun RenderFirst ids hp) = Some st.
Proof.
  intros ids hp Hwf. destruct (render_first_run ids hp Hwf) as (r & st & -> & ->).
  split; [reflexivity | exists st; reflexivity].
Qed.

(** .. which is what the specification prescribes for the flattened program *)
Theorem render_first_is_spec : forall ids hp,
  wf_hprog_b hp = true ->
  hstorage_of (hrun RenderFirst ids hp) = Some (spec_storage (fun _ => true) ids (flatten hp)).
Proof.
  intros ids hp Hwf. rewrite (proj1 (render_first_captures_flattened ids hp Hwf)).
  apply capture_refines_spec, wf_prog_stale_of_wf, flatten_wf, Hwf.
Qed.

(** * The lock-before-render discipline (finding F10) is refuted *)
Local Open Scope string_scope.

(** a span, then a record on it whose value emits an event from its [Debug] impl *)
Definition hw_loud : hprog :=
  mk_hprog ex_sites
    [ mk_hop 0 (ONewSpan 0 PKCtx []) [];
      mk_hop 0 (ORecord 0 [(0, Some (PDebug "loud"))])
               [ELoud [HEv 1 PKCtx [(0, Some (PStr "from a Debug impl"))] []]] ]%nat.

(** a record whose value panics in its [Debug] impl, then an event *)
Definition hw_bomb : hprog :=
  mk_hprog ex_sites
    [ mk_hop 0 (ONewSpan 0 PKCtx []) [];
      mk_hop 0 (ORecord 0 [(0, Some (PDebug "bomb"))]) [EBomb];
      mk_hop 0 (OEvent 1 PKCtx [(0, Some (PStr "after the panic"))]) [] ]%nat.

Definition is_deadlock (x : hresult) : bool := match x with HDeadlock => true | _ => false end.

Theorem lock_first_deadlocks :
  exists ids hp, wf_hprog_b hp = true /\ hrun LockFirst ids hp = HDeadlock.
Proof. exists [1; 2], hw_loud. vm_compute. split; reflexivity. Qed.

Theorem lock_first_poisons :
  exists ids hp, wf_hprog_b hp = true /\ hstorage_of (hrun LockFirst ids hp) = None /\
                 is_deadlock (hrun LockFirst ids hp) = false /\
                 exists r st, hrun LockFirst ids hp = HOk (r, st, LPoisoned).
Proof.
  exists [1; 2], hw_bomb. vm_compute. repeat split. eexists. eexists. reflexivity.
Qed.

(** the same witnesses under [RenderFirst] (instances of the main theorem, evaluated) *)
Example render_first_on_loud :
  wf_hprog_b hw_loud = true /\
  hstorage_of (hrun RenderFirst [1; 2] hw_loud) = storage_of (layer_run (fun _ => true) [1; 2] (flatten hw_loud)) /\
  p_ops (flatten hw_loud)
  = [ (0, ONewSpan 0 PKCtx []); (0, OEvent 1 PKCtx [(0, Some (PStr "from a Debug impl"))]);
      (0, ORecord 0 [(0, Some (PDebug "loud"))]) ]%nat /\
  match hstorage_of (hrun RenderFirst [1; 2] hw_loud) with
  | Some st => map (fun s => spl_values (sp_payload s)) (st_spans st) = [[("approx", VObj "loud")]] /\
               map (fun e => (ev_parent_id e, epl_values (ev_payload e))) (st_events st)
               = [(None, [("message", VStr "from a Debug impl")])]
  | None => False
  end.
Proof. vm_compute. repeat split. Qed.

Example render_first_on_bomb :
  wf_hprog_b hw_bomb = true /\
  hstorage_of (hrun RenderFirst [1; 2] hw_bomb) = storage_of (layer_run (fun _ => true) [1; 2] (flatten hw_bomb)) /\
  p_ops (flatten hw_bomb)
  = [ (0, ONewSpan 0 PKCtx []); (0, OEvent 1 PKCtx [(0, Some (PStr "after the panic"))]) ]%nat /\
  match hstorage_of (hrun RenderFirst [1; 2] hw_bomb) with
  | Some st => map (fun s => spl_values (sp_payload s)) (st_spans st) = [[]] /\
               List.length (st_events st) = 1%nat
  | None => False
  end.
Proof. vm_compute. repeat split. Qed.

(** depth: a loud value inside an inner event is inert (the guard is set); a bomb inside an inner
    event takes the inner event and the outer record with it, the events emitted before stay; a loud
    event value is inert; a span creation with a loud attribute *)
Definition hw_deep : hprog :=
  mk_hprog ex_sites
    [ mk_hop 0 (ONewSpan 0 PKCtx [(1, Some (PDebug "attr"))])
               [ELoud [HEv 1 PKRoot [(0, Some (PStr "while the attributes are rendered"))] []]];
      mk_hop 0 (OEnter 0) [];
      mk_hop 0 (ORecord 0 [(0, Some (PDebug "nested"))])
               [ELoud [HEv 1 PKCtx [(0, Some (PStr "outer"))]
                           [ELoud [HEv 1 PKCtx [(0, Some (PStr "never delivered"))] [EBomb]];
                            ELoud []]]];
      mk_hop 0 (ORecord 0 [(0, Some (PDebug "lost")); (1, Some (PDebug "lost too"))])
               [ELoud [HEv 1 PKCtx [(0, Some (PStr "kept"))] []];
                ELoud [HEv 1 PKCtx [(0, Some (PStr "inner bomb"))] [EBomb];
                       HEv 1 PKCtx [(0, Some (PStr "not reached"))] []]];
      mk_hop 0 (OEvent 1 PKCtx [(0, Some (PDebug "loud event value"))])
               [ELoud [HEv 1 PKCtx [(0, Some (PStr "dropped by the guard"))] []]];
      mk_hop 0 (OEvent 1 PKCtx [(0, Some (PDebug "bomb in an event"))]) [ELoud []; EBomb];
      mk_hop 0 (OExit 0) [];
      mk_hop 0 (ODrop 0) [] ]%nat.

Example render_first_on_deep :
  wf_hprog_b hw_deep = true /\
  p_ops (flatten hw_deep)
  = [ (0, OEvent 1 PKRoot [(0, Some (PStr "while the attributes are rendered"))]);
      (0, ONewSpan 0 PKCtx [(1, Some (PDebug "attr"))]);
      (0, OEnter 0);
      (0, OEvent 1 PKCtx [(0, Some (PStr "outer"))]);
      (0, ORecord 0 [(0, Some (PDebug "nested"))]);
      (0, OEvent 1 PKCtx [(0, Some (PStr "kept"))]);
      (0, OEvent 1 PKCtx [(0, Some (PDebug "loud event value"))]);
      (0, OExit 0);
      (0, ODrop 0) ]%nat /\
  hstorage_of (hrun RenderFirst [1] hw_deep) = Some (spec_storage (fun _ => true) [1] (flatten hw_deep)) /\
  hrun LockFirst [1] hw_deep = HDeadlock /\
  match hstorage_of (hrun RenderFirst [1] hw_deep) with
  | Some st => map (fun s => (spl_values (sp_payload s), spl_closed (sp_payload s))) (st_spans st)
               = [([("iter", VObj "attr"); ("approx", VObj "nested")], true)] /\
               map (fun e => ev_parent_id e) (st_events st) = [None; Some 0; Some 0; Some 0]
  | None => False
  end.
Proof. vm_compute. repeat split. Qed.
