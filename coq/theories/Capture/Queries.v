(** Model of the read-only query API of a captured [Storage]:
    [capture/src/lib.rs] ([CapturedSpan::{parent, ancestors, children, descendants,
    descendant_events, events, follows_from}], [CapturedEvent::{parent, ancestors}], [PartialEq] and
    [PartialOrd] of both), [capture/src/layer.rs] ([Storage::{all_spans, root_spans, all_events,
    root_events}]) and [capture/src/iter.rs] ([CapturedSpans], [CapturedEvents], [DescendantSpans],
    [DescendantEvents]).  Definitions only.

    A captured item ([CapturedSpan] / [CapturedEvent]: a reference into the arena plus a reference
    to the storage) is represented by its arena position; turning an id into an item is
    [Storage::span(id)] = [&self.spans[id]], which panics on a missing id.  Every such lookup of the
    code is a [span_at] / [event_at] here, so a dangling id shows up as [Panic]. *)
From TT Require Export Capture.Storage.

Section Queries.
Context {SP EP : Type}.
Implicit Type st : storage SP EP.

(** [Storage::span], [Storage::event] *)
Definition span_at st (i : N) : outcome (span_rec SP) :=
  match get_span st i with Some r => Done r | None => Panic end.
Definition event_at st (i : N) : outcome (event_rec EP) :=
  match get_event st i with Some r => Done r | None => Panic end.

(** * [CapturedSpans] / [CapturedEvents]: iterators over an id slice or over the whole arena

    State of the iterator = the ids not yet yielded (for the arena variant: the arena positions,
    which [id_arena::Iter] enumerates without any lookup).  [resolve] is the lookup done on each
    yielded id ([span_at] / [event_at] for the slice variant, nothing for the arena variant). *)
Definition it_next (resolve : N -> outcome unit) (it : list N) : outcome (option (N * list N)) :=
  match it with
  | [] => Done None
  | i :: r => do _ <- resolve i; Done (Some (i, r))
  end.
Definition it_next_back (resolve : N -> outcome unit) (it : list N) : outcome (option (N * list N)) :=
  match rev it with
  | [] => Done None
  | i :: r => do _ <- resolve i; Done (Some (i, rev r))
  end.
(** [ExactSizeIterator::len] *)
Definition it_len (it : list N) : N := N.of_nat (List.length it).

(** draining an iterator: [true] = take with [next], [false] = take with [next_back]; the iterator
    is drained following the given pattern; every take removes one id, so one call more than
    the number of ids left suffices and [OutOfFuel] cannot occur with that fuel *)
Fixpoint it_drain (resolve : N -> outcome unit) (fuel : nat) (front : nat -> bool) (k : nat)
         (it : list N) : outcome (list N) :=
  match fuel with
  | O => OutOfFuel
  | S f =>
      do x <- (if front k then it_next resolve it else it_next_back resolve it);
      match x with
      | None => Done []
      | Some (i, it') => do l <- it_drain resolve f front (S k) it'; Done (i :: l)
      end
  end.
Definition it_collect resolve (it : list N) := it_drain resolve (S (List.length it)) (fun _ => true) O it.
Definition it_collect_back resolve (it : list N) := it_drain resolve (S (List.length it)) (fun _ => false) O it.

Definition resolve_span st (i : N) : outcome unit := do _ <- span_at st i; Done tt.
Definition resolve_event st (i : N) : outcome unit := do _ <- event_at st i; Done tt.
Definition resolve_arena (i : N) : outcome unit := Done tt.

(** positions [0 .. n-1] *)
Definition iota (n : nat) : list N := map N.of_nat (seq 0 n).

(** [Storage::all_spans], [root_spans], [all_events], [root_events]: the iterators returned
    ([.._it], no lookup happens before the first [next]) and their collected items *)
Definition all_spans_it st : list N := iota (List.length (st_spans st)).
Definition all_events_it st : list N := iota (List.length (st_events st)).
Definition root_spans_it st : list N := st_root_span_ids st.
Definition root_events_it st : list N := st_root_event_ids st.
Definition all_spans st := it_collect resolve_arena (all_spans_it st).
Definition all_events st := it_collect resolve_arena (all_events_it st).
Definition root_spans st := it_collect (resolve_span st) (root_spans_it st).
Definition root_events st := it_collect (resolve_event st) (root_events_it st).

(** * [CapturedSpan] queries; [s] is the position of an existing span *)

(** [parent]: [self.inner.parent_id.map(|id| self.storage.span(id))] *)
Definition parent st (s : N) : outcome (option N) :=
  do r <- span_at st s;
  match sp_parent_id r with
  | None => Done None
  | Some p => do _ <- span_at st p; Done (Some p)
  end.

(** [children], [events], [follows_from]: slice iterators over the id lists of the span
    ([.._it] = the iterator returned, then its collected items) *)
Definition children_it st (s : N) : outcome (list N) := do r <- span_at st s; Done (sp_child_ids r).
Definition events_it st (s : N) : outcome (list N) := do r <- span_at st s; Done (sp_event_ids r).
Definition follows_from_it st (s : N) : outcome (list N) :=
  do r <- span_at st s; Done (sp_follows_from_ids r).
Definition children st (s : N) : outcome (list N) :=
  do it <- children_it st s; it_collect (resolve_span st) it.
Definition events st (s : N) : outcome (list N) :=
  do it <- events_it st s; it_collect (resolve_event st) it.
Definition follows_from st (s : N) : outcome (list N) :=
  do it <- follows_from_it st s; it_collect (resolve_span st) it.

(** [ancestors]: [iter::successors(self.parent(), CapturedSpan::parent)], collected.  The Rust
    iterator has no bound; the model runs it with fuel and reports exhaustion as [OutOfFuel]. *)
Fixpoint successors (fuel : nat) st (cur : option N) : outcome (list N) :=
  match cur with
  | None => Done []
  | Some p =>
      match fuel with
      | O => OutOfFuel
      | S f => do next <- parent st p; do l <- successors f st next; Done (p :: l)
      end
  end.
Definition ancestors st (s : N) : outcome (list N) :=
  do first <- parent st s; successors (List.length (st_spans st)) st first.

(** [DescendantSpans]: a stack of id slices.  The Rust [Vec] grows at its end; here the head of the
    list is the top of the stack ([self.layers.last_mut()]).  One call of [next()]: *)
Fixpoint desc_next st (layers : list (list N)) : outcome (option N * list (list N)) :=
  match layers with
  | [] => Done (None, [])                                   (* let last_layer = self.layers.last_mut()?; *)
  | last_layer :: rest =>
      match last_layer with
      | head :: tail =>                                     (* if let Some((&head, tail)) = last_layer.split_first() *)
          do span <- span_at st head;                       (*   let span = self.storage.span(head); *)
          let layers1 := tail :: rest in                    (*   *last_layer = tail; *)
          let layers2 :=
            match sp_child_ids span with
            | [] => layers1                                 (*   if !span.inner.child_ids.is_empty() { *)
            | _ :: _ => sp_child_ids span :: layers1        (*     self.layers.push(&span.inner.child_ids); } *)
            end in
          Done (Some head, layers2)                         (*   break Some(span); *)
      | [] => desc_next st rest                             (* self.layers.pop(); and loop *)
      end
  end.

(** collecting the iterator: calls of [next()] until it answers [None]; fuel bounds the number of calls *)
Fixpoint desc_drain (fuel : nat) st (layers : list (list N)) : outcome (list N) :=
  match fuel with
  | O => OutOfFuel
  | S f =>
      do x <- desc_next st layers;
      match x with
      | (None, _) => Done []
      | (Some d, layers') => do l <- desc_drain f st layers'; Done (d :: l)
      end
  end.

(** [descendants]: [DescendantSpans::new(self)] starts with the single layer [child_ids] (pushed
    even when empty); fuel = number of captured spans. *)
Definition descendants st (s : N) : outcome (list N) :=
  do r <- span_at st s; desc_drain (List.length (st_spans st)) st [sp_child_ids r].

(** [descendant_events]: [self.descendants().flat_map(|span| span.events())] *)
Fixpoint flat_events st (ds : list N) : outcome (list N) :=
  match ds with
  | [] => Done []
  | d :: r => do es <- events st d; do l <- flat_events st r; Done (es ++ l)
  end.
Definition descendant_events st (s : N) : outcome (list N) :=
  do ds <- descendants st s; flat_events st ds.

(** * [CapturedEvent] queries *)
Definition event_parent st (e : N) : outcome (option N) :=
  do r <- event_at st e;
  match ev_parent_id r with
  | None => Done None
  | Some p => do _ <- span_at st p; Done (Some p)
  end.
Definition event_ancestors st (e : N) : outcome (list N) :=
  do first <- event_parent st e; successors (List.length (st_spans st)) st first.

(** * Equality and order of items

    [PartialEq] / [PartialOrd] read the storage reference (compared as a pointer) and the [id]
    field stored in the arena entry.  A storage's address is represented by a tag. *)
Definition item_key : Type := N * N.          (* (storage tag, stored id) *)
Definition span_key st (tag : N) (s : N) : outcome item_key := do r <- span_at st s; Done (tag, sp_id r).
Definition event_key st (tag : N) (e : N) : outcome item_key := do r <- event_at st e; Done (tag, ev_id r).
End Queries.

(** [eq]: [ptr::eq(self.storage, other.storage) && self.inner.id == other.inner.id] *)
Definition key_eq (a b : item_key) : bool := (fst a =? fst b) && (snd a =? snd b).
(** [partial_cmp]: [if ptr::eq(..) { Some(self.inner.id.cmp(&other.inner.id)) } else { None }] *)
Definition key_cmp (a b : item_key) : option comparison :=
  if fst a =? fst b then Some (snd a ?= snd b) else None.
