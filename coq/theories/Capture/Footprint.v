(** What the program did to a span, counted: the enter and exit counters of the specification's
    forest are the numbers of enter / exit operations on that span in the execution, whoever issued
    them and in whatever order. *)
From TT Require Export Capture.SoloProofs.

Definition is_enter (k : nat) (o : nat * Program.op) : bool :=
  match snd o with OEnter j => Nat.eqb j k | _ => false end.
Definition is_exit (k : nat) (o : nat * Program.op) : bool :=
  match snd o with OExit j => Nat.eqb j k | _ => false end.
Definition count_ops (P : nat * Program.op -> bool) (ops : list (nat * Program.op)) : N :=
  N.of_nat (List.length (List.filter P ops)).

Section Footprint.
  Variable f : cs_data -> bool.
  Variable sites : list cs_data.
  Variable ids : list N.
  Notation step := (spec_step f sites ids).

  Definition ent (a : astate) (k : nat) : N := match nth_error (a_spans a) k with Some x => as_entered x | None => 0 end.
  Definition exi (a : astate) (k : nat) : N := match nth_error (a_spans a) k with Some x => as_exited x | None => 0 end.

  (** one operation: a counter moves by one exactly on an enter / exit of that span, provided the span
      exists; a new span starts at zero *)
  Lemma step_counters a o k :
    (forall j, snd o = OEnter j \/ snd o = OExit j -> (j < List.length (a_spans a))%nat) ->
    ent (step a o) k = ent a k + (if is_enter k o then 1 else 0) /\
    exi (step a o) k = exi a k + (if is_exit k o then 1 else 0).
  Proof.
    intros Hex. destruct o as [tid op]. unfold ent, exi, is_enter, is_exit, spec_step. cbn [fst snd] in *.
    destruct op as [cs pk vals | j vals | j | j | j | j | j tg | cs pk vals]; cbn [a_spans].
    - destruct (nth_error sites cs) as [meta|]; cbn [a_spans]; [|split; lia].
      destruct (Nat.lt_ge_cases k (List.length (a_spans a))) as [H|H].
      + rewrite nth_error_app1 by exact H. split; lia.
      + assert (E : nth_error (a_spans a) k = None) by (apply nth_error_None; lia). rewrite E.
        rewrite nth_error_app2 by lia. destruct (k - List.length (a_spans a))%nat as [|n]; cbn; [split; lia|].
        destruct n; cbn; split; lia.
    - rewrite upd_span_nth. destruct (Nat.eqb k j); [|split; lia].
      destruct (nth_error (a_spans a) k); cbn; split; lia.
    - specialize (Hex j (or_introl eq_refl)). rewrite upd_span_nth, (Nat.eqb_sym j k).
      destruct (Nat.eqb_spec k j) as [->|]; [|split; lia].
      destruct (nth_error (a_spans a) j) eqn:E; [cbn; split; lia|]. apply nth_error_None in E. lia.
    - specialize (Hex j (or_intror eq_refl)). rewrite upd_span_nth, (Nat.eqb_sym j k).
      destruct (Nat.eqb_spec k j) as [->|]; [|split; lia].
      destruct (nth_error (a_spans a) j) eqn:E; [cbn; split; lia|]. apply nth_error_None in E. lia.
    - split; lia.
    - split; lia.
    - destruct (follow_target_of a tg) as [t0|]; [|cbn [a_spans]; split; lia].
      destruct (_ && _); cbn [a_spans]; [|split; lia].
      rewrite upd_span_nth. destruct (Nat.eqb k j); [|split; lia].
      destruct (nth_error (a_spans a) k); cbn; split; lia.
    - destruct (nth_error sites cs) as [meta|]; [|split; lia]. destruct (f meta); cbn [a_spans]; split; lia.
  Qed.

  Lemma count_ops_cons P o ops : count_ops P (o :: ops) = (if P o then 1 else 0) + count_ops P ops.
  Proof. unfold count_ops. cbn [List.filter]. destruct (P o); cbn [List.length]; lia. Qed.

  Lemma run_counters b : forall ops a sym' k,
    n_spans (a_sym a) = List.length (a_spans a) ->
    wf_steps b sites (a_sym a) ops = Some sym' ->
    ent (fold_left step ops a) k = ent a k + count_ops (is_enter k) ops /\
    exi (fold_left step ops a) k = exi a k + count_ops (is_exit k) ops.
  Proof.
    induction ops as [|o ops IH]; intros a sym' k Hn Hwf.
    - cbn. unfold count_ops. cbn. split; lia.
    - cbn [wf_steps] in Hwf. destruct (wf_step b sites (a_sym a) o) as [s1|] eqn:E1; [|discriminate].
      destruct (spec_step_wf f sites b ids a o s1 E1) as [S1 L1]. specialize (L1 Hn).
      cbn [fold_left]. rewrite !count_ops_cons.
      destruct (IH (step a o) sym' k) as [A B]; [rewrite S1; exact L1 | rewrite S1; exact Hwf|].
      destruct (step_counters a o k) as [C D].
      { intros j Hj. rewrite <- Hn. destruct o as [tid op]. unfold wf_step in E1. cbn [fst snd] in *.
        destruct Hj as [-> | ->].
        - destruct (live (a_sym a) j) eqn:El; [|discriminate]. apply handles_pos_lt, live_pos. exact El.
        - destruct (live (a_sym a) j) eqn:El; [|discriminate]. apply handles_pos_lt, live_pos. exact El. }
      rewrite A, B, C, D. split; lia.
  Qed.
End Footprint.

(** each span's enter and exit counts equal what the program did, for every execution the API permits,
    whatever the threads and their interleaving *)
Theorem counters_are_counts f ids p k x :
  wf_prog_stale p ->
  nth_error (a_spans (spec_run f ids p)) k = Some x ->
  as_entered x = count_ops (is_enter k) (p_ops p) /\ as_exited x = count_ops (is_exit k) (p_ops p).
Proof.
  intros Hwf Hx. unfold wf_prog_stale, wf_prog_stale_b, wf_prog_gen_b in Hwf. apply andb_true_iff in Hwf as [_ Hwf].
  unfold sym_run in Hwf. destruct (wf_steps true (p_sites p) sym_init (p_ops p)) as [s|] eqn:E; [|discriminate].
  destruct (run_counters f (p_sites p) ids true (p_ops p) a_init s k eq_refl E) as [A B].
  unfold spec_run in Hx. unfold ent, exi in A, B. rewrite Hx in A, B. cbn in A, B.
  destruct k; cbn in A, B; split; lia.
Qed.

(** the counts do not depend on the order of the operations: any two executions with the same
    operations per thread (e.g. two schedules) agree *)
Lemma count_ops_app P a b : count_ops P (a ++ b) = count_ops P a + count_ops P b.
Proof. unfold count_ops. rewrite filter_app, app_length. lia. Qed.

Lemma count_ops_perm P a b : Permutation.Permutation a b -> count_ops P a = count_ops P b.
Proof.
  intros H. unfold count_ops. f_equal. induction H; cbn.
  - reflexivity.
  - destruct (P x); cbn; lia.
  - destruct (P x), (P y); cbn; lia.
  - lia.
Qed.
