(** Hostile renderings: field values whose [Debug] impl emits tracing events of its own, or panics,
    while the capture layer renders it ([TracedValues::from_record / from_event / from_values] run
    foreign [Debug] code), and the capture layer's lock discipline at the level of lock acquisitions.
    Definitions only (the proofs are in [Capture/HostileProofs.v]).

    [capture/src/layer.rs]: [on_record], [on_event] and [on_new_span] render the values AFTER the
    filter / [captured_id] test and BEFORE [self.lock()] (the storage's write lock); the other
    callbacks take the lock only once [captured_id] has answered.  Discipline [RenderFirst] is that
    code; [LockFirst] is the historical defect F10, [self.lock().on_record(id,
    TracedValues::from_record(values))]: the values are rendered while the write lock is held.

    Modelling assumptions (environment, tracing-core 0.1.33 [dispatcher.rs], tracing 0.1 [span.rs]):
    - an [Event] is dispatched through the thread's default dispatcher ([dispatcher::get_default]),
      which marks the thread as "inside the default dispatcher" for the duration of the call; an
      event emitted by a [Debug] impl while that mark is set goes to [Dispatch::none()]: it is NOT
      delivered and its values are NOT rendered;
    - [Span::record] and the creation of a span through an explicit dispatcher handle
      ([Span::new_with]) call the subscriber directly and do not set the mark;
    - [std::sync::RwLock]: [write()] on a lock the same thread already holds for writing never returns
      (deadlock); a panic while the write guard is alive poisons the lock, and [write().expect(..)]
      on a poisoned lock panics;
    - the guest catches a panic at the top-level operation ([catch_unwind] around the operation) and
      goes on with its next operation.
    One capture layer, capturing everything ([filter := fun _ => true], key [layer_key0]), one
    thread. *)
From TT Require Export Capture.Layer.

(** * Hostile programs *)

(** what rendering one misbehaving [Debug] value does, in rendering order *)
Inductive heff :=
| ELoud (evs : list hev)       (* emits these events, in order, then renders its text normally *)
| EBomb                        (* panics *)
with hev := HEv (cs : nat) (pk : parent_kind) (vals : valset) (effs : list heff).

(** [h_op] carries the ordinary value set, in which the misbehaving values are ordinary [PDebug]
    objects with their text; [h_effs] lists the effects of rendering them, in rendering order. *)
Record hop := mk_hop { h_tid : nat; h_op : Program.op; h_effs : list heff }.
Record hprog := mk_hprog { hp_sites : list cs_data; hp_ops : list hop }.

(** the program with every value quiet *)
Definition quiet_op (h : hop) : nat * Program.op := (h_tid h, h_op h).
Definition quiet (hp : hprog) : prog := mk_prog (hp_sites hp) (map quiet_op (hp_ops hp)).

Definition is_bomb (e : heff) : bool := match e with EBomb => true | ELoud _ => false end.
Definition has_bomb (effs : list heff) : bool := existsb is_bomb effs.
Definition op_is_event (o : Program.op) : bool := match o with OEvent _ _ _ => true | _ => false end.

(** the operations whose callback renders values *)
Definition renders (o : Program.op) : bool :=
  match o with ORecord _ _ | OEvent _ _ _ | ONewSpan _ _ _ => true | _ => false end.
Definition op_effs (h : hop) : list heff := if renders (h_op h) then h_effs h else [].

(** ** Well-formedness *)

(** no [EBomb] at any depth *)
Fixpoint bomb_free_eff (e : heff) : bool :=
  match e with
  | EBomb => false
  | ELoud evs => forallb bomb_free_ev evs
  end
with bomb_free_ev (ev : hev) : bool :=
  match ev with HEv _ _ _ effs => forallb bomb_free_eff effs end.

(** an inner event, at any depth: an event call site of the pool with a value set that fits it;
    contextual or an explicit root (a [Debug] impl has no [Span] handle of the guest) *)
Definition inner_parent_ok (pk : parent_kind) : bool :=
  match pk with PKCtx | PKRoot => true | PKExplicit _ => false end.

Fixpoint wf_heff_b (sites : list cs_data) (e : heff) : bool :=
  match e with
  | EBomb => true
  | ELoud evs => forallb (wf_hev_b sites) evs
  end
with wf_hev_b (sites : list cs_data) (ev : hev) : bool :=
  match ev with
  | HEv cs pk vals effs =>
      wf_site_use sites KEvent cs vals && inner_parent_ok pk && forallb (wf_heff_b sites) effs
  end.

(** effects only on records, events and contextual span creations; a span creation does not panic
    (the Registry would leak the half-built span; out of scope) *)
Definition wf_hop_b (sites : list cs_data) (h : hop) : bool :=
  forallb (wf_heff_b sites) (h_effs h)
  && match h_op h with
     | ORecord _ _ | OEvent _ _ _ => true
     | ONewSpan _ PKCtx _ => forallb bomb_free_eff (h_effs h)
     | _ => match h_effs h with [] => true | _ :: _ => false end
     end.

Definition wf_hprog_b (hp : hprog) : bool :=
  wf_prog_b (quiet hp) && single_threaded (quiet hp) && forallb (wf_hop_b (hp_sites hp)) (hp_ops hp).

(** * The lock-level machine *)
Inductive discipline := RenderFirst | LockFirst.
Inductive lockstate := LFree | LPoisoned.

Definition hstate : Type := reg * cstorage * lockstate.

(** [HUnwound s]: a panic left the callback, in state [s]; [HDeadlock]: the thread tried to take the
    write lock while it holds it; [HErr]: the underlying model failed ([RStuck] / [RNoFuel] /
    [RPanic]; excluded for well-formed programs by the theorems). *)
Inductive hresult := HOk (s : hstate) | HUnwound (s : hstate) | HDeadlock | HErr.

Definition hbind (x : hresult) (k : hstate -> hresult) : hresult :=
  match x with HOk s => k s | other => other end.

Section Seq.
  Context {A : Type}.
  Variable f : A -> hstate -> hresult.
  (** left to right, stopping at the first outcome other than [HOk] *)
  Fixpoint hseq (l : list A) (s : hstate) : hresult :=
    match l with
    | [] => HOk s
    | x :: rest => hbind (f x s) (hseq rest)
    end.
End Seq.

Definition poison (s : hstate) : hstate := let '(r, st, _) := s in (r, st, LPoisoned).

(** does the callback reach [self.lock()]?  (filter constantly true: [on_new_span] and [on_event]
    always do; the others after [captured_id]) *)
Definition is_captured (o : option rspan) : bool :=
  match o with
  | Some s => match captured_id layer_key0 s with Some _ => true | None => false end
  | None => false
  end.
Definition touches (r : reg) (cb : lcallback) : bool :=
  match cb with
  | CbNewSpan _ _ _ | CbEvent _ _ _ => true
  | CbRecord id _ | CbEnter id | CbExit id | CbClose id => is_captured (ctx_span r id)
  | CbFollows id t =>
      is_captured (ctx_span r id)
      && match resolve_target r t with Some fid => is_captured (reg_get r fid) | None => false end
  end.

(** the callback's code apart from rendering and locking *)
Definition apply_cb (tid : nat) (cb : lcallback) (s : hstate) : hresult :=
  let '(r, st, lk) := s in
  match layer_step (fun _ => true) layer_key0 r tid cb st with
  | ROk (r', st') => HOk (r', st', lk)
  | _ => HErr
  end.

(** [self.storage.write().expect(..)]; [held]: this thread holds the write lock *)
Definition acquire (held : bool) (s : hstate) (k : hstate -> hresult) : hresult :=
  if held then HDeadlock
  else match snd s with
       | LPoisoned => HUnwound s
       | LFree => k s
       end.

Section Machine.
  Variable d : discipline.
  Variable sites : list cs_data.
  Variable tid : nat.

  (** one callback of the capture layer; [render held']: rendering of its values when the lock is
      held or not; the guard is dropped (lock released) when the callback returns, so the lock state
      after a completed callback is the one before it *)
  Definition layer_cb (render : bool -> hstate -> hresult) (held : bool) (cb : lcallback) (s : hstate)
    : hresult :=
    if negb (touches (fst (fst s)) cb) then apply_cb tid cb s
    else match d with
         | RenderFirst => hbind (render held s) (fun s1 => acquire held s1 (apply_cb tid cb))
         | LockFirst => acquire held s (fun s1 => hbind (render true s1) (apply_cb tid cb))
         end.

  (** rendering one misbehaving value.  [guard]: a default-dispatcher call is in progress *)
  Fixpoint render_eff (e : heff) (guard held : bool) (s : hstate) {struct e} : hresult :=
    match e with
    | EBomb => HUnwound (if held then poison s else s)
    | ELoud evs => if guard then HOk s else hseq (fun ev => deliver_ev ev held) evs s
    end
  (** [Event::dispatch] of an inner event: reaches the layer's [on_event], under the guard *)
  with deliver_ev (ev : hev) (held : bool) (s : hstate) {struct ev} : hresult :=
    match ev with
    | HEv cs pk vals effs =>
        match nth_error sites cs with
        | None => HErr
        | Some meta =>
            layer_cb (fun held' => hseq (fun e => render_eff e true held') effs) held
                     (CbEvent meta pk vals) s
        end
    end.

  Definition render_effs (guard : bool) (effs : list heff) (held : bool) : hstate -> hresult :=
    hseq (fun e => render_eff e guard held) effs.

  (** a callback with values *)
  Definition value_cb (guard : bool) (effs : list heff) (cb : lcallback) (s : hstate) : hresult :=
    layer_cb (render_effs guard effs) false cb s.
End Machine.

(** operations without values, lock free: the callbacks take and release the lock *)
Definition plain_free (sites : list cs_data) (ids : list N) (r : reg) (st : cstorage) (o : nat * Program.op)
  : hresult :=
  match sub_step (layer_step (fun _ => true) layer_key0) sites ids (r, st) o with
  | ROk (r', st') => HOk (r', st', LFree)
  | _ => HErr
  end.

(** .. lock poisoned: the first callback that reaches [self.lock()] panics; the Registry keeps what
    it did before ([snap]: its state at that point) *)
Definition poisoned_deliver (r : reg) (tid : nat) (cb : lcallback) (snap : option reg)
  : result (reg * option reg) :=
  match snap with
  | Some _ => ROk (r, snap)
  | None => if touches r cb then ROk (r, Some r) else ROk (r, None)
  end.
Definition plain_poisoned (sites : list cs_data) (ids : list N) (r : reg) (st : cstorage) (o : nat * Program.op)
  : hresult :=
  match sub_step poisoned_deliver sites ids (r, None) o with
  | ROk (_, Some r0) => HUnwound (r0, st, LPoisoned)
  | ROk (r', None) => HOk (r', st, LPoisoned)
  | _ => HErr
  end.

(** one operation of the guest: the Registry part as in [sub_step], then the layer *)
Definition hop_step (d : discipline) (sites : list cs_data) (ids : list N) (s : hstate) (h : hop)
  : hresult :=
  let '(r, st, lk) := s in
  let tid := h_tid h in
  match h_op h with
  | ONewSpan cs pk vals =>
      match nth_error sites cs with
      | None => HErr
      | Some meta =>
          match reg_new_span r tid meta pk (raw_of ids (reg_next r)) with
          | ROk (r1, id) =>
              value_cb d sites tid false (h_effs h) (CbNewSpan id meta vals) (r1, st, lk)
          | _ => HErr
          end
      end
  | ORecord k vals => value_cb d sites tid false (h_effs h) (CbRecord k vals) s
  | OEvent cs pk vals =>
      match nth_error sites cs with
      | None => HErr
      | Some meta => value_cb d sites tid true (h_effs h) (CbEvent meta pk vals) s
      end
  | o => match lk with
         | LFree => plain_free sites ids r st (tid, o)
         | LPoisoned => plain_poisoned sites ids r st (tid, o)
         end
  end.

(** the guest catches a panic at the operation and goes on *)
Fixpoint hop_steps (d : discipline) (sites : list cs_data) (ids : list N) (s : hstate) (ops : list hop)
  : hresult :=
  match ops with
  | [] => HOk s
  | h :: rest =>
      match hop_step d sites ids s h with
      | HOk s' | HUnwound s' => hop_steps d sites ids s' rest
      | HDeadlock => HDeadlock
      | HErr => HErr
      end
  end.

Definition hrun (d : discipline) (ids : list N) (hp : hprog) : hresult :=
  hop_steps d (hp_sites hp) ids (reg_init, empty_storage, LFree) (hp_ops hp).

(** what the test reads afterwards through [SharedStorage::lock()]: nothing if the guest hangs or the
    lock is poisoned *)
Definition hstorage_of (x : hresult) : option cstorage :=
  match x with HOk (_, st, LFree) => Some st | _ => None end.

(** * The quiet program a hostile one must be captured as *)

(** the inner events of one loud value, delivered outside the guard: each is captured unless
    rendering ITS values panics (an [EBomb] among its effects; its loud values are inert under the
    guard), which unwinds through the inner and the outer callback.  [(emitted, bombed)] *)
Fixpoint flat_evs (tid : nat) (evs : list hev) : list (nat * Program.op) * bool :=
  match evs with
  | [] => ([], false)
  | HEv cs pk vals effs :: rest =>
      if has_bomb effs then ([], true)
      else let '(l, b) := flat_evs tid rest in ((tid, OEvent cs pk vals) :: l, b)
  end.

Fixpoint flat_effs (tid : nat) (g : bool) (effs : list heff) : list (nat * Program.op) * bool :=
  match effs with
  | [] => ([], false)
  | EBomb :: _ => ([], true)
  | ELoud evs :: rest =>
      if g then flat_effs tid g rest
      else let '(l, b) := flat_evs tid evs in
           if b then (l, true)
           else let '(l', b') := flat_effs tid g rest in (l ++ l', b')
  end.

(** the emitted inner events, then the operation itself unless its callback was left by a panic *)
Definition flatten_op (h : hop) : list (nat * Program.op) :=
  let '(l, b) := flat_effs (h_tid h) (op_is_event (h_op h)) (op_effs h) in
  if b then l else l ++ [quiet_op h].

Definition flatten (hp : hprog) : prog := mk_prog (hp_sites hp) (flat_map flatten_op (hp_ops hp)).
