(** Proofs for C19: several threads emitting into one capture layer.

    Part 1: whatever the program (well-formed or not, any thread assignment), if the run of the
            subscriber completes, the storage it leaves is [reachable] by valid storage mutations;
            hence it satisfies [storage_wf] and every structural law of C17.
    Part 2: thread-locality of the span stacks; the forest of the specification in terms of what
            each thread emitted.
    Part 3: schedules. *)
From TT Require Export Capture.Concurrent Capture.LayerProofs.
From TT Require Import Capture.Queries Capture.QueriesProofs.

(** * Part 1: the storage of every completed run is reachable *)

Lemma rbind_ok' {A B} (X : result A) (k : A -> result B) b :
  rbind X k = ROk b -> exists a, X = ROk a /\ k a = ROk b.
Proof. destruct X; cbn; try discriminate. eauto. Qed.

Lemma of_outcome_ok {A} (o : outcome A) a : of_outcome o = ROk a -> o = Done a.
Proof. destruct o; cbn; congruence. Qed.

(** the extension entries of the Registry's spans only ever come from spans that were there *)
Definition ext_sub (r r' : reg) : Prop :=
  forall k s', reg_get r' k = Some s' ->
    rs_ext s' = [] \/ exists s, reg_get r k = Some s /\ rs_ext s' = rs_ext s.

Lemma ext_sub_refl r : ext_sub r r.
Proof. intros k s H. right. eauto. Qed.
Lemma ext_sub_trans r1 r2 r3 : ext_sub r1 r2 -> ext_sub r2 r3 -> ext_sub r1 r3.
Proof.
  intros A B k s3 H3. destruct (B k s3 H3) as [E | (s2 & H2 & E)]; [left; exact E|].
  destruct (A k s2 H2) as [E2 | (s1 & H1 & E1)]; [left; congruence|]. right. exists s1. split; congruence.
Qed.
Lemma ext_sub_stacks r stacks : ext_sub r (mk_reg (rg_spans r) stacks).
Proof. intros k s H. right. exists s. split; [exact H | reflexivity]. Qed.
Lemma ext_sub_refs r k s n : reg_get r k = Some s -> ext_sub r (reg_set r k (with_refs s n)).
Proof.
  intros Hs j s' Hj. rewrite (reg_get_set_present _ _ _ _ _ Hs) in Hj.
  destruct (Nat.eqb_spec j k) as [->|].
  - injection Hj as <-. right. exists s. split; [exact Hs | reflexivity].
  - right. eauto.
Qed.
Lemma ext_sub_remove r k : ext_sub r (reg_remove r k).
Proof.
  intros j s' Hj. rewrite reg_get_remove in Hj. destruct (Nat.eqb j k); [discriminate|]. right. eauto.
Qed.

Lemma clone_ext_sub r k r1 : reg_clone_span r k = ROk r1 -> ext_sub r r1.
Proof.
  unfold reg_clone_span. destruct (reg_get r k) as [s|] eqn:Es; [|discriminate].
  destruct (rs_refs s =? 0); [discriminate|]. intros E. injection E as <-. apply ext_sub_refs. exact Es.
Qed.

Lemma new_span_ext_sub r tid meta pk raw r1 id :
  reg_new_span r tid meta pk raw = ROk (r1, id) -> ext_sub r r1.
Proof.
  unfold reg_new_span. intros E. apply rbind_ok' in E as ([r0 par] & E0 & E1).
  injection E1 as <- <-.
  assert (H0 : ext_sub r r0).
  { destruct pk as [| |j].
    - destruct (reg_current_span r tid) as [c|].
      + apply rbind_ok' in E0 as (r' & Ec & E'). injection E' as <- <-. eapply clone_ext_sub; eauto.
      + injection E0 as <- <-. apply ext_sub_refl.
    - injection E0 as <- <-. apply ext_sub_refl.
    - apply rbind_ok' in E0 as (r' & Ec & E'). injection E' as <- <-. eapply clone_ext_sub; eauto. }
  eapply ext_sub_trans; [exact H0|].
  intros k s' Hk. change (mk_reg (rg_spans r0 ++ [Some (mk_rspan meta raw par 1 [])]) (rg_stacks r0))
    with (reg_app r0 (mk_rspan meta raw par 1 [])) in Hk.
  rewrite reg_get_app in Hk. destruct (Nat.eqb k (reg_next r0)).
  - injection Hk as <-. left. reflexivity.
  - right. eauto.
Qed.

Lemma enter_ext_sub r tid k r1 : reg_enter r tid k = ROk r1 -> ext_sub r r1.
Proof.
  unfold reg_enter. destruct (stack_push (rstack_of (rg_stacks r) tid) k) as [s' fresh].
  destruct fresh.
  - intros E. eapply ext_sub_trans; [apply (ext_sub_stacks r (rset_stack (rg_stacks r) tid s'))|].
    eapply clone_ext_sub; eauto.
  - intros E. injection E as <-. apply ext_sub_stacks.
Qed.

Lemma exit_pop_ext_sub r tid k : ext_sub r (fst (reg_exit_pop r tid k)).
Proof.
  unfold reg_exit_pop. destruct (stack_pop (rstack_of (rg_stacks r) tid) k) as [s' fresh]. cbn.
  apply ext_sub_stacks.
Qed.

Lemma try_close_ext_sub r k r1 b : reg_try_close r k = ROk (r1, b) -> ext_sub r r1.
Proof.
  unfold reg_try_close. destruct (reg_get r k) as [s|] eqn:Es; [|discriminate].
  intros E. injection E as <- _. apply ext_sub_refs. exact Es.
Qed.

Section Reach.
  Variable f : cs_data -> bool.
  Variable key : N.

  (** every captured id stored in an extension is an id of the storage *)
  Definition eb (r : reg) (st : cstorage) : Prop :=
    forall k s c, reg_get r k = Some s -> ext_find key (rs_ext s) = Some c -> c < nspans st.
  Definition good (x : reg * cstorage) : Prop := reachable (snd x) /\ eb (fst x) (snd x).

  Lemma eb_sub r r' st : eb r st -> ext_sub r r' -> eb r' st.
  Proof.
    intros H Hs k s' c Hk Hc. destruct (Hs k s' Hk) as [E | (s & Hs0 & E)].
    - rewrite E in Hc. discriminate.
    - rewrite E in Hc. eapply H; eauto.
  Qed.
  Lemma eb_mono r st st' : eb r st -> nspans st <= nspans st' -> eb r st'.
  Proof. intros H Hle k s c Hk Hc. specialize (H k s c Hk Hc). lia. Qed.

  Lemma scope_find_bounded r st scope c :
    eb r st -> scope_find r key scope = Some c -> c < nspans st.
  Proof.
    intros H. induction scope as [|id t IH]; cbn [scope_find]; [discriminate|].
    destruct (reg_get r id) as [s|] eqn:Es; [|exact IH].
    unfold captured_id. destruct (ext_find key (rs_ext s)) as [c'|] eqn:Ec; [|exact IH].
    intros E. injection E as <-. eapply H; eauto.
  Qed.

  Lemma update_good r st c g st1 :
    good (r, st) -> c < nspans st -> of_outcome (on_span_update st c g) = ROk st1 -> good (r, st1).
  Proof.
    intros [HR HE] Hc E. cbn [fst snd] in *. apply of_outcome_ok in E.
    assert (Hid : id_ok st c = true) by (unfold id_ok; apply N.ltb_lt; exact Hc).
    destruct (on_span_update_effect st c g Hid) as (st0 & E0 & _ & _ & _ & Hn & _).
    rewrite E0 in E. injection E as <-. split; cbn [fst snd].
    - eapply reach_step with (o := OpSpanUpdate c g); [exact HR | exact Hid | exact E0].
    - eapply eb_mono; [exact HE | lia].
  Qed.

  Lemma payload_cb_good r st id (g : rspan -> span_payload -> span_payload) (site : panic_site) r1 st1 :
    good (r, st) ->
    match ctx_span r id with
    | None => RPanic site
    | Some s =>
        match captured_id key s with
        | Some c => let* st1 := of_outcome (on_span_update st c (g s)) in ROk (r, st1)
        | None => ROk (r, st)
        end
    end = ROk (r1, st1) -> good (r1, st1).
  Proof.
    intros G. unfold ctx_span. destruct (reg_get r id) as [s|] eqn:Es; [|discriminate].
    unfold captured_id. destruct (ext_find key (rs_ext s)) as [c|] eqn:Ec.
    - intros E. apply rbind_ok' in E as (st' & E1 & E2). injection E2 as <- <-.
      eapply update_good; eauto. destruct G as [_ HE]. eapply HE; eauto.
    - intros E. injection E as <- <-. exact G.
  Qed.

  Lemma layer_step_good r tid cb st r1 st1 :
    good (r, st) -> layer_step f key r tid cb st = ROk (r1, st1) -> good (r1, st1).
  Proof.
    intros G E. pose proof G as [HR HE]. cbn [fst snd] in HR, HE.
    destruct cb as [id meta vals | id vals | id | id | id | id t | meta pk vals]; cbn [layer_step] in E.
    - (* new span *)
      destruct (f meta); cbn [negb] in E; [|injection E as <- <-; exact G].
      apply rbind_ok' in E as ([st' aid] & E1 & E2). apply of_outcome_ok in E1.
      set (par := match ctx_span_scope r id with Some scope => scope_find r key scope | None => None end) in *.
      assert (Hpar : opt_id_ok st par = true).
      { unfold par. destruct (ctx_span_scope r id) as [scope|]; [|reflexivity].
        destruct (scope_find r key scope) as [c|] eqn:Ec; [|reflexivity].
        cbn. unfold id_ok. apply N.ltb_lt. eapply scope_find_bounded; eauto. }
      destruct (push_span_effect st (mk_spl meta (from_value_set (cs_fields meta) vals) 0 0 false) par Hpar)
        as (st0 & E0 & _ & _ & _ & Hn & _).
      rewrite E0 in E1. injection E1 as <- <-.
      assert (HR' : reachable st0).
      { eapply reach_step with (o := OpPushSpan (mk_spl meta (from_value_set (cs_fields meta) vals) 0 0 false) par);
          [exact HR | exact Hpar |]. cbn [step]. rewrite E0. reflexivity. }
      unfold ctx_span in E2. destruct (reg_get r id) as [s|] eqn:Es; [|discriminate].
      injection E2 as <- <-. split; cbn [fst snd]; [exact HR'|].
      intros k s' c Hk Hc. unfold reg_set_ext in Hk. rewrite Es in Hk.
      rewrite (reg_get_set_present _ _ _ _ _ Es) in Hk. destruct (Nat.eqb_spec k id) as [->|Hne].
      + injection Hk as <-. cbn [rs_ext with_ext] in Hc. rewrite ext_find_app in Hc.
        destruct (ext_find key (rs_ext s)) as [x|] eqn:Ex.
        * injection Hc as <-. specialize (HE id s x Es Ex). lia.
        * destruct (key =? key); [|discriminate]. injection Hc as <-. lia.
      + specialize (HE k s' c Hk Hc). lia.
    - eapply (payload_cb_good r st id (fun s => pl_record (from_value_set (cs_fields (rs_meta s)) vals))); eauto.
    - eapply (payload_cb_good r st id (fun _ => pl_enter)); eauto.
    - eapply (payload_cb_good r st id (fun _ => pl_exit)); eauto.
    - eapply (payload_cb_good r st id (fun _ => pl_close)); eauto.
    - (* follows-from *)
      unfold ctx_span in E. destruct (reg_get r id) as [s|] eqn:Es.
      2:{ destruct (resolve_target r t); injection E as <- <-; exact G. }
      destruct (resolve_target r t) as [fid|]; [|injection E as <- <-; exact G].
      destruct (reg_get r fid) as [fs|] eqn:Efs; [|injection E as <- <-; exact G].
      unfold captured_id in E.
      destruct (ext_find key (rs_ext s)) as [c|] eqn:Ec; [|injection E as <- <-; exact G].
      destruct (ext_find key (rs_ext fs)) as [fc|] eqn:Efc; [|injection E as <- <-; exact G].
      apply rbind_ok' in E as (st' & E1 & E2). injection E2 as <- <-. apply of_outcome_ok in E1.
      assert (H1 : id_ok st c = true) by (unfold id_ok; apply N.ltb_lt; exact (HE id s c Es Ec)).
      assert (H2 : id_ok st fc = true) by (unfold id_ok; apply N.ltb_lt; exact (HE fid fs fc Efs Efc)).
      destruct (on_follows_from_effect st c fc H1) as (st0 & E0 & _ & _ & _ & Hn & _).
      rewrite E0 in E1. injection E1 as <-. split; cbn [fst snd].
      + eapply reach_step with (o := OpFollowsFrom c fc); [exact HR | | exact E0].
        cbn [op_valid]. rewrite H1, H2. reflexivity.
      + eapply eb_mono; [exact HE | lia].
    - (* event *)
      destruct (f meta); cbn [negb] in E; [|injection E as <- <-; exact G].
      apply rbind_ok' in E as ([st' eid] & E1 & E2). injection E2 as <- <-. apply of_outcome_ok in E1.
      set (par := match ctx_event_scope r tid pk with Some scope => scope_find r key scope | None => None end) in *.
      assert (Hpar : opt_id_ok st par = true).
      { unfold par. destruct (ctx_event_scope r tid pk) as [scope|]; [|reflexivity].
        destruct (scope_find r key scope) as [c|] eqn:Ec; [|reflexivity].
        cbn. unfold id_ok. apply N.ltb_lt. eapply scope_find_bounded; eauto. }
      destruct (push_event_effect st (mk_epl meta (from_value_set (cs_fields meta) vals)) par Hpar)
        as (st0 & E0 & _ & _ & _ & Hn & _).
      rewrite E0 in E1. injection E1 as <- <-. split; cbn [fst snd].
      + eapply reach_step with (o := OpPushEvent (mk_epl meta (from_value_set (cs_fields meta) vals)) par);
          [exact HR | exact Hpar |]. cbn [step]. rewrite E0. reflexivity.
      + eapply eb_mono; [exact HE | lia].
  Qed.

  Lemma good_sub r r' st : good (r, st) -> ext_sub r r' -> good (r', st).
  Proof. intros [A B] H. split; [exact A | eapply eb_sub; eauto]. Qed.

  Notation deliver := (layer_step f key).

  Lemma try_close_good : forall fuel r st tid id r1 st1,
    good (r, st) -> sub_try_close deliver fuel r st tid id = ROk (r1, st1) -> good (r1, st1).
  Proof.
    induction fuel as [|fuel IH]; intros r st tid id r1 st1 G E; cbn [sub_try_close] in E; [discriminate|].
    apply rbind_ok' in E as ([r0 closing] & E0 & E).
    pose proof (good_sub _ _ _ G (try_close_ext_sub _ _ _ _ E0)) as G0.
    destruct closing; [|injection E as <- <-; exact G0].
    apply rbind_ok' in E as ([r2 st2] & E2 & E).
    pose proof (layer_step_good _ _ _ _ _ _ G0 E2) as G2.
    destruct (reg_get r2 id) as [s|]; [|injection E as <- <-; exact G2].
    pose proof (good_sub _ _ _ G2 (ext_sub_remove r2 id)) as G3.
    destruct (rs_parent s) as [p|]; [|injection E as <- <-; exact G3].
    eapply IH; eauto.
  Qed.

  Lemma sub_step_good sites ids x o y :
    good x -> sub_step deliver sites ids x o = ROk y -> good y.
  Proof.
    destruct x as [r st], y as [r1 st1], o as [tid op]. intros G E. unfold sub_step in E. cbn [fst snd] in E.
    destruct op as [cs pk vals | k vals | k | k | k | k | k t | cs pk vals].
    - destruct (nth_error sites cs) as [meta|]; [|discriminate].
      apply rbind_ok' in E as ([r0 id] & E0 & E).
      eapply layer_step_good; [|exact E]. eapply good_sub; [exact G|]. eapply new_span_ext_sub; eauto.
    - eapply layer_step_good; eauto.
    - apply rbind_ok' in E as (r0 & E0 & E).
      eapply layer_step_good; [|exact E]. eapply good_sub; [exact G|]. eapply enter_ext_sub; eauto.
    - pose proof (exit_pop_ext_sub r tid k) as Hp.
      destruct (reg_exit_pop r tid k) as [r0 fresh]. cbn [fst] in Hp.
      pose proof (good_sub _ _ _ G Hp) as G0.
      apply rbind_ok' in E as ([r2 st2] & E2 & E).
      eapply layer_step_good; [|exact E].
      destruct fresh; [eapply try_close_good; eauto | injection E2 as <- <-; exact G0].
    - apply rbind_ok' in E as (r0 & E0 & E). injection E as <- <-.
      eapply good_sub; [exact G|]. eapply clone_ext_sub; eauto.
    - eapply try_close_good; eauto.
    - eapply layer_step_good; eauto.
    - destruct (nth_error sites cs) as [meta|]; [|discriminate]. eapply layer_step_good; eauto.
  Qed.

  Lemma sub_steps_good sites ids : forall ops x y,
    good x -> sub_steps deliver sites ids x ops = ROk y -> good y.
  Proof.
    induction ops as [|o ops IH]; intros x y G E; cbn [sub_steps] in E.
    - injection E as <-. exact G.
    - apply rbind_ok' in E as (x' & E1 & E2). eapply IH; [|exact E2]. eapply sub_step_good; eauto.
  Qed.

  Lemma good_init : good (reg_init, empty_storage).
  Proof.
    split; cbn [fst snd]; [apply reach_empty|]. intros k s c H. unfold reg_get, reg_init in H. cbn in H.
    destruct k; discriminate.
  Qed.

  (** for EVERY program - well-formed or not - and every id assignment *)
  Theorem completed_run_reachable ids p r st :
    sub_run deliver ids p empty_storage = ROk (r, st) -> reachable st.
  Proof. intros E. exact (proj1 (sub_steps_good _ _ _ _ _ good_init E)). Qed.
End Reach.

Theorem layer_run_reachable f ids p r st : layer_run f ids p = ROk (r, st) -> reachable st.
Proof. apply completed_run_reachable. Qed.

(** with the refinement theorem: the storage the specification prescribes is reachable, for every
    execution the API permits *)
Theorem spec_storage_reachable f ids p : wf_prog_stale p -> reachable (spec_storage f ids p).
Proof.
  intros Hwf. destruct (capture_refines_spec_key f layer_key0 ids p Hwf) as [r E].
  eapply completed_run_reachable. exact E.
Qed.

(** * Part 2: what each thread contributes *)

Lemma thread_ops_cons t tid o ops :
  thread_ops t ((tid, o) :: ops) = if Nat.eqb tid t then o :: thread_ops t ops else thread_ops t ops.
Proof. unfold thread_ops. cbn [List.filter fst]. destruct (Nat.eqb tid t); reflexivity. Qed.

Lemma thread_ops_app t a b : thread_ops t (a ++ b) = thread_ops t a ++ thread_ops t b.
Proof. unfold thread_ops. rewrite filter_app, map_app. reflexivity. Qed.

Lemma run_stack_app s a b : run_stack s (a ++ b) = run_stack (run_stack s a) b.
Proof.
  revert s; induction a as [|o a IH]; intros s; [reflexivity|].
  destruct o; cbn [app run_stack]; apply IH.
Qed.

(** the stacks of the specification's bookkeeping after one op *)
Lemma spec_step_stacks f sites ids a o :
  ss_stacks (a_sym (spec_step f sites ids a o)) = ss_stacks (sym_next (a_sym a) o).
Proof.
  destruct o as [tid op]. unfold spec_step. cbn [fst snd].
  destruct op as [cs pk vals | k vals | k | k | k | k | k t | cs pk vals]; cbn [sym_next snd fst]; try reflexivity.
  - destruct (nth_error sites cs); reflexivity.
  - destruct (follow_target_of a t) as [j|]; [|reflexivity].
    destruct (a_open a k && captured f (a_spans a) k && captured f (a_spans a) j); reflexivity.
  - destruct (nth_error sites cs); [|reflexivity]. destruct (f _); reflexivity.
Qed.

(** thread-locality: the stack of thread [t] after an execution is the stack its own enter / exit
    operations produce, whatever the other threads did in between *)
Lemma stack_own_from f sites ids t : forall ops a,
  stack_of (ss_stacks (a_sym (fold_left (spec_step f sites ids) ops a))) t
  = run_stack (stack_of (ss_stacks (a_sym a)) t) (thread_ops t ops).
Proof.
  induction ops as [|[tid o] ops IH]; intros a; [reflexivity|].
  cbn [fold_left]. rewrite IH, spec_step_stacks, thread_ops_cons.
  destruct (Nat.eqb_spec tid t) as [->|Hne].
  - destruct o; cbn [sym_next fst snd ss_stacks run_stack]; try reflexivity;
      rewrite stack_of_set, Nat.eqb_refl; reflexivity.
  - destruct o; cbn [sym_next fst snd ss_stacks]; try reflexivity;
      rewrite stack_of_set; destruct (Nat.eqb_spec t tid); try congruence; reflexivity.
Qed.

Theorem stack_own f sites ids t ops :
  stack_of (ss_stacks (a_sym (fold_left (spec_step f sites ids) ops a_init))) t = own_stack t ops.
Proof. rewrite stack_own_from. reflexivity. Qed.

(** and the same for the symbolic state of the well-formedness check *)
Lemma sym_next_of_wf_step b sites sym o sym' : wf_step b sites sym o = Some sym' -> sym' = sym_next sym o.
Proof.
  destruct o as [tid op]. unfold wf_step, sym_next. cbn [fst snd].
  destruct op as [cs pk vals | k vals | k | k | k | k | k t | cs pk vals].
  - destruct (_ && _); [|discriminate]. congruence.
  - destruct (span_site sym k); [|discriminate]. destruct (_ && _); [|discriminate]. congruence.
  - destruct (live sym k); [|discriminate]. congruence.
  - destruct (_ && _); [|discriminate]. congruence.
  - destruct (live sym k); [|discriminate]. congruence.
  - destruct (_ && _); [|discriminate]. congruence.
  - destruct (_ && _); [|discriminate]. congruence.
  - destruct (_ && _); [|discriminate]. congruence.
Qed.

(** ** the forest in terms of the emitted items *)

Lemma emitted_from_app sites : forall l pos l',
  emitted_from sites pos (l ++ l')
  = (fst (emitted_from sites pos l) ++ fst (emitted_from sites (pos + List.length l) l'),
     snd (emitted_from sites pos l) ++ snd (emitted_from sites (pos + List.length l) l')).
Proof.
  induction l as [|[t o] l IH]; intros pos l'.
  - cbn [app emitted_from List.length fst snd]. rewrite Nat.add_0_r. destruct (emitted_from sites pos l'); reflexivity.
  - cbn [app emitted_from List.length]. rewrite (IH (S pos) l').
    replace (S pos + List.length l)%nat with (pos + S (List.length l))%nat by lia.
    destruct (emitted_from sites (S pos) l) as [ss es]. cbn [fst snd].
    destruct (emitted_from sites (pos + S (List.length l)) l') as [ss' es']. cbn [fst snd].
    destruct o; try reflexivity; destruct (nth_error sites cs); reflexivity.
Qed.

Lemma emitted_pos_ge sites : forall l pos e,
  In e (fst (emitted_from sites pos l)) \/ In e (snd (emitted_from sites pos l)) ->
  (pos <= em_pos e < pos + List.length l)%nat.
Proof.
  induction l as [|[t o] l IH]; intros pos e H.
  - cbn in H. tauto.
  - cbn [emitted_from List.length] in H |- *. specialize (IH (S pos) e).
    destruct (emitted_from sites (S pos) l) as [ss es]. cbn [fst snd] in *.
    assert (Hrec : In e ss \/ In e es -> (pos <= em_pos e < pos + S (List.length l))%nat) by (intros X; specialize (IH X); lia).
    destruct o; try (apply Hrec; exact H); destruct (nth_error sites cs); cbn [fst snd In] in H; try (apply Hrec; exact H).
    + destruct H as [[<-|H]|H]; [cbn; lia | apply Hrec; auto | apply Hrec; auto].
    + destruct H as [H|[<-|H]]; [apply Hrec; auto | cbn; lia | apply Hrec; auto].
Qed.

(** the logical parent of an item only looks at the execution before it *)
Definition em_lparent_ops (ops : list (nat * Program.op)) (e : emitted) : option nat :=
  match em_pk e with
  | PKRoot => None
  | PKExplicit k => Some k
  | PKCtx => spec_current (own_stack (em_tid e) (firstn (em_pos e) ops))
  end.

Lemma em_lparent_prefix ops more e :
  (em_pos e <= List.length ops)%nat -> em_lparent_ops (ops ++ more) e = em_lparent_ops ops e.
Proof.
  intros H. unfold em_lparent_ops. destruct (em_pk e); try reflexivity.
  rewrite firstn_app. replace (em_pos e - List.length ops)%nat with O by lia.
  cbn [firstn]. rewrite app_nil_r. reflexivity.
Qed.

Definition skel_of (ops : list (nat * Program.op)) (l : list emitted) : list (cs_data * option nat) :=
  map (fun e => (em_meta e, em_lparent_ops ops e)) l.
Definition evs_of (ops : list (nat * Program.op)) (l : list emitted) : list (cs_data * option nat * tvalues) :=
  map (fun e => (em_meta e, em_lparent_ops ops e, from_value_set (cs_fields (em_meta e)) (em_vals e))) l.
Definition aevs (l : list aevent) : list (cs_data * option nat * tvalues) :=
  map (fun e => (ae_meta e, ae_lparent e, ae_values e)) l.

Lemma skel_of_prefix ops more l :
  (forall e, In e l -> (em_pos e <= List.length ops)%nat) -> skel_of (ops ++ more) l = skel_of ops l.
Proof.
  intros H. unfold skel_of. apply map_ext_in. intros e He. rewrite em_lparent_prefix; auto.
Qed.
Lemma evs_of_prefix ops more l :
  (forall e, In e l -> (em_pos e <= List.length ops)%nat) -> evs_of (ops ++ more) l = evs_of ops l.
Proof.
  intros H. unfold evs_of. apply map_ext_in. intros e He. rewrite em_lparent_prefix; auto.
Qed.

Section Forest.
  Variable f : cs_data -> bool.
  Variable sites : list cs_data.
  Variable ids : list N.
  Notation run ops := (fold_left (spec_step f sites ids) ops a_init).
  Notation ems ops := (emitted_from sites 0 ops).

  (** one more operation at the end of an execution *)
  Lemma spec_step_skel a tid o :
    skel (a_spans (spec_step f sites ids a (tid, o))) =
    skel (a_spans a) ++
      match o with
      | ONewSpan cs pk vals =>
          match nth_error sites cs with
          | Some meta => [(meta, logical_parent (a_sym a) tid pk)]
          | None => []
          end
      | _ => []
      end.
  Proof.
    unfold spec_step. cbn [fst snd].
    destruct o as [cs pk vals | k vals | k | k | k | k | k t | cs pk vals]; cbn [a_spans].
    - destruct (nth_error sites cs); cbn [a_spans]; [|rewrite app_nil_r; reflexivity].
      unfold skel. rewrite map_app. reflexivity.
    - rewrite app_nil_r. apply upd_span_skel. intros s. split; reflexivity.
    - rewrite app_nil_r. apply upd_span_skel. intros s. split; reflexivity.
    - rewrite app_nil_r. apply upd_span_skel. intros s. split; reflexivity.
    - rewrite app_nil_r. reflexivity.
    - rewrite app_nil_r. reflexivity.
    - rewrite app_nil_r. destruct (follow_target_of a t) as [j|]; [|reflexivity].
      destruct (_ && _); [|reflexivity]. cbn [a_spans]. apply upd_span_skel. intros s. split; reflexivity.
    - rewrite app_nil_r. destruct (nth_error sites cs); [|reflexivity]. destruct (f _); reflexivity.
  Qed.

  Lemma spec_step_events a tid o :
    aevs (a_events (spec_step f sites ids a (tid, o))) =
    aevs (a_events a) ++
      match o with
      | OEvent cs pk vals =>
          match nth_error sites cs with
          | Some meta => if f meta then [(meta, logical_parent (a_sym a) tid pk, from_value_set (cs_fields meta) vals)]
                         else []
          | None => []
          end
      | _ => []
      end.
  Proof.
    unfold spec_step. cbn [fst snd].
    destruct o as [cs pk vals | k vals | k | k | k | k | k t | cs pk vals]; cbn [a_events];
      try (rewrite app_nil_r; reflexivity).
    - destruct (nth_error sites cs); cbn [a_events]; rewrite app_nil_r; reflexivity.
    - rewrite app_nil_r. destruct (follow_target_of a t) as [j|]; [|reflexivity].
      destruct (_ && _); reflexivity.
    - destruct (nth_error sites cs); [|rewrite app_nil_r; reflexivity].
      destruct (f c); cbn [a_events]; [|rewrite app_nil_r; reflexivity].
      unfold aevs. rewrite map_app. reflexivity.
  Qed.

  (** spans: creation index = position among the emitted spans; metadata and logical parent are the
      emitted ones.  Events: the enabled ones, in emission order, with their values. *)
  Theorem forest_is_emitted : forall ops,
    skel (a_spans (run ops)) = skel_of ops (fst (ems ops)) /\
    aevs (a_events (run ops)) = evs_of ops (List.filter (fun e => f (em_meta e)) (snd (ems ops))).
  Proof.
    induction ops as [|[tid o] ops IH] using rev_ind; [split; reflexivity|].
    destruct IH as [IHs IHe].
    rewrite fold_left_app. cbn [fold_left]. rewrite spec_step_skel, spec_step_events, IHs, IHe.
    rewrite emitted_from_app. cbn [fst snd Nat.add].
    assert (Hpos : forall e, In e (fst (ems ops)) \/ In e (snd (ems ops)) -> (em_pos e <= List.length ops)%nat).
    { intros e He. apply emitted_pos_ge in He. lia. }
    rewrite filter_app. unfold skel_of at 2, evs_of at 2. rewrite !map_app.
    fold (skel_of (ops ++ [(tid, o)]) (fst (ems ops))).
    fold (evs_of (ops ++ [(tid, o)]) (List.filter (fun e => f (em_meta e)) (snd (ems ops)))).
    rewrite skel_of_prefix by (intros e He; apply Hpos; auto).
    rewrite evs_of_prefix by (intros e He; apply filter_In in He as [He _]; apply Hpos; auto).
    split; f_equal.
    - destruct o as [cs pk vals | | | | | | | cs pk vals]; cbn [emitted_from fst snd map]; try reflexivity.
      + destruct (nth_error sites cs) as [meta|]; cbn [fst map]; [|reflexivity].
        unfold em_lparent_ops, logical_parent. cbn [em_pk em_tid em_pos em_meta].
        destruct pk; try reflexivity.
        rewrite stack_own, firstn_app, firstn_all, Nat.sub_diag. cbn [firstn]. rewrite app_nil_r. reflexivity.
      + destruct (nth_error sites cs); reflexivity.
    - destruct o as [cs pk vals | | | | | | | cs pk vals]; cbn [emitted_from fst snd map List.filter]; try reflexivity.
      + destruct (nth_error sites cs); reflexivity.
      + destruct (nth_error sites cs) as [meta|]; cbn [snd List.filter em_meta map]; [|reflexivity].
        destruct (f meta); cbn [map]; [|reflexivity].
        unfold em_lparent_ops, logical_parent. cbn [em_pk em_tid em_pos em_meta em_vals].
        destruct pk; try reflexivity.
        rewrite stack_own, firstn_app, firstn_all, Nat.sub_diag. cbn [firstn]. rewrite app_nil_r. reflexivity.
  Qed.
End Forest.

(** ** the storage in terms of the emitted items *)

Lemma map_filter_comm {A B} (g : A -> B) (P : B -> bool) l :
  map g (List.filter (fun x => P (g x)) l) = List.filter P (map g l).
Proof. induction l as [|x l IH]; cbn; [reflexivity|]. destruct (P (g x)); cbn; rewrite IH; reflexivity. Qed.

Lemma filter_filter_comm {A} (P Q : A -> bool) l :
  List.filter P (List.filter Q l) = List.filter Q (List.filter P l).
Proof.
  induction l as [|x l IH]; cbn; [reflexivity|].
  destruct (Q x) eqn:EQ, (P x) eqn:EP; cbn; rewrite ?EQ, ?EP, IH; reflexivity.
Qed.

Lemma skel_metas spans : map as_meta spans = map fst (skel spans).
Proof. unfold skel. rewrite map_map. reflexivity. Qed.

Lemma skel_of_metas ops l : map fst (skel_of ops l) = map em_meta l.
Proof. unfold skel_of. rewrite map_map. reflexivity. Qed.

Section Storage.
  Variable f : cs_data -> bool.
  Variable ids : list N.
  Variable p : prog.
  Let A := spec_run f ids p.
  Let st := spec_storage f ids p.

  Lemma forest_spans : skel (a_spans A) = skel_of (p_ops p) (emitted_spans p).
  Proof. exact (proj1 (forest_is_emitted f (p_sites p) ids (p_ops p))). Qed.
  Lemma forest_events :
    aevs (a_events A) = evs_of (p_ops p) (List.filter (fun e => f (em_meta e)) (emitted_events p)).
  Proof. exact (proj2 (forest_is_emitted f (p_sites p) ids (p_ops p))). Qed.

  (** every span whose metadata the filter enables is captured exactly once, in emission order *)
  Theorem storage_spans_emitted :
    map (fun r => spl_meta (sp_payload r)) (st_spans st) = List.filter f (map em_meta (emitted_spans p)).
  Proof.
    unfold st, spec_storage, build. cbn [st_spans]. fold A. rewrite map_map. cbn [build_span sp_payload spl_meta].
    rewrite <- (map_map snd as_meta), (map_filter_comm snd (fun s => f (as_meta s))), map_snd_indexed.
    rewrite (map_filter_comm as_meta f), skel_metas, forest_spans, skel_of_metas. reflexivity.
  Qed.

  (** every enabled event is captured exactly once, in emission order, with its values *)
  Theorem storage_events_emitted :
    map (fun e => (epl_meta (ev_payload e), epl_values (ev_payload e))) (st_events st)
    = map (fun e => (em_meta e, from_value_set (cs_fields (em_meta e)) (em_vals e)))
          (List.filter (fun e => f (em_meta e)) (emitted_events p)).
  Proof.
    unfold st, spec_storage, build. cbn [st_events]. fold A. rewrite map_map. cbn [build_event ev_payload epl_meta epl_values].
    rewrite <- (map_map snd (fun e => (ae_meta e, ae_values e))), map_snd_indexed.
    transitivity (map (fun x : cs_data * option nat * tvalues => (fst (fst x), snd x)) (aevs (a_events A))).
    { unfold aevs. rewrite map_map. reflexivity. }
    rewrite forest_events. unfold evs_of. rewrite map_map. reflexivity.
  Qed.

  (** where a captured span is attached: the nearest enabled span on the chain of logical parents
      that starts at the parent its own thread's stack (or its explicit parent) dictates *)
  Theorem storage_span_parent k e :
    nth_error (emitted_spans p) k = Some e -> f (em_meta e) = true ->
    exists r, get_span st (cap_rank f (a_spans A) k) = Some r /\
      spl_meta (sp_payload r) = em_meta e /\
      sp_parent_id r = option_map (cap_rank f (a_spans A)) (attach f (a_spans A) (em_lparent_ops (p_ops p) e)).
  Proof.
    intros Hk Hf.
    assert (Hs : exists s, nth_error (a_spans A) k = Some s /\ as_meta s = em_meta e /\
                           as_lparent s = em_lparent_ops (p_ops p) e).
    { pose proof forest_spans as H. apply (f_equal (fun l => nth_error l k)) in H.
      unfold skel, skel_of in H. rewrite !nth_error_map, Hk in H. cbn in H.
      destruct (nth_error (a_spans A) k) as [s|]; [|discriminate]. cbn in H. injection H as H1 H2. eauto. }
    destruct Hs as (s & Es & Hm & Hl).
    exists (build_span f (fun j => negb (a_open A j)) A (k, s)). split; [|split].
    - unfold st, spec_storage. fold A. apply build_get_rank; [exact Es | rewrite Hm; exact Hf].
    - cbn. exact Hm.
    - cbn [build_span sp_parent_id fst snd]. unfold span_attach, lparent_of. rewrite Es, Hl. reflexivity.
  Qed.

  Theorem storage_event_parent i e :
    nth_error (List.filter (fun e => f (em_meta e)) (emitted_events p)) i = Some e ->
    exists r, get_event st (N.of_nat i) = Some r /\
      epl_meta (ev_payload r) = em_meta e /\
      ev_parent_id r = option_map (cap_rank f (a_spans A)) (attach f (a_spans A) (em_lparent_ops (p_ops p) e)).
  Proof.
    intros Hi.
    assert (Hs : exists x, nth_error (a_events A) i = Some x /\ ae_meta x = em_meta e /\
                           ae_lparent x = em_lparent_ops (p_ops p) e).
    { pose proof forest_events as H. apply (f_equal (fun l => nth_error l i)) in H.
      unfold aevs, evs_of in H. rewrite !nth_error_map, Hi in H. cbn in H.
      destruct (nth_error (a_events A) i) as [x|]; [|discriminate]. cbn in H. injection H as H1 H2 H3. eauto. }
    destruct Hs as (x & Ex & Hm & Hl).
    exists (build_event f A (i, x)). split; [|split].
    - unfold get_event, st, spec_storage, build. cbn [st_events]. fold A. rewrite Nat2N.id, nth_error_map.
      rewrite nth_error_indexed, Ex. reflexivity.
    - cbn. exact Hm.
    - cbn [build_event ev_parent_id fst snd]. rewrite Hl. reflexivity.
  Qed.

  (** ** per thread *)
  Lemma select_map {X Y} (g : X -> Y) owners t (l : list X) :
    map g (select owners t l) = select owners t (map g l).
  Proof.
    unfold select. revert l; induction owners as [|o owners IH]; intros [|x l]; cbn; try reflexivity.
    destruct (Nat.eqb o t); cbn; rewrite IH; reflexivity.
  Qed.

  Lemma select_owners (L : list emitted) t :
    select (map em_tid L) t (map em_meta L) = map em_meta (of_thread t L).
  Proof.
    unfold select, of_thread. induction L as [|e L IH]; cbn; [reflexivity|].
    destruct (Nat.eqb (em_tid e) t); cbn; rewrite IH; reflexivity.
  Qed.

  (** the captured spans a thread owns, in storage order, are the enabled spans it emitted, in its own
      emission order *)
  Theorem thread_spans_in_order t :
    map (fun r => spl_meta (sp_payload r)) (select (span_owners f p) t (st_spans st))
    = List.filter f (map em_meta (of_thread t (emitted_spans p))).
  Proof.
    rewrite select_map, storage_spans_emitted, <- (map_filter_comm em_meta f). unfold span_owners.
    rewrite select_owners. unfold of_thread. rewrite filter_filter_comm, (map_filter_comm em_meta f). reflexivity.
  Qed.

  Theorem thread_events_in_order t :
    map (fun e => (epl_meta (ev_payload e), epl_values (ev_payload e))) (select (event_owners f p) t (st_events st))
    = map (fun e => (em_meta e, from_value_set (cs_fields (em_meta e)) (em_vals e)))
          (List.filter (fun e => f (em_meta e)) (of_thread t (emitted_events p))).
  Proof.
    rewrite select_map, storage_events_emitted. unfold event_owners.
    set (L := List.filter (fun e => f (em_meta e)) (emitted_events p)).
    transitivity (map (fun e => (em_meta e, from_value_set (cs_fields (em_meta e)) (em_vals e))) (of_thread t L)).
    - unfold select, of_thread. induction L as [|e L IH]; cbn; [reflexivity|].
      destruct (Nat.eqb (em_tid e) t); cbn; rewrite IH; reflexivity.
    - unfold L, of_thread. rewrite filter_filter_comm. reflexivity.
  Qed.
End Storage.

(** what a thread emitted is what its own program says, in program order *)
Lemma of_thread_emits sites t : forall ops pos,
  map em_triple (of_thread t (fst (emitted_from sites pos ops))) = span_emits sites (thread_ops t ops) /\
  map em_triple (of_thread t (snd (emitted_from sites pos ops))) = event_emits sites (thread_ops t ops).
Proof.
  induction ops as [|[tid o] ops IH]; intros pos; [split; reflexivity|].
  cbn [emitted_from]. specialize (IH (S pos)). destruct (emitted_from sites (S pos) ops) as [ss es].
  cbn [fst snd] in IH. destruct IH as [IH1 IH2]. rewrite thread_ops_cons.
  destruct o as [cs pk vals | | | | | | | cs pk vals]; cbn [fst snd];
    try (destruct (Nat.eqb tid t); cbn [span_emits event_emits]; split; assumption).
  - destruct (nth_error sites cs) as [meta|] eqn:Ecs; cbn [fst snd of_thread List.filter em_tid].
    + destruct (Nat.eqb tid t); cbn [span_emits event_emits map]; rewrite ?Ecs; split; try assumption.
      f_equal. exact IH1.
    + destruct (Nat.eqb tid t); cbn [span_emits event_emits]; rewrite ?Ecs; split; assumption.
  - destruct (nth_error sites cs) as [meta|] eqn:Ecs; cbn [fst snd of_thread List.filter em_tid].
    + destruct (Nat.eqb tid t); cbn [span_emits event_emits map]; rewrite ?Ecs; split; try assumption.
      f_equal. exact IH2.
    + destruct (Nat.eqb tid t); cbn [span_emits event_emits]; rewrite ?Ecs; split; assumption.
Qed.

Theorem thread_emits_own_program p t :
  map em_triple (of_thread t (emitted_spans p)) = span_emits (p_sites p) (thread_ops t (p_ops p)) /\
  map em_triple (of_thread t (emitted_events p)) = event_emits (p_sites p) (thread_ops t (p_ops p)).
Proof. apply of_thread_emits. Qed.

(** * Part 3: schedules *)

Lemma nth_error_set_at {X} (l : list X) i x j :
  nth_error (set_at l i x) j = if Nat.eqb j i then (match nth_error l j with Some _ => Some x | None => None end)
                               else nth_error l j.
Proof.
  revert i j; induction l as [|h l IH]; intros [|i] [|j]; cbn; try reflexivity.
  - destruct (Nat.eqb j i); reflexivity.
  - apply IH.
Qed.

Lemma nth_of_nth_error {X} (l : list X) i d : nth i l d = match nth_error l i with Some x => x | None => d end.
Proof. revert i; induction l as [|h l IH]; intros [|i]; cbn; auto. Qed.

(** every thread's operations occur in the execution in that thread's program order: the execution
    restricted to a thread, followed by what the schedule left of its program, is its program *)
Theorem thread_ops_interleave t : forall sch ps,
  thread_ops t (interleave ps sch) ++ nth t (remaining ps sch) [] = nth t ps [].
Proof.
  induction sch as [|t' sch IH]; intros ps; cbn [interleave remaining]; [reflexivity|].
  destruct (nth_error ps t') as [[|o rest]|] eqn:E; try apply IH.
  rewrite thread_ops_cons. specialize (IH (set_at ps t' rest)).
  rewrite (nth_of_nth_error (set_at ps t' rest)), nth_error_set_at in IH.
  destruct (Nat.eqb_spec t' t) as [->|Hne].
  - rewrite Nat.eqb_refl, E in IH. cbn [app]. rewrite IH, nth_of_nth_error, E. reflexivity.
  - destruct (Nat.eqb_spec t t'); [congruence|]. rewrite IH, <- nth_of_nth_error. reflexivity.
Qed.

Corollary thread_ops_complete t ps sch :
  complete ps sch -> thread_ops t (interleave ps sch) = nth t ps [].
Proof.
  intros H. rewrite <- (thread_ops_interleave t sch ps).
  assert (E : nth t (remaining ps sch) [] = []).
  { unfold complete in H. rewrite Forall_forall in H. destruct (nth_in_or_default t (remaining ps sch) []) as [Hin | Hd]; [apply H; exact Hin | exact Hd]. }
  rewrite E, app_nil_r. reflexivity.
Qed.
