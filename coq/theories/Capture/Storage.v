(** Model of [capture/src/layer.rs], struct [Storage]: two arenas (captured spans, captured events)
    plus the id lists of root spans and root events, and the ONLY operations that mutate them:
    [push_span], [push_event], [on_follows_from] and the payload updates
    [on_span_enter] / [on_span_exit] / [on_span_closed] / [on_record].
    Definitions only.

    Ids are arena indices ([id_arena::Id] = position in the arena's vector, in capture order);
    the model uses [N].  Metadata, values and statistics of a span (metadata and values of an
    event) do not influence any link of the forest; they are kept as an opaque payload of an
    arbitrary type [SP] (resp. [EP]) so that the model can be instantiated by richer developments. *)
From TT Require Export Base.Prelude.
From Coq Require Export Sorted.

(** Outcome of a model step.  [Panic] stands for the Rust panics of the transcribed code
    ([Option::unwrap] on a missing arena entry, out-of-range indexing); [OutOfFuel] is the model's
    own artefact for loops that are run with fuel (never an outcome of the Rust code; the theorems
    exclude it). *)
Inductive outcome (A : Type) := Done (a : A) | Panic | OutOfFuel.
Arguments Done {A} a.
Arguments Panic {A}.
Arguments OutOfFuel {A}.

Definition bind {A B} (x : outcome A) (f : A -> outcome B) : outcome B :=
  match x with
  | Done a => f a
  | Panic => Panic
  | OutOfFuel => OutOfFuel
  end.
Notation "'do' x <- e ; k" := (bind e (fun x => k))
  (at level 200, x pattern, e at level 100, k at level 200, right associativity).

(** [CapturedSpanInner] *)
Record span_rec (SP : Type) := mk_span {
  sp_payload : SP;                    (* metadata, values, stats *)
  sp_id : N;                          (* id *)
  sp_parent_id : option N;            (* parent_id *)
  sp_child_ids : list N;              (* child_ids *)
  sp_event_ids : list N;              (* event_ids *)
  sp_follows_from_ids : list N }.     (* follows_from_ids *)
Arguments mk_span {SP}.
Arguments sp_payload {SP}.
Arguments sp_id {SP}.
Arguments sp_parent_id {SP}.
Arguments sp_child_ids {SP}.
Arguments sp_event_ids {SP}.
Arguments sp_follows_from_ids {SP}.

(** [CapturedEventInner] *)
Record event_rec (EP : Type) := mk_event {
  ev_payload : EP;                    (* metadata, values *)
  ev_id : N;                          (* id *)
  ev_parent_id : option N }.          (* parent_id *)
Arguments mk_event {EP}.
Arguments ev_payload {EP}.
Arguments ev_id {EP}.
Arguments ev_parent_id {EP}.

(** [Storage] *)
Record storage (SP EP : Type) := mk_storage {
  st_spans : list (span_rec SP);      (* spans : Arena<CapturedSpanInner> *)
  st_events : list (event_rec EP);    (* events : Arena<CapturedEventInner> *)
  st_root_span_ids : list N;          (* root_span_ids *)
  st_root_event_ids : list N }.       (* root_event_ids *)
Arguments mk_storage {SP EP}.
Arguments st_spans {SP EP}.
Arguments st_events {SP EP}.
Arguments st_root_span_ids {SP EP}.
Arguments st_root_event_ids {SP EP}.

(** [Storage::new] *)
Definition empty_storage {SP EP} : storage SP EP := mk_storage [] [] [] [].

(** arena length / [Arena::get] *)
Definition nspans {SP EP} (st : storage SP EP) : N := N.of_nat (List.length (st_spans st)).
Definition nevents {SP EP} (st : storage SP EP) : N := N.of_nat (List.length (st_events st)).
Definition get_span {SP EP} (st : storage SP EP) (i : N) : option (span_rec SP) :=
  nth_error (st_spans st) (N.to_nat i).
Definition get_event {SP EP} (st : storage SP EP) (i : N) : option (event_rec EP) :=
  nth_error (st_events st) (N.to_nat i).

(** [Arena::get_mut(i).map(f)]: update entry [i] in place; [None] if there is no such entry *)
Fixpoint modify {A} (i : nat) (f : A -> A) (l : list A) : option (list A) :=
  match l, i with
  | [], _ => None
  | x :: r, O => Some (f x :: r)
  | x :: r, S j => match modify j f r with Some r' => Some (x :: r') | None => None end
  end.

Definition add_child {SP} (r : span_rec SP) (c : N) : span_rec SP :=
  mk_span (sp_payload r) (sp_id r) (sp_parent_id r) (sp_child_ids r ++ [c]) (sp_event_ids r)
          (sp_follows_from_ids r).
Definition add_event {SP} (r : span_rec SP) (e : N) : span_rec SP :=
  mk_span (sp_payload r) (sp_id r) (sp_parent_id r) (sp_child_ids r) (sp_event_ids r ++ [e])
          (sp_follows_from_ids r).
Definition add_follows {SP} (r : span_rec SP) (t : N) : span_rec SP :=
  mk_span (sp_payload r) (sp_id r) (sp_parent_id r) (sp_child_ids r) (sp_event_ids r)
          (sp_follows_from_ids r ++ [t]).
Definition set_payload {SP} (f : SP -> SP) (r : span_rec SP) : span_rec SP :=
  mk_span (f (sp_payload r)) (sp_id r) (sp_parent_id r) (sp_child_ids r) (sp_event_ids r)
          (sp_follows_from_ids r).

(** [Storage::push_span]: the new span is allocated first (so its id is the arena length before
    the call), then the parent is looked up in the arena *that already contains the new span*
    and [unwrap]ped; without a parent the id goes to [root_span_ids]. *)
Definition push_span {SP EP} (st : storage SP EP) (payload : SP) (parent_id : option N)
  : outcome (storage SP EP * N) :=
  let span_id := nspans st in
  let spans1 := st_spans st ++ [mk_span payload span_id parent_id [] [] []] in
  match parent_id with
  | Some p =>
      match modify (N.to_nat p) (fun r => add_child r span_id) spans1 with
      | Some spans2 =>
          Done (mk_storage spans2 (st_events st) (st_root_span_ids st) (st_root_event_ids st), span_id)
      | None => Panic
      end
  | None =>
      Done (mk_storage spans1 (st_events st) (st_root_span_ids st ++ [span_id]) (st_root_event_ids st),
            span_id)
  end.

(** [Storage::push_event] *)
Definition push_event {SP EP} (st : storage SP EP) (payload : EP) (parent_id : option N)
  : outcome (storage SP EP * N) :=
  let event_id := nevents st in
  let events1 := st_events st ++ [mk_event payload event_id parent_id] in
  match parent_id with
  | Some p =>
      match modify (N.to_nat p) (fun r => add_event r event_id) (st_spans st) with
      | Some spans2 =>
          Done (mk_storage spans2 events1 (st_root_span_ids st) (st_root_event_ids st), event_id)
      | None => Panic
      end
  | None =>
      Done (mk_storage (st_spans st) events1 (st_root_span_ids st) (st_root_event_ids st ++ [event_id]),
            event_id)
  end.

(** [Storage::on_follows_from]: only [id] is looked up; [follows_id] is stored unchecked. *)
Definition on_follows_from {SP EP} (st : storage SP EP) (id follows_id : N) : outcome (storage SP EP) :=
  match modify (N.to_nat id) (fun r => add_follows r follows_id) (st_spans st) with
  | Some spans2 => Done (mk_storage spans2 (st_events st) (st_root_span_ids st) (st_root_event_ids st))
  | None => Panic
  end.

(** [on_span_enter], [on_span_exit], [on_span_closed], [on_record]: look the span up ([unwrap]) and
    change its statistics / values, i.e. the payload, by some function. *)
Definition on_span_update {SP EP} (st : storage SP EP) (id : N) (f : SP -> SP) : outcome (storage SP EP) :=
  match modify (N.to_nat id) (set_payload f) (st_spans st) with
  | Some spans2 => Done (mk_storage spans2 (st_events st) (st_root_span_ids st) (st_root_event_ids st))
  | None => Panic
  end.

(** * Mutation sequences *)
Inductive op (SP EP : Type) :=
| OpPushSpan (payload : SP) (parent_id : option N)
| OpPushEvent (payload : EP) (parent_id : option N)
| OpFollowsFrom (id follows_id : N)
| OpSpanUpdate (id : N) (f : SP -> SP).     (* enter / exit / closed / record *)
Arguments OpPushSpan {SP EP}.
Arguments OpPushEvent {SP EP}.
Arguments OpFollowsFrom {SP EP}.
Arguments OpSpanUpdate {SP EP}.

Definition step {SP EP} (st : storage SP EP) (o : op SP EP) : outcome (storage SP EP) :=
  match o with
  | OpPushSpan payload parent_id => do r <- push_span st payload parent_id; Done (fst r)
  | OpPushEvent payload parent_id => do r <- push_event st payload parent_id; Done (fst r)
  | OpFollowsFrom id follows_id => on_follows_from st id follows_id
  | OpSpanUpdate id f => on_span_update st id f
  end.

(** What the capture layer guarantees about its calls: every span id it passes was returned by an
    earlier [push_span] on the same storage (it keeps them in the spans' extensions). *)
Definition id_ok {SP EP} (st : storage SP EP) (i : N) : bool := i <? nspans st.
Definition opt_id_ok {SP EP} (st : storage SP EP) (i : option N) : bool :=
  match i with Some p => id_ok st p | None => true end.
Definition op_valid {SP EP} (st : storage SP EP) (o : op SP EP) : bool :=
  match o with
  | OpPushSpan _ parent_id => opt_id_ok st parent_id
  | OpPushEvent _ parent_id => opt_id_ok st parent_id
  | OpFollowsFrom id follows_id => id_ok st id && id_ok st follows_id
  | OpSpanUpdate id _ => id_ok st id
  end.

Fixpoint run {SP EP} (st : storage SP EP) (ops : list (op SP EP)) : outcome (storage SP EP) :=
  match ops with
  | [] => Done st
  | o :: r => do st' <- step st o; run st' r
  end.

(** every op of the sequence is valid in the state it is applied to (up to a panic, if any) *)
Fixpoint valid_ops {SP EP} (st : storage SP EP) (ops : list (op SP EP)) : bool :=
  match ops with
  | [] => true
  | o :: r => op_valid st o && match step st o with Done st' => valid_ops st' r | _ => true end
  end.

(** storages reachable from the empty one by valid mutations *)
Inductive reachable {SP EP} : storage SP EP -> Prop :=
| reach_empty : reachable empty_storage
| reach_step st o st' :
    reachable st -> op_valid st o = true -> step st o = Done st' -> reachable st'.

(** * The invariant *)
(** parent links as stored ([None] also for ids that are not in the arena) *)
Definition parent_of {SP EP} (st : storage SP EP) (s : N) : option N :=
  match get_span st s with Some r => sp_parent_id r | None => None end.
Definition ev_parent_of {SP EP} (st : storage SP EP) (e : N) : option N :=
  match get_event st e with Some r => ev_parent_id r | None => None end.
Definition is_span {SP EP} (st : storage SP EP) (s : N) : Prop := s < nspans st.
Definition is_event {SP EP} (st : storage SP EP) (e : N) : Prop := e < nevents st.

Record storage_wf {SP EP} (st : storage SP EP) : Prop := mk_wf {
  (* the stored id of an entry is its arena index *)
  wf_span_id : forall s r, get_span st s = Some r -> sp_id r = s;
  wf_event_id : forall e r, get_event st e = Some r -> ev_id r = e;
  (* parents are captured before their children *)
  wf_parent_lt : forall c p, parent_of st c = Some p -> p < c;
  (* child lists: exactly the spans whose parent link points here, in capture order *)
  wf_children : forall p r c, get_span st p = Some r ->
      (In c (sp_child_ids r) <-> parent_of st c = Some p);
  wf_children_sorted : forall p r, get_span st p = Some r -> StronglySorted N.lt (sp_child_ids r);
  (* root spans: exactly the spans without parent link, in capture order *)
  wf_roots : forall s, In s (st_root_span_ids st) <-> is_span st s /\ parent_of st s = None;
  wf_roots_sorted : StronglySorted N.lt (st_root_span_ids st);
  (* events: parent links point to spans; event lists and root events are exact and ordered *)
  wf_event_parent : forall e p, ev_parent_of st e = Some p -> is_span st p;
  wf_events : forall p r e, get_span st p = Some r ->
      (In e (sp_event_ids r) <-> ev_parent_of st e = Some p);
  wf_events_sorted : forall p r, get_span st p = Some r -> StronglySorted N.lt (sp_event_ids r);
  wf_root_events : forall e, In e (st_root_event_ids st) <-> is_event st e /\ ev_parent_of st e = None;
  wf_root_events_sorted : StronglySorted N.lt (st_root_event_ids st);
  (* follows-from targets exist *)
  wf_follows : forall s r t, get_span st s = Some r -> In t (sp_follows_from_ids r) -> is_span st t }.
