(** Non-interference, continued: the spans of a worker thread are open (not yet closed by the
    subscriber) in an execution exactly when they are open in its solo execution. *)
From TT Require Export Capture.SoloProofs.

Section Open.
  Variable t : nat.
  Variable f : cs_data -> bool.
  Variable sites : list cs_data.
  Variables idsA idsB : list N.
  Hypothesis t_not_main : t <> 0%nat.

  Notation kept := (kept t).
  Notation grank := (grank t).
  Notation allowed := (allowed t).
  Notation stepA := (spec_step f sites idsA).
  Notation stepB := (spec_step f sites idsB).

  (** what else the two executions have in common: handle counts of the spans of [t]; every
      thread's stack holds only spans that thread may name; the solo execution knows no other
      thread; parents precede their children, and the children of a span of [t] are spans of [t] *)
  Record extra (ow : list nat) (A B : astate) : Prop := mk_extra {
    ex_nA : n_spans (a_sym A) = List.length ow;
    ex_nB : n_spans (a_sym B) = grank ow (List.length ow);
    ex_handles : forall i, (i < List.length ow)%nat -> nth i ow 0%nat = t ->
        handles (a_sym A) i = handles (a_sym B) (grank ow i);
    ex_stacks : forall tid, Forall (fun r => allowed ow tid r = true) (stack_of (ss_stacks (a_sym A)) tid);
    ex_foreign : forall tid, kept tid = false -> stack_of (ss_stacks (a_sym B)) tid = [];
    ex_ndA : NoDup (map fst (ss_stacks (a_sym A)));
    ex_ndB : NoDup (map fst (ss_stacks (a_sym B)));
    ex_parents : forall c m q, nth_error (skel (a_spans A)) c = Some (m, Some q) ->
        (q < c)%nat /\ (nth q ow 0%nat = t -> nth c ow 0%nat = t) }.

  Lemma allowed_owner_t ow tid r : allowed ow tid r = true -> nth r ow 0%nat = t -> tid = t.
  Proof.
    unfold Solo.allowed. intros H Ht. rewrite (nth_of_nth_error ow) in Ht.
    destruct (nth_error ow r) as [o|]; [|discriminate]. subst o.
    destruct (Nat.eqb_spec tid t) as [->|Hne]; [reflexivity|].
    destruct (Nat.eqb_spec tid 0) as [->|Hne0].
    - apply Nat.eqb_eq in H. congruence.
    - rewrite Nat.eqb_refl in H. discriminate.
  Qed.

  Lemma allowed_lt ow tid r : allowed ow tid r = true -> (r < List.length ow)%nat.
  Proof. unfold Solo.allowed. destruct (nth_error ow r) eqn:E; [|discriminate]. intros _. apply nth_error_Some. congruence. Qed.

  Lemma wf_clone_live b sym tid k sym' : wf_step b sites sym (tid, OClone k) = Some sym' -> live sym k = true.
  Proof. unfold wf_step. cbn [fst snd]. destruct (live sym k); [reflexivity | discriminate]. Qed.
  Lemma wf_drop_live b sym tid k sym' : wf_step b sites sym (tid, ODrop k) = Some sym' -> live sym k = true.
  Proof. unfold wf_step. cbn [fst snd]. destruct (live sym k); [reflexivity | discriminate]. Qed.

  Lemma live_lt sym k : live sym k = true -> (k < n_spans sym)%nat.
  Proof. intros H. apply handles_pos_lt. apply live_pos. exact H. Qed.

  Lemma logical_parent_allowed ow sym tid pk q :
    Forall (fun r => allowed ow tid r = true) (stack_of (ss_stacks sym) tid) ->
    forallb (allowed ow tid) (pk_refs pk) = true ->
    logical_parent sym tid pk = Some q -> allowed ow tid q = true.
  Proof.
    intros Fa Hr H. destruct pk as [| |k]; cbn [logical_parent pk_refs forallb] in *.
    - apply (spec_current_in) in H. rewrite Forall_forall in Fa. auto.
    - discriminate.
    - injection H as <-. apply andb_true_iff in Hr as [Hr _]. exact Hr.
  Qed.

  Lemma wf_new_span_site b sym tid cs pk vals sym' :
    wf_step b sites sym (tid, ONewSpan cs pk vals) = Some sym' -> exists meta, nth_error sites cs = Some meta.
  Proof.
    unfold wf_step. cbn [fst snd]. destruct (wf_site_use sites KSpan cs vals && wf_parent sym pk) eqn:E; [|discriminate].
    intros _. apply andb_true_iff in E as [E _]. unfold wf_site_use in E. destruct (nth_error sites cs); [eauto | discriminate].
  Qed.

  Lemma set_stack_in stacks tid s x : In x (map fst (set_stack stacks tid s)) <-> x = tid \/ In x (map fst stacks).
  Proof.
    induction stacks as [|[t' s'] r IH]; cbn [set_stack map fst In].
    - intuition congruence.
    - destruct (Nat.eqb_spec t' tid) as [->|Hne]; cbn [map fst In]; [intuition congruence|]. rewrite IH. intuition congruence.
  Qed.

  Lemma set_stack_nodup stacks tid s : NoDup (map fst stacks) -> NoDup (map fst (set_stack stacks tid s)).
  Proof.
    induction stacks as [|[t' s'] r IH]; cbn [set_stack map fst]; intros H.
    - constructor; [intros [] | constructor].
    - inversion H as [|? ? Hni Hnd]; subst. destruct (Nat.eqb_spec t' tid) as [->|Hne]; cbn [map fst].
      + constructor; assumption.
      + constructor; [|apply IH; exact Hnd]. rewrite set_stack_in. intros [E|Hin]; [congruence | contradiction].
  Qed.

  Lemma sym_next_nodup sym o : NoDup (map fst (ss_stacks sym)) -> NoDup (map fst (ss_stacks (sym_next sym o))).
  Proof.
    intros H. destruct o as [tid op]. destruct op; cbn [sym_next fst snd ss_stacks]; try exact H; apply set_stack_nodup; exact H.
  Qed.

  Lemma extra_step b ow eow A B tid op sA1 :
    agree t ow eow A B -> extra ow A B ->
    forallb (allowed ow tid) (op_refs op) = true -> no_stale op = true ->
    wf_step b sites (a_sym A) (tid, op) = Some sA1 ->
    (kept tid = true -> exists sB1, wf_step b sites (a_sym B) (tid, ren_op (grank ow) op) = Some sB1) ->
    extra (ow_next sites ow (tid, op)) (stepA A (tid, op))
          (if kept tid then stepB B (tid, ren_op (grank ow) op) else B).
  Proof.
    intros G X Hr Hns WA WB.
    destruct (spec_step_wf f sites b idsA A (tid, op) sA1 WA) as [SA1 _].
    pose proof (sym_next_of_wf_step b sites (a_sym A) (tid, op) sA1 WA) as EsA. rewrite EsA in SA1.
    assert (SB1 : kept tid = true -> a_sym (stepB B (tid, ren_op (grank ow) op)) = sym_next (a_sym B) (tid, ren_op (grank ow) op)).
    { intros Hk. destruct (WB Hk) as [sB1 EB]. destruct (spec_step_wf f sites b idsB B _ sB1 EB) as [S _].
      rewrite S. apply (sym_next_of_wf_step b sites _ _ _ EB). }
    assert (HsymB : a_sym (if kept tid then stepB B (tid, ren_op (grank ow) op) else B)
                    = if kept tid then sym_next (a_sym B) (tid, ren_op (grank ow) op) else a_sym B).
    { destruct (kept tid) eqn:Hk; [apply SB1; reflexivity | reflexivity]. }
    pose proof (ex_nA _ _ _ X) as NA. pose proof (ex_nB _ _ _ X) as NB.
    assert (Low := ag_ow _ _ _ _ _ G).
    constructor.
    - (* n_spans A *)
      rewrite SA1. unfold ow_next. cbn [fst snd]. destruct op; try exact NA;
        try (unfold n_spans in *; cbn [sym_next snd ss_spans]; rewrite set_handles_length; exact NA).
      destruct (wf_new_span_site _ _ _ _ _ _ _ WA) as [meta ->]. unfold n_spans in *. cbn [sym_next snd ss_spans].
      rewrite !app_length, NA. reflexivity.
    - (* n_spans B *)
      rewrite HsymB. unfold ow_next. cbn [fst snd].
      destruct op as [cs pk vals | k vals | k | k | k | k | k tg | cs pk vals]; cbn [ren_op];
        try (destruct (kept tid); exact NB);
        try (destruct (kept tid); [unfold n_spans in *; cbn [sym_next snd ss_spans]; rewrite set_handles_length; exact NB | exact NB]).
      + destruct (wf_new_span_site _ _ _ _ _ _ _ WA) as [meta ->].
        replace (List.length (ow ++ [tid])) with (S (List.length ow)) by (rewrite app_length; cbn; lia).
        rewrite grank_snoc. destruct (kept tid); [|lia].
        unfold n_spans in *. cbn [sym_next snd ss_spans]. rewrite app_length, NB. reflexivity.
      + destruct tg; destruct (kept tid); exact NB.
    - (* handles *)
      intros i Hi Hown. rewrite SA1, HsymB.
      destruct op as [cs pk vals | k vals | k | k | k | k | k tg | cs pk vals]; unfold ow_next in *; cbn [fst snd ren_op] in *;
        try (destruct (kept tid); apply (ex_handles _ _ _ X i Hi Hown)).
      + (* new span *)
        destruct (wf_new_span_site _ _ _ _ _ _ _ WA) as [meta Em]. rewrite Em in *.
        rewrite app_length in Hi. cbn in Hi. cbn [sym_next snd]. rewrite handles_app, NA.
        destruct (Nat.eqb_spec i (List.length ow)) as [->|Hne].
        * rewrite app_nth2, Nat.sub_diag in Hown by lia. cbn in Hown. subst tid. rewrite (kept_t t).
          cbn [sym_next snd]. rewrite handles_app, NB, grank_app, Nat.eqb_refl by lia. reflexivity.
        * assert (Hlt : (i < List.length ow)%nat) by lia. rewrite nth_app_l in Hown by exact Hlt.
          rewrite grank_app by lia. rewrite (ex_handles _ _ _ X i Hlt Hown).
          destruct (kept tid); [|reflexivity]. cbn [sym_next snd]. rewrite handles_app, NB.
          pose proof (grank_bound t ow i Hlt ltac:(rewrite Hown; apply kept_t)).
          destruct (Nat.eqb_spec (grank ow i) (grank ow (List.length ow))); [lia | reflexivity].
      + (* clone *)
        cbn [op_refs forallb] in Hr. apply andb_true_iff in Hr as [Hr _].
        pose proof (live_lt _ _ (wf_clone_live b _ _ _ _ WA)) as Lk.
        cbn [sym_next snd]. rewrite handles_set.
        destruct (Nat.eqb_spec i k) as [->|Hne].
        * pose proof (allowed_owner_t ow tid k Hr Hown). subst tid. rewrite (kept_t t).
          destruct (WB (kept_t t)) as [sB1 EB].
          pose proof (live_lt _ _ (wf_clone_live b _ _ _ _ EB)) as LBk.
          cbn [sym_next snd]. rewrite handles_set, Nat.eqb_refl.
          destruct (Nat.ltb_spec k (n_spans (a_sym A))); [|lia]. destruct (Nat.ltb_spec (grank ow k) (n_spans (a_sym B))); [|lia].
          rewrite (ex_handles _ _ _ X k Hi Hown). reflexivity.
        * rewrite (ex_handles _ _ _ X i Hi Hown). destruct (kept tid) eqn:Hk; [|reflexivity].
          cbn [sym_next snd]. rewrite handles_set.
          destruct (Nat.eqb_spec (grank ow i) (grank ow k)) as [E|]; [|reflexivity].
          exfalso. apply Hne. destruct (allowed_kept t ow tid k Hk Hr) as [K1 K2].
          apply (grank_inj t ow i k); auto. rewrite Hown. apply kept_t.
      + (* drop *)
        cbn [op_refs forallb] in Hr. apply andb_true_iff in Hr as [Hr _].
        pose proof (live_lt _ _ (wf_drop_live b _ _ _ _ WA)) as Lk.
        cbn [sym_next snd]. rewrite handles_set.
        destruct (Nat.eqb_spec i k) as [->|Hne].
        * pose proof (allowed_owner_t ow tid k Hr Hown). subst tid. rewrite (kept_t t).
          destruct (WB (kept_t t)) as [sB1 EB].
          pose proof (live_lt _ _ (wf_drop_live b _ _ _ _ EB)) as LBk.
          cbn [sym_next snd]. rewrite handles_set, Nat.eqb_refl.
          destruct (Nat.ltb_spec k (n_spans (a_sym A))); [|lia]. destruct (Nat.ltb_spec (grank ow k) (n_spans (a_sym B))); [|lia].
          rewrite (ex_handles _ _ _ X k Hi Hown). reflexivity.
        * rewrite (ex_handles _ _ _ X i Hi Hown). destruct (kept tid) eqn:Hk; [|reflexivity].
          cbn [sym_next snd]. rewrite handles_set.
          destruct (Nat.eqb_spec (grank ow i) (grank ow k)) as [E|]; [|reflexivity].
          exfalso. apply Hne. destruct (allowed_kept t ow tid k Hk Hr) as [K1 K2].
          apply (grank_inj t ow i k); auto. rewrite Hown. apply kept_t.
      + destruct tg; destruct (kept tid); apply (ex_handles _ _ _ X i Hi Hown).
    - (* stacks of the full execution *)
      intros tid'. rewrite SA1.
      assert (Hgrow : forall l, Forall (fun r => allowed ow tid' r = true) l ->
                Forall (fun r => allowed (ow_next sites ow (tid, op)) tid' r = true) l).
      { intros l Hl. eapply Forall_impl; [|exact Hl]. intros r Hra. unfold ow_next. cbn [fst snd].
        destruct op; try exact Hra. destruct (nth_error sites cs); [apply allowed_app; exact Hra | exact Hra]. }
      apply Hgrow. pose proof (ex_stacks _ _ _ X tid') as Fa.
      destruct op as [cs pk vals | k vals | k | k | k | k | k tg | cs pk vals]; try exact Fa;
        cbn [sym_next fst snd ss_stacks]; rewrite stack_of_set; destruct (Nat.eqb_spec tid' tid) as [->|]; try exact Fa.
      + cbn [op_refs forallb] in Hr. apply andb_true_iff in Hr as [Hr _]. constructor; assumption.
      + apply Forall_remove_first. exact Fa.
    - (* the solo execution knows no other thread *)
      intros tid' Hk'. rewrite HsymB. pose proof (ex_foreign _ _ _ X tid' Hk') as E.
      destruct (kept tid) eqn:Hk; [|exact E].
      assert (Hne : tid' <> tid) by (intros ->; congruence).
      destruct op as [cs pk vals | k vals | k | k | k | k | k tg | cs pk vals]; cbn [ren_op]; try exact E;
        try (cbn [sym_next fst snd ss_stacks]; rewrite stack_of_set; destruct (Nat.eqb_spec tid' tid); [contradiction | exact E]).
      destruct tg; exact E.
    - rewrite SA1. apply sym_next_nodup. exact (ex_ndA _ _ _ X).
    - rewrite HsymB. destruct (kept tid); [apply sym_next_nodup|]; exact (ex_ndB _ _ _ X).
    - (* parents *)
      intros c m q Hc. rewrite spec_step_skel in Hc.
      assert (Hold : forall c0 m0 q0, nth_error (skel (a_spans A)) c0 = Some (m0, Some q0) ->
                (q0 < c0)%nat /\ (nth q0 (ow_next sites ow (tid, op)) 0%nat = t -> nth c0 (ow_next sites ow (tid, op)) 0%nat = t)).
      { intros c0 m0 q0 H0. destruct (ex_parents _ _ _ X c0 m0 q0 H0) as [Hlt Himp]. split; [exact Hlt|].
        assert (Hc0 : (c0 < List.length ow)%nat).
        { rewrite Low. unfold skel in H0. rewrite nth_error_map in H0.
          destruct (nth_error (a_spans A) c0) eqn:E; [|discriminate]. apply nth_error_Some. congruence. }
        unfold ow_next. cbn [fst snd]. destruct op; try exact Himp.
        destruct (nth_error sites cs); [|exact Himp]. rewrite !nth_app_l by lia. exact Himp. }
      destruct op as [cs pk vals | k vals | k | k | k | k | k tg | cs pk vals];
        try (rewrite app_nil_r in Hc; apply (Hold c m q Hc)).
      destruct (nth_error sites cs) as [meta|] eqn:Ecs; [|rewrite app_nil_r in Hc; apply (Hold c m q Hc)].
      assert (Hlen : List.length (skel (a_spans A)) = List.length ow) by (unfold skel; rewrite map_length; congruence).
      destruct (Nat.lt_ge_cases c (List.length ow)) as [Hlt|Hge].
      + rewrite nth_error_app1 in Hc by lia. apply (Hold c m q Hc).
      + rewrite nth_error_app2 in Hc by lia.
        destruct (c - List.length (skel (a_spans A)))%nat as [|n] eqn:En; [|destruct n; discriminate].
        cbn in Hc. injection Hc as _ Hlp. assert (c = List.length ow) by lia. subst c.
        cbn [op_refs] in Hr.
        pose proof (logical_parent_allowed ow (a_sym A) tid pk q (ex_stacks _ _ _ X tid) Hr Hlp) as Hal.
        pose proof (allowed_lt _ _ _ Hal) as Hq. split; [exact Hq|].
        unfold ow_next. cbn [fst snd]. rewrite Ecs, nth_app_l by lia. intros Hown.
        rewrite app_nth2, Nat.sub_diag by lia. cbn. apply (allowed_owner_t ow tid q Hal Hown).
  Qed.

  Lemma extra_init : extra [] a_init a_init.
  Proof.
    constructor; cbn.
    - reflexivity.
    - reflexivity.
    - intros i Hi. lia.
    - intros tid. constructor.
    - reflexivity.
    - constructor.
    - constructor.
    - intros c m q H. destruct c; discriminate.
  Qed.

  (** both invariants along an execution *)
  Lemma agree_extra_run b : forall ops ow eow A B symA' symB',
    agree t ow eow A B -> extra ow A B ->
    n_spans (a_sym A) = List.length (a_spans A) -> n_spans (a_sym B) = List.length (a_spans B) ->
    wf_steps b sites (a_sym A) ops = Some symA' ->
    wf_steps b sites (a_sym B) (solo_from t sites ow ops) = Some symB' ->
    isolated_from t sites ow ops = true ->
    let ow' := fold_left (ow_next sites) ops ow in
    let eow' := fold_left (eow_next f sites) ops eow in
    let A' := fold_left stepA ops A in
    let B' := fold_left stepB (solo_from t sites ow ops) B in
    agree t ow' eow' A' B' /\ extra ow' A' B' /\
    n_spans (a_sym A') = List.length (a_spans A') /\ n_spans (a_sym B') = List.length (a_spans B').
  Proof.
    induction ops as [|[tid op] ops IH]; intros ow eow A B symA' symB' G X LA LB WA WB Iso.
    - cbn. auto.
    - cbn [isolated_from fst snd] in Iso. apply andb_true_iff in Iso as [Iso Iso2]. apply andb_true_iff in Iso as [Hr Hns].
      cbn [wf_steps] in WA. destruct (wf_step b sites (a_sym A) (tid, op)) as [sA1|] eqn:EA; [|discriminate].
      destruct (spec_step_wf f sites b idsA A (tid, op) sA1 EA) as [SA1 LA1]. specialize (LA1 LA).
      rewrite solo_from_cons in WB |- *. cbn [fst snd] in WB |- *. cbn [fold_left].
      assert (Hopen : tid = t -> forall k j, op = OFollows k (FLive j) ->
                a_open A k = true /\ a_open A j = true /\ a_open B (grank ow k) = true /\ a_open B (grank ow j) = true).
      { intros -> k j ->. destruct (wf_follows_live sites b _ _ _ _ _ EA) as [L1 L2].
        rewrite (kept_t t) in WB. cbn [wf_steps ren_op] in WB.
        destruct (wf_step b sites (a_sym B) (t, OFollows (grank ow k) (FLive (grank ow j)))) as [sB1|] eqn:EB; [|discriminate].
        destruct (wf_follows_live sites b _ _ _ _ _ EB) as [L3 L4].
        repeat split; apply (live_open t t_not_main); auto. }
      pose proof (agree_step t f sites idsA idsB t_not_main ow eow A B tid op G Hr Hns Hopen) as G1.
      assert (WBk : kept tid = true -> exists sB1, wf_step b sites (a_sym B) (tid, ren_op (grank ow) op) = Some sB1).
      { intros Hk. rewrite Hk in WB. cbn [wf_steps] in WB.
        destruct (wf_step b sites (a_sym B) (tid, ren_op (grank ow) op)) as [sB1|]; [eauto | discriminate]. }
      pose proof (extra_step b ow eow A B tid op sA1 G X Hr Hns EA WBk) as X1.
      destruct (kept tid) eqn:Hk.
      + cbn [wf_steps] in WB. destruct (wf_step b sites (a_sym B) (tid, ren_op (grank ow) op)) as [sB1|] eqn:EB; [|discriminate].
        destruct (spec_step_wf f sites b idsB B (tid, ren_op (grank ow) op) sB1 EB) as [SB1 LB1]. specialize (LB1 LB).
        cbn [fold_left].
        apply (IH (ow_next sites ow (tid, op)) (eow_next f sites eow (tid, op)) (stepA A (tid, op))
                  (stepB B (tid, ren_op (grank ow) op)) symA' symB' G1 X1).
        * rewrite SA1. exact LA1.
        * rewrite SB1. exact LB1.
        * rewrite SA1. exact WA.
        * rewrite SB1. exact WB.
        * exact Iso2.
      + apply (IH (ow_next sites ow (tid, op)) (eow_next f sites eow (tid, op)) (stepA A (tid, op)) B symA' symB' G1 X1).
        * rewrite SA1. exact LA1.
        * exact LB.
        * rewrite SA1. exact WA.
        * exact WB.
        * exact Iso2.
  Qed.
End Open.

Section OpenAgree.
  Variable t : nat.
  Variable f : cs_data -> bool.
  Hypothesis t_not_main : t <> 0%nat.
  Notation kept := (kept t).
  Notation grank := (grank t).
  Notation allowed := (allowed t).

  (** with distinct keys, "entered on some thread" names the thread *)
  Lemma on_any_stack_thread sym k :
    NoDup (map fst (ss_stacks sym)) -> on_any_stack sym k = true ->
    exists tid, on_stack (stack_of (ss_stacks sym) tid) k = true.
  Proof.
    unfold on_any_stack. induction (ss_stacks sym) as [|[t' s] r IH]; cbn [existsb map fst snd stack_of]; [discriminate|].
    intros Hnd H. inversion Hnd as [|? ? Hni Hnd']; subst. apply orb_true_iff in H as [H|H].
    - exists t'. rewrite Nat.eqb_refl. exact H.
    - destruct (IH Hnd' H) as [tid Htid]. exists tid. destruct (Nat.eqb_spec t' tid) as [->|]; [|exact Htid].
      exfalso. apply Hni. clear -Htid. induction r as [|[t2 s2] r IH]; cbn [stack_of] in Htid; [discriminate|].
      cbn [map fst In]. destruct (Nat.eqb_spec t2 tid); [left; assumption | right; apply IH; exact Htid].
  Qed.

  Lemma on_stack_In s k : on_stack s k = true <-> In k s.
  Proof. apply on_stack_in. Qed.

  Lemma open_agree ow eow A B :
    agree t ow eow A B -> extra t ow A B ->
    n_spans (a_sym A) = List.length (a_spans A) -> n_spans (a_sym B) = List.length (a_spans B) ->
    forall i, (i < List.length ow)%nat -> nth i ow 0%nat = t -> a_open A i = a_open B (grank ow i).
  Proof.
    intros G X LA LB.
    pose proof (ag_ow _ _ _ _ _ G) as Low. pose proof (ag_nB _ _ _ _ _ G) as LnB.
    assert (Hiff : forall n i, (List.length ow - i <= n)%nat -> (i < List.length ow)%nat -> nth i ow 0%nat = t ->
              (a_open A i = true <-> a_open B (grank ow i) = true)).
    { induction n as [|n IH]; intros i Hn Hi Hown; [lia|].
      assert (Hk : kept (nth i ow 0%nat) = true) by (rewrite Hown; apply kept_t).
      assert (HiA : (i < List.length (a_spans A))%nat) by lia.
      assert (HiB : (grank ow i < List.length (a_spans B))%nat) by (rewrite LnB; apply grank_bound; assumption).
      rewrite (a_open_char A i HiA), (a_open_char B (grank ow i) HiB).
      pose proof (ex_handles _ _ _ _ X i Hi Hown) as Hh.
      split.
      - intros [H|[H|(c & x & Hc & Hx & Hl & Ho)]].
        + left. unfold live in *. rewrite <- Hh. exact H.
        + right. left. destruct (on_any_stack_thread _ _ (ex_ndA _ _ _ _ X) H) as [tid Htid].
          apply on_stack_In in Htid.
          pose proof (ex_stacks _ _ _ _ X tid) as Fa. rewrite Forall_forall in Fa.
          pose proof (allowed_owner_t t ow tid i (Fa i Htid) Hown). subst tid.
          destruct (ag_stack _ _ _ _ _ G t (kept_t t)) as [Es _].
          apply (on_stack_any (a_sym B) t). unfold stk. rewrite Es. apply on_stack_In. apply in_map. exact Htid.
        + right. right.
          assert (HcA : (c < List.length ow)%nat) by (rewrite Low; apply nth_error_Some; congruence).
          assert (Hsk : nth_error (skel (a_spans A)) c = Some (as_meta x, Some i)).
          { unfold skel. rewrite nth_error_map, Hx. cbn. rewrite Hl. reflexivity. }
          destruct (ex_parents _ _ _ _ X c _ i Hsk) as [_ Hoc]. specialize (Hoc Hown).
          assert (Hkc : kept (nth c ow 0%nat) = true) by (rewrite Hoc; apply kept_t).
          destruct (ag_span _ _ _ _ _ G c x Hx Hkc) as (y & Hy & _ & Hly & _).
          exists (grank ow c), y. split; [apply grank_lt; assumption|]. split; [exact Hy|].
          split; [rewrite Hly, Hl; reflexivity|].
          apply (IH c); [lia | exact HcA | exact Hoc | exact Ho].
      - intros [H|[H|(d & y & Hd & Hy & Hl & Ho)]].
        + left. unfold live in *. rewrite Hh. exact H.
        + right. left. destruct (on_any_stack_thread _ _ (ex_ndB _ _ _ _ X) H) as [tid Htid].
          destruct (kept tid) eqn:Hkt.
          2:{ rewrite (ex_foreign _ _ _ _ X tid Hkt) in Htid. discriminate. }
          destruct (ag_stack _ _ _ _ _ G tid Hkt) as [Es Fa]. rewrite Es in Htid.
          apply on_stack_In, in_map_iff in Htid as (r & Er & Hr). rewrite Forall_forall in Fa.
          destruct (allowed_kept t ow tid r Hkt (Fa r Hr)) as [R1 R2].
          assert (r = i) by (apply (grank_inj t ow r i); auto). subst r.
          apply (on_stack_any (a_sym A) tid). unfold stk. apply on_stack_In. exact Hr.
        + right. right.
          assert (HdB : (d < grank ow (List.length ow))%nat) by (rewrite <- LnB; apply nth_error_Some; congruence).
          destruct (grank_surj t ow d HdB) as (c & Hc & Hkc & <-).
          destruct (nth_error (a_spans A) c) as [x|] eqn:Hx.
          2:{ apply nth_error_None in Hx. lia. }
          destruct (ag_span _ _ _ _ _ G c x Hx Hkc) as (y' & Hy' & _ & Hly & Hpar & _).
          rewrite Hy' in Hy. injection Hy as <-. rewrite Hly in Hl.
          destruct (as_lparent x) as [q|] eqn:Eq; [|discriminate]. cbn in Hl. injection Hl as Hq.
          destruct (Hpar q eq_refl) as [Hqc Hkq].
          assert (q = i) by (apply (grank_inj t ow q i); auto; lia). subst q.
          assert (Hsk : nth_error (skel (a_spans A)) c = Some (as_meta x, Some i)).
          { unfold skel. rewrite nth_error_map, Hx. cbn. rewrite Eq. reflexivity. }
          destruct (ex_parents _ _ _ _ X c _ i Hsk) as [_ Hoc]. specialize (Hoc Hown).
          exists c, x. split; [exact Hqc|]. split; [exact Hx|]. split; [exact Eq|].
          apply (IH c); [lia | exact Hc | exact Hoc | exact Ho]. }
    intros i Hi Hown. specialize (Hiff (List.length ow) i ltac:(lia) Hi Hown).
    destruct (a_open A i), (a_open B (grank ow i)); try reflexivity; exfalso.
    - assert (false = true) by (apply Hiff; reflexivity). discriminate.
    - assert (false = true) by (apply Hiff; reflexivity). discriminate.
  Qed.

  (** the open flags of the spans of [t], in creation order *)
  Definition oview (ow : list nat) (a : astate) : list bool := ownsel t ow (open_flags a).

  Lemma open_flags_nth a i : (i < List.length (a_spans a))%nat -> nth_error (open_flags a) i = Some (a_open a i).
  Proof.
    intros H. unfold a_open. apply nth_error_nth'. unfold open_flags. rewrite open_from_length. exact H.
  Qed.

  Theorem oview_agree ow eow A B :
    agree t ow eow A B -> extra t ow A B ->
    n_spans (a_sym A) = List.length (a_spans A) -> n_spans (a_sym B) = List.length (a_spans B) ->
    oview ow A = oview (keepsel t ow ow) B.
  Proof.
    intros G X LA LB. unfold oview.
    pose proof (ag_ow _ _ _ _ _ G) as Low. pose proof (ag_nB _ _ _ _ _ G) as LnB.
    assert (LfA : List.length ow = List.length (open_flags A)) by (unfold open_flags; rewrite open_from_length; exact Low).
    rewrite <- (ownsel_keepsel t ow (open_flags A) LfA).
    rewrite <- (map_id (ownsel t (keepsel t ow ow) (keepsel t ow (open_flags A)))).
    rewrite <- (map_id (ownsel t (keepsel t ow ow) (open_flags B))).
    apply (ownsel_map_ext t).
    - exact t_not_main.
    - rewrite !keepsel_length; [reflexivity | exact LfA | reflexivity].
    - rewrite keepsel_length by reflexivity. unfold open_flags. rewrite open_from_length. symmetry. exact LnB.
    - intros j x y Hx Hy Hown.
      assert (Hj : (j < grank ow (List.length ow))%nat).
      { rewrite <- (keepsel_length t ow (open_flags A) LfA). apply nth_error_Some. congruence. }
      destruct (grank_surj t ow j Hj) as (i & Hi & Hk & <-).
      rewrite (keepsel_nth t ow (open_flags A) i LfA Hi Hk) in Hx.
      rewrite (nth_keepsel t ow i Hi Hk) in Hown.
      rewrite open_flags_nth in Hx by lia. injection Hx as <-.
      rewrite open_flags_nth in Hy by (rewrite LnB; apply grank_bound; assumption). injection Hy as <-.
      apply (open_agree ow eow A B G X LA LB i Hi Hown).
  Qed.
End OpenAgree.

(** the spans of a worker are open in an execution exactly when they are open in its solo execution *)
Theorem oview_solo (t : nat) (f : cs_data -> bool) (idsA idsB : list N) (p : prog) :
  wf_prog_b p = true -> wf_prog_b (solo t p) = true -> isolated t p = true ->
  oview t (owners_of (p_sites p) (p_ops p)) (spec_run f idsA p)
  = oview t (owners_of (p_sites p) (p_ops (solo t p))) (spec_run f idsB (solo t p)).
Proof.
  intros WA WB Iso. unfold isolated in Iso. apply andb_true_iff in Iso as [Ht Iso].
  assert (Hne : t <> 0%nat) by (intros E; rewrite E in Ht; discriminate).
  unfold wf_prog_b, wf_prog_gen_b in WA, WB. apply andb_true_iff in WA as [_ WA]. apply andb_true_iff in WB as [_ WB].
  unfold sym_run in WA, WB.
  destruct (wf_steps false (p_sites p) sym_init (p_ops p)) as [sa|] eqn:EA; [|discriminate].
  destruct (wf_steps false (p_sites (solo t p)) sym_init (p_ops (solo t p))) as [sb|] eqn:EB; [|discriminate].
  cbn [solo p_sites p_ops] in EB.
  destruct (agree_extra_run t f (p_sites p) idsA idsB Hne false (p_ops p) [] [] a_init a_init sa sb
              (agree_init t) (extra_init t Hne) eq_refl eq_refl EA EB Iso) as (G & X & LA & LB).
  destruct (agree_run t f (p_sites p) idsA idsB Hne false (p_ops p) [] [] a_init a_init sa sb
              (agree_init t) eq_refl eq_refl EA EB Iso) as (_ & O1 & _).
  unfold owners_of, spec_run. cbn [solo p_sites p_ops].
  change (keepsel t [] []) with (@nil nat) in O1. rewrite O1.
  eapply oview_agree; eauto.
Qed.
