(** Model of [capture/src/predicates/]: the predicate factories [level target name field message
    parent ancestor], the [&] / [|] combinators, and the [Scanner] helpers of [ext.rs].
    Definitions only.

    Every predicate has two methods in the code, [eval] and [find_case]; both are transcribed
    (same case analysis, same order of checks, early returns of the [?] operator as [None]).
    [find_case] returns the tree of supporting cases; the model keeps the shape of that tree
    (the number and nesting of children) and drops the texts attached to it. *)
From TT Require Export Tunnel.Types.

(** * Captured items

    A captured span or event as the predicates can see it: metadata (level, target, name), the
    recorded values, and the chain of ancestor spans, nearest first.  The parent of an item is the
    head of the chain, and the parent's own chain is the tail, so [iter::successors(parent, parent)]
    walks down the list. *)
Record sdata := mk_sdata {
  sd_level : level;
  sd_target : string;
  sd_name : string;
  sd_values : tvalues }.

Record item := mk_item {
  it_is_span : bool;           (* CapturedSpan or CapturedEvent *)
  it_data : sdata;
  it_anc : list sdata }.       (* ancestor spans, nearest first *)

Definition it_level (x : item) : level := sd_level (it_data x).
Definition it_target (x : item) : string := sd_target (it_data x).
Definition it_name (x : item) : string := sd_name (it_data x).
Definition it_values (x : item) : tvalues := sd_values (it_data x).

(** [Captured::parent] *)
Definition parent (x : item) : option item :=
  match it_anc x with
  | [] => None
  | d :: r => Some (mk_item true d r)
  end.

(** [iter::successors(variable.parent(), CapturedSpan::parent)] *)
Fixpoint chain (l : list sdata) : list item :=
  match l with
  | [] => []
  | d :: r => mk_item true d r :: chain r
  end.
Definition ancestors (x : item) : list item := chain (it_anc x).

(** [Captured::value] *)
Definition value (x : item) (name : string) : option tvalue := get (it_values x) name.

(** [CapturedEvent::message] *)
Definition message (x : item) : option string :=
  match value x "message"%string with
  | None => None
  | Some (VObj s) => Some s
  | Some (VStr s) => Some s
  | Some (VErr m _) => Some m
  | Some _ => None
  end.

(** * Atoms: predicates of the external [predicates] crate

    Only their [eval] is defined here; their [find_case] is a parameter of [find_case] below. *)

(** [tracing_core::Level]: [LevelInner] discriminants and the hand-written reversed [PartialOrd]. *)
Definition level_inner (l : level) : N :=
  match l with LTrace => 0 | LDebug => 1 | LInfo => 2 | LWarn => 3 | LError => 4 end.
Definition level_lt (a b : level) : bool := level_inner b <? level_inner a.
Definition level_le (a b : level) : bool := level_inner b <=? level_inner a.

(** [predicates::ord::{eq, le, lt}] over [Level] *)
Inductive latom := LAEq (l : level) | LALe (l : level) | LALt (l : level).
Definition latom_eval (a : latom) (x : level) : bool :=
  match a with
  | LAEq l => level_eqb x l
  | LALe l => level_le x l
  | LALt l => level_lt x l
  end.

(** [str::starts_with], [str::contains] of the Rust standard library, on bytes *)
Definition starts_with (pat s : string) : bool := String.prefix pat s.
Fixpoint contains (pat s : string) : bool :=
  starts_with pat s || match s with EmptyString => false | String _ r => contains pat r end.

(** [predicates::ord::eq(s)], [predicates::str::starts_with(s)], [predicates::str::contains(s)],
    [predicates::constant::always()], [never()] over [str] *)
Inductive satom := AEq (s : string) | AStartsWith (s : string) | AContains (s : string) | AAlways | ANever.
Definition satom_eval (a : satom) (x : string) : bool :=
  match a with
  | AEq s => String.eqb x s
  | AStartsWith s => starts_with s x
  | AContains s => contains s x
  | AAlways => true
  | ANever => false
  end.

(** ordering of the typed views: integers, booleans ([false < true]) and IEEE floats
    (sign-magnitude key on the bit pattern; unordered when a NaN is involved) *)
Definition f64_key (b : N) : Z := if b <? 2 ^ 63 then Z.of_N b else (- Z.of_N (b - 2 ^ 63))%Z.
Definition f64_lt (a b : N) : bool :=
  if f64_is_nan a || f64_is_nan b then false else (f64_key a <? f64_key b)%Z.
Definition f64_ge (a b : N) : bool :=
  if f64_is_nan a || f64_is_nan b then false else (f64_key b <=? f64_key a)%Z.
Definition const_lt (a b : tconst) : bool :=
  match a, b with
  | CBool x, CBool y => negb x && y
  | CI64 x, CI64 y | CI128 x, CI128 y | CU64 x, CU64 y | CU128 x, CU128 y => (x <? y)%Z
  | CF64 x, CF64 y => f64_lt x y
  | _, _ => false
  end.
Definition const_ge (a b : tconst) : bool :=
  match a, b with
  | CBool x, CBool y => x || negb y
  | CI64 x, CI64 y | CI128 x, CI128 y | CU64 x, CU64 y | CU128 x, CU128 y => (y <=? x)%Z
  | CF64 x, CF64 y => f64_ge x y
  | _, _ => false
  end.

(** predicates over a typed view: [ord::eq(c)], [ord::lt(c)], [ord::ge(c)], [always()], [never()],
    and any of the [str] atoms when the view is [str] *)
Inductive vatom := VAEq (c : tconst) | VALt (c : tconst) | VAGe (c : tconst) | VAAlways | VANever
                 | VAStr (a : satom).
Definition vatom_eval (a : vatom) (y : tconst) : bool :=
  match a with
  | VAEq c => const_eq y c
  | VALt c => const_lt y c
  | VAGe c => const_ge y c
  | VAAlways => true
  | VANever => false
  | VAStr s => match y with CStr x => satom_eval s x | _ => false end
  end.

(** * The predicate language *)

(** argument of [field(name, _)]: a constant of one of the seven types ([EquivPredicate]),
    [value(atom)] at a type ([ValuePredicate<T, P>]), or [[always()]] / [[never()]] *)
Inductive fpred := FEquiv (c : tconst) | FValue (t : ttype) (a : vatom) | FConst (b : bool).

Inductive pred :=
| PLevelEq (l : level)                (* level(Level) *)
| PLevelMax (o : option level)        (* level(LevelFilter); None = OFF *)
| PLevelAtom (a : latom)              (* level([atom]) *)
| PTarget (prefix : string)           (* target(&str) *)
| PTargetAtom (a : satom)             (* target([atom]) *)
| PName (a : satom)                   (* name(atom); spans only *)
| PField (name : string) (f : fpred)  (* field(name, _) *)
| PMessage (a : satom)                (* message(atom); events only *)
| PParent (p : pred)                  (* parent(span predicate) *)
| PAncestor (p : pred)                (* ancestor(span predicate) *)
| PAnd (p q : pred)                   (* p & q *)
| POr (p q : pred).                   (* p | q *)

(** What Rust's trait bounds accept: [name] on spans, [message] on events, span predicates inside
    [parent] / [ancestor]; constants within the range of their Rust type; atoms of a typed view
    are predicates over that type. *)
Definition ttype_eqb (a b : ttype) : bool :=
  match a, b with
  | TBool, TBool | TI64, TI64 | TI128, TI128 | TU64, TU64 | TU128, TU128 | TF64, TF64
  | TStr, TStr => true
  | _, _ => false
  end.
Definition wf_vatom (t : ttype) (a : vatom) : bool :=
  match a with
  | VAEq c => ttype_eqb (type_of c) t && wf_const c
  | VALt c | VAGe c =>
      ttype_eqb (type_of c) t && wf_const c && negb (ttype_eqb t TStr)
  | VAAlways | VANever => true
  | VAStr _ => ttype_eqb t TStr
  end.
Definition wf_fpred (f : fpred) : bool :=
  match f with
  | FEquiv c => wf_const c
  | FValue t a => wf_vatom t a
  | FConst _ => true
  end.
Fixpoint wf_pred (is_span : bool) (p : pred) : bool :=
  match p with
  | PName _ => is_span
  | PMessage _ => negb is_span
  | PField _ f => wf_fpred f
  | PParent q | PAncestor q => wf_pred true q
  | PAnd a b | POr a b => wf_pred is_span a && wf_pred is_span b
  | _ => true
  end.

(** * [eval] *)

(** [TargetStrPredicate::eval]: [strip_prefix] then empty or [starts_with("::")] *)
Fixpoint strip_prefix (p t : string) : option string :=
  match p with
  | EmptyString => Some t
  | String a p' =>
      match t with
      | EmptyString => None
      | String b t' => if Ascii.eqb a b then strip_prefix p' t' else None
      end
  end.
Definition is_empty (s : string) : bool := match s with EmptyString => true | _ => false end.
Definition target_str_eval (prefix t : string) : bool :=
  match strip_prefix prefix t with
  | None => false
  | Some stripped => is_empty stripped || starts_with "::"%string stripped
  end.

(** [IntoLevelPredicate for LevelFilter]:
    [into_level().map_or_else(|| lt(Level::ERROR), le)] *)
Definition level_filter_atom (o : option level) : latom :=
  match o with None => LALt LError | Some l => LALe l end.

(** [EquivPredicate::eval]: [self.value == *variable] *)
Definition equiv_eval (c : tconst) (v : tvalue) : bool := eq_cv c v.

(** [ValuePredicate::eval]: [T::from_value(variable).map_or(false, |v| matches.eval(v))] *)
Definition value_eval (t : ttype) (a : vatom) (v : tvalue) : bool :=
  match as_type t v with None => false | Some y => vatom_eval a y end.

Definition fpred_eval (f : fpred) (v : tvalue) : bool :=
  match f with
  | FEquiv c => equiv_eval c v
  | FValue t a => value_eval t a v
  | FConst b => b
  end.

Fixpoint eval (p : pred) (x : item) {struct p} : bool :=
  match p with
  | PLevelEq l => latom_eval (LAEq l) (it_level x)
  | PLevelMax o => latom_eval (level_filter_atom o) (it_level x)
  | PLevelAtom a => latom_eval a (it_level x)
  | PTarget prefix => target_str_eval prefix (it_target x)
  | PTargetAtom a => satom_eval a (it_target x)
  | PName a => satom_eval a (it_name x)
  | PField name f => match value x name with None => false | Some v => fpred_eval f v end
  | PMessage a => match message x with None => false | Some m => satom_eval a m end
  | PParent q => match parent x with None => false | Some s => eval q s end
  | PAncestor q => existsb (eval q) (ancestors x)          (* ancestors.any(..) *)
  | PAnd a b => eval a x && eval b x
  | POr a b => eval a x || eval b x
  end.

(** * [find_case] *)

(** shape of a [reflection::Case]: its children, in the order of [add_child] *)
Inductive ctree := CNode (children : list ctree).
Definition case_new : ctree := CNode [].
Definition add_child (c child : ctree) : ctree :=
  match c with CNode l => CNode (l ++ [child]) end.

(** [Iterator::find_map], [Iterator::try_fold] with [Option] *)
Fixpoint find_map {A B} (f : A -> option B) (l : list A) : option B :=
  match l with
  | [] => None
  | a :: r => match f a with Some b => Some b | None => find_map f r end
  end.
Fixpoint try_fold {A S} (f : S -> A -> option S) (s : S) (l : list A) : option S :=
  match l with
  | [] => Some s
  | a :: r => match f s a with None => None | Some s' => try_fold f s' r end
  end.

Definition is_some {A} (o : option A) : bool := match o with Some _ => true | None => false end.

(** the crate's own leaf predicates ([TargetStrPredicate], [EquivPredicate]):
    [if self.eval(variable) == expected { Some(case) } else { None }] *)
Definition case_if_eval (actual expected : bool) : option ctree :=
  if Bool.eqb actual expected then Some case_new else None.

(** "find the child case, [?], wrap it" *)
Definition wrap_child (child : option ctree) : option ctree :=
  match child with
  | None => None
  | Some c => Some (add_child case_new c)
  end.

Section FindCase.
  (** [find_case] of the external atoms *)
  Variable lcase : bool -> latom -> level -> option ctree.
  Variable scase : bool -> satom -> string -> option ctree.
  Variable vcase : bool -> vatom -> tconst -> option ctree.
  Variable bcase : bool -> bool -> tvalue -> option ctree.    (* expected, the constant, variable *)

  (** [ValuePredicate::find_case] *)
  Definition value_case (expected : bool) (t : ttype) (a : vatom) (v : tvalue) : option ctree :=
    match as_type t v with
    | None => if expected then None else Some case_new
    | Some y => wrap_child (vcase expected a y)
    end.

  Definition fpred_case (expected : bool) (f : fpred) (v : tvalue) : option ctree :=
    match f with
    | FEquiv c => case_if_eval (equiv_eval c v) expected
    | FValue t a => value_case expected t a v
    | FConst b => bcase expected b v
    end.

  Fixpoint find_case_with (expected : bool) (p : pred) (x : item) {struct p} : option ctree :=
    match p with
    | PLevelEq l => wrap_child (lcase expected (LAEq l) (it_level x))
    | PLevelMax o => wrap_child (lcase expected (level_filter_atom o) (it_level x))
    | PLevelAtom a => wrap_child (lcase expected a (it_level x))
    | PTarget prefix =>
        wrap_child (case_if_eval (target_str_eval prefix (it_target x)) expected)
    | PTargetAtom a => wrap_child (scase expected a (it_target x))
    | PName a => wrap_child (scase expected a (it_name x))
    | PField name f =>
        match value x name with
        | None => if expected then None else Some case_new
        | Some v => wrap_child (fpred_case expected f v)
        end
    | PMessage a =>
        match message x with
        | None => if expected then None else Some case_new
        | Some m => wrap_child (scase expected a m)
        end
    | PParent q =>
        match parent x with
        | None => if expected then None else Some case_new
        | Some s => wrap_child (find_case_with expected q s)
        end
    | PAncestor q =>
        if expected then
          (* the first of the ancestor cases *)
          wrap_child (find_map (fun s => find_case_with expected q s) (ancestors x))
        else
          (* all ancestor cases are needed *)
          try_fold (fun case s =>
                      match find_case_with expected q s with
                      | None => None
                      | Some child => Some (add_child case child)
                      end) case_new (ancestors x)
    | PAnd a b =>
        if expected then
          match find_case_with expected a x with
          | None => None
          | Some first =>
              match find_case_with expected b x with
              | None => None
              | Some second => Some (add_child (add_child case_new first) second)
              end
          end
        else
          match find_case_with expected a x with
          | Some child => Some (add_child case_new child)
          | None => wrap_child (find_case_with expected b x)
          end
    | POr a b =>
        if expected then
          match find_case_with expected a x with
          | Some child => Some (add_child case_new child)
          | None => wrap_child (find_case_with expected b x)
          end
        else
          match find_case_with expected a x with
          | None => None
          | Some first =>
              match find_case_with expected b x with
              | None => None
              | Some second => Some (add_child (add_child case_new first) second)
              end
          end
    end.
End FindCase.

(** What the atoms of [predicates] 3.1.3 do: [utils::default_find_case] —
    [let actual = pred.eval(variable); if expected == actual { Some(Case::new(..)) } else { None }],
    with products but no children added afterwards. *)
Definition default_find_case (actual expected : bool) : option ctree :=
  if Bool.eqb expected actual then Some case_new else None.
Definition latom_case (expected : bool) (a : latom) (x : level) : option ctree :=
  default_find_case (latom_eval a x) expected.
Definition satom_case (expected : bool) (a : satom) (x : string) : option ctree :=
  default_find_case (satom_eval a x) expected.
Definition vatom_case (expected : bool) (a : vatom) (y : tconst) : option ctree :=
  default_find_case (vatom_eval a y) expected.
Definition const_case (expected : bool) (b : bool) (v : tvalue) : option ctree :=
  default_find_case b expected.

Definition find_case : bool -> pred -> item -> option ctree :=
  find_case_with latom_case satom_case vatom_case const_case.

(** * Reference meaning (what the documentation of the factories says) *)

(** verbosity rank: a [LevelFilter] admits the levels that are at most as verbose as it; OFF admits none *)
Definition verbosity (l : level) : N :=
  match l with LError => 1 | LWarn => 2 | LInfo => 3 | LDebug => 4 | LTrace => 5 end.
Definition filter_verbosity (o : option level) : N :=
  match o with None => 0 | Some l => verbosity l end.

(** the target is the given path, or lies below it: the path followed by "::" and anything *)
Definition target_under (path t : string) : bool :=
  String.eqb t path || String.prefix (path ++ "::")%string t.

(** a value matches a constant when it is of the constant's kind (signed / unsigned / float / ...),
    representable in the constant's type, and equal to it in that type *)
Definition matches_const (c : tconst) (v : tvalue) : bool :=
  match as_type (type_of c) v with
  | Some y => const_eq y c
  | None => false
  end.

Definition fpred_denote (f : fpred) (v : tvalue) : bool :=
  match f with
  | FEquiv c => matches_const c v
  | FValue t a => match as_type t v with Some y => vatom_eval a y | None => false end
  | FConst b => b
  end.

(** the text of the message: the "message" field when it is a string, a rendered object or an error *)
Definition message_text (vs : tvalues) : option string :=
  match get vs "message"%string with
  | Some (VStr s) | Some (VObj s) => Some s
  | Some (VErr m _) => Some m
  | _ => None
  end.

Fixpoint denote (p : pred) (x : item) {struct p} : bool :=
  match p with
  | PLevelEq l => level_eqb (it_level x) l
  | PLevelMax o => verbosity (it_level x) <=? filter_verbosity o
  | PLevelAtom a => latom_eval a (it_level x)
  | PTarget path => target_under path (it_target x)
  | PTargetAtom a => satom_eval a (it_target x)
  | PName a => satom_eval a (it_name x)
  | PField name f =>
      match get (it_values x) name with Some v => fpred_denote f v | None => false end
  | PMessage a =>
      match message_text (it_values x) with Some m => satom_eval a m | None => false end
  | PParent q =>
      match it_anc x with d :: r => denote q (mk_item true d r) | [] => false end
  | PAncestor q =>
      (fix any (l : list sdata) : bool :=
         match l with [] => false | d :: r => denote q (mk_item true d r) || any r end) (it_anc x)
  | PAnd a b => denote a x && denote b x
  | POr a b => denote a x || denote b x
  end.

(** the items of a sequence that satisfy the reference meaning of [p], in order: the reference
    "matches" that the scanner helpers are specified against *)
Definition matching (p : pred) (l : list item) : list item := filter (denote p) l.

(** * Scanners ([ext.rs]) *)

Inductive ptag :=
| PNoMatch        (* "no items have matched predicate" *)
| PMultiple       (* "multiple items match predicate" *)
| PNotAll         (* "item does not match predicate" *)
| PMatched.       (* "item matched predicate" *)

Inductive sres (A : Type) := SOk (a : A) | SPanic (t : ptag).
Arguments SOk {A} a.
Arguments SPanic {A} t.

(** [Iterator::find] on a by-value iterator: the item found and the rest of the iterator *)
Fixpoint find_rest {A} (f : A -> bool) (l : list A) : option (A * list A) :=
  match l with
  | [] => None
  | a :: r => if f a then Some (a, r) else find_rest f r
  end.

Section Scanner.
  Context {A : Type}.
  Variable ev : A -> bool.       (* predicate.eval *)

  Definition scan_single (l : list A) : sres A :=
    match find_rest ev l with
    | None => SPanic PNoMatch
    | Some (first, iter) =>
        match find_rest ev iter with
        | Some _ => SPanic PMultiple
        | None => SOk first
        end
    end.

  Definition scan_first (l : list A) : sres A :=
    match find_rest ev l with
    | None => SPanic PNoMatch
    | Some (x, _) => SOk x
    end.

  Definition scan_last (l : list A) : sres A :=
    match find_rest ev (rev l) with
    | None => SPanic PNoMatch
    | Some (x, _) => SOk x
    end.

  Definition scan_all (l : list A) : sres unit :=
    match find_rest (fun x => negb (ev x)) l with
    | Some _ => SPanic PNotAll
    | None => SOk tt
    end.

  Definition scan_none (l : list A) : sres unit :=
    match find_rest ev l with
    | Some _ => SPanic PMatched
    | None => SOk tt
    end.
End Scanner.
