(** Proofs about the model of [capture/src/predicates/]: evaluation equals the reference meaning,
    a supporting case exists exactly when evaluation yields the expected outcome, and the scanner
    helpers are determined by the list of matching items. *)
From TT Require Import Values.ValueProofs Capture.Predicates.

(** * Strings *)

Lemma prefix_iff p : forall t, String.prefix p t = true <-> exists r, t = (p ++ r)%string.
Proof.
  induction p as [|a p IH]; intros t.
  - split; [intros _; exists t; reflexivity | intros _; destruct t; reflexivity].
  - destruct t as [|b t]; simpl.
    + split; [discriminate | intros (r & Hr); discriminate].
    + destruct (Ascii.ascii_dec a b) as [->|Hne].
      * rewrite IH. split; intros (r & Hr); exists r; [rewrite Hr; reflexivity | now injection Hr].
      * split; [discriminate | intros (r & Hr); injection Hr as Hab _; congruence].
Qed.

Lemma strip_prefix_iff p : forall t r, strip_prefix p t = Some r <-> t = (p ++ r)%string.
Proof.
  induction p as [|a p IH]; intros t r; simpl.
  - split; [intros [= ->]; reflexivity | intros ->; reflexivity].
  - destruct t as [|b t].
    + split; discriminate.
    + destruct (Ascii.eqb a b) eqn:E.
      * apply Ascii.eqb_eq in E as ->. rewrite IH.
        split; [intros ->; reflexivity | intros [= ->]; reflexivity].
      * split; [discriminate | intros [= Hab _]; subst; rewrite Ascii.eqb_refl in E; discriminate].
Qed.

Lemma strip_prefix_none p t : strip_prefix p t = None <-> forall r, t <> (p ++ r)%string.
Proof.
  split.
  - intros H r Hr. apply strip_prefix_iff in Hr. congruence.
  - intros H. destruct (strip_prefix p t) as [r|] eqn:E; [|reflexivity].
    apply strip_prefix_iff in E. exfalso. exact (H r E).
Qed.

Lemma append_assoc a : forall b c, ((a ++ b) ++ c = a ++ (b ++ c))%string.
Proof. induction a as [|x a IH]; intros b c; simpl; [reflexivity | now rewrite IH]. Qed.

Lemma append_nil_r a : (a ++ "" = a)%string.
Proof. induction a as [|x a IH]; simpl; [reflexivity | now rewrite IH]. Qed.

Lemma append_inj_l a : forall b c, (a ++ b = a ++ c)%string -> b = c.
Proof. induction a as [|x a IH]; simpl; intros b c H; [exact H | injection H as H; auto]. Qed.

Lemma is_empty_iff s : is_empty s = true <-> s = ""%string.
Proof. destruct s; simpl; split; intros H; congruence. Qed.

(** The target boundary: [TargetStrPredicate] with a given path accepts exactly the path itself and
    the targets that continue it with "::". *)
Lemma target_boundary path t :
  target_str_eval path t = true <->
  t = path \/ exists rest, t = (path ++ "::" ++ rest)%string.
Proof.
  unfold target_str_eval. destruct (strip_prefix path t) as [r|] eqn:E.
  - apply strip_prefix_iff in E. subst t. rewrite orb_true_iff, is_empty_iff.
    unfold starts_with. rewrite prefix_iff. split.
    + intros [-> | (rest & ->)]; [left; apply append_nil_r | right; exists rest; reflexivity].
    + intros [H | (rest & H)].
      * left. rewrite <- (append_nil_r path) in H at 2. exact (append_inj_l _ _ _ H).
      * right. exists rest. exact (append_inj_l _ _ _ H).
  - split; [discriminate|]. rewrite strip_prefix_none in E.
    intros [-> | (rest & ->)]; exfalso.
    + apply (E ""%string). symmetry. apply append_nil_r.
    + apply (E ("::" ++ rest)%string). reflexivity.
Qed.

Lemma target_under_iff path t :
  target_under path t = true <->
  t = path \/ exists rest, t = (path ++ "::" ++ rest)%string.
Proof.
  unfold target_under. rewrite orb_true_iff, String.eqb_eq, prefix_iff.
  split; (intros [H | (rest & H)]; [left; exact H | right; exists rest]).
  - rewrite H. apply append_assoc.
  - rewrite H. symmetry. apply append_assoc.
Qed.

Lemma target_str_eval_denote path t : target_str_eval path t = target_under path t.
Proof.
  apply Bool.eq_iff_eq_true. rewrite target_boundary, target_under_iff. reflexivity.
Qed.

(** * Levels *)

Lemma level_filter_denote o x :
  latom_eval (level_filter_atom o) x = (verbosity x <=? filter_verbosity o).
Proof. destruct o as [l|]; [destruct l|]; destruct x; reflexivity. Qed.

(** * Fields *)

Lemma equiv_denote c v : wf_const c = true -> equiv_eval c v = matches_const c v.
Proof.
  intros Hwf. apply Bool.eq_iff_eq_true. unfold equiv_eval. rewrite eq_cv_sym.
  rewrite (eq_vc_iff_accessor v c Hwf). unfold matches_const.
  destruct (as_type (type_of c) v) as [y|].
  - split; [intros (y0 & [= <-] & H); exact H | intros H; exists y; split; [reflexivity | exact H]].
  - split; [intros (y0 & H & _); discriminate | discriminate].
Qed.

Lemma fpred_eval_denote f v : wf_fpred f = true -> fpred_eval f v = fpred_denote f v.
Proof.
  destruct f as [c|t a|b]; simpl; intros Hwf; [apply equiv_denote; exact Hwf | reflexivity | reflexivity].
Qed.

Lemma message_denote x : message x = message_text (it_values x).
Proof.
  unfold message, message_text, value. destruct (get (it_values x) "message"%string) as [[]|]; reflexivity.
Qed.

(** * Ancestors *)

(** [ancestors] is [iter::successors(parent, parent)] *)
Lemma ancestors_successors x :
  ancestors x = match parent x with None => [] | Some s => s :: ancestors s end.
Proof. unfold ancestors, parent. destruct (it_anc x); reflexivity. Qed.

Lemma ancestors_are_spans x s : In s (ancestors x) -> it_is_span s = true.
Proof.
  unfold ancestors. induction (it_anc x) as [|d r IH]; simpl; [intros []|].
  intros [<- | H]; [reflexivity | exact (IH H)].
Qed.

(** * Evaluation equals the reference meaning *)

Lemma eval_denote p : forall sp x, wf_pred sp p = true -> eval p x = denote p x.
Proof.
  induction p as [l|o|la|path|a|a|name f|a|q IH|q IH|a IHa b IHb|a IHa b IHb]; intros sp x Hwf;
    cbn [eval denote wf_pred] in *.
  - reflexivity.
  - apply level_filter_denote.
  - reflexivity.
  - apply target_str_eval_denote.
  - reflexivity.
  - reflexivity.
  - unfold value. destruct (get (it_values x) name) as [v|]; [|reflexivity].
    apply fpred_eval_denote. exact Hwf.
  - rewrite message_denote. reflexivity.
  - unfold parent. destruct (it_anc x) as [|d r]; [reflexivity|]. exact (IH true _ Hwf).
  - unfold ancestors. induction (it_anc x) as [|d r IHl]; [reflexivity|].
    cbn [chain existsb]. rewrite IHl, (IH true _ Hwf). reflexivity.
  - apply andb_true_iff in Hwf as [H1 H2]. rewrite (IHa sp x H1), (IHb sp x H2). reflexivity.
  - apply andb_true_iff in Hwf as [H1 H2]. rewrite (IHa sp x H1), (IHb sp x H2). reflexivity.
Qed.

Lemma eval_denotes_item p x : wf_pred (it_is_span x) p = true -> eval p x = denote p x.
Proof. apply eval_denote. Qed.

(** * A supporting case exists exactly when evaluation yields the expected outcome *)

Lemma is_some_iff {A} (o : option A) : o <> None <-> is_some o = true.
Proof. destruct o; simpl; split; intros H; congruence. Qed.

Lemma is_some_wrap o : is_some (wrap_child o) = is_some o.
Proof. destruct o; reflexivity. Qed.

Lemma is_some_case_if_eval a e : is_some (case_if_eval a e) = Bool.eqb a e.
Proof. unfold case_if_eval. destruct (Bool.eqb a e); reflexivity. Qed.

Lemma is_some_default a e : is_some (default_find_case a e) = Bool.eqb a e.
Proof. unfold default_find_case. destruct a, e; reflexivity. Qed.

Section CaseIffEval.
  Variable lcase : bool -> latom -> level -> option ctree.
  Variable scase : bool -> satom -> string -> option ctree.
  Variable vcase : bool -> vatom -> tconst -> option ctree.
  Variable bcase : bool -> bool -> tvalue -> option ctree.
  (** the documented contract of [Predicate::find_case] for the atoms of the external crate *)
  Hypothesis lcase_ok : forall b a x, lcase b a x <> None <-> latom_eval a x = b.
  Hypothesis scase_ok : forall b a x, scase b a x <> None <-> satom_eval a x = b.
  Hypothesis vcase_ok : forall b a y, vcase b a y <> None <-> vatom_eval a y = b.
  Hypothesis bcase_ok : forall b c v, bcase b c v <> None <-> c = b.

  Local Notation fc := (find_case_with lcase scase vcase bcase).

  Lemma contract_bool {A} (o : option A) (a b : bool) : (o <> None <-> a = b) -> is_some o = Bool.eqb a b.
  Proof.
    intros H. apply Bool.eq_iff_eq_true. rewrite <- is_some_iff, H. symmetry. apply eqb_true_iff.
  Qed.

  Lemma fpred_case_some b f v :
    is_some (fpred_case vcase bcase b f v) = Bool.eqb (fpred_eval f v) b.
  Proof.
    destruct f as [c|t a|c]; simpl.
    - apply is_some_case_if_eval.
    - unfold value_case, value_eval. destruct (as_type t v) as [y|].
      + rewrite is_some_wrap. apply contract_bool, vcase_ok.
      + destruct b; reflexivity.
    - apply contract_bool, bcase_ok.
  Qed.

  Lemma find_map_some (q : pred) (l : list item) :
    (forall s, is_some (fc true q s) = Bool.eqb (eval q s) true) ->
    is_some (find_map (fun s => fc true q s) l) = existsb (eval q) l.
  Proof.
    intros H. induction l as [|s l IH]; [reflexivity|]. cbn [find_map existsb].
    specialize (H s). destruct (fc true q s) as [c|]; simpl in H.
    - destruct (eval q s); [reflexivity | discriminate].
    - destruct (eval q s); [discriminate | exact IH].
  Qed.

  Lemma try_fold_some (q : pred) (l : list item) :
    (forall s, is_some (fc false q s) = Bool.eqb (eval q s) false) ->
    forall acc,
      is_some (try_fold (fun case s => match fc false q s with
                                       | None => None
                                       | Some child => Some (add_child case child)
                                       end) acc l) = negb (existsb (eval q) l).
  Proof.
    intros H. induction l as [|s l IH]; intros acc; [reflexivity|]. cbn [try_fold existsb].
    specialize (H s). destruct (fc false q s) as [c|]; simpl in H.
    - destruct (eval q s); [discriminate | apply IH].
    - destruct (eval q s); [reflexivity | discriminate].
  Qed.

  Lemma find_case_some p : forall b x, is_some (fc b p x) = Bool.eqb (eval p x) b.
  Proof.
    induction p as [l|o|la|path|a|a|name f|a|q IH|q IH|a IHa c IHc|a IHa c IHc]; intros b x;
      cbn [find_case_with eval] in *.
    - rewrite is_some_wrap. apply contract_bool, lcase_ok.
    - rewrite is_some_wrap. apply contract_bool, lcase_ok.
    - rewrite is_some_wrap. apply contract_bool, lcase_ok.
    - rewrite is_some_wrap. apply is_some_case_if_eval.
    - rewrite is_some_wrap. apply contract_bool, scase_ok.
    - rewrite is_some_wrap. apply contract_bool, scase_ok.
    - destruct (value x name) as [v|].
      + rewrite is_some_wrap. apply fpred_case_some.
      + destruct b; reflexivity.
    - destruct (message x) as [m|].
      + rewrite is_some_wrap. apply contract_bool, scase_ok.
      + destruct b; reflexivity.
    - destruct (parent x) as [s|].
      + rewrite is_some_wrap. apply IH.
      + destruct b; reflexivity.
    - destruct b.
      + rewrite is_some_wrap, (find_map_some q (ancestors x) (IH true)).
        destruct (existsb (eval q) (ancestors x)); reflexivity.
      + rewrite (try_fold_some q (ancestors x) (IH false)).
        destruct (existsb (eval q) (ancestors x)); reflexivity.
    - specialize (IHa b x). specialize (IHc b x).
      destruct b;
        destruct (find_case_with lcase scase vcase bcase _ a x);
        destruct (find_case_with lcase scase vcase bcase _ c x);
        destruct (eval a x); destruct (eval c x); simpl in *; congruence.
    - specialize (IHa b x). specialize (IHc b x).
      destruct b;
        destruct (find_case_with lcase scase vcase bcase _ a x);
        destruct (find_case_with lcase scase vcase bcase _ c x);
        destruct (eval a x); destruct (eval c x); simpl in *; congruence.
  Qed.

  Lemma case_iff_eval_with b p x : fc b p x <> None <-> eval p x = b.
  Proof. rewrite is_some_iff, find_case_some. apply eqb_true_iff. Qed.
End CaseIffEval.

(** the behaviour of [predicates] 3.1.3 satisfies the contract *)
Lemma default_case_ok (a e : bool) : default_find_case a e <> None <-> a = e.
Proof. rewrite is_some_iff, is_some_default. apply eqb_true_iff. Qed.

Lemma case_iff_eval b p x : find_case b p x <> None <-> eval p x = b.
Proof.
  apply case_iff_eval_with.
  - intros b0 a l. apply default_case_ok.
  - intros b0 a s. apply default_case_ok.
  - intros b0 a y. apply default_case_ok.
  - intros b0 c v. apply default_case_ok.
Qed.

(** consequences: exactly one of the two outcomes is supported *)
Lemma case_exclusive p x : (find_case true p x <> None) <-> find_case false p x = None.
Proof.
  rewrite case_iff_eval. split.
  - intros H. destruct (find_case false p x) eqn:E; [|reflexivity].
    assert (Hf : find_case false p x <> None) by congruence.
    apply case_iff_eval in Hf. congruence.
  - intros H. destruct (eval p x) eqn:E; [reflexivity|].
    exfalso. apply (proj2 (case_iff_eval false p x)) in E. exact (E H).
Qed.

(** * Scanners *)

Section ScannerProofs.
  Context {A : Type}.
  Variable f : A -> bool.

  Lemma find_rest_filter l :
    match find_rest f l with
    | None => filter f l = []
    | Some (x, r) => filter f l = x :: filter f r
    end.
  Proof.
    induction l as [|a l IH]; simpl; [reflexivity|].
    destruct (f a) eqn:E; [reflexivity|]. exact IH.
  Qed.

  Lemma scan_single_spec l :
    scan_single f l = match filter f l with
                      | [] => SPanic PNoMatch
                      | [x] => SOk x
                      | _ :: _ :: _ => SPanic PMultiple
                      end.
  Proof.
    unfold scan_single. pose proof (find_rest_filter l) as H1.
    destruct (find_rest f l) as [[x r]|]; rewrite H1; [|reflexivity].
    pose proof (find_rest_filter r) as H2.
    destruct (find_rest f r) as [[y r']|]; rewrite H2; reflexivity.
  Qed.

  Lemma scan_first_spec l :
    scan_first f l = match filter f l with [] => SPanic PNoMatch | x :: _ => SOk x end.
  Proof.
    unfold scan_first. pose proof (find_rest_filter l) as H1.
    destruct (find_rest f l) as [[x r]|]; rewrite H1; reflexivity.
  Qed.

  Lemma filter_rev_comm l : filter f (rev l) = rev (filter f l).
  Proof.
    induction l as [|a l IH]; simpl; [reflexivity|].
    rewrite filter_app, IH. simpl. destruct (f a); simpl; [reflexivity | apply app_nil_r].
  Qed.

  Lemma scan_last_spec l :
    scan_last f l = match rev (filter f l) with [] => SPanic PNoMatch | x :: _ => SOk x end.
  Proof.
    unfold scan_last. pose proof (find_rest_filter (rev l)) as H1.
    rewrite filter_rev_comm in H1.
    destruct (find_rest f (rev l)) as [[x r]|]; rewrite H1; reflexivity.
  Qed.

  Lemma scan_none_spec l :
    scan_none f l = match filter f l with [] => SOk tt | _ :: _ => SPanic PMatched end.
  Proof.
    unfold scan_none. pose proof (find_rest_filter l) as H1.
    destruct (find_rest f l) as [[x r]|]; rewrite H1; reflexivity.
  Qed.

  Lemma filter_length_le l : (List.length (filter f l) <= List.length l)%nat.
  Proof. induction l as [|a l IH]; simpl; [lia|]. destruct (f a); simpl; lia. Qed.

  Lemma find_rest_neg_none l :
    find_rest (fun x => negb (f x)) l = None <-> List.length (filter f l) = List.length l.
  Proof.
    induction l as [|a l IH]; simpl; [split; reflexivity|].
    destruct (f a); simpl.
    - rewrite IH. split; intros H; lia.
    - split; [discriminate|]. pose proof (filter_length_le l). lia.
  Qed.

  Lemma scan_all_spec l :
    scan_all f l = if Nat.eqb (List.length (filter f l)) (List.length l) then SOk tt else SPanic PNotAll.
  Proof.
    unfold scan_all. pose proof (find_rest_neg_none l) as H.
    destruct (find_rest (fun x => negb (f x)) l) as [p|].
    - destruct (Nat.eqb_spec (List.length (filter f l)) (List.length l)) as [E|E]; [|reflexivity].
      apply H in E. discriminate.
    - rewrite (proj2 (Nat.eqb_eq _ _) (proj1 H eq_refl)). reflexivity.
  Qed.

  (** the statements in the form "returns ... exactly when ..., panics otherwise" *)
  Lemma scan_single_ok l x : scan_single f l = SOk x <-> filter f l = [x].
  Proof.
    rewrite scan_single_spec. destruct (filter f l) as [|a [|b r]]; split; intros H;
      try discriminate; congruence.
  Qed.
  Lemma scan_single_panic l :
    (scan_single f l = SPanic PNoMatch <-> List.length (filter f l) = 0%nat) /\
    (scan_single f l = SPanic PMultiple <-> (2 <= List.length (filter f l))%nat) /\
    ((exists t, scan_single f l = SPanic t) <-> List.length (filter f l) <> 1%nat).
  Proof.
    rewrite scan_single_spec. destruct (filter f l) as [|a [|b r]]; simpl; repeat split;
      try discriminate; try lia; try (intros (t & H); discriminate); intros H;
      try (exfalso; lia); eauto.
  Qed.
  Lemma scan_first_ok l x : scan_first f l = SOk x <-> hd_error (filter f l) = Some x.
  Proof.
    rewrite scan_first_spec. destruct (filter f l); simpl; split; intros H; try discriminate; congruence.
  Qed.
  Lemma scan_first_panic l :
    (exists t, scan_first f l = SPanic t) <-> List.length (filter f l) = 0%nat.
  Proof.
    rewrite scan_first_spec. destruct (filter f l); simpl; split; intros H; eauto; try lia.
    destruct H as (t & H). discriminate.
  Qed.
  Lemma scan_last_ok l x : scan_last f l = SOk x <-> hd_error (rev (filter f l)) = Some x.
  Proof.
    rewrite scan_last_spec. destruct (rev (filter f l)); simpl; split; intros H; try discriminate; congruence.
  Qed.
  Lemma scan_last_panic l :
    (exists t, scan_last f l = SPanic t) <-> List.length (filter f l) = 0%nat.
  Proof.
    rewrite scan_last_spec, <- (rev_length (filter f l)).
    destruct (rev (filter f l)); simpl; split; intros H; eauto; try lia.
    destruct H as (t & H). discriminate.
  Qed.
  Lemma scan_all_ok l : scan_all f l = SOk tt <-> List.length (filter f l) = List.length l.
  Proof.
    rewrite scan_all_spec. destruct (Nat.eqb_spec (List.length (filter f l)) (List.length l));
      split; intros H; try discriminate; try reflexivity; congruence.
  Qed.
  Lemma scan_all_total l : scan_all f l = SOk tt \/ scan_all f l = SPanic PNotAll.
  Proof. rewrite scan_all_spec. destruct (Nat.eqb _ _); auto. Qed.
  Lemma scan_none_ok l : scan_none f l = SOk tt <-> List.length (filter f l) = 0%nat.
  Proof.
    rewrite scan_none_spec. destruct (filter f l); simpl; split; intros H; try discriminate; try reflexivity; lia.
  Qed.
  Lemma scan_none_total l : scan_none f l = SOk tt \/ scan_none f l = SPanic PMatched.
  Proof. rewrite scan_none_spec. destruct (filter f l); auto. Qed.
End ScannerProofs.

(** scanners do not depend on how the predicate is computed, only on its values on the items *)
Lemma find_rest_ext {A} (f g : A -> bool) l :
  (forall x, In x l -> f x = g x) -> find_rest f l = find_rest g l.
Proof.
  induction l as [|a l IH]; intros H; simpl; [reflexivity|].
  rewrite (H a (or_introl eq_refl)). destruct (g a); [reflexivity|].
  apply IH. intros x Hx. apply H. right. exact Hx.
Qed.

Lemma filter_ext_in' {A} (f g : A -> bool) l :
  (forall x, In x l -> f x = g x) -> filter f l = filter g l.
Proof.
  induction l as [|a l IH]; intros H; simpl; [reflexivity|].
  rewrite (H a (or_introl eq_refl)), IH; [reflexivity|].
  intros x Hx. apply H. right. exact Hx.
Qed.

(** scanning captured items with a well-typed predicate: the matching items are those of the
    reference meaning *)
Lemma filter_eval_denote sp p (l : list item) :
  wf_pred sp p = true -> filter (eval p) l = filter (denote p) l.
Proof. intros Hwf. apply filter_ext_in'. intros x _. exact (eval_denote p sp x Hwf). Qed.

Lemma case_iff_denote sp b p x :
  wf_pred sp p = true -> (find_case b p x <> None <-> denote p x = b).
Proof. intros Hwf. rewrite case_iff_eval, (eval_denote p sp x Hwf). reflexivity. Qed.

(** The scanner helpers on captured items, in terms of the reference meaning. *)

Section ScanItems.
  Variable sp : bool.
  Variable p : pred.
  Hypothesis Hwf : wf_pred sp p = true.

  Lemma single_unique l x : scan_single (eval p) l = SOk x <-> matching p l = [x].
  Proof. unfold matching. rewrite <- (filter_eval_denote sp p l Hwf). apply scan_single_ok. Qed.

  Lemma single_panics l :
    (scan_single (eval p) l = SPanic PNoMatch <-> List.length (matching p l) = 0%nat) /\
    (scan_single (eval p) l = SPanic PMultiple <-> (2 <= List.length (matching p l))%nat) /\
    ((exists t, scan_single (eval p) l = SPanic t) <-> List.length (matching p l) <> 1%nat).
  Proof. unfold matching. rewrite <- (filter_eval_denote sp p l Hwf). apply scan_single_panic. Qed.

  Lemma first_is_first l x : scan_first (eval p) l = SOk x <-> hd_error (matching p l) = Some x.
  Proof. unfold matching. rewrite <- (filter_eval_denote sp p l Hwf). apply scan_first_ok. Qed.

  Lemma first_panics l :
    (exists t, scan_first (eval p) l = SPanic t) <-> List.length (matching p l) = 0%nat.
  Proof. unfold matching. rewrite <- (filter_eval_denote sp p l Hwf). apply scan_first_panic. Qed.

  Lemma last_is_last l x : scan_last (eval p) l = SOk x <-> hd_error (rev (matching p l)) = Some x.
  Proof. unfold matching. rewrite <- (filter_eval_denote sp p l Hwf). apply scan_last_ok. Qed.

  Lemma last_panics l :
    (exists t, scan_last (eval p) l = SPanic t) <-> List.length (matching p l) = 0%nat.
  Proof. unfold matching. rewrite <- (filter_eval_denote sp p l Hwf). apply scan_last_panic. Qed.

  Lemma all_iff_count l :
    (scan_all (eval p) l = SOk tt <-> List.length (matching p l) = List.length l) /\
    (scan_all (eval p) l = SOk tt \/ scan_all (eval p) l = SPanic PNotAll).
  Proof.
    unfold matching. rewrite <- (filter_eval_denote sp p l Hwf).
    split; [apply scan_all_ok | apply scan_all_total].
  Qed.

  Lemma none_iff_count l :
    (scan_none (eval p) l = SOk tt <-> List.length (matching p l) = 0%nat) /\
    (scan_none (eval p) l = SOk tt \/ scan_none (eval p) l = SPanic PMatched).
  Proof.
    unfold matching. rewrite <- (filter_eval_denote sp p l Hwf).
    split; [apply scan_none_ok | apply scan_none_total].
  Qed.
End ScanItems.
