(** Layer L4: model of [CaptureLayer] ([capture/src/layer.rs], [impl Layer<S> for CaptureLayer<S>])
    over the Registry model of [Host/Registry.v], producing mutations of the [Storage] model of
    [Capture/Storage.v].  A single layer, and stacks of any number of capture layers and
    pass-through layers on one Registry.  Definitions only.

    Each callback is transcribed in the order of the Rust code; every [unwrap()] is an explicit
    [RPanic]. *)
From TT Require Export Host.Registry Capture.Storage.

(** * What a captured span / event carries besides its links *)
Record span_payload := mk_spl {
  spl_meta : cs_data;          (* metadata *)
  spl_values : tvalues;        (* values *)
  spl_entered : N;             (* stats.entered *)
  spl_exited : N;              (* stats.exited *)
  spl_closed : bool }.         (* stats.is_closed *)
Record event_payload := mk_epl {
  epl_meta : cs_data;
  epl_values : tvalues }.

Definition cstorage := storage span_payload event_payload.

Definition pl_enter (p : span_payload) : span_payload :=
  mk_spl (spl_meta p) (spl_values p) (spl_entered p + 1) (spl_exited p) (spl_closed p).
Definition pl_exit (p : span_payload) : span_payload :=
  mk_spl (spl_meta p) (spl_values p) (spl_entered p) (spl_exited p + 1) (spl_closed p).
Definition pl_close (p : span_payload) : span_payload :=
  mk_spl (spl_meta p) (spl_values p) (spl_entered p) (spl_exited p) true.
(** [span.values.extend(values)] *)
Definition pl_record (vs : tvalues) (p : span_payload) : span_payload :=
  mk_spl (spl_meta p) (extend (spl_values p) vs) (spl_entered p) (spl_exited p) (spl_closed p).

(** [Storage]'s [unwrap]s as panics of the run *)
Definition of_outcome {A} (o : outcome A) : result A :=
  match o with
  | Done a => ROk a
  | Panic => RPanic PStorage
  | OutOfFuel => RNoFuel
  end.

(** * One capture layer

    [filter]: the layer's own filter, a pure predicate on metadata ([None] in the code = always
    true); [key]: [storage_key()], the address of the layer's storage. *)

(** [captured_id(span)]: the first entry of the span's [CapturedSpanIds] with this layer's key *)
Fixpoint ext_find (key : N) (e : list (N * N)) : option N :=
  match e with
  | [] => None
  | (k, id) :: t => if k =? key then Some id else ext_find key t
  end.
Definition captured_id (key : N) (s : rspan) : option N := ext_find key (rs_ext s).

(** [scope.find_map(|span| self.captured_id(&span))] over the spans a [Scope] yields *)
Fixpoint scope_find (r : reg) (key : N) (scope : list nat) : option N :=
  match scope with
  | [] => None
  | id :: t =>
      match reg_get r id with
      | Some s => match captured_id key s with Some c => Some c | None => scope_find r key t end
      | None => scope_find r key t
      end
  end.

Definition layer_step (filter : cs_data -> bool) (key : N) (r : reg) (tid : nat) (cb : lcallback)
           (st : cstorage) : result (reg * cstorage) :=
  match cb with
  | CbNewSpan id meta vals =>
      if negb (filter meta) then ROk (r, st)
      else
        let parent_id := match ctx_span_scope r id with
                         | Some scope => scope_find r key scope
                         | None => None
                         end in
        let values := from_value_set (cs_fields meta) vals in
        let* (st1, arena_id) := of_outcome (push_span st (mk_spl meta values 0 0 false) parent_id) in
        match ctx_span r id with
        | None => RPanic PLayerNewSpan
        | Some s => ROk (reg_set_ext r id (rs_ext s ++ [(key, arena_id)]), st1)
        end
  | CbRecord id vals =>
      match ctx_span r id with
      | None => RPanic PLayerRecord
      | Some s =>
          match captured_id key s with
          | Some c =>
              let* st1 := of_outcome (on_span_update st c
                                        (pl_record (from_value_set (cs_fields (rs_meta s)) vals))) in
              ROk (r, st1)
          | None => ROk (r, st)
          end
      end
  | CbEvent meta pk vals =>
      if negb (filter meta) then ROk (r, st)
      else
        let parent_id := match ctx_event_scope r tid pk with
                         | Some scope => scope_find r key scope
                         | None => None
                         end in
        let* (st1, _) := of_outcome (push_event st (mk_epl meta (from_value_set (cs_fields meta) vals))
                                                parent_id) in
        ROk (r, st1)
  | CbEnter id =>
      match ctx_span r id with
      | None => RPanic PLayerEnter
      | Some s =>
          match captured_id key s with
          | Some c => let* st1 := of_outcome (on_span_update st c pl_enter) in ROk (r, st1)
          | None => ROk (r, st)
          end
      end
  | CbExit id =>
      match ctx_span r id with
      | None => RPanic PLayerExit
      | Some s =>
          match captured_id key s with
          | Some c => let* st1 := of_outcome (on_span_update st c pl_exit) in ROk (r, st1)
          | None => ROk (r, st)
          end
      end
  | CbClose id =>
      match ctx_span r id with
      | None => RPanic PLayerClose
      | Some s =>
          match captured_id key s with
          | Some c => let* st1 := of_outcome (on_span_update st c pl_close) in ROk (r, st1)
          | None => ROk (r, st)
          end
      end
  | CbFollows id t =>
      (* let (Some(span), Some(follows)) = (ctx.span(id), ctx.span(follows_id)) else { return }; *)
      match ctx_span r id, resolve_target r t with
      | Some s, Some fid =>
          match reg_get r fid with
          | Some fs =>
              match captured_id key s with
              | Some c =>
                  match captured_id key fs with
                  | Some fc => let* st1 := of_outcome (on_follows_from st c fc) in ROk (r, st1)
                  | None => ROk (r, st)
                  end
              | None => ROk (r, st)
              end
          | None => ROk (r, st)
          end
      | _, _ => ROk (r, st)
      end
  end.

(** ** A single capture layer on the Registry *)
Definition layer_key0 : N := 0.
Definition layer_run (filter : cs_data -> bool) (ids : list N) (p : prog) : result (reg * cstorage) :=
  sub_run (layer_step filter layer_key0) ids p empty_storage.
Definition storage_of (x : result (reg * cstorage)) : option cstorage :=
  match x with ROk (_, st) => Some st | _ => None end.

(** * Stacks of layers

    Innermost layer first ([Registry::default().with(l1).with(l2)] = [[l1; l2]]); every [Layered]
    calls the inner subscriber / layer before its own layer, for every callback. *)
Inductive layer :=
| LCapture (filter : cs_data -> bool) (key : N) (st : cstorage)
| LPass.                                       (* a layer with the default (empty) callbacks *)

Fixpoint stack_deliver (r : reg) (tid : nat) (cb : lcallback) (ls : list layer)
  : result (reg * list layer) :=
  match ls with
  | [] => ROk (r, [])
  | LPass :: rest =>
      let* (r1, rest1) := stack_deliver r tid cb rest in ROk (r1, LPass :: rest1)
  | LCapture f key st :: rest =>
      let* (r1, st1) := layer_step f key r tid cb st in
      let* (r2, rest1) := stack_deliver r1 tid cb rest in
      ROk (r2, LCapture f key st1 :: rest1)
  end.

Definition stack_run (ids : list N) (p : prog) (ls : list layer) : result (reg * list layer) :=
  sub_run stack_deliver ids p ls.

(** the storages of the capture layers of a stack, in stack order *)
Fixpoint stack_storages (ls : list layer) : list cstorage :=
  match ls with
  | [] => []
  | LCapture _ _ st :: rest => st :: stack_storages rest
  | LPass :: rest => stack_storages rest
  end.
Fixpoint stack_keys (ls : list layer) : list N :=
  match ls with
  | [] => []
  | LCapture _ key _ :: rest => key :: stack_keys rest
  | LPass :: rest => stack_keys rest
  end.
Fixpoint stack_filters (ls : list layer) : list (cs_data -> bool) :=
  match ls with
  | [] => []
  | LCapture f _ _ :: rest => f :: stack_filters rest
  | LPass :: rest => stack_filters rest
  end.
(** all storages empty, as after [SharedStorage::default()] *)
Fixpoint stack_fresh (ls : list layer) : bool :=
  match ls with
  | [] => true
  | LCapture _ _ st :: rest =>
      match st_spans st, st_events st, st_root_span_ids st, st_root_event_ids st with
      | [], [], [], [] => stack_fresh rest
      | _, _, _, _ => false
      end
  | LPass :: rest => stack_fresh rest
  end.

(** * Filters used by the correspondence runs: a small AST with the same interpreter on the Rust
    side ([impl Filter<S>] in the harness); [FLevel max] is also what [LevelFilter] computes. *)
Inductive fexpr :=
| FTrue
| FLevel (max : level)            (* metadata.level() <= max, i.e. at least as severe *)
| FTargetPrefix (s : string)      (* metadata.target().starts_with(s) *)
| FName (s : string)              (* metadata.name() == s *)
| FKind (k : cskind)              (* is_span() / is_event() *)
| FHasField (s : string)          (* metadata.fields().field(s).is_some() *)
| FAnd (a b : fexpr)
| FOr (a b : fexpr)
| FNot (a : fexpr).

Definition level_rank (l : level) : N :=
  match l with LError => 0 | LWarn => 1 | LInfo => 2 | LDebug => 3 | LTrace => 4 end.

Fixpoint feval (e : fexpr) (d : cs_data) : bool :=
  match e with
  | FTrue => true
  | FLevel max => level_rank (cs_level d) <=? level_rank max
  | FTargetPrefix s => String.prefix s (cs_target d)
  | FName s => String.eqb (cs_name d) s
  | FKind k => cskind_eqb (cs_kind d) k
  | FHasField s => existsb (String.eqb s) (cs_fields d)
  | FAnd a b => feval a d && feval b d
  | FOr a b => feval a d || feval b d
  | FNot a => negb (feval a d)
  end.
