(** Several threads emitting into one subscriber: executions, schedules, and what each thread
    contributes.  Definitions only (proofs in [ConcurrentProofs.v]).

    An *execution* at callback granularity is a program whose operations carry the id of the thread
    that issues them ([prog] of [Guest/Program.v]): each operation is one call of the [tracing]
    front end, which the subscriber (Registry + layers) handles as one step.  That every callback of
    [CaptureLayer] changes its storage under a single acquisition of the write lock, and that the
    Registry's own structures are linearizable, is what makes this granularity the right one; it is
    assumed, not proved (the correspondence runs exercise it with free-running threads). *)
From TT Require Export Capture.LayerSpec.

(** * Threads *)

(** the operations thread [t] issues, in its program order *)
Definition thread_ops (t : nat) (ops : list (nat * Program.op)) : list Program.op :=
  map snd (List.filter (fun o => Nat.eqb (fst o) t) ops).

(** a thread's span stack as a function of that thread's own operations alone (most recent first) *)
Fixpoint run_stack (s : list nat) (ops : list Program.op) : list nat :=
  match ops with
  | [] => s
  | OEnter k :: r => run_stack (k :: s) r
  | OExit k :: r => run_stack (remove_first s k) r
  | _ :: r => run_stack s r
  end.
Definition own_stack (t : nat) (ops : list (nat * Program.op)) : list nat :=
  run_stack [] (thread_ops t ops).

(** * Schedules

    [interleave ps sch]: thread [t] runs the operations [nth t ps []]; the scheduler picks the thread
    that makes the next step; picking a thread that has finished (or does not exist) is a no-op. *)
Fixpoint set_at {A} (l : list A) (i : nat) (x : A) : list A :=
  match l, i with
  | [], _ => []
  | _ :: t, O => x :: t
  | h :: t, S j => h :: set_at t j x
  end.

Fixpoint interleave (ps : list (list Program.op)) (sch : list nat) : list (nat * Program.op) :=
  match sch with
  | [] => []
  | t :: sch' =>
      match nth_error ps t with
      | Some (o :: rest) => (t, o) :: interleave (set_at ps t rest) sch'
      | _ => interleave ps sch'
      end
  end.

(** what is left of every thread's program after the schedule *)
Fixpoint remaining (ps : list (list Program.op)) (sch : list nat) : list (list Program.op) :=
  match sch with
  | [] => ps
  | t :: sch' =>
      match nth_error ps t with
      | Some (o :: rest) => remaining (set_at ps t rest) sch'
      | _ => remaining ps sch'
      end
  end.
Definition complete (ps : list (list Program.op)) (sch : list nat) : Prop :=
  Forall (fun p => p = []) (remaining ps sch).

(** * What the program emits *)

(** one emitted span or event: position in the execution, issuing thread, call site, parent kind,
    values *)
Record emitted := mk_em {
  em_pos : nat; em_tid : nat; em_meta : cs_data; em_pk : parent_kind; em_vals : valset }.

Fixpoint emitted_from (sites : list cs_data) (pos : nat) (ops : list (nat * Program.op))
  : list emitted * list emitted :=
  match ops with
  | [] => ([], [])
  | (t, o) :: r =>
      let '(ss, es) := emitted_from sites (S pos) r in
      match o with
      | ONewSpan cs pk vals =>
          match nth_error sites cs with
          | Some meta => (mk_em pos t meta pk vals :: ss, es)
          | None => (ss, es)
          end
      | OEvent cs pk vals =>
          match nth_error sites cs with
          | Some meta => (ss, mk_em pos t meta pk vals :: es)
          | None => (ss, es)
          end
      | _ => (ss, es)
      end
  end.
(** spans (all of them: position in the list = creation index) and events, in emission order *)
Definition emitted_spans (p : prog) : list emitted := fst (emitted_from (p_sites p) 0 (p_ops p)).
Definition emitted_events (p : prog) : list emitted := snd (emitted_from (p_sites p) 0 (p_ops p)).

(** the logical parent of an emitted item: explicit, none for an explicit root, and for a contextual
    one the current span of the issuing thread's own stack at that point of the execution - a
    function of that thread's own enter / exit operations before the item, and of nothing else *)
Definition em_lparent (p : prog) (e : emitted) : option nat :=
  match em_pk e with
  | PKRoot => None
  | PKExplicit k => Some k
  | PKCtx => spec_current (own_stack (em_tid e) (firstn (em_pos e) (p_ops p)))
  end.

(** the items a thread emitted, in its program order *)
Definition of_thread (t : nat) (l : list emitted) : list emitted :=
  List.filter (fun e => Nat.eqb (em_tid e) t) l.

(** the spans / events a sequence of operations of ONE thread emits, in program order *)
Fixpoint span_emits (sites : list cs_data) (ops : list Program.op) : list (cs_data * parent_kind * valset) :=
  match ops with
  | [] => []
  | ONewSpan cs pk vals :: r =>
      match nth_error sites cs with
      | Some meta => (meta, pk, vals) :: span_emits sites r
      | None => span_emits sites r
      end
  | _ :: r => span_emits sites r
  end.
Fixpoint event_emits (sites : list cs_data) (ops : list Program.op) : list (cs_data * parent_kind * valset) :=
  match ops with
  | [] => []
  | OEvent cs pk vals :: r =>
      match nth_error sites cs with
      | Some meta => (meta, pk, vals) :: event_emits sites r
      | None => event_emits sites r
      end
  | _ :: r => event_emits sites r
  end.
Definition em_triple (e : emitted) : cs_data * parent_kind * valset := (em_meta e, em_pk e, em_vals e).

(** the thread that emitted the i-th captured span / event *)
Definition span_owners (f : cs_data -> bool) (p : prog) : list nat :=
  map em_tid (List.filter (fun e => f (em_meta e)) (emitted_spans p)).
Definition event_owners (f : cs_data -> bool) (p : prog) : list nat :=
  map em_tid (List.filter (fun e => f (em_meta e)) (emitted_events p)).
(** the entries of [l] that belong to thread [t] according to the owner list *)
Definition select {A} (owners : list nat) (t : nat) (l : list A) : list A :=
  map snd (List.filter (fun x => Nat.eqb (fst x) t) (combine owners l)).
