(** Reference specification of what a capture layer with a given filter must hold after a traced
    program: an interpreter written from the text of property C05 over an abstract forest, and the
    captured storage described declaratively from the final forest.  Definitions only.

    Nothing here looks at Registry reference counts, extensions, scopes or at the order in which
    [Storage] is mutated: the spec knows the program's spans by creation index, their logical parents,
    the program's own handle and enter counts ([sym_state] of [Guest/Program.v]) and the filter. *)
From TT Require Export Capture.Layer.

(** * The abstract forest *)
Record aspan := mk_aspan {
  as_meta : cs_data;
  as_raw : N;                      (* the id the subscriber issued (only stale follows-from looks at it) *)
  as_lparent : option nat;         (* logical parent: explicit / none for a root / current span *)
  as_values : tvalues;             (* values at creation, then extended by every record *)
  as_entered : N;                  (* number of enter ops *)
  as_exited : N;                   (* number of exit ops *)
  as_follows : list nat }.         (* follows-from targets among captured spans, in order *)

Record aevent := mk_aevent {       (* events the filter enabled, in emission order *)
  ae_meta : cs_data;
  ae_lparent : option nat;
  ae_values : tvalues }.

Record astate := mk_astate {
  a_sym : sym_state;               (* live handles per span; per thread the entered spans *)
  a_spans : list aspan;            (* position = creation index *)
  a_events : list aevent }.

Definition a_init : astate := mk_astate sym_init [] [].

(** ** The program's own bookkeeping (the updates of [wf_step], without its checks) *)
Definition sym_next (st : sym_state) (o : nat * Program.op) : sym_state :=
  let tid := fst o in
  match snd o with
  | ONewSpan cs _ _ => mk_sym (ss_spans st ++ [mk_sspan cs 1]) (ss_stacks st)
  | OEnter k => mk_sym (ss_spans st) (set_stack (ss_stacks st) tid (k :: stack_of (ss_stacks st) tid))
  | OExit k => mk_sym (ss_spans st)
                      (set_stack (ss_stacks st) tid (remove_first (stack_of (ss_stacks st) tid) k))
  | OClone k => mk_sym (set_handles (ss_spans st) k (handles st k + 1)) (ss_stacks st)
  | ODrop k => mk_sym (set_handles (ss_spans st) k (handles st k - 1)) (ss_stacks st)
  | ORecord _ _ | OFollows _ _ | OEvent _ _ _ => st
  end.

(** the thread's current span: the innermost entered span, where a span that is entered several
    times counts at its outermost enter (stack: most recent first) *)
Fixpoint spec_current (s : list nat) : option nat :=
  match s with
  | [] => None
  | k :: r => if on_stack r k then spec_current r else Some k
  end.

Definition logical_parent (st : sym_state) (tid : nat) (pk : parent_kind) : option nat :=
  match pk with
  | PKRoot => None
  | PKExplicit k => Some k
  | PKCtx => spec_current (stack_of (ss_stacks st) tid)
  end.

(** ** Open spans: a span is open while it has a live handle, is entered on some thread, or has an
    open child (children have larger creation indices, so the table is scanned from its end) *)
Definition opt_nat_eqb (a b : option nat) : bool := option_eqb Nat.eqb a b.

Fixpoint has_open_child (k : nat) (tl : list aspan) (fl : list bool) : bool :=
  match tl, fl with
  | s :: tl', f :: fl' => (f && opt_nat_eqb (as_lparent s) (Some k)) || has_open_child k tl' fl'
  | _, _ => false
  end.
Fixpoint open_from (sym : sym_state) (k : nat) (l : list aspan) : list bool :=
  match l with
  | [] => []
  | _ :: tl =>
      let fl := open_from sym (S k) tl in
      (live sym k || on_any_stack sym k || has_open_child k tl fl) :: fl
  end.
Definition open_flags (st : astate) : list bool := open_from (a_sym st) 0 (a_spans st).
Definition a_open (st : astate) (k : nat) : bool := nth k (open_flags st) false.

(** the open span that currently carries the raw subscriber id [raw], if any *)
Fixpoint find_open_raw (spans : list aspan) (flags : list bool) (base : nat) (raw : N) : option nat :=
  match spans, flags with
  | s :: tl, f :: fl =>
      if f && (as_raw s =? raw) then Some base else find_open_raw tl fl (S base) raw
  | _, _ => None
  end.

Definition follow_target_of (st : astate) (t : follow_target) : option nat :=
  match t with
  | FLive j => if a_open st j then Some j else None
  | FStale raw => find_open_raw (a_spans st) (open_flags st) 0 raw
  end.

(** ** One op *)
Definition upd_span (l : list aspan) (k : nat) (f : aspan -> aspan) : list aspan :=
  match nth_error l k with Some s => set_nth l k (f s) | None => l end.

Definition as_record (vs : tvalues) (s : aspan) : aspan :=
  mk_aspan (as_meta s) (as_raw s) (as_lparent s) (extend (as_values s) vs) (as_entered s) (as_exited s)
           (as_follows s).
Definition as_enter (s : aspan) : aspan :=
  mk_aspan (as_meta s) (as_raw s) (as_lparent s) (as_values s) (as_entered s + 1) (as_exited s)
           (as_follows s).
Definition as_exit (s : aspan) : aspan :=
  mk_aspan (as_meta s) (as_raw s) (as_lparent s) (as_values s) (as_entered s) (as_exited s + 1)
           (as_follows s).
Definition as_follow (j : nat) (s : aspan) : aspan :=
  mk_aspan (as_meta s) (as_raw s) (as_lparent s) (as_values s) (as_entered s) (as_exited s)
           (as_follows s ++ [j]).

Definition captured (filter : cs_data -> bool) (spans : list aspan) (k : nat) : bool :=
  match nth_error spans k with Some s => filter (as_meta s) | None => false end.

Definition spec_step (filter : cs_data -> bool) (sites : list cs_data) (ids : list N)
           (st : astate) (o : nat * Program.op) : astate :=
  let tid := fst o in
  let sym' := sym_next (a_sym st) o in
  match snd o with
  | ONewSpan cs pk vals =>
      match nth_error sites cs with
      | None => st
      | Some meta =>
          let k := List.length (a_spans st) in
          mk_astate sym'
            (a_spans st ++ [mk_aspan meta (raw_of ids k) (logical_parent (a_sym st) tid pk)
                                     (from_value_set (cs_fields meta) vals) 0 0 []])
            (a_events st)
      end
  | ORecord k vals =>
      mk_astate sym'
        (upd_span (a_spans st) k (fun s => as_record (from_value_set (cs_fields (as_meta s)) vals) s))
        (a_events st)
  | OEnter k => mk_astate sym' (upd_span (a_spans st) k as_enter) (a_events st)
  | OExit k => mk_astate sym' (upd_span (a_spans st) k as_exit) (a_events st)
  | OClone _ | ODrop _ => mk_astate sym' (a_spans st) (a_events st)
  | OFollows k t =>
      (* an edge is kept when both ends are open spans the filter enabled *)
      match follow_target_of st t with
      | Some j =>
          if a_open st k && captured filter (a_spans st) k && captured filter (a_spans st) j
          then mk_astate sym' (upd_span (a_spans st) k (as_follow j)) (a_events st)
          else mk_astate sym' (a_spans st) (a_events st)
      | None => mk_astate sym' (a_spans st) (a_events st)
      end
  | OEvent cs pk vals =>
      match nth_error sites cs with
      | None => st
      | Some meta =>
          if filter meta
          then mk_astate sym' (a_spans st)
                 (a_events st ++ [mk_aevent meta (logical_parent (a_sym st) tid pk)
                                            (from_value_set (cs_fields meta) vals)])
          else mk_astate sym' (a_spans st) (a_events st)
      end
  end.

Definition spec_run (filter : cs_data -> bool) (ids : list N) (p : prog) : astate :=
  fold_left (spec_step filter (p_sites p) ids) (p_ops p) a_init.

(** * The captured storage, read off the final forest *)

(** nearest span the filter enabled, starting at [start] and following logical parents *)
Fixpoint nearest_cap (filter : cs_data -> bool) (spans : list aspan) (fuel : nat) (start : option nat)
  : option nat :=
  match start, fuel with
  | None, _ => None
  | Some _, O => None
  | Some k, S f =>
      match nth_error spans k with
      | None => None
      | Some s => if filter (as_meta s) then Some k else nearest_cap filter spans f (as_lparent s)
      end
  end.
Definition attach (filter : cs_data -> bool) (spans : list aspan) (start : option nat) : option nat :=
  nearest_cap filter spans (S (List.length spans)) start.

(** captured id = rank among the spans the filter enabled *)
Definition cap_rank (filter : cs_data -> bool) (spans : list aspan) (k : nat) : N :=
  N.of_nat (List.length (List.filter (fun s => filter (as_meta s)) (firstn k spans))).

Definition indexed {A} (l : list A) : list (nat * A) := combine (seq 0 (List.length l)) l.

Definition lparent_of (spans : list aspan) (k : nat) : option nat :=
  match nth_error spans k with Some s => as_lparent s | None => None end.
(** the captured span a span / an event is attached to *)
Definition span_attach (filter : cs_data -> bool) (spans : list aspan) (k : nat) : option nat :=
  attach filter spans (lparent_of spans k).
Definition event_attach (filter : cs_data -> bool) (spans : list aspan) (evs : list aevent) (i : nat)
  : option nat :=
  match nth_error evs i with Some e => attach filter spans (ae_lparent e) | None => None end.

(** the captured children of span [k] / the spans without captured ancestor ([k = None]), by
    creation index, in creation order; likewise for events *)
Definition attached_spans (filter : cs_data -> bool) (spans : list aspan) (k : option nat) : list nat :=
  List.filter (fun c => captured filter spans c && opt_nat_eqb (span_attach filter spans c) k)
              (seq 0 (List.length spans)).
Definition attached_events (filter : cs_data -> bool) (spans : list aspan) (evs : list aevent)
           (k : option nat) : list nat :=
  List.filter (fun i => opt_nat_eqb (event_attach filter spans evs i) k) (seq 0 (List.length evs)).

Definition build_span (filter : cs_data -> bool) (closed : nat -> bool) (st : astate) (ks : nat * aspan)
  : span_rec span_payload :=
  let spans := a_spans st in
  let rank := cap_rank filter spans in
  let k := fst ks in let s := snd ks in
  mk_span (mk_spl (as_meta s) (as_values s) (as_entered s) (as_exited s) (closed k))
          (rank k)
          (option_map rank (span_attach filter spans k))
          (map rank (attached_spans filter spans (Some k)))
          (map N.of_nat (attached_events filter spans (a_events st) (Some k)))
          (map rank (as_follows s)).

Definition build_event (filter : cs_data -> bool) (st : astate) (ie : nat * aevent)
  : event_rec event_payload :=
  mk_event (mk_epl (ae_meta (snd ie)) (ae_values (snd ie))) (N.of_nat (fst ie))
           (option_map (cap_rank filter (a_spans st)) (attach filter (a_spans st) (ae_lparent (snd ie)))).

Definition build (filter : cs_data -> bool) (closed : nat -> bool) (st : astate) : cstorage :=
  let spans := a_spans st in
  mk_storage
    (map (build_span filter closed st)
         (List.filter (fun ks => filter (as_meta (snd ks))) (indexed spans)))
    (map (build_event filter st) (indexed (a_events st)))
    (map (cap_rank filter spans) (attached_spans filter spans None))
    (map N.of_nat (attached_events filter spans (a_events st) None)).

(** closed = all handles dropped, not entered, no open children *)
Definition spec_storage (filter : cs_data -> bool) (ids : list N) (p : prog) : cstorage :=
  let st := spec_run filter ids p in
  build filter (fun k => negb (a_open st k)) st.
