(** Non-interference between worker threads: what the forest says about the items of a worker
    thread [t] is the same in an execution and in its solo execution (the execution without the
    other workers), whatever the other workers did and however the scheduler interleaved them. *)
From TT Require Export Capture.Solo Capture.ConcurrentProofs.

(** * Ranks and selections *)
Section Ranks.
  Variable t : nat.
  Notation kept := (kept t).
  Notation grank := (grank t).
  Notation keepsel := (keepsel t).
  Notation ownsel := (ownsel t).

  Lemma kept_t : kept t = true.
  Proof. unfold Solo.kept. rewrite Nat.eqb_refl. apply orb_true_r. Qed.
  Lemma kept_0 : kept 0 = true.
  Proof. reflexivity. Qed.

  Lemma grank_cons o ow i : grank (o :: ow) (S i) = ((if kept o then 1 else 0) + grank ow i)%nat.
  Proof. unfold Solo.grank. cbn [firstn List.filter]. destruct (kept o); reflexivity. Qed.
  Lemma grank_0 ow : grank ow 0 = 0%nat.
  Proof. reflexivity. Qed.

  Lemma grank_app ow more i : (i <= List.length ow)%nat -> grank (ow ++ more) i = grank ow i.
  Proof.
    intros H. unfold Solo.grank. rewrite firstn_app. replace (i - List.length ow)%nat with O by lia.
    cbn [firstn]. rewrite app_nil_r. reflexivity.
  Qed.

  Lemma grank_snoc ow tid :
    grank (ow ++ [tid]) (S (List.length ow)) = (grank ow (List.length ow) + (if kept tid then 1 else 0))%nat.
  Proof.
    unfold Solo.grank. replace (S (List.length ow)) with (List.length (ow ++ [tid])) by (rewrite app_length; cbn; lia).
    rewrite !firstn_all, filter_app, app_length. cbn [List.filter]. destruct (kept tid); reflexivity.
  Qed.

  Lemma grank_le ow i j : (i <= j)%nat -> (grank ow i <= grank ow j)%nat.
  Proof.
    revert i j; induction ow as [|o ow IH]; intros i j H.
    - unfold Solo.grank. rewrite !firstn_nil. lia.
    - destruct i as [|i]; [rewrite grank_0; lia|]. destruct j as [|j]; [lia|].
      rewrite !grank_cons. specialize (IH i j). lia.
  Qed.

  Lemma grank_lt ow i j :
    (i < j)%nat -> (i < List.length ow)%nat -> kept (nth i ow 0%nat) = true -> (grank ow i < grank ow j)%nat.
  Proof.
    revert i j; induction ow as [|o ow IH]; intros i j H Hi Hk; [cbn in Hi; lia|].
    destruct j as [|j]; [lia|]. destruct i as [|i].
    - cbn [nth] in Hk. rewrite grank_0, grank_cons, Hk. cbv iota. lia.
    - cbn [nth List.length] in *. rewrite !grank_cons. specialize (IH i j ltac:(lia) ltac:(lia) Hk). lia.
  Qed.

  Lemma grank_inj ow i j :
    (i < List.length ow)%nat -> (j < List.length ow)%nat ->
    kept (nth i ow 0%nat) = true -> kept (nth j ow 0%nat) = true -> grank ow i = grank ow j -> i = j.
  Proof.
    intros Hi Hj Ki Kj E. destruct (Nat.lt_total i j) as [H|[H|H]]; [|exact H|].
    - pose proof (grank_lt ow i j H Hi Ki). lia.
    - pose proof (grank_lt ow j i H Hj Kj). lia.
  Qed.

  Lemma grank_bound ow i :
    (i < List.length ow)%nat -> kept (nth i ow 0%nat) = true -> (grank ow i < grank ow (List.length ow))%nat.
  Proof. intros Hi Hk. apply grank_lt; auto. Qed.

  (** every solo index is the rank of a kept position *)
  Lemma grank_surj ow j :
    (j < grank ow (List.length ow))%nat ->
    exists i, (i < List.length ow)%nat /\ kept (nth i ow 0%nat) = true /\ grank ow i = j.
  Proof.
    revert j; induction ow as [|o ow IH]; intros j H; [cbn in H; lia|].
    cbn [List.length] in H. rewrite grank_cons in H. destruct (kept o) eqn:Ko.
    - destruct j as [|j].
      + exists 0%nat. cbn. rewrite Ko. repeat split; lia.
      + destruct (IH j) as (i & Hi & Hk & E); [lia|]. exists (S i). cbn [nth List.length]. rewrite grank_cons, Ko. cbv iota.
        repeat split; [lia | exact Hk | lia].
    - destruct (IH j) as (i & Hi & Hk & E); [lia|]. exists (S i). cbn [nth List.length]. rewrite grank_cons, Ko. cbv iota.
      repeat split; [lia | exact Hk | lia].
  Qed.

  Lemma keepsel_cons {A} o ow (x : A) l :
    keepsel (o :: ow) (x :: l) = if kept o then x :: keepsel ow l else keepsel ow l.
  Proof. unfold Solo.keepsel. cbn [combine List.filter fst]. destruct (kept o); reflexivity. Qed.

  Lemma keepsel_length {A} ow (l : list A) :
    List.length ow = List.length l -> List.length (keepsel ow l) = grank ow (List.length ow).
  Proof.
    revert l; induction ow as [|o ow IH]; intros [|x l] H; try discriminate; [reflexivity|].
    cbn [List.length] in *. rewrite keepsel_cons, grank_cons. destruct (kept o); cbn [List.length]; rewrite IH; lia.
  Qed.

  Lemma keepsel_nth {A} ow (l : list A) i :
    List.length ow = List.length l -> (i < List.length ow)%nat -> kept (nth i ow 0%nat) = true ->
    nth_error (keepsel ow l) (grank ow i) = nth_error l i.
  Proof.
    revert l i; induction ow as [|o ow IH]; intros [|x l] i H Hi Hk; try discriminate; [cbn in Hi; lia|].
    cbn [List.length] in *. rewrite keepsel_cons. destruct i as [|i].
    - cbn [nth] in Hk. rewrite Hk. reflexivity.
    - cbn [nth] in Hk. rewrite grank_cons. destruct (kept o); cbn [Nat.add nth_error]; apply IH; auto; lia.
  Qed.

  Lemma ownsel_cons {A} o ow (x : A) l :
    ownsel (o :: ow) (x :: l) = if Nat.eqb o t then x :: ownsel ow l else ownsel ow l.
  Proof. unfold Solo.ownsel. cbn [combine List.filter fst]. destruct (Nat.eqb o t); reflexivity. Qed.

  (** the items of [t] among the kept ones are the items of [t] *)
  Lemma ownsel_keepsel {A} ow (l : list A) :
    List.length ow = List.length l -> ownsel (keepsel ow ow) (keepsel ow l) = ownsel ow l.
  Proof.
    revert l; induction ow as [|o ow IH]; intros [|x l] H; try discriminate; [reflexivity|].
    cbn [List.length] in H. rewrite !keepsel_cons, ownsel_cons. destruct (kept o) eqn:Ko.
    - rewrite ownsel_cons. destruct (Nat.eqb o t); rewrite IH; auto.
    - destruct (Nat.eqb_spec o t) as [->|]; [rewrite kept_t in Ko; discriminate|]. apply IH. lia.
  Qed.

  Lemma keepsel_app {A} ow (l : list A) tid x :
    List.length ow = List.length l ->
    keepsel (ow ++ [tid]) (l ++ [x]) = keepsel ow l ++ (if kept tid then [x] else []).
  Proof.
    revert l; induction ow as [|o ow IH]; intros [|y l] H; try discriminate.
    - cbn. unfold Solo.keepsel. cbn. destruct (kept tid); reflexivity.
    - cbn [List.length app] in *. rewrite !keepsel_cons. destruct (kept o); cbn [app]; rewrite IH; auto.
  Qed.

  (** ranks local to an owner are the same among the kept spans *)
  Lemma firstn_keepsel ow i :
    firstn (grank ow i) (keepsel ow ow) = keepsel (firstn i ow) (firstn i ow).
  Proof.
    revert i; induction ow as [|o ow IH]; intros i.
    - unfold Solo.grank. rewrite !firstn_nil. reflexivity.
    - destruct i as [|i]; [reflexivity|]. rewrite grank_cons. cbn [firstn]. rewrite !keepsel_cons.
      destruct (kept o); cbn [Nat.add firstn]; rewrite IH; reflexivity.
  Qed.

  Lemma filter_keepsel (P : nat -> bool) l :
    (forall o, P o = true -> kept o = true) -> List.filter P (keepsel l l) = List.filter P l.
  Proof.
    intros H. induction l as [|o l IH]; [reflexivity|]. rewrite keepsel_cons. cbn [List.filter].
    destruct (kept o) eqn:Ko; cbn [List.filter]; rewrite IH; [reflexivity|].
    destruct (P o) eqn:Po; [|reflexivity]. rewrite (H o Po) in Ko. discriminate.
  Qed.

  Lemma nth_keepsel ow i :
    (i < List.length ow)%nat -> kept (nth i ow 0%nat) = true -> nth (grank ow i) (keepsel ow ow) 0%nat = nth i ow 0%nat.
  Proof.
    intros Hi Hk. pose proof (keepsel_nth ow ow i eq_refl Hi Hk) as E.
    rewrite (nth_of_nth_error (keepsel ow ow)), E, <- nth_of_nth_error. reflexivity.
  Qed.

  Lemma span_ref_keepsel ow i :
    (i < List.length ow)%nat -> kept (nth i ow 0%nat) = true ->
    span_ref (keepsel ow ow) (grank ow i) = span_ref ow i.
  Proof.
    intros Hi Hk. unfold span_ref, local_rank. rewrite (nth_keepsel ow i Hi Hk), firstn_keepsel.
    rewrite filter_keepsel; [reflexivity|].
    intros o Ho. apply Nat.eqb_eq in Ho. subst o. exact Hk.
  Qed.

  (** ** stacks under an injective renaming *)
  Lemma on_stack_map (g : nat -> nat) s k :
    (forall a, In a s -> g a = g k -> a = k) -> on_stack (map g s) (g k) = on_stack s k.
  Proof.
    unfold on_stack. induction s as [|a s IH]; intros H; [reflexivity|]. cbn [map existsb].
    rewrite IH by (intros b Hb; apply H; right; exact Hb).
    destruct (Nat.eqb_spec (g k) (g a)) as [E|E], (Nat.eqb_spec k a) as [E'|E']; try reflexivity.
    - exfalso. apply E'. symmetry. apply H; [left; reflexivity | congruence].
    - subst. congruence.
  Qed.

  Lemma spec_current_map (g : nat -> nat) s :
    (forall a b, In a s -> In b s -> g a = g b -> a = b) ->
    spec_current (map g s) = option_map g (spec_current s).
  Proof.
    induction s as [|k s IH]; intros H; [reflexivity|]. cbn [map spec_current].
    rewrite on_stack_map by (intros a Ha E; apply H; [right; exact Ha | left; reflexivity | exact E]).
    destruct (on_stack s k); [|reflexivity].
    apply IH. intros a b Ha Hb. apply H; right; assumption.
  Qed.

  Lemma remove_first_map (g : nat -> nat) s k :
    (forall a, In a s -> g a = g k -> a = k) -> remove_first (map g s) (g k) = map g (remove_first s k).
  Proof.
    induction s as [|a s IH]; intros H; [reflexivity|]. cbn [map remove_first].
    destruct (Nat.eqb_spec (g a) (g k)) as [E|E], (Nat.eqb_spec a k) as [E'|E']; try reflexivity.
    - exfalso. apply E'. apply H; [left; reflexivity | exact E].
    - subst. congruence.
    - cbn [map]. rewrite IH; [reflexivity|]. intros b Hb. apply H. right. exact Hb.
  Qed.
End Ranks.

(** * The simulation *)
Section Sim.
  Variable t : nat.
  Variable f : cs_data -> bool.
  Variable sites : list cs_data.
  Variables idsA idsB : list N.
  Hypothesis t_not_main : t <> 0%nat.

  Notation kept := (kept t).
  Notation grank := (grank t).
  Notation allowed := (allowed t).
  Notation stepA := (spec_step f sites idsA).
  Notation stepB := (spec_step f sites idsB).

  Definition own_facts (ow : list nat) (x y : aspan) : Prop :=
    as_values y = as_values x /\ as_entered y = as_entered x /\ as_exited y = as_exited x /\
    as_follows y = map (grank ow) (as_follows x) /\
    Forall (fun q => (q < List.length ow)%nat /\ kept (nth q ow 0%nat) = true) (as_follows x).

  Record agree (ow eow : list nat) (A B : astate) : Prop := mk_agree {
    ag_ow : List.length ow = List.length (a_spans A);
    ag_eow : List.length eow = List.length (a_events A);
    ag_nB : List.length (a_spans B) = grank ow (List.length ow);
    ag_neB : List.length (a_events B) = grank eow (List.length eow);
    ag_span : forall i x, nth_error (a_spans A) i = Some x -> kept (nth i ow 0%nat) = true ->
      exists y, nth_error (a_spans B) (grank ow i) = Some y /\ as_meta y = as_meta x /\
        as_lparent y = option_map (grank ow) (as_lparent x) /\
        (forall q, as_lparent x = Some q -> (q < i)%nat /\ kept (nth q ow 0%nat) = true) /\
        (nth i ow 0%nat = t -> own_facts ow x y);
    ag_event : forall i e, nth_error (a_events A) i = Some e -> kept (nth i eow 0%nat) = true ->
      exists e', nth_error (a_events B) (grank eow i) = Some e' /\ ae_meta e' = ae_meta e /\
        ae_values e' = ae_values e /\ ae_lparent e' = option_map (grank ow) (ae_lparent e) /\
        (forall q, ae_lparent e = Some q -> (q < List.length ow)%nat /\ kept (nth q ow 0%nat) = true);
    ag_stack : forall tid, kept tid = true ->
      stack_of (ss_stacks (a_sym B)) tid = map (grank ow) (stack_of (ss_stacks (a_sym A)) tid) /\
      Forall (fun r => allowed ow tid r = true) (stack_of (ss_stacks (a_sym A)) tid) }.

  Lemma allowed_kept ow tid r :
    kept tid = true -> allowed ow tid r = true -> (r < List.length ow)%nat /\ kept (nth r ow 0%nat) = true.
  Proof.
    unfold Solo.allowed. intros Hk H. destruct (nth_error ow r) as [o|] eqn:E; [|discriminate].
    assert (r < List.length ow)%nat by (apply nth_error_Some; congruence).
    split; [assumption|]. rewrite (nth_of_nth_error ow), E.
    unfold Solo.kept in *. destruct (Nat.eqb_spec tid t) as [->|Hne].
    - exact H.
    - destruct (Nat.eqb_spec tid 0) as [->|Hne0]; [|cbn in Hk; discriminate].
      rewrite H. reflexivity.
  Qed.

  Lemma allowed_foreign ow tid r :
    kept tid = false -> allowed ow tid r = true -> (r < List.length ow)%nat /\ nth r ow 0%nat <> t.
  Proof.
    unfold Solo.allowed, Solo.kept. intros Hk H. destruct (nth_error ow r) as [o|] eqn:E; [|discriminate].
    assert (r < List.length ow)%nat by (apply nth_error_Some; congruence).
    split; [assumption|]. rewrite (nth_of_nth_error ow), E.
    destruct (Nat.eqb_spec tid t) as [->|Hne]; [rewrite orb_true_r in Hk; discriminate|].
    destruct (Nat.eqb_spec tid 0) as [->|Hne0]; [discriminate|].
    destruct (Nat.eqb_spec o t); [discriminate | assumption].
  Qed.

  Lemma allowed_main ow r : allowed ow 0 r = true -> (r < List.length ow)%nat /\ nth r ow 0%nat = 0%nat.
  Proof.
    unfold Solo.allowed. intros H. destruct (nth_error ow r) as [o|] eqn:E; [|discriminate].
    assert (r < List.length ow)%nat by (apply nth_error_Some; congruence).
    split; [assumption|]. rewrite (nth_of_nth_error ow), E.
    destruct (Nat.eqb_spec 0 t) as [E0|_]; [congruence|]. cbn in H. apply Nat.eqb_eq in H. exact H.
  Qed.

  Lemma allowed_app ow more tid r : allowed ow tid r = true -> allowed (ow ++ more) tid r = true.
  Proof.
    unfold Solo.allowed. destruct (nth_error ow r) as [o|] eqn:E; [|discriminate].
    rewrite nth_error_app1 by (apply nth_error_Some; congruence). rewrite E. auto.
  Qed.

  Lemma nth_app_l (ow more : list nat) i : (i < List.length ow)%nat -> nth i (ow ++ more) 0%nat = nth i ow 0%nat.
  Proof. intros H. apply app_nth1. exact H. Qed.

  (** the owner list grows: everything said about existing positions stays true *)
  Lemma agree_grow_spans ow eow A B tid :
    agree ow eow A B ->
    forall i x, nth_error (a_spans A) i = Some x -> kept (nth i (ow ++ [tid]) 0%nat) = true ->
      exists y, nth_error (a_spans B) (grank (ow ++ [tid]) i) = Some y /\ as_meta y = as_meta x /\
        as_lparent y = option_map (grank (ow ++ [tid])) (as_lparent x) /\
        (forall q, as_lparent x = Some q -> (q < i)%nat /\ kept (nth q (ow ++ [tid]) 0%nat) = true) /\
        (nth i (ow ++ [tid]) 0%nat = t -> own_facts (ow ++ [tid]) x y).
  Proof.
    intros G i x Hx Hk.
    assert (Hi : (i < List.length ow)%nat) by (rewrite (ag_ow _ _ _ _ G); apply nth_error_Some; congruence).
    rewrite nth_app_l in Hk |- * by exact Hi. rewrite grank_app by lia.
    destruct (ag_span _ _ _ _ G i x Hx Hk) as (y & Hy & Hm & Hl & Hq & Hown).
    exists y. split; [exact Hy|]. split; [exact Hm|]. split; [|split].
    - rewrite Hl. destruct (as_lparent x) as [q|]; [|reflexivity]. cbn. destruct (Hq q eq_refl) as [Hlt _].
      rewrite grank_app by lia. reflexivity.
    - intros q Eq. destruct (Hq q Eq) as [Hlt Hkq]. split; [exact Hlt|]. rewrite nth_app_l by lia. exact Hkq.
    - intros Ht. destruct (Hown Ht) as (V & En & Ex & Fo & Fa). unfold own_facts. repeat split; auto.
      + rewrite Fo. apply map_ext_in. intros q Hin. rewrite Forall_forall in Fa. destruct (Fa q Hin) as [Hlt _].
        rewrite grank_app by lia. reflexivity.
      + rewrite Forall_forall in *. intros q Hin. destruct (Fa q Hin) as [Hlt Hkq]. rewrite app_length. cbn.
        split; [lia|]. rewrite nth_app_l by lia. exact Hkq.
  Qed.

  Lemma agree_grow_events ow eow A B tid :
    agree ow eow A B ->
    forall i e, nth_error (a_events A) i = Some e -> kept (nth i eow 0%nat) = true ->
      exists e', nth_error (a_events B) (grank eow i) = Some e' /\ ae_meta e' = ae_meta e /\
        ae_values e' = ae_values e /\ ae_lparent e' = option_map (grank (ow ++ [tid])) (ae_lparent e) /\
        (forall q, ae_lparent e = Some q -> (q < List.length (ow ++ [tid]))%nat /\ kept (nth q (ow ++ [tid]) 0%nat) = true).
  Proof.
    intros G i e He Hk. destruct (ag_event _ _ _ _ G i e He Hk) as (e' & He' & Hm & Hv & Hl & Hq).
    exists e'. split; [exact He'|]. split; [exact Hm|]. split; [exact Hv|]. split.
    - rewrite Hl. destruct (ae_lparent e) as [q|]; [|reflexivity]. cbn. destruct (Hq q eq_refl) as [Hlt _].
      rewrite grank_app by lia. reflexivity.
    - intros q Eq. destruct (Hq q Eq) as [Hlt Hkq]. rewrite app_length. cbn. split; [lia|].
      rewrite nth_app_l by lia. exact Hkq.
  Qed.

  Definition stacks_ok (ow : list nat) (symA symB : sym_state) : Prop :=
    forall tid, kept tid = true ->
      stack_of (ss_stacks symB) tid = map (grank ow) (stack_of (ss_stacks symA) tid) /\
      Forall (fun r => allowed ow tid r = true) (stack_of (ss_stacks symA) tid).

  Lemma stacks_ok_grow ow symA symB tid : stacks_ok ow symA symB -> stacks_ok (ow ++ [tid]) symA symB.
  Proof.
    intros H tid' Hk. destruct (H tid' Hk) as [E Fa]. split.
    - rewrite E. apply map_ext_in. intros r Hr. rewrite Forall_forall in Fa.
      destruct (allowed_kept ow tid' r Hk (Fa r Hr)) as [Hlt _]. rewrite grank_app by lia. reflexivity.
    - eapply Forall_impl; [|exact Fa]. intros r Hr. apply allowed_app. exact Hr.
  Qed.

  (** ** lists unchanged *)
  Lemma agree_same ow eow A B symA symB :
    agree ow eow A B -> stacks_ok ow symA symB ->
    agree ow eow (mk_astate symA (a_spans A) (a_events A)) (mk_astate symB (a_spans B) (a_events B)).
  Proof.
    intros G Hs. constructor; cbn [a_spans a_events a_sym]; try apply G. exact Hs.
  Qed.

  (** ** one span changes, keeping its metadata and logical parent; the solo execution changes the
      corresponding span, or nothing *)
  Lemma agree_upd ow eow A B symA symB k hA hB (updB : bool) :
    agree ow eow A B -> stacks_ok ow symA symB ->
    keeps_skel hA -> keeps_skel hB ->
    (updB = true -> (k < List.length ow)%nat /\ kept (nth k ow 0%nat) = true) ->
    (nth k ow 0%nat = t -> (k < List.length ow)%nat ->
       updB = true /\ forall x y, as_meta y = as_meta x -> own_facts ow x y -> own_facts ow (hA x) (hB y)) ->
    agree ow eow (mk_astate symA (upd_span (a_spans A) k hA) (a_events A))
                 (mk_astate symB (if updB then upd_span (a_spans B) (grank ow k) hB else a_spans B) (a_events B)).
  Proof.
    intros G Hs KA KB Hupd Hown.
    assert (LB : List.length (if updB then upd_span (a_spans B) (grank ow k) hB else a_spans B) = List.length (a_spans B)).
    { destruct updB; [apply upd_span_length | reflexivity]. }
    constructor; cbn [a_spans a_events a_sym].
    - rewrite upd_span_length. apply G.
    - apply G.
    - rewrite LB. apply G.
    - apply G.
    - intros i x' Hx' Hk. rewrite upd_span_nth in Hx'.
      assert (Hi : (i < List.length ow)%nat).
      { rewrite (ag_ow _ _ _ _ G). destruct (Nat.eqb i k); [destruct (nth_error (a_spans A) i) eqn:E; [|discriminate] |];
          apply nth_error_Some; congruence. }
      destruct (Nat.eqb_spec i k) as [->|Hne].
      + destruct (nth_error (a_spans A) k) as [x|] eqn:Ex; [|discriminate]. cbn in Hx'. injection Hx' as <-.
        destruct (ag_span _ _ _ _ G k x Ex Hk) as (y & Hy & Hm & Hl & Hq & Ho).
        destruct (KA x) as [KA1 KA2].
        destruct updB eqn:Eu.
        * exists (hB y). rewrite upd_span_nth, Nat.eqb_refl, Hy. destruct (KB y) as [KB1 KB2].
          split; [reflexivity|]. split; [congruence|]. split; [rewrite KB2, KA2; exact Hl|].
          split; [rewrite KA2; exact Hq|].
          intros Ht. destruct (Hown Ht Hi) as [_ Hf]. apply Hf; [exact Hm | exact (Ho Ht)].
        * exists y. split; [exact Hy|]. split; [congruence|]. split; [rewrite KA2; exact Hl|].
          split; [rewrite KA2; exact Hq|].
          intros Ht. destruct (Hown Ht Hi) as [Hc _]. discriminate.
      + destruct (ag_span _ _ _ _ G i x' Hx' Hk) as (y & Hy & Rest). exists y. split; [|exact Rest].
        destruct updB; [|exact Hy]. rewrite upd_span_nth.
        destruct (Nat.eqb_spec (grank ow i) (grank ow k)) as [E|]; [|exact Hy].
        exfalso. apply Hne. destruct (Hupd eq_refl) as [Hk1 Hk2]. apply (grank_inj t ow i k); auto.
    - apply G.
    - exact Hs.
  Qed.

  (** ** a new span *)
  Lemma spec_current_in s c : spec_current s = Some c -> In c s.
  Proof.
    induction s as [|k s IH]; cbn; [discriminate|]. destruct (on_stack s k).
    - intros H. right. apply IH. exact H.
    - intros H. injection H as <-. left. reflexivity.
  Qed.

  Lemma stack_inj ow tid s :
    kept tid = true -> Forall (fun r => allowed ow tid r = true) s ->
    forall a b, In a s -> In b s -> grank ow a = grank ow b -> a = b.
  Proof.
    intros Hk Fa a b Ha Hb E. rewrite Forall_forall in Fa.
    destruct (allowed_kept ow tid a Hk (Fa a Ha)) as [A1 A2]. destruct (allowed_kept ow tid b Hk (Fa b Hb)) as [B1 B2].
    apply (grank_inj t ow a b); auto.
  Qed.

  (** the logical parent of a new item, in both executions *)
  Lemma lparent_agree ow symA symB tid pk :
    stacks_ok ow symA symB -> kept tid = true -> forallb (allowed ow tid) (pk_refs pk) = true ->
    logical_parent symB tid (ren_pk (grank ow) pk) = option_map (grank ow) (logical_parent symA tid pk) /\
    (forall q, logical_parent symA tid pk = Some q -> (q < List.length ow)%nat /\ kept (nth q ow 0%nat) = true).
  Proof.
    intros Hs Hk Hr. destruct (Hs tid Hk) as [E Fa]. destruct pk as [| |k]; cbn [ren_pk logical_parent pk_refs forallb] in *.
    - rewrite E. split.
      + apply spec_current_map. apply (stack_inj ow tid _ Hk Fa).
      + intros q Hq. apply spec_current_in in Hq. rewrite Forall_forall in Fa. apply (allowed_kept ow tid q Hk (Fa q Hq)).
    - split; [reflexivity | discriminate].
    - split; [reflexivity|]. intros q Hq. injection Hq as <-. apply andb_true_iff in Hr as [Hr _].
      apply (allowed_kept ow tid k Hk Hr).
  Qed.

  Lemma agree_new_span ow eow A B symA symB tid xA xB :
    agree ow eow A B -> stacks_ok ow symA symB ->
    (kept tid = true ->
       as_meta xB = as_meta xA /\ as_lparent xB = option_map (grank ow) (as_lparent xA) /\
       (forall q, as_lparent xA = Some q -> (q < List.length ow)%nat /\ kept (nth q ow 0%nat) = true) /\
       as_values xB = as_values xA /\ as_entered xB = as_entered xA /\ as_exited xB = as_exited xA /\
       as_follows xA = [] /\ as_follows xB = []) ->
    agree (ow ++ [tid]) eow (mk_astate symA (a_spans A ++ [xA]) (a_events A))
          (mk_astate symB (if kept tid then a_spans B ++ [xB] else a_spans B) (a_events B)).
  Proof.
    intros G Hs Hnew. pose proof (ag_ow _ _ _ _ G) as Low.
    constructor; cbn [a_spans a_events a_sym].
    - rewrite !app_length. cbn. lia.
    - apply G.
    - replace (List.length (ow ++ [tid])) with (S (List.length ow)) by (rewrite app_length; cbn; lia).
      rewrite grank_snoc, <- (ag_nB _ _ _ _ G). destruct (kept tid); [rewrite app_length; cbn; lia | lia].
    - apply G.
    - intros i x Hx Hk.
      destruct (Nat.lt_ge_cases i (List.length (a_spans A))) as [Hlt|Hge].
      + rewrite nth_error_app1 in Hx by exact Hlt.
        destruct (agree_grow_spans ow eow A B tid G i x Hx Hk) as (y & Hy & Rest). exists y. split; [|exact Rest].
        destruct (kept tid); [|exact Hy]. rewrite nth_error_app1; [exact Hy|]. apply nth_error_Some. congruence.
      + assert (i = List.length (a_spans A)).
        { assert (i < List.length (a_spans A ++ [xA]))%nat by (apply nth_error_Some; congruence).
          rewrite app_length in H. cbn in H. lia. }
        subst i. rewrite nth_error_app2, Nat.sub_diag in Hx by lia. cbn in Hx. injection Hx as <-.
        rewrite <- Low in Hk |- *. rewrite app_nth2, Nat.sub_diag in Hk by lia. cbn in Hk.
        rewrite Hk. destruct (Hnew Hk) as (M & L & Q & V & En & Ex & F1 & F2).
        exists xB. rewrite grank_app by lia. rewrite <- (ag_nB _ _ _ _ G).
        rewrite nth_error_app2, Nat.sub_diag by lia. split; [reflexivity|]. split; [exact M|]. split; [|split].
        * rewrite L. destruct (as_lparent xA) as [q|]; [|reflexivity]. cbn. destruct (Q q eq_refl) as [Hq _].
          rewrite grank_app by lia. reflexivity.
        * intros q Eq. destruct (Q q Eq) as [Hq Kq]. split; [exact Hq|]. rewrite nth_app_l by lia. exact Kq.
        * intros _. unfold own_facts. rewrite F1, F2. repeat split; auto.
    - intros i e He Hk. apply (agree_grow_events ow eow A B tid G i e He Hk).
    - apply stacks_ok_grow. exact Hs.
  Qed.

  Lemma agree_new_event ow eow A B symA symB tid eA eB :
    agree ow eow A B -> stacks_ok ow symA symB ->
    (kept tid = true ->
       ae_meta eB = ae_meta eA /\ ae_values eB = ae_values eA /\
       ae_lparent eB = option_map (grank ow) (ae_lparent eA) /\
       (forall q, ae_lparent eA = Some q -> (q < List.length ow)%nat /\ kept (nth q ow 0%nat) = true)) ->
    agree ow (eow ++ [tid]) (mk_astate symA (a_spans A) (a_events A ++ [eA]))
          (mk_astate symB (a_spans B) (if kept tid then a_events B ++ [eB] else a_events B)).
  Proof.
    intros G Hs Hnew. pose proof (ag_eow _ _ _ _ G) as Low.
    constructor; cbn [a_spans a_events a_sym].
    - apply G.
    - rewrite !app_length. cbn. lia.
    - apply G.
    - replace (List.length (eow ++ [tid])) with (S (List.length eow)) by (rewrite app_length; cbn; lia).
      rewrite grank_snoc, <- (ag_neB _ _ _ _ G). destruct (kept tid); [rewrite app_length; cbn; lia | lia].
    - apply G.
    - intros i e He Hk.
      destruct (Nat.lt_ge_cases i (List.length (a_events A))) as [Hlt|Hge].
      + rewrite nth_error_app1 in He by exact Hlt.
        assert (Hi : (i < List.length eow)%nat) by lia.
        rewrite nth_app_l in Hk by exact Hi. rewrite grank_app by lia.
        destruct (ag_event _ _ _ _ G i e He Hk) as (e' & He' & Rest). exists e'. split; [|exact Rest].
        destruct (kept tid); [|exact He']. rewrite nth_error_app1; [exact He'|]. apply nth_error_Some. congruence.
      + assert (i = List.length (a_events A)).
        { assert (i < List.length (a_events A ++ [eA]))%nat by (apply nth_error_Some; congruence).
          rewrite app_length in H. cbn in H. lia. }
        subst i. rewrite nth_error_app2, Nat.sub_diag in He by lia. cbn in He. injection He as <-.
        rewrite <- Low in Hk |- *. rewrite app_nth2, Nat.sub_diag in Hk by lia. cbn in Hk.
        rewrite Hk. destruct (Hnew Hk) as (M & V & L & Q).
        exists eB. rewrite grank_app by lia. rewrite <- (ag_neB _ _ _ _ G).
        rewrite nth_error_app2, Nat.sub_diag by lia. auto.
    - exact Hs.
  Qed.

  (** ** one operation *)
  Lemma Forall_remove_first (P : nat -> Prop) s k : Forall P s -> Forall P (remove_first s k).
  Proof.
    induction s as [|a s IH]; intros H; [constructor|]. inversion H; subst. cbn [remove_first].
    destruct (Nat.eqb a k); [assumption | constructor; auto].
  Qed.

  Lemma stacks_ok_same ow symA symB symA' symB' :
    stacks_ok ow symA symB -> ss_stacks symA' = ss_stacks symA -> ss_stacks symB' = ss_stacks symB ->
    stacks_ok ow symA' symB'.
  Proof. intros H EA EB tid Hk. rewrite EA, EB. apply H. exact Hk. Qed.

  Lemma astate_eta a : a = mk_astate (a_sym a) (a_spans a) (a_events a).
  Proof. destruct a; reflexivity. Qed.

  (** the stacks after an operation that is (kept) or is not (foreign) replayed in the solo execution *)
  Lemma stacks_ok_step ow symA symB tid op :
    stacks_ok ow symA symB -> forallb (allowed ow tid) (op_refs op) = true ->
    stacks_ok ow (sym_next symA (tid, op))
              (if kept tid then sym_next symB (tid, ren_op (grank ow) op) else symB).
  Proof.
    intros Hs Hr tid' Hk'.
    destruct (Hs tid' Hk') as [E Fa].
    assert (Hsame : forall sA sB, ss_stacks sA = ss_stacks symA -> ss_stacks sB = ss_stacks symB ->
              stack_of (ss_stacks sB) tid' = map (grank ow) (stack_of (ss_stacks sA) tid') /\
              Forall (fun r => allowed ow tid' r = true) (stack_of (ss_stacks sA) tid')).
    { intros sA sB EA EB. rewrite EA, EB. auto. }
    destruct (kept tid) eqn:Hk.
    - destruct op as [cs pk vals | k vals | k | k | k | k | k tg | cs pk vals];
        try (apply Hsame; reflexivity).
      + (* enter *)
        cbn [sym_next fst snd ren_op ss_stacks]. rewrite !stack_of_set.
        destruct (Nat.eqb_spec tid' tid) as [->|Hne]; [|auto].
        cbn [op_refs forallb] in Hr. apply andb_true_iff in Hr as [Hr _].
        rewrite E. split; [reflexivity|]. constructor; assumption.
      + (* exit *)
        cbn [sym_next fst snd ren_op ss_stacks]. rewrite !stack_of_set.
        destruct (Nat.eqb_spec tid' tid) as [->|Hne]; [|auto].
        cbn [op_refs forallb] in Hr. apply andb_true_iff in Hr as [Hr _].
        rewrite E. split; [|apply Forall_remove_first; exact Fa].
        apply remove_first_map. intros a Ha Eg. rewrite Forall_forall in Fa.
        destruct (allowed_kept ow tid a Hk (Fa a Ha)) as [A1 A2]. destruct (allowed_kept ow tid k Hk Hr) as [B1 B2].
        apply (grank_inj t ow a k); auto.
      + (* follows: both target kinds leave the stacks alone *)
        destruct tg; apply Hsame; reflexivity.
    - assert (Hne : tid' <> tid) by (intros ->; congruence).
      destruct op as [cs pk vals | k vals | k | k | k | k | k tg | cs pk vals];
        try (apply Hsame; reflexivity);
        cbn [sym_next fst snd ss_stacks]; rewrite stack_of_set;
        destruct (Nat.eqb_spec tid' tid); try contradiction; auto.
  Qed.

  Lemma upd_span_id l k : upd_span l k (fun s : aspan => s) = l.
  Proof. unfold upd_span. destruct (nth_error l k) eqn:E; [apply set_nth_same; exact E | reflexivity]. Qed.

  Lemma agree_step ow eow A B tid op :
    agree ow eow A B ->
    forallb (allowed ow tid) (op_refs op) = true -> no_stale op = true ->
    (tid = t -> forall k j, op = OFollows k (FLive j) ->
       a_open A k = true /\ a_open A j = true /\ a_open B (grank ow k) = true /\ a_open B (grank ow j) = true) ->
    agree (ow_next sites ow (tid, op)) (eow_next f sites eow (tid, op))
          (stepA A (tid, op))
          (if kept tid then stepB B (tid, ren_op (grank ow) op) else B).
  Proof.
    intros G Hr Hns Hopen.
    pose proof (stacks_ok_step ow (a_sym A) (a_sym B) tid op (ag_stack _ _ _ _ G) Hr) as Hst.
    assert (HB : (if kept tid then B else B) = B) by (destruct (kept tid); reflexivity).
    destruct op as [cs pk vals | k vals | k | k | k | k | k tg | cs pk vals];
      unfold ow_next, eow_next, spec_step; cbn [fst snd ren_op].
    - (* new span *)
      destruct (nth_error sites cs) as [meta|] eqn:Ecs; [|rewrite HB; exact G].
      cbn [op_refs] in Hr.
      set (xA := mk_aspan meta (raw_of idsA (List.length (a_spans A))) (logical_parent (a_sym A) tid pk)
                          (from_value_set (cs_fields meta) vals) 0 0 []).
      set (xB := mk_aspan meta (raw_of idsB (List.length (a_spans B))) (logical_parent (a_sym B) tid (ren_pk (grank ow) pk))
                          (from_value_set (cs_fields meta) vals) 0 0 []).
      replace (if kept tid then mk_astate (sym_next (a_sym B) (tid, ONewSpan cs (ren_pk (grank ow) pk) vals)) (a_spans B ++ [xB]) (a_events B) else B)
        with (mk_astate (if kept tid then sym_next (a_sym B) (tid, ONewSpan cs (ren_pk (grank ow) pk) vals) else a_sym B)
                        (if kept tid then a_spans B ++ [xB] else a_spans B) (a_events B))
        by (destruct (kept tid); [reflexivity | symmetry; apply astate_eta]).
      apply agree_new_span; [exact G | exact Hst |].
      intros Hk. destruct (lparent_agree ow (a_sym A) (a_sym B) tid pk (ag_stack _ _ _ _ G) Hk Hr) as [L Q].
      cbn [xA xB as_meta as_lparent as_values as_entered as_exited as_follows].
      split; [reflexivity|]. split; [exact L|]. split; [exact Q|]. repeat split.
    - (* record *)
      cbn [op_refs forallb] in Hr. apply andb_true_iff in Hr as [Hr _].
      replace (if kept tid then mk_astate (sym_next (a_sym B) (tid, ORecord (grank ow k) vals))
                 (upd_span (a_spans B) (grank ow k) (fun s => as_record (from_value_set (cs_fields (as_meta s)) vals) s)) (a_events B) else B)
        with (mk_astate (if kept tid then sym_next (a_sym B) (tid, ORecord (grank ow k) vals) else a_sym B)
                (if kept tid then upd_span (a_spans B) (grank ow k) (fun s => as_record (from_value_set (cs_fields (as_meta s)) vals) s) else a_spans B)
                (a_events B))
        by (destruct (kept tid); [reflexivity | symmetry; apply astate_eta]).
      apply agree_upd; [exact G | exact Hst | intros s0; split; reflexivity | intros s0; split; reflexivity | |].
      + intros Hk. apply (allowed_kept ow tid k Hk Hr).
      + intros Hown Hlt. destruct (kept tid) eqn:Hk.
        * split; [reflexivity|]. intros x y Hm (V & En & Ex & Fo & Fa). unfold own_facts. cbn. rewrite Hm, V. auto.
        * destruct (allowed_foreign ow tid k Hk Hr) as [_ Hne]. contradiction.
    - (* enter *)
      cbn [op_refs forallb] in Hr. apply andb_true_iff in Hr as [Hr _].
      replace (if kept tid then mk_astate (sym_next (a_sym B) (tid, OEnter (grank ow k))) (upd_span (a_spans B) (grank ow k) as_enter) (a_events B) else B)
        with (mk_astate (if kept tid then sym_next (a_sym B) (tid, OEnter (grank ow k)) else a_sym B)
                (if kept tid then upd_span (a_spans B) (grank ow k) as_enter else a_spans B) (a_events B))
        by (destruct (kept tid); [reflexivity | symmetry; apply astate_eta]).
      apply agree_upd; [exact G | exact Hst | intros s0; split; reflexivity | intros s0; split; reflexivity | |].
      + intros Hk. apply (allowed_kept ow tid k Hk Hr).
      + intros Hown Hlt. destruct (kept tid) eqn:Hk.
        * split; [reflexivity|]. intros x y Hm (V & En & Ex & Fo & Fa). unfold own_facts. cbn. rewrite En. auto.
        * destruct (allowed_foreign ow tid k Hk Hr) as [_ Hne]. contradiction.
    - (* exit *)
      cbn [op_refs forallb] in Hr. apply andb_true_iff in Hr as [Hr _].
      replace (if kept tid then mk_astate (sym_next (a_sym B) (tid, OExit (grank ow k))) (upd_span (a_spans B) (grank ow k) as_exit) (a_events B) else B)
        with (mk_astate (if kept tid then sym_next (a_sym B) (tid, OExit (grank ow k)) else a_sym B)
                (if kept tid then upd_span (a_spans B) (grank ow k) as_exit else a_spans B) (a_events B))
        by (destruct (kept tid); [reflexivity | symmetry; apply astate_eta]).
      apply agree_upd; [exact G | exact Hst | intros s0; split; reflexivity | intros s0; split; reflexivity | |].
      + intros Hk. apply (allowed_kept ow tid k Hk Hr).
      + intros Hown Hlt. destruct (kept tid) eqn:Hk.
        * split; [reflexivity|]. intros x y Hm (V & En & Ex & Fo & Fa). unfold own_facts. cbn. rewrite Ex. auto.
        * destruct (allowed_foreign ow tid k Hk Hr) as [_ Hne]. contradiction.
    - (* clone *)
      replace (if kept tid then mk_astate (sym_next (a_sym B) (tid, OClone (grank ow k))) (a_spans B) (a_events B) else B)
        with (mk_astate (if kept tid then sym_next (a_sym B) (tid, OClone (grank ow k)) else a_sym B) (a_spans B) (a_events B))
        by (destruct (kept tid); [reflexivity | symmetry; apply astate_eta]).
      apply agree_same; [exact G | exact Hst].
    - (* drop *)
      replace (if kept tid then mk_astate (sym_next (a_sym B) (tid, ODrop (grank ow k))) (a_spans B) (a_events B) else B)
        with (mk_astate (if kept tid then sym_next (a_sym B) (tid, ODrop (grank ow k)) else a_sym B) (a_spans B) (a_events B))
        by (destruct (kept tid); [reflexivity | symmetry; apply astate_eta]).
      apply agree_same; [exact G | exact Hst].
    - (* follows-from *)
      destruct tg as [j|raw]; [|discriminate].
      cbn [op_refs forallb] in Hr. apply andb_true_iff in Hr as [Hrk Hr]. apply andb_true_iff in Hr as [Hrj _].
      cbn [follow_target_of].
      (* what the full execution does to span k: a change of its follows-from list, or nothing *)
      set (hA := if a_open A j && (a_open A k && captured f (a_spans A) k && captured f (a_spans A) j)
                 then as_follow j else (fun s : aspan => s)).
      assert (EA : (match (if a_open A j then Some j else None) with
                    | Some j0 => if a_open A k && captured f (a_spans A) k && captured f (a_spans A) j0
                                 then mk_astate (sym_next (a_sym A) (tid, OFollows k (FLive j))) (upd_span (a_spans A) k (as_follow j0)) (a_events A)
                                 else mk_astate (sym_next (a_sym A) (tid, OFollows k (FLive j))) (a_spans A) (a_events A)
                    | None => mk_astate (sym_next (a_sym A) (tid, OFollows k (FLive j))) (a_spans A) (a_events A)
                    end) = mk_astate (sym_next (a_sym A) (tid, OFollows k (FLive j))) (upd_span (a_spans A) k hA) (a_events A)).
      { unfold hA. destruct (a_open A j); cbn [andb].
        - destruct (a_open A k && captured f (a_spans A) k && captured f (a_spans A) j); [reflexivity|].
          rewrite upd_span_id. reflexivity.
        - rewrite upd_span_id. reflexivity. }
      rewrite EA. clear EA.
      set (hB := if a_open B (grank ow j) && (a_open B (grank ow k) && captured f (a_spans B) (grank ow k) && captured f (a_spans B) (grank ow j))
                 then as_follow (grank ow j) else (fun s : aspan => s)).
      assert (EB : (if kept tid then
                     match (if a_open B (grank ow j) then Some (grank ow j) else None) with
                     | Some j0 => if a_open B (grank ow k) && captured f (a_spans B) (grank ow k) && captured f (a_spans B) j0
                                  then mk_astate (sym_next (a_sym B) (tid, OFollows (grank ow k) (FLive (grank ow j)))) (upd_span (a_spans B) (grank ow k) (as_follow j0)) (a_events B)
                                  else mk_astate (sym_next (a_sym B) (tid, OFollows (grank ow k) (FLive (grank ow j)))) (a_spans B) (a_events B)
                     | None => mk_astate (sym_next (a_sym B) (tid, OFollows (grank ow k) (FLive (grank ow j)))) (a_spans B) (a_events B)
                     end else B)
                   = mk_astate (if kept tid then sym_next (a_sym B) (tid, OFollows (grank ow k) (FLive (grank ow j))) else a_sym B)
                               (if kept tid then upd_span (a_spans B) (grank ow k) hB else a_spans B) (a_events B)).
      { destruct (kept tid); [|apply astate_eta]. unfold hB. destruct (a_open B (grank ow j)); cbn [andb].
        - destruct (a_open B (grank ow k) && captured f (a_spans B) (grank ow k) && captured f (a_spans B) (grank ow j)); [reflexivity|].
          rewrite upd_span_id. reflexivity.
        - rewrite upd_span_id. reflexivity. }
      rewrite EB. clear EB.
      assert (KA : keeps_skel hA).
      { unfold hA. match goal with |- keeps_skel (if ?c then _ else _) => destruct c end; intros s0; split; reflexivity. }
      assert (KB : keeps_skel hB).
      { unfold hB. match goal with |- keeps_skel (if ?c then _ else _) => destruct c end; intros s0; split; reflexivity. }
      apply agree_upd; [exact G | exact Hst | exact KA | exact KB | |].
      + intros Hk. apply (allowed_kept ow tid k Hk Hrk).
      + intros Hown Hlt. destruct (kept tid) eqn:Hk.
        2:{ destruct (allowed_foreign ow tid k Hk Hrk) as [_ Hne]. contradiction. }
        split; [reflexivity|].
        (* only [t] itself names a span of [t] *)
        assert (Et : tid = t).
        { unfold Solo.allowed in Hrk. rewrite (nth_of_nth_error ow) in Hown.
          destruct (nth_error ow k) as [o|] eqn:Eo; [|discriminate]. subst o.
          destruct (Nat.eqb_spec tid t) as [->|Hne]; [reflexivity|].
          destruct (Nat.eqb_spec tid 0) as [->|Hne0].
          - apply Nat.eqb_eq in Hrk. congruence.
          - rewrite Nat.eqb_refl in Hrk. discriminate. }
        destruct (Hopen Et k j eq_refl) as (O1 & O2 & O3 & O4).
        destruct (allowed_kept ow tid k Hk Hrk) as [Kl Kk]. destruct (allowed_kept ow tid j Hk Hrj) as [Jl Jk].
        assert (Ck : captured f (a_spans B) (grank ow k) = captured f (a_spans A) k).
        { unfold captured. destruct (nth_error (a_spans A) k) as [x|] eqn:Ex.
          - destruct (ag_span _ _ _ _ G k x Ex Kk) as (y & Hy & Hm & _). rewrite Hy, Hm. reflexivity.
          - exfalso. apply nth_error_None in Ex. rewrite <- (ag_ow _ _ _ _ G) in Ex. lia. }
        assert (Cj : captured f (a_spans B) (grank ow j) = captured f (a_spans A) j).
        { unfold captured. destruct (nth_error (a_spans A) j) as [x|] eqn:Ex.
          - destruct (ag_span _ _ _ _ G j x Ex Jk) as (y & Hy & Hm & _). rewrite Hy, Hm. reflexivity.
          - exfalso. apply nth_error_None in Ex. rewrite <- (ag_ow _ _ _ _ G) in Ex. lia. }
        unfold hA, hB. rewrite O1, O2, O3, O4, Ck, Cj. cbn [andb].
        intros x y Hm (V & En & Ex & Fo & Fa).
        destruct (captured f (a_spans A) k && captured f (a_spans A) j).
        * unfold own_facts. cbn. rewrite Fo, map_app. repeat split; auto. apply Forall_app. split; [exact Fa|].
          constructor; [auto | constructor].
        * unfold own_facts. auto.
    - (* event *)
      destruct (nth_error sites cs) as [meta|] eqn:Ecs; [|rewrite HB; exact G].
      cbn [op_refs] in Hr.
      destruct (f meta) eqn:Ef.
      + set (eA := mk_aevent meta (logical_parent (a_sym A) tid pk) (from_value_set (cs_fields meta) vals)).
        set (eB := mk_aevent meta (logical_parent (a_sym B) tid (ren_pk (grank ow) pk)) (from_value_set (cs_fields meta) vals)).
        replace (if kept tid then mk_astate (sym_next (a_sym B) (tid, OEvent cs (ren_pk (grank ow) pk) vals)) (a_spans B) (a_events B ++ [eB]) else B)
          with (mk_astate (if kept tid then sym_next (a_sym B) (tid, OEvent cs (ren_pk (grank ow) pk) vals) else a_sym B)
                          (a_spans B) (if kept tid then a_events B ++ [eB] else a_events B))
          by (destruct (kept tid); [reflexivity | symmetry; apply astate_eta]).
        apply agree_new_event; [exact G | exact Hst |].
        intros Hk. destruct (lparent_agree ow (a_sym A) (a_sym B) tid pk (ag_stack _ _ _ _ G) Hk Hr) as [L Q].
        cbn [eA eB ae_meta ae_values ae_lparent].
        split; [reflexivity|]. split; [reflexivity|]. split; [exact L | exact Q].
      + replace (if kept tid then mk_astate (sym_next (a_sym B) (tid, OEvent cs (ren_pk (grank ow) pk) vals)) (a_spans B) (a_events B) else B)
          with (mk_astate (if kept tid then sym_next (a_sym B) (tid, OEvent cs (ren_pk (grank ow) pk) vals) else a_sym B) (a_spans B) (a_events B))
          by (destruct (kept tid); [reflexivity | symmetry; apply astate_eta]).
        apply agree_same; [exact G | exact Hst].
  Qed.

  (** ** whole executions *)

  (** a span with a live handle is open *)
  Lemma open_from_live sym : forall l base k,
    (k < List.length l)%nat -> live sym (base + k) = true -> nth k (open_from sym base l) false = true.
  Proof.
    induction l as [|x l IH]; intros base k Hk Hl; [cbn in Hk; lia|].
    cbn [open_from]. destruct k as [|k].
    - cbn [nth]. rewrite Nat.add_0_r in Hl. rewrite Hl. reflexivity.
    - cbn [nth]. apply IH; [cbn in Hk; lia|]. replace (S base + k)%nat with (base + S k)%nat by lia. exact Hl.
  Qed.

  Lemma live_open a k :
    n_spans (a_sym a) = List.length (a_spans a) -> live (a_sym a) k = true -> a_open a k = true.
  Proof.
    intros Hn Hl. unfold a_open, open_flags. apply open_from_live; [|exact Hl].
    rewrite <- Hn. apply handles_pos_lt. apply live_pos. exact Hl.
  Qed.

  (** the bookkeeping of the specification is that of the well-formedness check *)
  Lemma spec_step_wf b ids a o sym' :
    wf_step b sites (a_sym a) o = Some sym' ->
    a_sym (spec_step f sites ids a o) = sym' /\
    (n_spans (a_sym a) = List.length (a_spans a) -> n_spans sym' = List.length (a_spans (spec_step f sites ids a o))).
  Proof.
    intros Hwf. pose proof (sym_next_of_wf_step b sites (a_sym a) o sym' Hwf) as ->.
    destruct o as [tid op]. unfold wf_step in Hwf. unfold spec_step. cbn [fst snd] in *.
    destruct op as [cs pk vals | k vals | k | k | k | k | k tg | cs pk vals].
    - destruct (wf_site_use sites KSpan cs vals && wf_parent (a_sym a) pk) eqn:E; [|discriminate].
      apply andb_true_iff in E as [E _]. unfold wf_site_use in E.
      destruct (nth_error sites cs); [|discriminate]. cbn [a_sym a_spans]. split; [reflexivity|].
      intros H. unfold n_spans in *. cbn [sym_next snd ss_spans]. rewrite !app_length, H. reflexivity.
    - cbn [a_sym a_spans]. split; [reflexivity|]. rewrite upd_span_length. auto.
    - cbn [a_sym a_spans]. split; [reflexivity|]. rewrite upd_span_length. auto.
    - cbn [a_sym a_spans]. split; [reflexivity|]. rewrite upd_span_length. auto.
    - cbn [a_sym a_spans]. split; [reflexivity|]. unfold n_spans. cbn [sym_next snd ss_spans]. rewrite set_handles_length. auto.
    - cbn [a_sym a_spans]. split; [reflexivity|]. unfold n_spans. cbn [sym_next snd ss_spans]. rewrite set_handles_length. auto.
    - destruct (follow_target_of a tg) as [j|];
        [destruct (a_open a k && captured f (a_spans a) k && captured f (a_spans a) j)|];
        cbn [a_sym a_spans]; (split; [reflexivity|]); rewrite ?upd_span_length; auto.
    - destruct (wf_site_use sites KEvent cs vals && wf_parent (a_sym a) pk) eqn:E; [|discriminate].
      apply andb_true_iff in E as [E _]. unfold wf_site_use in E.
      destruct (nth_error sites cs); [|discriminate]. destruct (f _); cbn [a_sym a_spans]; auto.
  Qed.

  Lemma wf_follows_live b sym tid k j sym' :
    wf_step b sites sym (tid, OFollows k (FLive j)) = Some sym' -> live sym k = true /\ live sym j = true.
  Proof.
    unfold wf_step. cbn [fst snd]. destruct (live sym k && live sym j) eqn:E; [|discriminate].
    intros _. apply andb_true_iff in E. exact E.
  Qed.

  Lemma solo_from_cons ow o r :
    solo_from t sites ow (o :: r) =
    if kept (fst o) then (fst o, ren_op (grank ow) (snd o)) :: solo_from t sites (ow_next sites ow o) r
    else solo_from t sites (ow_next sites ow o) r.
  Proof. reflexivity. Qed.

  Lemma ow_next_ren ow tid op g : ow_next sites ow (tid, ren_op g op) = ow_next sites ow (tid, op).
  Proof. destruct op as [| | | | | |? tg|]; try reflexivity. destruct tg; reflexivity. Qed.
  Lemma eow_next_ren eow tid op g : eow_next f sites eow (tid, ren_op g op) = eow_next f sites eow (tid, op).
  Proof. destruct op as [| | | | | |? tg|]; try reflexivity. destruct tg; reflexivity. Qed.

  Lemma keepsel_self_snoc ow tid :
    keepsel t (ow ++ [tid]) (ow ++ [tid]) = keepsel t ow ow ++ (if kept tid then [tid] else []).
  Proof. apply keepsel_app. reflexivity. Qed.

  Lemma ow_next_keepsel ow tid op :
    (if kept tid then ow_next sites (keepsel t ow ow) (tid, op) else keepsel t ow ow)
    = keepsel t (ow_next sites ow (tid, op)) (ow_next sites ow (tid, op)).
  Proof.
    unfold ow_next. cbn [fst snd].
    destruct op; try (destruct (kept tid); reflexivity).
    destruct (nth_error sites cs); [|destruct (kept tid); reflexivity].
    rewrite keepsel_self_snoc. destruct (kept tid); [reflexivity | rewrite app_nil_r; reflexivity].
  Qed.
  Lemma eow_next_keepsel eow tid op :
    (if kept tid then eow_next f sites (keepsel t eow eow) (tid, op) else keepsel t eow eow)
    = keepsel t (eow_next f sites eow (tid, op)) (eow_next f sites eow (tid, op)).
  Proof.
    unfold eow_next. cbn [fst snd].
    destruct op; try (destruct (kept tid); reflexivity).
    destruct (nth_error sites cs) as [meta|]; [|destruct (kept tid); reflexivity].
    destruct (f meta); [|destruct (kept tid); reflexivity].
    rewrite keepsel_self_snoc. destruct (kept tid); [reflexivity | rewrite app_nil_r; reflexivity].
  Qed.

  Lemma agree_run b : forall ops ow eow A B symA' symB',
    agree ow eow A B ->
    n_spans (a_sym A) = List.length (a_spans A) -> n_spans (a_sym B) = List.length (a_spans B) ->
    wf_steps b sites (a_sym A) ops = Some symA' ->
    wf_steps b sites (a_sym B) (solo_from t sites ow ops) = Some symB' ->
    isolated_from t sites ow ops = true ->
    let ow' := fold_left (ow_next sites) ops ow in
    let eow' := fold_left (eow_next f sites) ops eow in
    agree ow' eow' (fold_left stepA ops A) (fold_left stepB (solo_from t sites ow ops) B) /\
    fold_left (ow_next sites) (solo_from t sites ow ops) (keepsel t ow ow) = keepsel t ow' ow' /\
    fold_left (eow_next f sites) (solo_from t sites ow ops) (keepsel t eow eow) = keepsel t eow' eow'.
  Proof.
    induction ops as [|[tid op] ops IH]; intros ow eow A B symA' symB' G LA LB WA WB Iso.
    - cbn. auto.
    - cbn [isolated_from fst snd] in Iso. apply andb_true_iff in Iso as [Iso Iso2]. apply andb_true_iff in Iso as [Hr Hns].
      cbn [wf_steps] in WA. destruct (wf_step b sites (a_sym A) (tid, op)) as [sA1|] eqn:EA; [|discriminate].
      destruct (spec_step_wf b idsA A (tid, op) sA1 EA) as [SA1 LA1]. specialize (LA1 LA).
      rewrite solo_from_cons in WB |- *. cbn [fst snd] in WB |- *. cbn [fold_left].
      assert (Hopen : tid = t -> forall k j, op = OFollows k (FLive j) ->
                a_open A k = true /\ a_open A j = true /\ a_open B (grank ow k) = true /\ a_open B (grank ow j) = true).
      { intros -> k j ->. destruct (wf_follows_live b _ _ _ _ _ EA) as [L1 L2].
        rewrite (kept_t t) in WB. cbn [wf_steps ren_op] in WB.
        destruct (wf_step b sites (a_sym B) (t, OFollows (grank ow k) (FLive (grank ow j)))) as [sB1|] eqn:EB; [|discriminate].
        destruct (wf_follows_live b _ _ _ _ _ EB) as [L3 L4].
        repeat split; apply live_open; auto. }
      pose proof (agree_step ow eow A B tid op G Hr Hns Hopen) as G1.
      destruct (kept tid) eqn:Hk.
      + cbn [wf_steps] in WB. destruct (wf_step b sites (a_sym B) (tid, ren_op (grank ow) op)) as [sB1|] eqn:EB; [|discriminate].
        destruct (spec_step_wf b idsB B (tid, ren_op (grank ow) op) sB1 EB) as [SB1 LB1]. specialize (LB1 LB).
        cbn [fold_left].
        destruct (IH (ow_next sites ow (tid, op)) (eow_next f sites eow (tid, op)) (stepA A (tid, op))
                     (stepB B (tid, ren_op (grank ow) op)) symA' symB' G1) as (R1 & R2 & R3).
        * rewrite SA1. exact LA1.
        * rewrite SB1. exact LB1.
        * rewrite SA1. exact WA.
        * rewrite SB1. exact WB.
        * exact Iso2.
        * split; [exact R1|]. split.
          -- rewrite ow_next_ren. pose proof (ow_next_keepsel ow tid op) as E. rewrite Hk in E. rewrite E. exact R2.
          -- rewrite eow_next_ren. pose proof (eow_next_keepsel eow tid op) as E. rewrite Hk in E. rewrite E. exact R3.
      + destruct (IH (ow_next sites ow (tid, op)) (eow_next f sites eow (tid, op)) (stepA A (tid, op)) B symA' symB' G1) as (R1 & R2 & R3).
        * rewrite SA1. exact LA1.
        * exact LB.
        * rewrite SA1. exact WA.
        * exact WB.
        * exact Iso2.
        * split; [exact R1|]. split.
          -- pose proof (ow_next_keepsel ow tid op) as E. rewrite Hk in E. rewrite E. exact R2.
          -- pose proof (eow_next_keepsel eow tid op) as E. rewrite Hk in E. rewrite E. exact R3.
  Qed.

  Lemma agree_init : agree [] [] a_init a_init.
  Proof.
    constructor; cbn; try reflexivity.
    - intros i x H. destruct i; discriminate.
    - intros i e H. destruct i; discriminate.
    - intros tid _. split; [reflexivity | constructor].
  Qed.

  (** ** from the simulation to the view *)
  Notation g ow := (grank ow).

  (** nearest enabled ancestor: the chains of kept spans stay among kept spans *)
  Lemma nearest_agree ow eow A B : agree ow eow A B ->
    forall q fa fb, (q < fa)%nat -> (grank ow q < fb)%nat ->
      (q < List.length ow)%nat -> kept (nth q ow 0%nat) = true ->
      nearest_cap f (a_spans B) fb (Some (grank ow q)) = option_map (grank ow) (nearest_cap f (a_spans A) fa (Some q)) /\
      (forall r, nearest_cap f (a_spans A) fa (Some q) = Some r -> (r < List.length ow)%nat /\ kept (nth r ow 0%nat) = true).
  Proof.
    intros G. induction q as [q IH] using (well_founded_induction lt_wf). intros fa fb Hfa Hfb Hq Hk.
    destruct fa as [|fa]; [lia|]. destruct fb as [|fb]; [lia|]. cbn [nearest_cap].
    destruct (nth_error (a_spans A) q) as [x|] eqn:Ex.
    2:{ exfalso. apply nth_error_None in Ex. rewrite <- (ag_ow _ _ _ _ G) in Ex. lia. }
    destruct (ag_span _ _ _ _ G q x Ex Hk) as (y & Hy & Hm & Hl & Hpar & _).
    rewrite Hy, Hm. destruct (f (as_meta x)).
    - split; [reflexivity|]. intros r E. injection E as <-. auto.
    - rewrite Hl. destruct (as_lparent x) as [pq|]; cbn [option_map].
      + destruct (Hpar pq eq_refl) as [Hlt Hkp].
        apply IH; [exact Hlt | lia | | lia | exact Hkp].
        pose proof (grank_lt t ow pq q Hlt ltac:(lia) Hkp). lia.
      + destruct fa, fb; cbn; split; try reflexivity; discriminate.
  Qed.

  Lemma attach_agree ow eow A B lp : agree ow eow A B ->
    (forall q, lp = Some q -> (q < List.length ow)%nat /\ kept (nth q ow 0%nat) = true) ->
    option_map (span_ref (keepsel t ow ow)) (attach f (a_spans B) (option_map (grank ow) lp))
    = option_map (span_ref ow) (attach f (a_spans A) lp).
  Proof.
    intros G Hlp. unfold attach. destruct lp as [q|]; [|reflexivity]. cbn [option_map].
    destruct (Hlp q eq_refl) as [Hq Hk].
    destruct (nearest_agree ow eow A B G q (S (List.length (a_spans A))) (S (List.length (a_spans B)))) as [E R]; auto.
    - rewrite <- (ag_ow _ _ _ _ G). lia.
    - rewrite (ag_nB _ _ _ _ G). pose proof (grank_bound t ow q Hq Hk). lia.
    - rewrite E. destruct (nearest_cap f (a_spans A) (S (List.length (a_spans A))) (Some q)) as [r|]; [|reflexivity].
      cbn [option_map]. destruct (R r eq_refl) as [Hr Hkr]. rewrite (span_ref_keepsel t ow r Hr Hkr). reflexivity.
  Qed.

  (** selecting the items of [t] from two lists that correspond position by position *)
  Lemma ownsel_map_ext {X Y Z} (EX : X -> Z) (EY : Y -> Z) : forall (own : list nat) (l1 : list X) (l2 : list Y),
    List.length own = List.length l1 -> List.length own = List.length l2 ->
    (forall j x y, nth_error l1 j = Some x -> nth_error l2 j = Some y -> nth j own 0%nat = t -> EX x = EY y) ->
    map EX (ownsel t own l1) = map EY (ownsel t own l2).
  Proof.
    induction own as [|o own IH]; intros [|x l1] [|y l2] H1 H2 H; try discriminate; [reflexivity|].
    rewrite !ownsel_cons. cbn [List.length] in *.
    assert (Hrest : map EX (ownsel t own l1) = map EY (ownsel t own l2)).
    { apply IH; [lia | lia |]. intros j x' y' A1 A2 A3. apply (H (S j) x' y'); assumption. }
    destruct (Nat.eqb_spec o t) as [->|]; [|exact Hrest].
    cbn [map]. rewrite Hrest. f_equal. apply (H 0%nat x y); reflexivity.
  Qed.

  Theorem tview_agree ow eow A B :
    agree ow eow A B ->
    tview t f ow eow A = tview t f (keepsel t ow ow) (keepsel t eow eow) B.
  Proof.
    intros G. unfold tview. f_equal.
    - rewrite <- (ownsel_keepsel t ow (a_spans A) (ag_ow _ _ _ _ G)).
      apply ownsel_map_ext.
      + rewrite !keepsel_length; [reflexivity | exact (ag_ow _ _ _ _ G) | reflexivity].
      + rewrite keepsel_length by reflexivity. symmetry. exact (ag_nB _ _ _ _ G).
      + intros j x y Hx Hy Hown.
        assert (Hj : (j < grank ow (List.length ow))%nat).
        { rewrite <- (keepsel_length t ow (a_spans A) (ag_ow _ _ _ _ G)). apply nth_error_Some. congruence. }
        destruct (grank_surj t ow j Hj) as (i & Hi & Hk & <-).
        rewrite (keepsel_nth t ow (a_spans A) i (ag_ow _ _ _ _ G) Hi Hk) in Hx.
        rewrite (nth_keepsel t ow i Hi Hk) in Hown.
        destruct (ag_span _ _ _ _ G i x Hx Hk) as (y' & Hy' & Hm & Hl & Hpar & Hof).
        rewrite Hy' in Hy. injection Hy as <-. destruct (Hof Hown) as (V & En & Ex & Fo & Fa).
        unfold span_entry. rewrite Hm, V, En, Ex, Hl, Fo.
        rewrite (attach_agree ow eow A B (as_lparent x) G).
        2:{ intros q Eq. destruct (Hpar q Eq) as [Hlt Hkq]. split; [lia | exact Hkq]. }
        f_equal. rewrite map_map. symmetry. apply map_ext_in. intros q Hq. rewrite Forall_forall in Fa.
        destruct (Fa q Hq) as [Hlt Hkq]. apply (span_ref_keepsel t ow q Hlt Hkq).
    - rewrite <- (ownsel_keepsel t eow (a_events A) (ag_eow _ _ _ _ G)).
      apply ownsel_map_ext.
      + rewrite !keepsel_length; [reflexivity | exact (ag_eow _ _ _ _ G) | reflexivity].
      + rewrite keepsel_length by reflexivity. symmetry. exact (ag_neB _ _ _ _ G).
      + intros j e e' He He' Hown.
        assert (Hj : (j < grank eow (List.length eow))%nat).
        { rewrite <- (keepsel_length t eow (a_events A) (ag_eow _ _ _ _ G)). apply nth_error_Some. congruence. }
        destruct (grank_surj t eow j Hj) as (i & Hi & Hk & <-).
        rewrite (keepsel_nth t eow (a_events A) i (ag_eow _ _ _ _ G) Hi Hk) in He.
        destruct (ag_event _ _ _ _ G i e He Hk) as (e2 & He2 & Hm & Hv & Hl & Hpar).
        rewrite He2 in He'. injection He' as <-.
        unfold event_entry. rewrite Hm, Hv, Hl. rewrite (attach_agree ow eow A B (ae_lparent e) G Hpar). reflexivity.
  Qed.
End Sim.

(** * The theorem: per-thread views do not depend on the other workers or on the schedule *)
Theorem tview_solo (t : nat) (f : cs_data -> bool) (idsA idsB : list N) (p : prog) :
  wf_prog_b p = true -> wf_prog_b (solo t p) = true -> isolated t p = true ->
  tview_of t f idsA p = tview_of t f idsB (solo t p).
Proof.
  intros WA WB Iso. unfold isolated in Iso. apply andb_true_iff in Iso as [Ht Iso].
  assert (Hne : t <> 0%nat) by (intros E; rewrite E in Ht; discriminate).
  unfold wf_prog_b, wf_prog_gen_b in WA, WB. apply andb_true_iff in WA as [_ WA]. apply andb_true_iff in WB as [_ WB].
  unfold sym_run in WA, WB.
  destruct (wf_steps false (p_sites p) sym_init (p_ops p)) as [sa|] eqn:EA; [|discriminate].
  destruct (wf_steps false (p_sites (solo t p)) sym_init (p_ops (solo t p))) as [sb|] eqn:EB; [|discriminate].
  cbn [solo p_sites p_ops] in EB.
  destruct (agree_run t f (p_sites p) idsA idsB Hne false (p_ops p) [] [] a_init a_init sa sb
              (agree_init t) eq_refl eq_refl EA EB Iso) as (G & O1 & O2).
  unfold tview_of, owners_of, eowners_of, spec_run. cbn [solo p_sites p_ops].
  change (keepsel t [] []) with (@nil nat) in O1, O2. rewrite O1, O2.
  eapply tview_agree; [exact Hne | exact G].
Qed.

(** * Open spans (closed flags) *)

Lemma open_from_skipn sym : forall l base k,
  skipn k (open_from sym base l) = open_from sym (base + k) (skipn k l).
Proof.
  induction l as [|x l IH]; intros base k.
  - rewrite !skipn_nil. reflexivity.
  - destruct k as [|k]; [rewrite Nat.add_0_r; reflexivity|].
    cbn [open_from skipn]. rewrite IH. replace (S base + k)%nat with (base + S k)%nat by lia. reflexivity.
Qed.

Lemma open_from_length sym : forall l base, List.length (open_from sym base l) = List.length l.
Proof. induction l as [|x l IH]; intros base; cbn; [reflexivity | rewrite IH; reflexivity]. Qed.

Lemma nth_skipn_hd {X} (l : list X) k d : nth k l d = hd d (skipn k l).
Proof. revert k; induction l as [|x l IH]; intros [|k]; cbn; auto. Qed.

Lemma nth_skipn_shift {X} (l : list X) k j d : nth j (skipn k l) d = nth (k + j) l d.
Proof. revert k; induction l as [|x l IH]; intros [|k]; cbn; auto. destruct j; reflexivity. Qed.

(** a span is open iff it has a live handle, is entered on some thread, or has an open child *)
Lemma a_open_char a k :
  (k < List.length (a_spans a))%nat ->
  (a_open a k = true <->
   live (a_sym a) k = true \/ on_any_stack (a_sym a) k = true \/
   exists c x, (k < c)%nat /\ nth_error (a_spans a) c = Some x /\ as_lparent x = Some k /\ a_open a c = true).
Proof.
  intros Hk. unfold a_open, open_flags.
  rewrite (nth_skipn_hd (open_from (a_sym a) 0 (a_spans a)) k false), open_from_skipn. cbn [Nat.add].
  destruct (skipn k (a_spans a)) as [|x tl] eqn:Es.
  { apply (f_equal (@List.length _)) in Es. rewrite skipn_length in Es. cbn in Es. lia. }
  assert (Htl : skipn (S k) (a_spans a) = tl) by (eapply skipn_tail; eauto).
  cbn [open_from hd]. rewrite !orb_true_iff.
  rewrite (has_open_child_iff k tl (open_from (a_sym a) (S k) tl)) by apply open_from_length.
  split.
  - intros [[H|H]|(j & y & A & B & C)]; [left; exact H | right; left; exact H |].
    right. right. exists (S k + j)%nat, y. split; [lia|]. split; [rewrite <- Htl in A; rewrite nth_error_skipn' in A; exact A|].
    split; [exact C|].
    rewrite <- B. rewrite <- Htl. replace (S k) with (0 + S k)%nat at 2 by lia. rewrite <- open_from_skipn.
    rewrite nth_skipn_shift. reflexivity.
  - intros [H|[H|(c & y & Hc & A & C & B)]]; [left; left; exact H | left; right; exact H |].
    right. exists (c - S k)%nat, y. split; [|split; [|exact C]].
    + rewrite <- Htl, nth_error_skipn'. replace (S k + (c - S k))%nat with c by lia. exact A.
    + rewrite <- Htl. replace (S k) with (0 + S k)%nat at 2 by lia. rewrite <- open_from_skipn, nth_skipn_shift.
      replace (S k + (c - S k))%nat with c by lia. exact B.
Qed.

