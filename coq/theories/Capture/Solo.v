(** The single-threaded reference of a worker thread: definitions (proofs in [SoloProofs.v]).

    Setting of C19's correspondence with free-running threads: the main thread (thread 0) creates
    spans, worker threads run programs on their own spans and use spans of the main thread (as
    explicit parents, follows-from targets, entered spans, handles to clone and drop); no thread
    but [t] uses a span [t] created, and [t] uses only its own and the main thread's spans
    ([isolated]).  The *solo execution* of worker [t] is the execution with the operations of all
    other workers taken out (and the span names adjusted: creation indices shift when creations
    disappear).  [tview]: what the forest says about the items of thread [t], free of creation
    indices: every span is named by (owner, rank among its owner's spans). *)
From TT Require Export Capture.Concurrent.

Section SoloDefs.
  Variable t : nat.

  (** the threads of the solo execution: the main thread and [t] *)
  Definition kept (tid : nat) : bool := Nat.eqb tid 0 || Nat.eqb tid t.

  (** [ow]: the thread that created each span, by creation index.  Rank of position [i] among the
      kept ones = creation index in the solo execution *)
  Definition grank (ow : list nat) (i : nat) : nat := List.length (List.filter kept (firstn i ow)).

  (** the entries of [l] whose owner is kept / is [t] *)
  Definition keepsel {A} (ow : list nat) (l : list A) : list A :=
    map snd (List.filter (fun x => kept (fst x)) (combine ow l)).
  Definition ownsel {A} (ow : list nat) (l : list A) : list A :=
    map snd (List.filter (fun x => Nat.eqb (fst x) t) (combine ow l)).

  Definition ren_pk (g : nat -> nat) (pk : parent_kind) : parent_kind :=
    match pk with PKExplicit k => PKExplicit (g k) | other => other end.
  Definition ren_op (g : nat -> nat) (o : Program.op) : Program.op :=
    match o with
    | ONewSpan cs pk v => ONewSpan cs (ren_pk g pk) v
    | ORecord k v => ORecord (g k) v
    | OEnter k => OEnter (g k)
    | OExit k => OExit (g k)
    | OClone k => OClone (g k)
    | ODrop k => ODrop (g k)
    | OFollows k (FLive j) => OFollows (g k) (FLive (g j))
    | OFollows k (FStale raw) => OFollows (g k) (FStale raw)
    | OEvent cs pk v => OEvent cs (ren_pk g pk) v
    end.

  (** owner lists after one operation: spans, events the filter enables *)
  Definition ow_next (sites : list cs_data) (ow : list nat) (o : nat * Program.op) : list nat :=
    match snd o with
    | ONewSpan cs _ _ => match nth_error sites cs with Some _ => ow ++ [fst o] | None => ow end
    | _ => ow
    end.
  Definition eow_next (f : cs_data -> bool) (sites : list cs_data) (eow : list nat) (o : nat * Program.op)
    : list nat :=
    match snd o with
    | OEvent cs _ _ => match nth_error sites cs with
                       | Some meta => if f meta then eow ++ [fst o] else eow
                       | None => eow
                       end
    | _ => eow
    end.

  (** the solo execution: foreign operations removed, span names adjusted *)
  Fixpoint solo_from (sites : list cs_data) (ow : list nat) (ops : list (nat * Program.op))
    : list (nat * Program.op) :=
    match ops with
    | [] => []
    | o :: r =>
        let rest := solo_from sites (ow_next sites ow o) r in
        if kept (fst o) then (fst o, ren_op (grank ow) (snd o)) :: rest else rest
    end.
  Definition solo (p : prog) : prog := mk_prog (p_sites p) (solo_from (p_sites p) [] (p_ops p)).

  (** the spans an operation names *)
  Definition pk_refs (pk : parent_kind) : list nat := match pk with PKExplicit k => [k] | _ => [] end.
  Definition op_refs (o : Program.op) : list nat :=
    match o with
    | ONewSpan _ pk _ | OEvent _ pk _ => pk_refs pk
    | ORecord k _ | OEnter k | OExit k | OClone k | ODrop k => [k]
    | OFollows k (FLive j) => [k; j]
    | OFollows k (FStale _) => [k]
    end.

  (** who may name a span: [t] its own and the main thread's; the main thread its own; the others
      anything but the spans of [t] *)
  Definition allowed (ow : list nat) (tid : nat) (r : nat) : bool :=
    match nth_error ow r with
    | Some o => if Nat.eqb tid t then kept o
                else if Nat.eqb tid 0 then Nat.eqb o 0
                else negb (Nat.eqb o t)
    | None => false
    end.
  Definition no_stale (o : Program.op) : bool :=
    match o with OFollows _ (FStale _) => false | _ => true end.

  Fixpoint isolated_from (sites : list cs_data) (ow : list nat) (ops : list (nat * Program.op)) : bool :=
    match ops with
    | [] => true
    | o :: r => forallb (allowed ow (fst o)) (op_refs (snd o)) && no_stale (snd o)
                && isolated_from sites (ow_next sites ow o) r
    end.
  Definition isolated (p : prog) : bool := negb (Nat.eqb t 0) && isolated_from (p_sites p) [] (p_ops p).

  (** owner lists of a whole execution *)
  Definition owners_of (sites : list cs_data) (ops : list (nat * Program.op)) : list nat :=
    fold_left (ow_next sites) ops [].
  Definition eowners_of (f : cs_data -> bool) (sites : list cs_data) (ops : list (nat * Program.op)) : list nat :=
    fold_left (eow_next f sites) ops [].

  (** * The view of thread [t], free of creation indices *)
  Definition local_rank (ow : list nat) (i : nat) : nat :=
    List.length (List.filter (Nat.eqb (nth i ow 0%nat)) (firstn i ow)).
  Definition span_ref (ow : list nat) (i : nat) : nat * nat := (nth i ow 0%nat, local_rank ow i).

  Definition span_entry (f : cs_data -> bool) (ow : list nat) (spans : list aspan) (x : aspan) :=
    (as_meta x, as_values x, as_entered x, as_exited x,
     option_map (span_ref ow) (attach f spans (as_lparent x)), map (span_ref ow) (as_follows x)).
  Definition event_entry (f : cs_data -> bool) (ow : list nat) (spans : list aspan) (e : aevent) :=
    (ae_meta e, ae_values e, option_map (span_ref ow) (attach f spans (ae_lparent e))).

  Definition tview (f : cs_data -> bool) (ow eow : list nat) (a : astate) :=
    (map (span_entry f ow (a_spans a)) (ownsel ow (a_spans a)),
     map (event_entry f ow (a_spans a)) (ownsel eow (a_events a))).

  (** the view of [t] in an execution *)
  Definition tview_of (f : cs_data -> bool) (ids : list N) (p : prog) :=
    tview f (owners_of (p_sites p) (p_ops p)) (eowners_of f (p_sites p) (p_ops p)) (spec_run f ids p).
End SoloDefs.
