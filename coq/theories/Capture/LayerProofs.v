(** Proofs about the capture layer model ([Capture/Layer.v]) over the Registry model.

    Part A: what a layer does to the Registry is confined to its own extension entries:
            simulations between runs of the subscriber driver under different layer stacks.
    Part B: a single capture layer refines the reference specification ([Capture/LayerSpec.v]).
    Part C: the theorems of C05 and C16. *)
From TT Require Export Capture.LayerSpec Host.RegistryProofs.
From TT Require Import Capture.QueriesProofs.

(** * Part A: simulations *)

Definition res_sim {A B} (R : A -> B -> Prop) (X : result A) (Y : result B) : Prop :=
  match X, Y with
  | ROk a, ROk b => R a b
  | RPanic s, RPanic s' => s = s'
  | RNoFuel, RNoFuel => True
  | RStuck, RStuck => True
  | _, _ => False
  end.

Lemma res_sim_bind {A B A' B'} (R : A -> B -> Prop) (R' : A' -> B' -> Prop) X Y f g :
  res_sim R X Y -> (forall a b, R a b -> res_sim R' (f a) (g b)) ->
  res_sim R' (rbind X f) (rbind Y g).
Proof. destruct X, Y; cbn; intros H Hf; try contradiction; auto. Qed.

Lemma res_sim_ok_r {A B} (R : A -> B -> Prop) X Y b :
  res_sim R X Y -> Y = ROk b -> exists a, X = ROk a /\ R a b.
Proof. intros H ->. destruct X; cbn in H; try contradiction. eauto. Qed.

Lemma res_sim_ok_l {A B} (R : A -> B -> Prop) X Y a :
  res_sim R X Y -> X = ROk a -> exists b, Y = ROk b /\ R a b.
Proof. intros H ->. destruct Y; cbn in H; try contradiction. eauto. Qed.

Lemma rbind_ok {A B} (X : result A) (f : A -> result B) b :
  rbind X f = ROk b -> exists a, X = ROk a /\ f a = ROk b.
Proof. destruct X; cbn; intros H; try discriminate. eauto. Qed.

Definition opt_rel {A B} (R : A -> B -> Prop) (x : option A) (y : option B) : Prop :=
  match x, y with
  | Some a, Some b => R a b
  | None, None => True
  | _, _ => False
  end.

(** [rho]: pairs (key on the left, key on the right) whose extension entries must agree *)
Definition span_sim (rho : list (N * N)) (s s' : rspan) : Prop :=
  rs_meta s = rs_meta s' /\ rs_raw s = rs_raw s' /\ rs_parent s = rs_parent s' /\ rs_refs s = rs_refs s' /\
  forall k k', In (k, k') rho -> ext_find k (rs_ext s) = ext_find k' (rs_ext s').

Definition reg_sim (rho : list (N * N)) (r r' : reg) : Prop :=
  rg_stacks r = rg_stacks r' /\ Forall2 (opt_rel (span_sim rho)) (rg_spans r) (rg_spans r').

Definition rho_inj (rho : list (N * N)) : Prop :=
  forall j j' k k', In (j, j') rho -> In (k, k') rho -> (j = k <-> j' = k').

Lemma Forall2_nth {A B} (R : A -> B -> Prop) l l' :
  Forall2 R l l' -> forall j, opt_rel R (nth_error l j) (nth_error l' j).
Proof.
  induction 1 as [|a b l l' Hab H IH]; intros [|j]; cbn; auto.
Qed.

Lemma Forall2_set_nth {A B} (R : A -> B -> Prop) l l' i x x' :
  Forall2 R l l' -> R x x' -> Forall2 R (set_nth l i x) (set_nth l' i x').
Proof.
  intros H Hx. revert i. induction H as [|a b l l' Hab H IH]; intros [|i]; cbn; constructor; auto.
Qed.

Lemma Forall2_len {A B} (R : A -> B -> Prop) l l' : Forall2 R l l' -> List.length l = List.length l'.
Proof. induction 1; cbn; congruence. Qed.

Section Sim.
  Variable rho : list (N * N).

  Lemma sim_next r r' : reg_sim rho r r' -> reg_next r = reg_next r'.
  Proof. intros [_ H]. unfold reg_next. eapply Forall2_len; eauto. Qed.

  Lemma sim_get r r' j : reg_sim rho r r' -> opt_rel (span_sim rho) (reg_get r j) (reg_get r' j).
  Proof.
    intros [_ H]. pose proof (Forall2_nth _ _ _ H j) as Hj. unfold reg_get.
    destruct (nth_error (rg_spans r) j) as [[s|]|], (nth_error (rg_spans r') j) as [[s'|]|]; cbn in *; auto.
  Qed.

  Lemma sim_present r r' j : reg_sim rho r r' -> reg_present r j = reg_present r' j.
  Proof.
    intros H. pose proof (sim_get _ _ j H) as Hj. unfold reg_present.
    destruct (reg_get r j), (reg_get r' j); cbn in Hj; try contradiction; reflexivity.
  Qed.

  Lemma sim_set r r' j s s' : reg_sim rho r r' -> span_sim rho s s' -> reg_sim rho (reg_set r j s) (reg_set r' j s').
  Proof. intros [A B] Hs. split; [exact A|]. cbn. apply Forall2_set_nth; [exact B | exact Hs]. Qed.

  Lemma sim_remove r r' j : reg_sim rho r r' -> reg_sim rho (reg_remove r j) (reg_remove r' j).
  Proof. intros [A B]. split; [exact A|]. cbn. apply Forall2_set_nth; [exact B | exact I]. Qed.

  Lemma sim_stacks r r' st : reg_sim rho r r' -> reg_sim rho (mk_reg (rg_spans r) st) (mk_reg (rg_spans r') st).
  Proof. intros [A B]. split; [reflexivity | exact B]. Qed.

  Lemma sim_app r r' s s' :
    reg_sim rho r r' -> span_sim rho s s' ->
    reg_sim rho (mk_reg (rg_spans r ++ [Some s]) (rg_stacks r)) (mk_reg (rg_spans r' ++ [Some s']) (rg_stacks r')).
  Proof.
    intros [A B] Hs. split; [exact A|]. cbn. apply Forall2_app; [exact B|]. constructor; [exact Hs | constructor].
  Qed.

  Lemma span_sim_refs s s' n : span_sim rho s s' -> span_sim rho (with_refs s n) (with_refs s' n).
  Proof. intros (A & B & C & D & E). repeat split; auto. Qed.

  Lemma sim_clone r r' id :
    reg_sim rho r r' -> res_sim (reg_sim rho) (reg_clone_span r id) (reg_clone_span r' id).
  Proof.
    intros H. pose proof (sim_get _ _ id H) as Hg. unfold reg_clone_span.
    destruct (reg_get r id) as [s|], (reg_get r' id) as [s'|]; cbn in Hg; try contradiction; [|reflexivity].
    destruct Hg as (A & B & C & D & E). rewrite D. destruct (rs_refs s' =? 0); [reflexivity|]. cbn.
    apply sim_set; [exact H|]. rewrite <- D. apply span_sim_refs. repeat split; auto.
  Qed.

  Lemma sim_current r r' tid : reg_sim rho r r' -> reg_current_span r tid = reg_current_span r' tid.
  Proof.
    intros H. unfold reg_current_span. destruct H as [A B]. rewrite A.
    destruct (stack_current (rstack_of (rg_stacks r') tid)) as [c|]; [|reflexivity].
    rewrite (sim_present r r' c (conj A B)). reflexivity.
  Qed.

  Definition pair_sim {X} (a b : reg * X) : Prop := reg_sim rho (fst a) (fst b) /\ snd a = snd b.

  Lemma sim_new_span r r' tid meta pk raw :
    reg_sim rho r r' ->
    res_sim pair_sim (reg_new_span r tid meta pk raw) (reg_new_span r' tid meta pk raw).
  Proof.
    intros H. unfold reg_new_span.
    eapply (res_sim_bind (fun a b : reg * option nat => pair_sim a b)).
    - destruct pk as [| |k].
      + rewrite (sim_current _ _ tid H). destruct (reg_current_span r' tid) as [c|].
        * eapply res_sim_bind; [apply sim_clone; exact H|]. intros a b Hab. split; [exact Hab | reflexivity].
        * split; [exact H | reflexivity].
      + split; [exact H | reflexivity].
      + eapply res_sim_bind; [apply sim_clone; exact H|]. intros a b Hab. split; [exact Hab | reflexivity].
    - intros [r1 p1] [r1' p1'] [Hr Hp]. cbn in Hr, Hp. subst p1'. cbn. split; cbn.
      + apply sim_app; [exact Hr|]. repeat split; auto.
      + apply sim_next. exact Hr.
  Qed.

  Lemma sim_enter r r' tid id :
    reg_sim rho r r' -> res_sim (reg_sim rho) (reg_enter r tid id) (reg_enter r' tid id).
  Proof.
    intros H. unfold reg_enter. destruct H as [A B]. rewrite A.
    destruct (stack_push (rstack_of (rg_stacks r') tid) id) as [s' fresh].
    pose proof (sim_stacks r r' (rset_stack (rg_stacks r') tid s') (conj A B)) as H1.
    destruct fresh; [apply sim_clone; exact H1 | exact H1].
  Qed.

  Lemma sim_exit_pop r r' tid id :
    reg_sim rho r r' ->
    reg_sim rho (fst (reg_exit_pop r tid id)) (fst (reg_exit_pop r' tid id)) /\
    snd (reg_exit_pop r tid id) = snd (reg_exit_pop r' tid id).
  Proof.
    intros [A B]. unfold reg_exit_pop. rewrite A.
    destruct (stack_pop (rstack_of (rg_stacks r') tid) id) as [s' fresh]. cbn.
    split; [|reflexivity]. apply sim_stacks. split; assumption.
  Qed.

  Lemma sim_try_close r r' id :
    reg_sim rho r r' -> res_sim pair_sim (reg_try_close r id) (reg_try_close r' id).
  Proof.
    intros H. pose proof (sim_get _ _ id H) as Hg. unfold reg_try_close.
    destruct (reg_get r id) as [s|], (reg_get r' id) as [s'|]; cbn in Hg; try contradiction; [|reflexivity].
    destruct Hg as (A & B & C & D & E). cbn. split; cbn.
    - apply sim_set; [exact H|]. rewrite D. apply span_sim_refs. repeat split; auto.
    - rewrite D. reflexivity.
  Qed.

  Lemma sim_scope r r' : reg_sim rho r r' -> forall fuel id, scope_from fuel r id = scope_from fuel r' id.
  Proof.
    intros H. induction fuel as [|f IH]; intros id; [reflexivity|]. cbn.
    pose proof (sim_get _ _ id H) as Hg.
    destruct (reg_get r id) as [s|], (reg_get r' id) as [s'|]; cbn in Hg; try contradiction; [|reflexivity].
    destruct Hg as (_ & _ & C & _). rewrite C. destruct (rs_parent s'); [rewrite IH|]; reflexivity.
  Qed.

  Lemma sim_find_raw l l' :
    Forall2 (opt_rel (span_sim rho)) l l' -> forall b raw, find_raw l b raw = find_raw l' b raw.
  Proof.
    induction 1 as [|o o' l l' Ho H IH]; intros b raw; [reflexivity|].
    destruct o as [s|], o' as [s'|]; cbn in Ho; try contradiction; cbn.
    - destruct Ho as (_ & B & _). rewrite B. destruct (rs_raw s' =? raw); [reflexivity | apply IH].
    - apply IH.
  Qed.

  Lemma sim_resolve r r' t : reg_sim rho r r' -> resolve_target r t = resolve_target r' t.
  Proof.
    intros H. destruct t as [j|raw]; cbn.
    - rewrite (sim_present _ _ j H). reflexivity.
    - unfold ctx_span_raw. apply sim_find_raw. exact (proj2 H).
  Qed.

  Lemma sim_span_scope r r' id : reg_sim rho r r' -> ctx_span_scope r id = ctx_span_scope r' id.
  Proof.
    intros H. unfold ctx_span_scope, scope_of. pose proof (sim_get _ _ id H) as Hg.
    destruct (reg_get r id), (reg_get r' id); cbn in Hg; try contradiction; [|reflexivity].
    rewrite (sim_scope _ _ H). reflexivity.
  Qed.

  Lemma sim_event_scope r r' tid pk : reg_sim rho r r' -> ctx_event_scope r tid pk = ctx_event_scope r' tid pk.
  Proof.
    intros H. unfold ctx_event_scope, ctx_event_span, ctx_lookup_current, scope_of.
    destruct pk as [| |k].
    - rewrite (sim_current _ _ tid H). destruct (reg_current_span r' tid); [|reflexivity].
      cbn [option_map]. rewrite (sim_scope _ _ H). reflexivity.
    - reflexivity.
    - rewrite (sim_present _ _ k H). destruct (reg_present r' k); [|reflexivity].
      cbn [option_map]. rewrite (sim_scope _ _ H). reflexivity.
  Qed.

  Lemma sim_scope_find r r' k k' :
    reg_sim rho r r' -> In (k, k') rho -> forall scope, scope_find r k scope = scope_find r' k' scope.
  Proof.
    intros H Hk. induction scope as [|id t IH]; [reflexivity|]. cbn.
    pose proof (sim_get _ _ id H) as Hg.
    destruct (reg_get r id) as [s|], (reg_get r' id) as [s'|]; cbn in Hg; try contradiction; [|exact IH].
    destruct Hg as (_ & _ & _ & _ & E). unfold captured_id. rewrite (E _ _ Hk).
    destruct (ext_find k' (rs_ext s')); [reflexivity | exact IH].
  Qed.
End Sim.

Lemma ext_find_app k e j c :
  ext_find k (e ++ [(j, c)]) =
  match ext_find k e with Some x => Some x | None => if j =? k then Some c else None end.
Proof.
  induction e as [|[j0 c0] t IH]; cbn; [reflexivity|].
  destruct (j0 =? k); [reflexivity | exact IH].
Qed.

Lemma reg_sim_refl_nil r : reg_sim [] r r.
Proof.
  split; [reflexivity|]. induction (rg_spans r) as [|o l IH]; constructor; [|exact IH].
  destruct o as [s|]; cbn; [|exact I]. repeat split. intros k k' [].
Qed.

(** ** One capture layer under related Registries *)
Lemma layer_cong rho f k k' r r' tid cb st :
  rho_inj rho -> In (k, k') rho -> reg_sim rho r r' ->
  res_sim (pair_sim rho) (layer_step f k r tid cb st) (layer_step f k' r' tid cb st).
Proof.
  intros Hinj Hk H.
  assert (Hupd : forall ps id g,
    res_sim (pair_sim rho)
      (match ctx_span r id with
       | None => RPanic ps
       | Some s => match captured_id k s with
                   | Some c => let* st1 := of_outcome (on_span_update st c g) in ROk (r, st1)
                   | None => ROk (r, st)
                   end
       end)
      (match ctx_span r' id with
       | None => RPanic ps
       | Some s => match captured_id k' s with
                   | Some c => let* st1 := of_outcome (on_span_update st c g) in ROk (r', st1)
                   | None => ROk (r', st)
                   end
       end)).
  { intros ps id g. unfold ctx_span. pose proof (sim_get _ _ _ id H) as Hg.
    destruct (reg_get r id) as [s|], (reg_get r' id) as [s'|]; cbn in Hg; try contradiction; [|reflexivity].
    destruct Hg as (_ & _ & _ & _ & E). unfold captured_id. rewrite (E _ _ Hk).
    destruct (ext_find k' (rs_ext s')); [|split; [exact H | reflexivity]].
    destruct (of_outcome (on_span_update st n g)); cbn; auto. split; [exact H | reflexivity]. }
  destruct cb as [id meta vals | id vals | id | id | id | id t | meta pk vals]; cbn [layer_step].
  - (* new span *)
    destruct (negb (f meta)); [split; [exact H | reflexivity]|].
    rewrite (sim_span_scope _ _ _ id H).
    replace (match ctx_span_scope r' id with Some scope => scope_find r k scope | None => None end)
      with (match ctx_span_scope r' id with Some scope => scope_find r' k' scope | None => None end).
    2:{ destruct (ctx_span_scope r' id); [|reflexivity]. symmetry. apply (sim_scope_find _ _ _ _ _ H Hk). }
    destruct (of_outcome (push_span st _ _)) as [[st1 arena_id]| | |]; cbn; auto.
    unfold ctx_span. pose proof (sim_get _ _ _ id H) as Hg.
    destruct (reg_get r id) as [s|] eqn:Es, (reg_get r' id) as [s'|] eqn:Es'; cbn in Hg; try contradiction;
      [|reflexivity].
    split; cbn; [|reflexivity]. unfold reg_set_ext. rewrite Es, Es'.
    apply sim_set; [exact H|]. destruct Hg as (A & B & C & D & E). repeat split; auto.
    intros j j' Hj. cbn [rs_ext with_ext]. rewrite !ext_find_app, (E _ _ Hj).
    destruct (ext_find j' (rs_ext s')); [reflexivity|].
    destruct (N.eqb_spec k j) as [->|Hne], (N.eqb_spec k' j') as [->|Hne']; try reflexivity.
    + exfalso. apply Hne'. apply (Hinj _ _ _ _ Hk Hj). reflexivity.
    + exfalso. apply Hne. apply (Hinj _ _ _ _ Hk Hj). reflexivity.
  - (* record *)
    unfold ctx_span. pose proof (sim_get _ _ _ id H) as Hg.
    destruct (reg_get r id) as [s|], (reg_get r' id) as [s'|]; cbn in Hg; try contradiction; [|reflexivity].
    destruct Hg as (A & _ & _ & _ & E). unfold captured_id. rewrite (E _ _ Hk), A.
    destruct (ext_find k' (rs_ext s')); [|split; [exact H | reflexivity]].
    destruct (of_outcome (on_span_update st n _)); cbn; auto. split; [exact H | reflexivity].
  - (* enter *) apply Hupd.
  - (* exit *) apply Hupd.
  - (* close *) apply Hupd.
  - (* follows *)
    unfold ctx_span. rewrite (sim_resolve _ _ _ t H). pose proof (sim_get _ _ _ id H) as Hg.
    destruct (reg_get r id) as [s|], (reg_get r' id) as [s'|]; cbn in Hg; try contradiction;
      [|split; [exact H | reflexivity]].
    destruct (resolve_target r' t) as [fid|]; [|split; [exact H | reflexivity]].
    pose proof (sim_get _ _ _ fid H) as Hf.
    destruct (reg_get r fid) as [fs|], (reg_get r' fid) as [fs'|]; cbn in Hf; try contradiction;
      [|split; [exact H | reflexivity]].
    destruct Hg as (_ & _ & _ & _ & E). destruct Hf as (_ & _ & _ & _ & Ef).
    unfold captured_id. rewrite (E _ _ Hk), (Ef _ _ Hk).
    destruct (ext_find k' (rs_ext s')); [|split; [exact H | reflexivity]].
    destruct (ext_find k' (rs_ext fs')); [|split; [exact H | reflexivity]].
    destruct (of_outcome (on_follows_from st n n0)); cbn; auto. split; [exact H | reflexivity].
  - (* event *)
    destruct (negb (f meta)); [split; [exact H | reflexivity]|].
    rewrite (sim_event_scope _ _ _ tid pk H).
    replace (match ctx_event_scope r' tid pk with Some scope => scope_find r k scope | None => None end)
      with (match ctx_event_scope r' tid pk with Some scope => scope_find r' k' scope | None => None end).
    2:{ destruct (ctx_event_scope r' tid pk); [|reflexivity]. symmetry. apply (sim_scope_find _ _ _ _ _ H Hk). }
    destruct (of_outcome (push_event st _ _)) as [[st1 eid]| | |]; cbn; auto. split; [exact H | reflexivity].
Qed.

(** the only thing a capture layer does to the Registry: one more entry under its own key *)
Lemma layer_step_reg f k r tid cb st r1 st1 :
  layer_step f k r tid cb st = ROk (r1, st1) ->
  r1 = r \/ exists id s c, reg_get r id = Some s /\ r1 = reg_set r id (with_ext s (rs_ext s ++ [(k, c)])).
Proof.
  destruct cb as [id meta vals | id vals | id | id | id | id t | meta pk vals]; cbn [layer_step]; intros H.
  - destruct (negb (f meta)); [injection H as <- <-; auto|].
    apply rbind_ok in H as ([st2 c] & _ & H). unfold ctx_span in H.
    destruct (reg_get r id) as [s|] eqn:Es; [|discriminate]. injection H as <- <-.
    right. exists id, s, c. split; [exact Es|]. unfold reg_set_ext. rewrite Es. reflexivity.
  - unfold ctx_span in H. destruct (reg_get r id) as [s|]; [|discriminate].
    destruct (captured_id k s); [|injection H as <- <-; auto].
    apply rbind_ok in H as (st2 & _ & H). injection H as <- <-. auto.
  - unfold ctx_span in H. destruct (reg_get r id) as [s|]; [|discriminate].
    destruct (captured_id k s); [|injection H as <- <-; auto].
    apply rbind_ok in H as (st2 & _ & H). injection H as <- <-. auto.
  - unfold ctx_span in H. destruct (reg_get r id) as [s|]; [|discriminate].
    destruct (captured_id k s); [|injection H as <- <-; auto].
    apply rbind_ok in H as (st2 & _ & H). injection H as <- <-. auto.
  - unfold ctx_span in H. destruct (reg_get r id) as [s|]; [|discriminate].
    destruct (captured_id k s); [|injection H as <- <-; auto].
    apply rbind_ok in H as (st2 & _ & H). injection H as <- <-. auto.
  - unfold ctx_span in H. destruct (reg_get r id) as [s|]; [|injection H as <- <-; auto].
    destruct (resolve_target r t) as [fid|]; [|injection H as <- <-; auto].
    destruct (reg_get r fid) as [fs|]; [|injection H as <- <-; auto].
    destruct (captured_id k s); [|injection H as <- <-; auto].
    destruct (captured_id k fs); [|injection H as <- <-; auto].
    apply rbind_ok in H as (st2 & _ & H). injection H as <- <-. auto.
  - destruct (negb (f meta)); [injection H as <- <-; auto|].
    apply rbind_ok in H as ([st2 c] & _ & H). injection H as <- <-. auto.
Qed.

Lemma Forall2_set_nth_l {A B} (R : A -> B -> Prop) l l' i x :
  Forall2 R l l' -> (forall y, nth_error l' i = Some y -> R x y) -> Forall2 R (set_nth l i x) l'.
Proof.
  intros H. revert i. induction H as [|a b l l' Hab H IH]; intros [|i] Hx; cbn; constructor; auto;
    try (apply Hx; reflexivity).
Qed.
Lemma Forall2_set_nth_r {A B} (R : A -> B -> Prop) l l' i x :
  Forall2 R l l' -> (forall y, nth_error l i = Some y -> R y x) -> Forall2 R l (set_nth l' i x).
Proof.
  intros H. revert i. induction H as [|a b l l' Hab H IH]; intros [|i] Hx; cbn; constructor; auto;
    try (apply Hx; reflexivity).
Qed.

Lemma layer_other_l rho f k r r' tid cb st r1 st1 :
  (forall j', ~ In (k, j') rho) -> reg_sim rho r r' ->
  layer_step f k r tid cb st = ROk (r1, st1) -> reg_sim rho r1 r'.
Proof.
  intros Hk H E. apply layer_step_reg in E as [-> | (id & s & c & Es & ->)]; [exact H|].
  destruct H as [A B]. split; [exact A|]. cbn. apply Forall2_set_nth_l; [exact B|].
  intros y Hy. pose proof (Forall2_nth _ _ _ B id) as Hid. rewrite Hy in Hid.
  unfold reg_get in Es. destruct (nth_error (rg_spans r) id) as [[s0|]|]; try discriminate.
  injection Es as ->. destruct y as [s'|]; cbn in Hid; [|contradiction]. cbn.
  destruct Hid as (P & Q & R & S & E). repeat split; auto.
  intros j j' Hj. cbn [rs_ext with_ext]. rewrite ext_find_app, (E _ _ Hj).
  destruct (ext_find j' (rs_ext s')); [reflexivity|].
  destruct (N.eqb_spec k j) as [->|]; [|reflexivity]. exfalso. eapply Hk; eauto.
Qed.

Lemma layer_other_r rho f k r r' tid cb st r1 st1 :
  (forall j, ~ In (j, k) rho) -> reg_sim rho r' r ->
  layer_step f k r tid cb st = ROk (r1, st1) -> reg_sim rho r' r1.
Proof.
  intros Hk H E. apply layer_step_reg in E as [-> | (id & s & c & Es & ->)]; [exact H|].
  destruct H as [A B]. split; [exact A|]. cbn. apply Forall2_set_nth_r; [exact B|].
  intros y Hy. pose proof (Forall2_nth _ _ _ B id) as Hid. rewrite Hy in Hid.
  unfold reg_get in Es. destruct (nth_error (rg_spans r) id) as [[s0|]|]; try discriminate.
  injection Es as ->. destruct y as [s'|]; cbn in Hid; [|contradiction]. cbn.
  destruct Hid as (P & Q & R & S & E). repeat split; auto.
  intros j j' Hj. cbn [rs_ext with_ext]. rewrite ext_find_app, <- (E _ _ Hj).
  destruct (ext_find j (rs_ext s')); [reflexivity|].
  destruct (N.eqb_spec k j') as [->|]; [|reflexivity]. exfalso. eapply Hk; eauto.
Qed.

(** ** Stacks under related Registries *)
Definition stack_sim rho (a b : reg * list layer) : Prop := reg_sim rho (fst a) (fst b) /\ snd a = snd b.

Lemma stack_cong rho r r' tid cb ls :
  rho_inj rho -> (forall k, In k (stack_keys ls) -> In (k, k) rho) -> reg_sim rho r r' ->
  res_sim (stack_sim rho) (stack_deliver r tid cb ls) (stack_deliver r' tid cb ls).
Proof.
  intros Hinj. revert r r'. induction ls as [|[f k st|] rest IH]; intros r r' Hkeys H; cbn [stack_deliver].
  - split; [exact H | reflexivity].
  - eapply res_sim_bind.
    + apply (layer_cong rho f k k r r' tid cb st Hinj); [apply Hkeys; left; reflexivity | exact H].
    + intros [r1 st1] [r1' st1'] [Hr Hs]. cbn in Hr, Hs. subst st1'.
      eapply res_sim_bind.
      * apply IH; [|exact Hr]. intros j Hj. apply Hkeys. right. exact Hj.
      * intros [r2 rest1] [r2' rest1'] [Hr2 Hs2]. cbn in Hr2, Hs2. subst rest1'. split; [exact Hr2 | reflexivity].
  - eapply res_sim_bind.
    + apply IH; [exact Hkeys | exact H].
    + intros [r2 rest1] [r2' rest1'] [Hr2 Hs2]. cbn in Hr2, Hs2. subst rest1'. split; [exact Hr2 | reflexivity].
Qed.

Lemma stack_other_l rho r r' tid cb ls r1 ls1 :
  (forall k j', In k (stack_keys ls) -> ~ In (k, j') rho) -> reg_sim rho r r' ->
  stack_deliver r tid cb ls = ROk (r1, ls1) -> reg_sim rho r1 r'.
Proof.
  revert r ls1. induction ls as [|[f k st|] rest IH]; intros r ls1 Hkeys H E; cbn [stack_deliver] in E.
  - injection E as <- <-. exact H.
  - apply rbind_ok in E as ([ra sta] & Ea & E). apply rbind_ok in E as ([rb restb] & Eb & E).
    injection E as <- <-. eapply IH; [| |exact Eb].
    + intros j j' Hj. apply Hkeys. right. exact Hj.
    + eapply layer_other_l; [|exact H|exact Ea]. intros j'. apply Hkeys. left. reflexivity.
  - apply rbind_ok in E as ([rb restb] & Eb & E). injection E as <- <-. eapply IH; eauto.
Qed.

(** the shape of a stack never changes *)
Lemma stack_deliver_shape r tid cb ls r1 ls1 :
  stack_deliver r tid cb ls = ROk (r1, ls1) ->
  stack_keys ls1 = stack_keys ls /\ stack_filters ls1 = stack_filters ls /\
  List.length (stack_storages ls1) = List.length (stack_storages ls).
Proof.
  revert r ls1. induction ls as [|[f k st|] rest IH]; intros r ls1 E; cbn [stack_deliver] in E.
  - injection E as <- <-. auto.
  - apply rbind_ok in E as ([ra sta] & Ea & E). apply rbind_ok in E as ([rb restb] & Eb & E).
    injection E as <- <-. destruct (IH _ _ Eb) as (A & B & C). cbn. rewrite A, B, C. auto.
  - apply rbind_ok in E as ([rb restb] & Eb & E). injection E as <- <-. destruct (IH _ _ Eb) as (A & B & C).
    cbn. auto.
Qed.

(** ** The driver: if two subscribers run a program without failure, so does a third whose layers
    behave like the first on the keys [rhoa] and like the second on the keys [rhob] *)
Section TriBwd.
  Variables L La Lb : Type.
  Variable d : reg -> nat -> lcallback -> L -> result (reg * L).
  Variable da : reg -> nat -> lcallback -> La -> result (reg * La).
  Variable db : reg -> nat -> lcallback -> Lb -> result (reg * Lb).
  Variables rhoa rhob : list (N * N).
  Variable RL : L -> La -> Lb -> Prop.

  Definition tri (x : reg * L) (a : reg * La) (b : reg * Lb) : Prop :=
    reg_sim rhoa (fst x) (fst a) /\ reg_sim rhob (fst x) (fst b) /\ RL (snd x) (snd a) (snd b).

  Hypothesis Hd : forall r ra rb l la lb tid cb a b,
    tri (r, l) (ra, la) (rb, lb) ->
    da ra tid cb la = ROk a -> db rb tid cb lb = ROk b ->
    exists x, d r tid cb l = ROk x /\ tri x a b.

  Lemma tri_try_close : forall fuel r ra rb l la lb tid id a b,
    tri (r, l) (ra, la) (rb, lb) ->
    sub_try_close da fuel ra la tid id = ROk a -> sub_try_close db fuel rb lb tid id = ROk b ->
    exists x, sub_try_close d fuel r l tid id = ROk x /\ tri x a b.
  Proof.
    induction fuel as [|f IH]; intros r ra rb l la lb tid id a b (Ha & Hb & Hl) Ea Eb; [discriminate|].
    cbn [sub_try_close] in *.
    apply rbind_ok in Ea as ([ra1 ca] & Ea1 & Ea). apply rbind_ok in Eb as ([rb1 cb] & Eb1 & Eb).
    destruct (res_sim_ok_r _ _ _ _ (sim_try_close rhoa r ra id Ha) Ea1) as ([r1 c] & E1 & Hra & Hca).
    destruct (res_sim_ok_r _ _ _ _ (sim_try_close rhob r rb id Hb) Eb1) as ([r1' c'] & E1' & Hrb & Hcb).
    rewrite E1 in E1'. injection E1' as <- <-. cbn in Hra, Hca, Hrb, Hcb. subst ca cb.
    rewrite E1. cbn [rbind]. destruct c.
    - apply rbind_ok in Ea as ([ra2 la2] & Ea2 & Ea). apply rbind_ok in Eb as ([rb2 lb2] & Eb2 & Eb).
      destruct (Hd r1 ra1 rb1 l la lb tid (CbClose id) _ _ (conj Hra (conj Hrb Hl)) Ea2 Eb2)
        as ([r2 l2] & E2 & Hra2 & Hrb2 & Hl2). cbn in Hra2, Hrb2, Hl2.
      rewrite E2. cbn [rbind].
      pose proof (sim_get _ _ _ id Hra2) as Ga. pose proof (sim_get _ _ _ id Hrb2) as Gb.
      destruct (reg_get r2 id) as [s|], (reg_get ra2 id) as [sa|]; cbn in Ga; try contradiction.
      + destruct (reg_get rb2 id) as [sb|]; cbn in Gb; [|contradiction].
        destruct Ga as (_ & _ & Pa & _). destruct Gb as (_ & _ & Pb & _). rewrite <- Pa in Ea. rewrite <- Pb in Eb.
        assert (T : tri (reg_remove r2 id, l2) (reg_remove ra2 id, la2) (reg_remove rb2 id, lb2)).
        { split; [apply sim_remove; exact Hra2|]. split; [apply sim_remove; exact Hrb2 | exact Hl2]. }
        destruct (rs_parent s) as [p|].
        * eapply IH; eauto.
        * injection Ea as <-. injection Eb as <-. eexists. split; [reflexivity | exact T].
      + destruct (reg_get rb2 id) as [sb|]; cbn in Gb; [contradiction|].
        injection Ea as <-. injection Eb as <-. eexists. split; [reflexivity|].
        split; [exact Hra2|]. split; [exact Hrb2 | exact Hl2].
    - injection Ea as <-. injection Eb as <-. eexists. split; [reflexivity|].
      split; [exact Hra|]. split; [exact Hrb | exact Hl].
  Qed.

  Lemma tri_step sites ids x a b o a1 b1 :
    tri x a b ->
    sub_step da sites ids a o = ROk a1 -> sub_step db sites ids b o = ROk b1 ->
    exists x1, sub_step d sites ids x o = ROk x1 /\ tri x1 a1 b1.
  Proof.
    destruct x as [r l], a as [ra la], b as [rb lb], o as [tid op].
    intros T Ea Eb. pose proof T as (Ha & Hb & Hl). cbn in Ha, Hb, Hl.
    unfold sub_step in *. cbn [fst snd] in *.
    destruct op as [cs pk vals | k vals | k | k | k | k | k t | cs pk vals].
    - destruct (nth_error sites cs) as [meta|]; [|discriminate].
      apply rbind_ok in Ea as ([ra1 ida] & Ea1 & Ea). apply rbind_ok in Eb as ([rb1 idb] & Eb1 & Eb).
      rewrite <- (sim_next _ _ _ Ha) in Ea1. rewrite <- (sim_next _ _ _ Hb) in Eb1.
      destruct (res_sim_ok_r _ _ _ _ (sim_new_span rhoa r ra tid meta pk _ Ha) Ea1) as ([r1 id] & E1 & Hra & Hia).
      destruct (res_sim_ok_r _ _ _ _ (sim_new_span rhob r rb tid meta pk _ Hb) Eb1) as ([r1' id'] & E1' & Hrb & Hib).
      rewrite E1 in E1'. injection E1' as <- <-. cbn in Hra, Hia, Hrb, Hib. subst ida idb.
      rewrite E1. cbn [rbind]. eapply Hd; eauto. split; [exact Hra|]. split; [exact Hrb | exact Hl].
    - eapply Hd; eauto.
    - apply rbind_ok in Ea as (ra1 & Ea1 & Ea). apply rbind_ok in Eb as (rb1 & Eb1 & Eb).
      destruct (res_sim_ok_r _ _ _ _ (sim_enter rhoa r ra tid k Ha) Ea1) as (r1 & E1 & Hra).
      destruct (res_sim_ok_r _ _ _ _ (sim_enter rhob r rb tid k Hb) Eb1) as (r1' & E1' & Hrb).
      rewrite E1 in E1'. injection E1' as <-. rewrite E1. cbn [rbind].
      eapply Hd; eauto. split; [exact Hra|]. split; [exact Hrb | exact Hl].
    - destruct (sim_exit_pop rhoa r ra tid k Ha) as [Pa Fa]. destruct (sim_exit_pop rhob r rb tid k Hb) as [Pb Fb].
      destruct (reg_exit_pop r tid k) as [r1 fr], (reg_exit_pop ra tid k) as [ra1 fa], (reg_exit_pop rb tid k) as [rb1 fb].
      cbn in Pa, Fa, Pb, Fb. subst fa fb.
      apply rbind_ok in Ea as ([ra2 la2] & Ea2 & Ea). apply rbind_ok in Eb as ([rb2 lb2] & Eb2 & Eb).
      assert (exists x2, (if fr then sub_try_close d (close_fuel r1) r1 l tid k else ROk (r1, l)) = ROk x2
                         /\ tri x2 (ra2, la2) (rb2, lb2)) as ([r2 l2] & E2 & T2).
      { destruct fr.
        - unfold close_fuel in *. rewrite <- (sim_next _ _ _ Pa) in Ea2. rewrite <- (sim_next _ _ _ Pb) in Eb2.
          eapply tri_try_close; eauto. split; [exact Pa|]. split; [exact Pb | exact Hl].
        - injection Ea2 as <- <-. injection Eb2 as <- <-. eexists. split; [reflexivity|].
          split; [exact Pa|]. split; [exact Pb | exact Hl]. }
      rewrite E2. cbn [rbind]. eapply Hd; eauto.
    - apply rbind_ok in Ea as (ra1 & Ea1 & Ea). apply rbind_ok in Eb as (rb1 & Eb1 & Eb).
      destruct (res_sim_ok_r _ _ _ _ (sim_clone rhoa r ra k Ha) Ea1) as (r1 & E1 & Hra).
      destruct (res_sim_ok_r _ _ _ _ (sim_clone rhob r rb k Hb) Eb1) as (r1' & E1' & Hrb).
      rewrite E1 in E1'. injection E1' as <-. rewrite E1. cbn [rbind].
      injection Ea as <-. injection Eb as <-. eexists. split; [reflexivity|].
      split; [exact Hra|]. split; [exact Hrb | exact Hl].
    - unfold close_fuel in *. rewrite <- (sim_next _ _ _ Ha) in Ea. rewrite <- (sim_next _ _ _ Hb) in Eb.
      eapply tri_try_close; eauto.
    - eapply Hd; eauto.
    - destruct (nth_error sites cs) as [meta|]; [|discriminate]. eapply Hd; eauto.
  Qed.

  Lemma tri_steps sites ids ops : forall x a b a1 b1,
    tri x a b ->
    sub_steps da sites ids a ops = ROk a1 -> sub_steps db sites ids b ops = ROk b1 ->
    exists x1, sub_steps d sites ids x ops = ROk x1 /\ tri x1 a1 b1.
  Proof.
    induction ops as [|o rest IH]; intros x a b a1 b1 T Ea Eb; cbn [sub_steps] in *.
    - injection Ea as <-. injection Eb as <-. eexists. split; [reflexivity | exact T].
    - apply rbind_ok in Ea as (a2 & Ea2 & Ea). apply rbind_ok in Eb as (b2 & Eb2 & Eb).
      destruct (tri_step _ _ _ _ _ _ _ _ T Ea2 Eb2) as (x2 & E2 & T2). rewrite E2. cbn [rbind].
      eapply IH; eauto.
  Qed.
End TriBwd.

(** * Part B: a single capture layer refines the specification *)

(** ** The abstract forest: facts that depend only on metadata and logical parents *)
Definition plt (spans : list aspan) : Prop :=
  forall k s p, nth_error spans k = Some s -> as_lparent s = Some p -> (p < k)%nat.
Definition skel (spans : list aspan) : list (cs_data * option nat) :=
  map (fun s => (as_meta s, as_lparent s)) spans.

Lemma skel_length a b : skel a = skel b -> List.length a = List.length b.
Proof. intros H. apply (f_equal (@List.length _)) in H. unfold skel in H. rewrite !map_length in H. exact H. Qed.

Lemma skel_nth a b k :
  skel a = skel b ->
  match nth_error a k, nth_error b k with
  | Some s, Some s' => as_meta s = as_meta s' /\ as_lparent s = as_lparent s'
  | None, None => True
  | _, _ => False
  end.
Proof.
  intros H. apply (f_equal (fun l => nth_error l k)) in H. unfold skel in H. rewrite !nth_error_map in H.
  destruct (nth_error a k), (nth_error b k); cbn in H; try discriminate; auto.
  injection H as -> ->. auto.
Qed.

Section Spec.
  Variable f : cs_data -> bool.

  Lemma nearest_cap_skel a b : skel a = skel b ->
    forall fuel start, nearest_cap f a fuel start = nearest_cap f b fuel start.
  Proof.
    intros H. induction fuel as [|n IH]; intros [p|]; cbn; try reflexivity.
    pose proof (skel_nth a b p H) as Hp.
    destruct (nth_error a p) as [s|], (nth_error b p) as [s'|]; try contradiction; [|reflexivity].
    destruct Hp as [-> ->]. destruct (f (as_meta s')); [reflexivity | apply IH].
  Qed.

  Lemma attach_skel a b start : skel a = skel b -> attach f a start = attach f b start.
  Proof. intros H. unfold attach. rewrite (skel_length _ _ H). apply nearest_cap_skel. exact H. Qed.

  Lemma captured_skel a b k : skel a = skel b -> captured f a k = captured f b k.
  Proof.
    intros H. unfold captured. pose proof (skel_nth a b k H) as Hk.
    destruct (nth_error a k), (nth_error b k); try contradiction; [|reflexivity]. destruct Hk as [-> _]. reflexivity.
  Qed.

  Lemma lparent_of_skel a b k : skel a = skel b -> lparent_of a k = lparent_of b k.
  Proof.
    intros H. unfold lparent_of. pose proof (skel_nth a b k H) as Hk.
    destruct (nth_error a k), (nth_error b k); try contradiction; [|reflexivity]. destruct Hk as [_ ->]. reflexivity.
  Qed.

  Lemma span_attach_skel a b k : skel a = skel b -> span_attach f a k = span_attach f b k.
  Proof. intros H. unfold span_attach. rewrite (lparent_of_skel _ _ k H). apply attach_skel. exact H. Qed.

  Lemma cap_rank_meta a k :
    cap_rank f a k = N.of_nat (List.length (List.filter f (firstn k (map as_meta a)))).
  Proof.
    unfold cap_rank. f_equal. rewrite firstn_map. generalize (firstn k a). intros l.
    induction l as [|s l IH]; cbn; [reflexivity|]. destruct (f (as_meta s)); cbn; congruence.
  Qed.

  Lemma cap_rank_skel a b k : skel a = skel b -> cap_rank f a k = cap_rank f b k.
  Proof.
    intros H. rewrite !cap_rank_meta. apply (f_equal (map fst)) in H. unfold skel in H.
    rewrite !map_map in H. cbn [fst] in H.
    change (map (fun x : aspan => as_meta x) a) with (map as_meta a) in H.
    change (map (fun x : aspan => as_meta x) b) with (map as_meta b) in H.
    rewrite H. reflexivity.
  Qed.

  Lemma attached_spans_skel a b K : skel a = skel b -> attached_spans f a K = attached_spans f b K.
  Proof.
    intros H. unfold attached_spans. rewrite (skel_length _ _ H). apply filter_ext. intros c.
    rewrite (captured_skel _ _ c H), (span_attach_skel _ _ c H). reflexivity.
  Qed.

  Lemma event_attach_skel a b evs i : skel a = skel b -> event_attach f a evs i = event_attach f b evs i.
  Proof. intros H. unfold event_attach. destruct (nth_error evs i); [|reflexivity]. apply attach_skel. exact H. Qed.

  Lemma attached_events_skel a b evs K : skel a = skel b -> attached_events f a evs K = attached_events f b evs K.
  Proof.
    intros H. unfold attached_events. apply filter_ext. intros i. rewrite (event_attach_skel _ _ evs i H). reflexivity.
  Qed.

  (** *** fuel *)
  Lemma nearest_cap_fuel l : plt l -> forall fuel fuel' start,
    (forall p, start = Some p -> (p < fuel)%nat /\ (p < fuel')%nat) ->
    nearest_cap f l fuel start = nearest_cap f l fuel' start.
  Proof.
    intros Hl. induction fuel as [|n IH]; intros fuel' [p|] Hp; try (destruct fuel'; reflexivity).
    - destruct (Hp p eq_refl). lia.
    - destruct (Hp p eq_refl) as [H1 H2]. destruct fuel' as [|n']; [lia|]. cbn.
      destruct (nth_error l p) as [s|] eqn:E; [|reflexivity].
      destruct (f (as_meta s)); [reflexivity|]. apply IH. intros q Hq.
      pose proof (Hl p s q E Hq). lia.
  Qed.

  Lemma nearest_cap_some l fuel start p :
    nearest_cap f l fuel start = Some p -> captured f l p = true /\ (p < List.length l)%nat.
  Proof.
    revert start. induction fuel as [|n IH]; intros [q|]; cbn; try discriminate.
    destruct (nth_error l q) as [s|] eqn:E; [|discriminate].
    destruct (f (as_meta s)) eqn:Ef.
    - intros H. injection H as <-. unfold captured. rewrite E. split; [exact Ef|].
      apply nth_error_Some. congruence.
    - apply IH.
  Qed.

  Lemma nearest_cap_le l : plt l -> forall fuel start q p,
    start = Some q -> nearest_cap f l fuel start = Some p -> (p <= q)%nat.
  Proof.
    intros Hl. induction fuel as [|n IH]; intros start q p -> H; cbn in H; [discriminate|].
    destruct (nth_error l q) as [s|] eqn:E; [|discriminate].
    destruct (f (as_meta s)); [injection H as <-; lia|].
    destruct (as_lparent s) as [q'|] eqn:Eq; [|destruct n; discriminate].
    pose proof (Hl q s q' E Eq). specialize (IH (Some q') q' p eq_refl H). lia.
  Qed.

  Lemma span_attach_lt l k p : plt l -> span_attach f l k = Some p -> (p < k)%nat.
  Proof.
    intros Hl H. unfold span_attach, attach, lparent_of in H.
    destruct (nth_error l k) as [s|] eqn:E; [|discriminate].
    destruct (as_lparent s) as [q|] eqn:Eq; [|discriminate].
    pose proof (Hl k s q E Eq). pose proof (nearest_cap_le l Hl _ _ q p eq_refl H). lia.
  Qed.

  (** *** appending a span *)
  Lemma nearest_cap_app l x : plt l -> forall fuel start,
    (forall p, start = Some p -> (p < List.length l)%nat) ->
    nearest_cap f (l ++ [x]) fuel start = nearest_cap f l fuel start.
  Proof.
    intros Hl. induction fuel as [|n IH]; intros [p|] Hp; cbn; try reflexivity.
    specialize (Hp p eq_refl) as Hlt. rewrite nth_error_app1 by exact Hlt.
    destruct (nth_error l p) as [s|] eqn:E; [|reflexivity].
    destruct (f (as_meta s)); [reflexivity|]. apply IH. intros q Hq. pose proof (Hl p s q E Hq). lia.
  Qed.

  Lemma attach_app l x start :
    plt l -> (forall p, start = Some p -> (p < List.length l)%nat) ->
    attach f (l ++ [x]) start = attach f l start.
  Proof.
    intros Hl Hp. unfold attach. rewrite (nearest_cap_app l x Hl _ _ Hp).
    apply nearest_cap_fuel; [exact Hl|]. intros p E. specialize (Hp p E). rewrite app_length. cbn. lia.
  Qed.

  Lemma cap_rank_app l x k : (k <= List.length l)%nat -> cap_rank f (l ++ [x]) k = cap_rank f l k.
  Proof. intros H. unfold cap_rank. rewrite firstn_app. replace (k - List.length l)%nat with O by lia. cbn. rewrite app_nil_r. reflexivity. Qed.

  Lemma cap_rank_S l k s :
    nth_error l k = Some s ->
    cap_rank f l (S k) = cap_rank f l k + (if f (as_meta s) then 1 else 0).
  Proof.
    intros E. unfold cap_rank.
    assert (H : firstn (S k) l = firstn k l ++ [s]).
    { revert k E. induction l as [|a l IH]; intros [|k] E; cbn in *; try discriminate.
      - injection E as ->. reflexivity.
      - f_equal. apply IH. exact E. }
    rewrite H, filter_app, app_length. cbn. destruct (f (as_meta s)); cbn; lia.
  Qed.

  Lemma cap_rank_mono l k k' : (k <= k')%nat -> cap_rank f l k <= cap_rank f l k'.
  Proof.
    intros H. induction H as [|m H IH]; [lia|].
    destruct (nth_error l m) as [s|] eqn:E.
    - rewrite (cap_rank_S _ _ _ E). destruct (f (as_meta s)); lia.
    - unfold cap_rank in *. apply nth_error_None in E.
      rewrite (firstn_all2 (n := S m)) by lia. rewrite (firstn_all2 (n := m)) in IH by lia. exact IH.
  Qed.

  Lemma cap_rank_lt l k k' : captured f l k = true -> (k < k')%nat -> cap_rank f l k < cap_rank f l k'.
  Proof.
    intros Hc H. unfold captured in Hc. destruct (nth_error l k) as [s|] eqn:E; [|discriminate].
    pose proof (cap_rank_S _ _ _ E) as HS. rewrite Hc in HS.
    pose proof (cap_rank_mono l (S k) k' H). lia.
  Qed.

  Lemma cap_rank_inj l k k' :
    captured f l k = true -> captured f l k' = true -> cap_rank f l k = cap_rank f l k' -> k = k'.
  Proof.
    intros H1 H2 E. destruct (Nat.lt_trichotomy k k') as [H|[H|H]]; [|exact H|].
    - pose proof (cap_rank_lt l k k' H1 H). lia.
    - pose proof (cap_rank_lt l k' k H2 H). lia.
  Qed.

  Lemma captured_app l x k :
    captured f (l ++ [x]) k =
    if Nat.ltb k (List.length l) then captured f l k else Nat.eqb k (List.length l) && f (as_meta x).
  Proof.
    unfold captured. rewrite nth_error_snoc'. destruct (Nat.ltb k (List.length l)); [reflexivity|].
    destruct (Nat.eqb k (List.length l)); reflexivity.
  Qed.

  Lemma captured_lt l k : captured f l k = true -> (k < List.length l)%nat.
  Proof. unfold captured. destruct (nth_error l k) eqn:E; [|discriminate]. intros _. apply nth_error_Some. congruence. Qed.

  Lemma lparent_of_app l x k :
    lparent_of (l ++ [x]) k =
    if Nat.ltb k (List.length l) then lparent_of l k
    else if Nat.eqb k (List.length l) then as_lparent x else None.
  Proof.
    unfold lparent_of. rewrite nth_error_snoc'. destruct (Nat.ltb k (List.length l)); [reflexivity|].
    destruct (Nat.eqb k (List.length l)); reflexivity.
  Qed.

  Lemma lparent_of_lt l k p : plt l -> lparent_of l k = Some p -> (p < k)%nat /\ (k < List.length l)%nat.
  Proof.
    intros Hl. unfold lparent_of. destruct (nth_error l k) as [s|] eqn:E; [|discriminate].
    intros H. split; [eapply Hl; eauto|]. apply nth_error_Some. congruence.
  Qed.

  Lemma span_attach_app l x k :
    plt l -> (k < List.length l)%nat -> span_attach f (l ++ [x]) k = span_attach f l k.
  Proof.
    intros Hl Hk. unfold span_attach. rewrite lparent_of_app.
    destruct (Nat.ltb_spec k (List.length l)); [|lia]. apply attach_app; [exact Hl|].
    intros p Hp. apply (lparent_of_lt l k p Hl) in Hp. lia.
  Qed.

  Lemma span_attach_new l x :
    plt l -> (forall p, as_lparent x = Some p -> (p < List.length l)%nat) ->
    span_attach f (l ++ [x]) (List.length l) = attach f l (as_lparent x).
  Proof.
    intros Hl Hx. unfold span_attach. rewrite lparent_of_app, Nat.ltb_irrefl, Nat.eqb_refl.
    apply attach_app; assumption.
  Qed.

  Lemma attached_spans_app l x K :
    plt l -> (forall p, as_lparent x = Some p -> (p < List.length l)%nat) ->
    attached_spans f (l ++ [x]) K =
    attached_spans f l K ++
    (if f (as_meta x) && opt_nat_eqb (attach f l (as_lparent x)) K then [List.length l] else []).
  Proof.
    intros Hl Hx. unfold attached_spans. rewrite app_length. cbn [List.length].
    rewrite Nat.add_1_r, seq_S, filter_app. cbn [List.filter Nat.add]. f_equal.
    - apply filter_ext_in. intros c Hc. apply in_seq in Hc. rewrite captured_app.
      destruct (Nat.ltb_spec c (List.length l)); [|lia]. rewrite span_attach_app by (auto; lia). reflexivity.
    - rewrite captured_app, Nat.ltb_irrefl, Nat.eqb_refl, span_attach_new by assumption. cbn [andb].
      destruct (f (as_meta x) && opt_nat_eqb (attach f l (as_lparent x)) K); reflexivity.
  Qed.

  Definition evs_bounded (l : list aspan) (evs : list aevent) : Prop :=
    forall i e p, nth_error evs i = Some e -> ae_lparent e = Some p -> (p < List.length l)%nat.

  Lemma event_attach_app l x evs i :
    plt l -> evs_bounded l evs -> event_attach f (l ++ [x]) evs i = event_attach f l evs i.
  Proof.
    intros Hl Hb. unfold event_attach. destruct (nth_error evs i) as [e|] eqn:E; [|reflexivity].
    apply attach_app; [exact Hl|]. intros p Hp. eapply Hb; eauto.
  Qed.

  Lemma attached_events_app_span l x evs K :
    plt l -> evs_bounded l evs -> attached_events f (l ++ [x]) evs K = attached_events f l evs K.
  Proof.
    intros Hl Hb. unfold attached_events. apply filter_ext. intros i. rewrite event_attach_app by assumption. reflexivity.
  Qed.

  Lemma event_attach_snoc l evs e i :
    event_attach f l (evs ++ [e]) i =
    if Nat.ltb i (List.length evs) then event_attach f l evs i
    else if Nat.eqb i (List.length evs) then attach f l (ae_lparent e) else None.
  Proof.
    unfold event_attach. rewrite nth_error_snoc'. destruct (Nat.ltb i (List.length evs)); [reflexivity|].
    destruct (Nat.eqb i (List.length evs)); reflexivity.
  Qed.

  Lemma attached_events_snoc l evs e K :
    attached_events f l (evs ++ [e]) K =
    attached_events f l evs K ++
    (if opt_nat_eqb (attach f l (ae_lparent e)) K then [List.length evs] else []).
  Proof.
    unfold attached_events. rewrite app_length. cbn [List.length].
    rewrite Nat.add_1_r, seq_S, filter_app. cbn [List.filter Nat.add]. f_equal.
    - apply filter_ext_in. intros c Hc. apply in_seq in Hc. rewrite event_attach_snoc.
      destruct (Nat.ltb_spec c (List.length evs)); [reflexivity | lia].
    - rewrite event_attach_snoc, Nat.ltb_irrefl, Nat.eqb_refl.
      destruct (opt_nat_eqb (attach f l (ae_lparent e)) K); reflexivity.
  Qed.
End Spec.

(** ** The captured spans by position *)
Lemma nth_error_indexed_from {A} (l : list A) : forall b j,
  nth_error (combine (seq b (List.length l)) l) j = option_map (fun x => ((b + j)%nat, x)) (nth_error l j).
Proof.
  induction l as [|a l IH]; intros b j; cbn.
  - destruct j; reflexivity.
  - destruct j as [|j]; cbn; [rewrite Nat.add_0_r; reflexivity|].
    rewrite IH. rewrite Nat.add_succ_r. reflexivity.
Qed.

Lemma nth_error_indexed {A} (l : list A) j :
  nth_error (indexed l) j = option_map (fun x => (j, x)) (nth_error l j).
Proof. unfold indexed. rewrite nth_error_indexed_from. reflexivity. Qed.

Lemma indexed_app {A} (l : list A) x : indexed (l ++ [x]) = indexed l ++ [(List.length l, x)].
Proof.
  apply list_ext. intros j. rewrite nth_error_indexed, !nth_error_snoc', nth_error_indexed.
  assert (E : List.length (indexed l) = List.length l).
  { unfold indexed. rewrite combine_length, seq_length. lia. }
  rewrite E. destruct (Nat.ltb j (List.length l)); [reflexivity|].
  destruct (Nat.eqb_spec j (List.length l)) as [->|]; reflexivity.
Qed.

Lemma indexed_length {A} (l : list A) : List.length (indexed l) = List.length l.
Proof. unfold indexed. rewrite combine_length, seq_length. lia. Qed.

Lemma map_snd_indexed {A} (l : list A) : map snd (indexed l) = l.
Proof.
  apply list_ext. intros j. rewrite nth_error_map, nth_error_indexed. destruct (nth_error l j); reflexivity.
Qed.

Definition caps (f : cs_data -> bool) (l : list aspan) : list (nat * aspan) :=
  List.filter (fun ks => f (as_meta (snd ks))) (indexed l).

Lemma caps_app f l x :
  caps f (l ++ [x]) = caps f l ++ (if f (as_meta x) then [(List.length l, x)] else []).
Proof. unfold caps. rewrite indexed_app, filter_app. cbn. destruct (f (as_meta x)); reflexivity. Qed.

Lemma filter_map_snd {A B} (P : B -> bool) (L : list (A * B)) :
  List.filter P (map snd L) = map snd (List.filter (fun ab => P (snd ab)) L).
Proof. induction L as [|[a b] L IH]; cbn; [reflexivity|]. destruct (P b); cbn; congruence. Qed.

Lemma caps_length f l : N.of_nat (List.length (caps f l)) = cap_rank f l (List.length l).
Proof.
  unfold cap_rank, caps. rewrite firstn_all. f_equal.
  rewrite <- (map_snd_indexed l) at 2.
  rewrite (filter_map_snd (fun s => f (as_meta s))), map_length. reflexivity.
Qed.

Lemma caps_nth_inv f l : forall j k s,
  nth_error (caps f l) j = Some (k, s) ->
  nth_error l k = Some s /\ f (as_meta s) = true /\ cap_rank f l k = N.of_nat j.
Proof.
  induction l as [|x l IH] using rev_ind; intros j k s H.
  - destruct j; discriminate.
  - rewrite caps_app in H. pose proof (caps_length f l) as Hlen.
    destruct (Nat.ltb_spec j (List.length (caps f l))) as [Hj|Hj].
    + rewrite nth_error_app1 in H by exact Hj. destruct (IH _ _ _ H) as (A & B & C).
      assert (k < List.length l)%nat by (apply nth_error_Some; congruence).
      split; [rewrite nth_error_app1 by lia; exact A|]. split; [exact B|].
      rewrite cap_rank_app by lia. exact C.
    + rewrite nth_error_app2 in H by exact Hj. destruct (f (as_meta x)) eqn:Ef.
      * destruct (j - List.length (caps f l))%nat as [|d] eqn:Ed; [|destruct d; discriminate].
        cbn in H. injection H as <- <-. split; [rewrite nth_error_app2 by lia; rewrite Nat.sub_diag; reflexivity|].
        split; [exact Ef|]. rewrite cap_rank_app by lia. rewrite <- Hlen. f_equal. lia.
      * destruct (j - List.length (caps f l))%nat; discriminate.
Qed.

Lemma caps_nth_rank f l : forall k s,
  nth_error l k = Some s -> f (as_meta s) = true ->
  nth_error (caps f l) (N.to_nat (cap_rank f l k)) = Some (k, s).
Proof.
  induction l as [|x l IH] using rev_ind; intros k s H Hf.
  - destruct k; discriminate.
  - rewrite caps_app. pose proof (caps_length f l) as Hlen. rewrite nth_error_snoc' in H.
    destruct (Nat.ltb_spec k (List.length l)) as [Hk|Hk].
    + rewrite cap_rank_app by lia. rewrite nth_error_app1; [apply IH; assumption|].
      assert (Hc : captured f l k = true) by (unfold captured; rewrite H; exact Hf).
      pose proof (cap_rank_lt f l k (List.length l) Hc Hk). lia.
    + destruct (Nat.eqb_spec k (List.length l)) as [->|]; [|discriminate]. injection H as ->.
      rewrite Hf, cap_rank_app by lia. rewrite nth_error_app2 by lia.
      replace (N.to_nat (cap_rank f l (List.length l)) - List.length (caps f l))%nat with O by lia.
      reflexivity.
Qed.

(** ** [build], componentwise *)
Lemma build_get f closed a i :
  get_span (build f closed a) i =
  option_map (build_span f closed a) (nth_error (caps f (a_spans a)) (N.to_nat i)).
Proof. unfold get_span, build. cbn [st_spans]. rewrite nth_error_map. reflexivity. Qed.

Lemma build_nspans f closed a : nspans (build f closed a) = cap_rank f (a_spans a) (List.length (a_spans a)).
Proof. unfold nspans, build. cbn [st_spans]. rewrite map_length. apply caps_length. Qed.

Lemma build_nevents f closed a : nevents (build f closed a) = N.of_nat (List.length (a_events a)).
Proof. unfold nevents, build. cbn [st_events]. rewrite map_length, indexed_length. reflexivity. Qed.

Lemma storage_ext (a b : cstorage) :
  (forall i, get_span a i = get_span b i) -> st_events a = st_events b ->
  st_root_span_ids a = st_root_span_ids b -> st_root_event_ids a = st_root_event_ids b -> a = b.
Proof.
  destruct a as [s1 e1 r1 q1], b as [s2 e2 r2 q2]. cbn. intros H -> -> ->. f_equal.
  apply list_ext. intros j. specialize (H (N.of_nat j)). unfold get_span in H. cbn in H.
  rewrite Nat2N.id in H. exact H.
Qed.

(** the position of a captured span *)
Lemma build_get_rank f closed a k s :
  nth_error (a_spans a) k = Some s -> f (as_meta s) = true ->
  get_span (build f closed a) (cap_rank f (a_spans a) k) = Some (build_span f closed a (k, s)).
Proof. intros H Hf. rewrite build_get, (caps_nth_rank f _ _ _ H Hf). reflexivity. Qed.

Lemma cap_rank_lt_nspans f closed a k :
  captured f (a_spans a) k = true -> cap_rank f (a_spans a) k < nspans (build f closed a).
Proof. intros H. rewrite build_nspans. apply cap_rank_lt; [exact H | apply captured_lt in H; exact H]. Qed.

(** ** Changing one span of the forest without touching metadata or logical parents *)
Definition keeps_skel (g : aspan -> aspan) : Prop :=
  forall s, as_meta (g s) = as_meta s /\ as_lparent (g s) = as_lparent s.

Lemma upd_span_nth l k g j :
  nth_error (upd_span l k g) j = if Nat.eqb j k then option_map g (nth_error l j) else nth_error l j.
Proof.
  unfold upd_span. destruct (nth_error l k) as [s|] eqn:E.
  - rewrite set_nth_nth. destruct (Nat.eqb_spec j k) as [->|]; [|reflexivity].
    rewrite E. assert (k < List.length l)%nat by (apply nth_error_Some; congruence).
    destruct (Nat.ltb_spec k (List.length l)); [reflexivity | lia].
  - destruct (Nat.eqb_spec j k) as [->|]; [|reflexivity]. rewrite E. reflexivity.
Qed.

Lemma upd_span_length l k g : List.length (upd_span l k g) = List.length l.
Proof. unfold upd_span. destruct (nth_error l k); [apply set_nth_length | reflexivity]. Qed.

Lemma upd_span_skel l k g : keeps_skel g -> skel (upd_span l k g) = skel l.
Proof.
  intros Hg. apply list_ext. intros j. unfold skel. rewrite !nth_error_map, upd_span_nth.
  destruct (Nat.eqb j k); [|reflexivity]. destruct (nth_error l j) as [s|]; [|reflexivity].
  cbn. destruct (Hg s) as [-> ->]. reflexivity.
Qed.

Lemma filter_map_comm {A} (P : A -> bool) (h : A -> A) (L : list A) :
  (forall x, P (h x) = P x) -> List.filter P (map h L) = map h (List.filter P L).
Proof.
  intros H. induction L as [|x L IH]; cbn; [reflexivity|]. rewrite H. destruct (P x); cbn; congruence.
Qed.

Definition upd_pair (k : nat) (g : aspan -> aspan) (ks : nat * aspan) : nat * aspan :=
  if Nat.eqb (fst ks) k then (fst ks, g (snd ks)) else ks.

Lemma caps_upd f l k g : keeps_skel g -> caps f (upd_span l k g) = map (upd_pair k g) (caps f l).
Proof.
  intros Hg. unfold caps.
  assert (E : indexed (upd_span l k g) = map (upd_pair k g) (indexed l)).
  { apply list_ext. intros j. rewrite nth_error_map, !nth_error_indexed, upd_span_nth.
    unfold upd_pair. destruct (nth_error l j) as [s|]; cbn; [|destruct (Nat.eqb j k); reflexivity].
    destruct (Nat.eqb j k); reflexivity. }
  rewrite E. apply filter_map_comm. intros [j s]. unfold upd_pair. cbn.
  destruct (Nat.eqb j k); cbn; [|reflexivity]. destruct (Hg s) as [-> _]. reflexivity.
Qed.

Section BuildFacts.
  Variable f : cs_data -> bool.

  Lemma build_span_skel closed a a' ks :
    skel (a_spans a') = skel (a_spans a) -> a_events a' = a_events a ->
    build_span f closed a' ks = build_span f closed a ks.
  Proof.
    intros Hs He. unfold build_span. rewrite He.
    rewrite (cap_rank_skel f _ _ (fst ks) Hs), (span_attach_skel f _ _ (fst ks) Hs),
      (attached_spans_skel f _ _ (Some (fst ks)) Hs), (attached_events_skel f _ _ _ (Some (fst ks)) Hs).
    f_equal.
    - destruct (span_attach f (a_spans a) (fst ks)); cbn; [|reflexivity]. rewrite (cap_rank_skel f _ _ _ Hs). reflexivity.
    - apply map_ext. intros c. apply cap_rank_skel. exact Hs.
    - apply map_ext. intros c. apply cap_rank_skel. exact Hs.
  Qed.

  Lemma build_events_skel a a' :
    skel (a_spans a') = skel (a_spans a) -> a_events a' = a_events a ->
    map (build_event f a') (indexed (a_events a')) = map (build_event f a) (indexed (a_events a)).
  Proof.
    intros Hs He. rewrite He. apply map_ext. intros ie. unfold build_event.
    rewrite (attach_skel f _ _ _ Hs). destruct (attach f (a_spans a) (ae_lparent (snd ie))); cbn; [|reflexivity].
    rewrite (cap_rank_skel f _ _ _ Hs). reflexivity.
  Qed.

  Lemma build_roots_skel a a' :
    skel (a_spans a') = skel (a_spans a) ->
    map (cap_rank f (a_spans a')) (attached_spans f (a_spans a') None)
    = map (cap_rank f (a_spans a)) (attached_spans f (a_spans a) None).
  Proof.
    intros Hs. rewrite (attached_spans_skel f _ _ None Hs). apply map_ext. intros c. apply cap_rank_skel. exact Hs.
  Qed.

  Lemma caps_in_captured l k s : In (k, s) (caps f l) -> nth_error l k = Some s /\ f (as_meta s) = true.
  Proof.
    intros H. apply In_nth_error in H as [j Hj]. apply caps_nth_inv in Hj as (A & B & _). auto.
  Qed.

  Lemma build_closed_ext closed closed' a :
    (forall k, captured f (a_spans a) k = true -> closed k = closed' k) ->
    build f closed a = build f closed' a.
  Proof.
    intros H. unfold build. f_equal. apply map_ext_in. intros [k s] Hin.
    apply caps_in_captured in Hin as [A B]. unfold build_span. cbn [fst snd].
    rewrite (H k); [reflexivity|]. unfold captured. rewrite A. exact B.
  Qed.

  (** one captured span's record changes by [T], everything else stays *)
  Lemma build_point_update closed a a' k0 s0 g (T : span_rec span_payload -> span_rec span_payload) st' :
    nth_error (a_spans a) k0 = Some s0 -> f (as_meta s0) = true -> keeps_skel g ->
    a_spans a' = upd_span (a_spans a) k0 g -> a_events a' = a_events a ->
    build_span f closed a (k0, g s0) = T (build_span f closed a (k0, s0)) ->
    st_events st' = st_events (build f closed a) ->
    st_root_span_ids st' = st_root_span_ids (build f closed a) ->
    st_root_event_ids st' = st_root_event_ids (build f closed a) ->
    (forall i, get_span st' i =
               option_map (fun r => if i =? cap_rank f (a_spans a) k0 then T r else r)
                          (get_span (build f closed a) i)) ->
    st' = build f closed a'.
  Proof.
    intros Hk0 Hf Hg Hsp Hev HT He Hr Hre Hget.
    assert (Hs : skel (a_spans a') = skel (a_spans a)) by (rewrite Hsp; apply upd_span_skel; exact Hg).
    apply storage_ext.
    - intros i. rewrite Hget, !build_get, Hsp, (caps_upd f _ _ _ Hg), nth_error_map.
      destruct (nth_error (caps f (a_spans a)) (N.to_nat i)) as [[k s]|] eqn:E; [|reflexivity].
      cbn [option_map]. apply caps_nth_inv in E as (A & B & C). rewrite N2Nat.id in C. f_equal.
      unfold upd_pair. cbn [fst snd]. destruct (Nat.eqb_spec k k0) as [->|Hne].
      + rewrite Hk0 in A. injection A as <-. rewrite C, N.eqb_refl.
        rewrite (build_span_skel closed a a' _ Hs Hev). symmetry. exact HT.
      + destruct (N.eqb_spec i (cap_rank f (a_spans a) k0)) as [Ei|_].
        * exfalso. apply Hne. apply (cap_rank_inj f (a_spans a)); [| |congruence].
          -- unfold captured. rewrite A. exact B.
          -- unfold captured. rewrite Hk0. exact Hf.
        * symmetry. apply build_span_skel; assumption.
    - rewrite He. unfold build. cbn [st_events]. symmetry. apply build_events_skel; assumption.
    - rewrite Hr. unfold build. cbn [st_root_span_ids]. symmetry. apply build_roots_skel. exact Hs.
    - rewrite Hre. unfold build. cbn [st_root_event_ids]. rewrite Hev.
      rewrite (attached_events_skel f _ _ _ None Hs). reflexivity.
  Qed.

  (** a span the filter disabled does not show *)
  Lemma build_update_uncaptured closed a a' k0 s0 g :
    nth_error (a_spans a) k0 = Some s0 -> f (as_meta s0) = false -> keeps_skel g ->
    a_spans a' = upd_span (a_spans a) k0 g -> a_events a' = a_events a ->
    build f closed a' = build f closed a.
  Proof.
    intros Hk0 Hf Hg Hsp Hev.
    assert (Hs : skel (a_spans a') = skel (a_spans a)) by (rewrite Hsp; apply upd_span_skel; exact Hg).
    unfold build. f_equal.
    - rewrite Hsp. fold (caps f (upd_span (a_spans a) k0 g)). fold (caps f (a_spans a)).
      rewrite (caps_upd f _ _ _ Hg), map_map. apply map_ext_in. intros [k s] Hin.
      apply caps_in_captured in Hin as [A B]. unfold upd_pair. cbn [fst snd].
      destruct (Nat.eqb_spec k k0) as [->|_]; [congruence|]. apply build_span_skel; assumption.
    - apply build_events_skel; assumption.
    - apply build_roots_skel. exact Hs.
    - rewrite Hev, (attached_events_skel f _ _ _ None Hs). reflexivity.
  Qed.
End BuildFacts.

(** ** A new span *)
Definition fol_bounded (l : list aspan) : Prop :=
  forall k s j, nth_error l k = Some s -> In j (as_follows s) -> (j < List.length l)%nat.

Lemma filter_nil {A} (P : A -> bool) (l : list A) : (forall x, In x l -> P x = false) -> List.filter P l = [].
Proof.
  induction l as [|a l IH]; intros H; cbn; [reflexivity|].
  rewrite (H a (or_introl eq_refl)). apply IH. intros x Hx. apply H. right. exact Hx.
Qed.

Section NewSpan.
  Variable f : cs_data -> bool.
  Variables a a' : astate.
  Variable x : aspan.
  Variables closed closed' : nat -> bool.
  Let l := a_spans a.
  Let n := List.length (a_spans a).
  Hypothesis Hplt : plt l.
  Hypothesis Hevb : evs_bounded l (a_events a).
  Hypothesis Hfol : fol_bounded l.
  Hypothesis Hx : forall p, as_lparent x = Some p -> (p < n)%nat.
  Hypothesis Hsp : a_spans a' = l ++ [x].
  Hypothesis Hev : a_events a' = a_events a.
  Hypothesis Hclosed : forall k, (k < n)%nat -> closed' k = closed k.

  Let lp := as_lparent x.
  Let att := attach f l lp.
  Ltac ulia := unfold n, l in *; lia.

  Lemma ns_rank k : (k <= n)%nat -> cap_rank f (a_spans a') k = cap_rank f l k.
  Proof. intros H. rewrite Hsp. apply cap_rank_app. exact H. Qed.

  Lemma ns_att_lt p : att = Some p -> (p < n)%nat /\ captured f l p = true.
  Proof. intros H. apply nearest_cap_some in H as [A B]. split; [exact B | exact A]. Qed.

  Lemma ns_opt_rank (o : option nat) :
    (forall p, o = Some p -> (p < n)%nat) ->
    option_map (cap_rank f (a_spans a')) o = option_map (cap_rank f l) o.
  Proof. intros H. destruct o as [p|]; cbn; [|reflexivity]. rewrite ns_rank; [reflexivity|]. specialize (H p eq_refl). ulia. Qed.

  Lemma ns_attached_none_above K :
    (forall k, K = Some k -> (n <= k)%nat) -> K <> None -> attached_spans f l K = [].
  Proof.
    intros HK Hnn. unfold attached_spans. apply filter_nil. intros c Hc. apply in_seq in Hc.
    destruct K as [k|]; [|congruence]. specialize (HK k eq_refl).
    destruct (span_attach f l c) as [p|] eqn:E; cbn; [|apply andb_false_r].
    apply span_attach_lt in E; [|exact Hplt]. destruct (Nat.eqb_spec p k); [ulia | apply andb_false_r].
  Qed.

  Lemma ns_events_none_above k : (n <= k)%nat -> attached_events f l (a_events a) (Some k) = [].
  Proof.
    intros Hk. unfold attached_events. apply filter_nil. intros i Hi. unfold event_attach.
    destruct (nth_error (a_events a) i) as [e|]; [|reflexivity].
    destruct (attach f l (ae_lparent e)) as [p|] eqn:E; [|reflexivity]. cbn.
    apply nearest_cap_some in E as [_ E]. fold n in E. destruct (Nat.eqb_spec p k); [ulia | reflexivity].
  Qed.

  Lemma ns_map_rank (ks : list nat) :
    (forall c, In c ks -> (c < n)%nat) -> map (cap_rank f (a_spans a')) ks = map (cap_rank f l) ks.
  Proof. intros H. apply map_ext_in. intros c Hc. apply ns_rank. specialize (H c Hc). ulia. Qed.

  Lemma ns_attached_lt K c : In c (attached_spans f l K) -> (c < n)%nat.
  Proof. unfold attached_spans. intros H. apply filter_In in H as [H _]. apply in_seq in H. fold n in H. ulia. Qed.

  (** an old span: one more child if the new span is captured and attaches to it *)
  Lemma ns_build_span_old k s :
    nth_error l k = Some s ->
    build_span f closed' a' (k, s) =
    (fun r => if f (as_meta x) && opt_nat_eqb att (Some k) then add_child r (cap_rank f l n) else r)
      (build_span f closed a (k, s)).
  Proof.
    intros Hk. assert (Hkn : (k < n)%nat) by (apply nth_error_Some; unfold l in Hk; congruence).
    unfold build_span. cbn [fst snd]. rewrite Hev, (Hclosed k Hkn), (ns_rank k) by ulia.
    rewrite Hsp, (span_attach_app f l x k Hplt Hkn).
    rewrite (attached_spans_app f l x (Some k) Hplt Hx), (attached_events_app_span f l x _ (Some k) Hplt Hevb).
    rewrite <- Hsp. rewrite ns_opt_rank.
    2:{ intros p Hp. apply span_attach_lt in Hp; [ulia | exact Hplt]. }
    rewrite map_app, (ns_map_rank (attached_spans f l (Some k))) by (apply ns_attached_lt).
    rewrite (ns_map_rank (as_follows s)) by (intros c Hc; eapply Hfol; eauto).
    fold lp. fold att. fold n.
    destruct (f (as_meta x) && opt_nat_eqb att (Some k)); cbn [map].
    - unfold add_child. cbn. rewrite (ns_rank (List.length l)) by ulia. reflexivity.
    - rewrite app_nil_r. reflexivity.
  Qed.

  Lemma ns_build_span_new :
    build_span f closed' a' (n, x) =
    mk_span (mk_spl (as_meta x) (as_values x) (as_entered x) (as_exited x) (closed' n))
            (cap_rank f l n) (option_map (cap_rank f l) att) [] []
            (map (cap_rank f (a_spans a')) (as_follows x)).
  Proof.
    unfold build_span. cbn [fst snd]. change n with (List.length l).
    rewrite Hev, (ns_rank (List.length l)) by ulia.
    rewrite Hsp, (span_attach_new f l x Hplt Hx).
    rewrite (attached_spans_app f l x (Some (List.length l)) Hplt Hx),
      (attached_events_app_span f l x _ (Some (List.length l)) Hplt Hevb).
    rewrite <- Hsp. fold lp. fold att.
    rewrite ns_opt_rank by (intros p Hp; apply ns_att_lt in Hp; tauto).
    rewrite (ns_attached_none_above (Some (List.length l)))
      by (try (intros k E; injection E as <-; ulia); discriminate).
    rewrite (ns_events_none_above (List.length l)) by ulia.
    replace (f (as_meta x) && opt_nat_eqb att (Some (List.length l))) with false; [reflexivity|].
    destruct att as [p|] eqn:E; cbn; [|symmetry; apply andb_false_r].
    apply ns_att_lt in E as [E _]. destruct (Nat.eqb_spec p (List.length l)); [ulia|]. symmetry. apply andb_false_r.
  Qed.

  Lemma ns_events :
    map (build_event f a') (indexed (a_events a')) = map (build_event f a) (indexed (a_events a)).
  Proof.
    rewrite Hev. apply map_ext_in. intros [i e] Hin. unfold build_event. cbn [fst snd].
    apply In_nth_error in Hin as [j Hj]. rewrite nth_error_indexed in Hj.
    destruct (nth_error (a_events a) j) as [e'|] eqn:Ee; [|discriminate]. cbn in Hj. injection Hj as <- <-.
    rewrite Hsp, (attach_app f l x _ Hplt) by (intros p Hp; eapply Hevb; eauto). rewrite <- Hsp.
    rewrite ns_opt_rank; [reflexivity|]. intros p Hp. apply nearest_cap_some in Hp. tauto.
  Qed.

  Lemma ns_roots :
    map (cap_rank f (a_spans a')) (attached_spans f (a_spans a') None) =
    map (cap_rank f l) (attached_spans f l None) ++
    (if f (as_meta x) && opt_nat_eqb att None then [cap_rank f l n] else []).
  Proof.
    rewrite Hsp, (attached_spans_app f l x None Hplt Hx), <- Hsp, map_app.
    rewrite (ns_map_rank (attached_spans f l None)) by (apply ns_attached_lt).
    fold lp. fold att. destruct (f (as_meta x) && opt_nat_eqb att None); cbn [map]; [|reflexivity].
    rewrite (ns_rank (List.length l)) by ulia. reflexivity.
  Qed.

  Lemma ns_root_events :
    attached_events f (a_spans a') (a_events a') None = attached_events f l (a_events a) None.
  Proof. rewrite Hev, Hsp. apply attached_events_app_span; assumption. Qed.

  (** the filter disabled the new span: nothing shows *)
  Lemma build_new_uncaptured : f (as_meta x) = false -> build f closed' a' = build f closed a.
  Proof.
    intros Hf. unfold build. f_equal.
    - rewrite Hsp. fold (caps f (l ++ [x])). rewrite caps_app, Hf, app_nil_r.
      apply map_ext_in. intros [k s] Hin. apply caps_in_captured in Hin as [A _].
      rewrite (ns_build_span_old k s A), Hf. reflexivity.
    - apply ns_events.
    - rewrite ns_roots, Hf. cbn. apply app_nil_r.
    - f_equal. apply ns_root_events.
  Qed.

  (** the filter enabled it: [push_span] *)
  Lemma build_new_captured :
    f (as_meta x) = true -> as_entered x = 0 -> as_exited x = 0 -> as_follows x = [] -> closed' n = false ->
    push_span (build f closed a) (mk_spl (as_meta x) (as_values x) 0 0 false) (option_map (cap_rank f l) att)
    = Done (build f closed' a', cap_rank f l n).
  Proof.
    intros Hf He Hx' Hfo Hcl. change n with (List.length l) in *.
    assert (Hok : opt_id_ok (build f closed a) (option_map (cap_rank f l) att) = true).
    { destruct att as [p|] eqn:E; cbn; [|reflexivity]. apply ns_att_lt in E as [_ E].
      unfold id_ok. apply N.ltb_lt. apply cap_rank_lt_nspans. exact E. }
    destruct (push_span_effect _ (mk_spl (as_meta x) (as_values x) 0 0 false) _ Hok)
      as (st' & Ep & Eev & Ere & Ero & _ & Eget).
    rewrite Ep, build_nspans. fold l. f_equal. f_equal.
    rewrite build_nspans in Ero, Eget. fold l in Ero, Eget.
    apply storage_ext.
    - intros i. rewrite Eget, !build_get, Hsp, caps_app, Hf. fold l.
      pose proof (caps_length f l) as Hlen.
      destruct (N.eqb_spec i (cap_rank f l (List.length l))) as [->|Hne].
      + rewrite <- Hlen, Nat2N.id, nth_error_app2 by ulia. rewrite Nat.sub_diag. cbn [nth_error option_map].
        pose proof ns_build_span_new as Hnew. change n with (List.length l) in Hnew.
        rewrite Hnew, He, Hx', Hfo, Hcl, Hlen. reflexivity.
      + destruct (Nat.ltb_spec (N.to_nat i) (List.length (caps f l))) as [Hi|Hi].
        * rewrite nth_error_app1 by exact Hi.
          destruct (nth_error (caps f l) (N.to_nat i)) as [[k s]|] eqn:E; [|reflexivity].
          cbn [option_map]. apply caps_nth_inv in E as (A & B & C). rewrite N2Nat.id in C. f_equal.
          rewrite (ns_build_span_old k s A), Hf. cbn [andb]. unfold child_added.
          replace (option_eqb N.eqb (option_map (cap_rank f l) att) (Some i)) with (opt_nat_eqb att (Some k));
            [reflexivity|].
          destruct att as [p|] eqn:Ea; cbn; [|reflexivity]. apply ns_att_lt in Ea as [_ Ea].
          subst i. destruct (Nat.eqb_spec p k) as [->|Hpk]; [symmetry; apply N.eqb_refl|].
          symmetry. apply N.eqb_neq. intros Er. apply Hpk. apply (cap_rank_inj f l); auto.
          unfold captured. rewrite A. exact B.
        * rewrite nth_error_app2 by exact Hi.
          assert (E1 : nth_error (caps f l) (N.to_nat i) = None) by (apply nth_error_None; exact Hi).
          rewrite E1. cbn [option_map].
          destruct (N.to_nat i - List.length (caps f l))%nat as [|d] eqn:Ed; [ulia|]. destruct d; reflexivity.
    - rewrite Eev. unfold build. cbn [st_events]. symmetry. apply ns_events.
    - rewrite Ero. unfold build. cbn [st_root_span_ids]. rewrite ns_roots, Hf. cbn [andb]. f_equal.
      destruct att; reflexivity.
    - rewrite Ere. unfold build. cbn [st_root_event_ids]. rewrite ns_root_events. reflexivity.
  Qed.
End NewSpan.

(** ** Events, payload updates, follows-from edges, closing *)
Section BuildOps.
  Variable f : cs_data -> bool.

  Lemma build_new_event closed a a' e :
    a_spans a' = a_spans a -> a_events a' = a_events a ++ [e] ->
    push_event (build f closed a) (mk_epl (ae_meta e) (ae_values e))
               (option_map (cap_rank f (a_spans a)) (attach f (a_spans a) (ae_lparent e)))
    = Done (build f closed a', N.of_nat (List.length (a_events a))).
  Proof.
    intros Hsp Hev. set (l := a_spans a). set (att := attach f l (ae_lparent e)).
    assert (Hok : opt_id_ok (build f closed a) (option_map (cap_rank f l) att) = true).
    { destruct att as [p|] eqn:E; cbn; [|reflexivity]. apply nearest_cap_some in E as [E _].
      unfold id_ok. apply N.ltb_lt. apply cap_rank_lt_nspans. exact E. }
    destruct (push_event_effect _ (mk_epl (ae_meta e) (ae_values e)) _ Hok)
      as (st' & Ep & Eev & Ero & Ere & _ & Eget).
    rewrite Ep, build_nevents. f_equal. f_equal. rewrite build_nevents in Eev, Ere, Eget.
    assert (Hsp_b : forall ks, build_span f closed a' ks =
              (fun r => if opt_nat_eqb att (Some (fst ks)) then add_event r (N.of_nat (List.length (a_events a))) else r)
                (build_span f closed a ks)).
    { intros [k s]. unfold build_span. cbn [fst snd]. rewrite Hsp, Hev, attached_events_snoc. fold l. fold att.
      destruct (opt_nat_eqb att (Some k)); [|rewrite app_nil_r; reflexivity].
      unfold add_event. cbn. rewrite map_app. reflexivity. }
    apply storage_ext.
    - intros i. rewrite Eget, !build_get, Hsp. fold l.
      destruct (nth_error (caps f l) (N.to_nat i)) as [[k s]|] eqn:E; [|reflexivity].
      cbn [option_map]. apply caps_nth_inv in E as (A & B & C). rewrite N2Nat.id in C. f_equal.
      rewrite Hsp_b. cbn [fst]. unfold event_added.
      replace (option_eqb N.eqb (option_map (cap_rank f l) att) (Some i)) with (opt_nat_eqb att (Some k));
        [reflexivity|].
      destruct att as [p|] eqn:Ea; cbn; [|reflexivity]. apply nearest_cap_some in Ea as [Ea _].
      subst i. destruct (Nat.eqb_spec p k) as [->|Hpk]; [symmetry; apply N.eqb_refl|].
      symmetry. apply N.eqb_neq. intros Er. apply Hpk. apply (cap_rank_inj f l); auto.
      unfold captured. rewrite A. exact B.
    - rewrite Eev. unfold build. cbn [st_events]. rewrite Hev, indexed_app, map_app. f_equal.
      + apply map_ext. intros ie. unfold build_event. rewrite Hsp. reflexivity.
      + cbn [map]. unfold build_event. cbn [fst snd]. rewrite Hsp. reflexivity.
    - rewrite Ero. unfold build. cbn [st_root_span_ids]. rewrite Hsp. reflexivity.
    - rewrite Ere. unfold build. cbn [st_root_event_ids]. rewrite Hsp, Hev, attached_events_snoc, map_app.
      fold l. fold att. f_equal. destruct att; reflexivity.
  Qed.

  Lemma build_new_event_uncaptured closed a a' :
    a_spans a' = a_spans a -> a_events a' = a_events a -> build f closed a' = build f closed a.
  Proof.
    intros Hsp Hev. unfold build, build_span, build_event. rewrite Hsp, Hev. reflexivity.
  Qed.

  Lemma build_payload_update closed a a' k0 s0 g G :
    nth_error (a_spans a) k0 = Some s0 -> f (as_meta s0) = true -> keeps_skel g ->
    as_follows (g s0) = as_follows s0 ->
    (forall c, mk_spl (as_meta (g s0)) (as_values (g s0)) (as_entered (g s0)) (as_exited (g s0)) c
               = G (mk_spl (as_meta s0) (as_values s0) (as_entered s0) (as_exited s0) c)) ->
    a_spans a' = upd_span (a_spans a) k0 g -> a_events a' = a_events a ->
    on_span_update (build f closed a) (cap_rank f (a_spans a) k0) G = Done (build f closed a').
  Proof.
    intros Hk0 Hf Hg Hfo HG Hsp Hev.
    assert (Hok : id_ok (build f closed a) (cap_rank f (a_spans a) k0) = true).
    { unfold id_ok. apply N.ltb_lt. apply cap_rank_lt_nspans. unfold captured. rewrite Hk0. exact Hf. }
    destruct (on_span_update_effect _ _ G Hok) as (st' & Ep & Eev & Ero & Ere & _ & Eget).
    rewrite Ep. f_equal.
    eapply (build_point_update f closed a a' k0 s0 g (set_payload G)); eauto.
    unfold build_span, set_payload. cbn [fst snd sp_payload sp_id sp_parent_id sp_child_ids sp_event_ids sp_follows_from_ids].
    rewrite Hfo, HG. reflexivity.
  Qed.

  Lemma build_follow closed a a' k0 s0 j0 :
    nth_error (a_spans a) k0 = Some s0 -> f (as_meta s0) = true ->
    a_spans a' = upd_span (a_spans a) k0 (as_follow j0) -> a_events a' = a_events a ->
    on_follows_from (build f closed a) (cap_rank f (a_spans a) k0) (cap_rank f (a_spans a) j0)
    = Done (build f closed a').
  Proof.
    intros Hk0 Hf Hsp Hev.
    assert (Hok : id_ok (build f closed a) (cap_rank f (a_spans a) k0) = true).
    { unfold id_ok. apply N.ltb_lt. apply cap_rank_lt_nspans. unfold captured. rewrite Hk0. exact Hf. }
    destruct (on_follows_from_effect _ _ (cap_rank f (a_spans a) j0) Hok) as (st' & Ep & Eev & Ero & Ere & _ & Eget).
    rewrite Ep. f_equal.
    eapply (build_point_update f closed a a' k0 s0 (as_follow j0)
              (fun r => add_follows r (cap_rank f (a_spans a) j0))); eauto.
    - intros s. split; reflexivity.
    - unfold build_span, add_follows, as_follow. cbn. rewrite map_app. reflexivity.
  Qed.

  Lemma build_close closed a k0 s0 :
    nth_error (a_spans a) k0 = Some s0 -> f (as_meta s0) = true ->
    on_span_update (build f closed a) (cap_rank f (a_spans a) k0) pl_close
    = Done (build f (fun j => if Nat.eqb j k0 then true else closed j) a).
  Proof.
    intros Hk0 Hf.
    assert (Hok : id_ok (build f closed a) (cap_rank f (a_spans a) k0) = true).
    { unfold id_ok. apply N.ltb_lt. apply cap_rank_lt_nspans. unfold captured. rewrite Hk0. exact Hf. }
    destruct (on_span_update_effect _ _ pl_close Hok) as (st' & Ep & Eev & Ero & Ere & _ & Eget).
    rewrite Ep. f_equal. apply storage_ext; try assumption.
    intros i. rewrite Eget, !build_get.
    destruct (nth_error (caps f (a_spans a)) (N.to_nat i)) as [[k s]|] eqn:E; [|reflexivity].
    cbn [option_map]. apply caps_nth_inv in E as (A & B & C). rewrite N2Nat.id in C. f_equal.
    unfold build_span. cbn [fst snd]. destruct (Nat.eqb_spec k k0) as [->|Hne].
    - rewrite C, N.eqb_refl. reflexivity.
    - destruct (N.eqb_spec i (cap_rank f (a_spans a) k0)) as [Ei|_]; [|reflexivity].
      exfalso. apply Hne. apply (cap_rank_inj f (a_spans a)); [| |congruence].
      + unfold captured. rewrite A. exact B.
      + unfold captured. rewrite Hk0. exact Hf.
  Qed.

  Lemma build_close_uncaptured closed a k0 :
    captured f (a_spans a) k0 = false ->
    build f (fun j => if Nat.eqb j k0 then true else closed j) a = build f closed a.
  Proof.
    intros H. apply build_closed_ext. intros k Hk. destruct (Nat.eqb_spec k k0); [congruence | reflexivity].
  Qed.
End BuildOps.

(** ** The simulation relation *)
Definition closedf (r : reg) (k : nat) : bool := negb (reg_present r k).

Lemma spec_current_first_outer s : spec_current s = first_outer s.
Proof. induction s as [|k t IH]; cbn; [reflexivity|]. rewrite IH. reflexivity. Qed.

Lemma ext_find_single key c : ext_find key [(key, c)] = Some c.
Proof. cbn. rewrite N.eqb_refl. reflexivity. Qed.

Lemma reg_inv_ext sym r x id e : reg_inv_ex sym r x -> reg_inv_ex sym (reg_set_ext r id e) x.
Proof.
  intros I. unfold reg_set_ext. destruct (reg_get r id) as [s|] eqn:Es; [|exact I].
  change (reg_set r id (with_ext s e)) with (mk_reg (rg_spans (reg_set r id (with_ext s e))) (rg_stacks r)).
  apply (inv_update sym sym r x x id s (with_ext s e) (rg_stacks r) I Es).
  - reflexivity.
  - reflexivity.
  - intros j Hne. repeat split.
  - exact (ri_refs _ _ _ I id s Es).
  - exact (ri_stack _ _ _ I).
Qed.

Lemma skipn_tail {A} (l : list A) : forall k x tl, skipn k l = x :: tl -> skipn (S k) l = tl.
Proof.
  induction l as [|a l IH]; intros [|k] x tl H; cbn in *; try discriminate.
  - injection H as _ ->. reflexivity.
  - apply (IH k x tl H).
Qed.

Lemma nth_error_skipn' {A} (l : list A) : forall k j, nth_error (skipn k l) j = nth_error l (k + j).
Proof.
  induction l as [|a l IH]; intros [|k] j; cbn; try reflexivity.
  - destruct j; reflexivity.
  - apply IH.
Qed.

Section Refine.
  Variable f : cs_data -> bool.
  Variable key : N.

  (** what the Registry's span data says about the forest *)
  Definition span_ok (a : astate) (k : nat) (s : rspan) : Prop :=
    exists x, nth_error (a_spans a) k = Some x /\ rs_meta s = as_meta x /\ rs_raw s = as_raw x /\
              rs_parent s = as_lparent x /\
              rs_ext s = (if f (as_meta x) then [(key, cap_rank f (a_spans a) k)] else []).

  Record sim (sym : sym_state) (a : astate) (r : reg) (st : cstorage) : Prop := mk_sim {
    sm_sym : a_sym a = sym;
    sm_inv : reg_inv sym r;
    sm_len : List.length (a_spans a) = n_spans sym;
    sm_span : forall k s, reg_get r k = Some s -> span_ok a k s;
    sm_plt : plt (a_spans a);
    sm_evb : evs_bounded (a_spans a) (a_events a);
    sm_fol : fol_bounded (a_spans a);
    sm_st : st = build f (closedf r) a }.

  Lemma span_ok_captured a k s :
    span_ok a k s ->
    captured_id key s = (if f (rs_meta s) then Some (cap_rank f (a_spans a) k) else None).
  Proof.
    intros (x & _ & Hm & _ & _ & He). unfold captured_id. rewrite He, Hm.
    destruct (f (as_meta x)); [apply ext_find_single | reflexivity].
  Qed.

  Lemma closedf_shape r r1 a : same_shape r r1 -> build f (closedf r1) a = build f (closedf r) a.
  Proof. intros H. apply build_closed_ext. intros k _. unfold closedf. rewrite (same_shape_present _ _ k H). reflexivity. Qed.

  (** *** scopes find the nearest captured ancestor *)
  Lemma scope_find_nearest (R : reg) (spans : list aspan) (bound : nat) :
    (forall c s, reg_get R c = Some s -> (c < bound)%nat ->
       exists x, nth_error spans c = Some x /\ rs_meta s = as_meta x /\ rs_parent s = as_lparent x /\
                 captured_id key s = if f (as_meta x) then Some (cap_rank f spans c) else None) ->
    (forall c s p, reg_get R c = Some s -> rs_parent s = Some p -> (p < c)%nat /\ reg_present R p = true) ->
    forall fuel fuel' c, (c < bound)%nat -> (c < fuel)%nat -> (c < fuel')%nat -> reg_present R c = true ->
      scope_find R key (scope_from fuel R c) = option_map (cap_rank f spans) (nearest_cap f spans fuel' (Some c)).
  Proof.
    intros H1 H2. induction fuel as [|n IH]; intros fuel' c Hb Hc Hc' Hp; [lia|].
    destruct fuel' as [|n']; [lia|]. cbn [scope_from nearest_cap].
    apply reg_present_get in Hp as [s Hs]. rewrite Hs. cbn [scope_find]. rewrite Hs.
    destruct (H1 c s Hs Hb) as (x & Hx & Hm & Hpar & Hcap). rewrite Hx, Hcap.
    destruct (f (as_meta x)); [reflexivity|].
    rewrite <- Hpar. destruct (rs_parent s) as [p|] eqn:Ep.
    - destruct (H2 c s p Hs Ep) as [Hlt Hpp]. apply IH; try lia. exact Hpp.
    - cbn. destruct n'; reflexivity.
  Qed.

  (** *** open spans of the specification = spans the Registry holds *)
  Definition is_some {A} (o : option A) : bool := match o with Some _ => true | None => false end.

  Lemma nchild_pos r k : 0 < nchild r k <-> exists c s, reg_get r c = Some s /\ rs_parent s = Some k.
  Proof.
    unfold nchild. split.
    - intros H. destruct (List.filter (is_child k) (rg_spans r)) as [|o l] eqn:E; [cbn in H; lia|].
      assert (Hin : In o (List.filter (is_child k) (rg_spans r))) by (rewrite E; left; reflexivity).
      apply filter_In in Hin as [Hin Hc]. destruct o as [s|]; [|discriminate]. cbn in Hc.
      destruct (rs_parent s) as [p|] eqn:Ep; [|discriminate]. apply Nat.eqb_eq in Hc. subst p.
      apply In_nth_error in Hin as [c Hc]. exists c, s. split; [|exact Ep]. unfold reg_get. rewrite Hc. reflexivity.
    - intros (c & s & Hs & Hp).
      assert (Hin : In (Some s) (List.filter (is_child k) (rg_spans r))).
      { apply filter_In. split.
        - unfold reg_get in Hs. destruct (nth_error (rg_spans r) c) as [[s'|]|] eqn:E; try discriminate.
          injection Hs as ->. eapply nth_error_In; eauto.
        - cbn. rewrite Hp. apply Nat.eqb_refl. }
      destruct (List.filter (is_child k) (rg_spans r)); [destruct Hin | cbn; lia].
  Qed.

  Lemma has_open_child_iff k tl fl :
    List.length fl = List.length tl ->
    (has_open_child k tl fl = true <->
     exists j x, nth_error tl j = Some x /\ nth j fl false = true /\ as_lparent x = Some k).
  Proof.
    revert fl. induction tl as [|x tl IH]; intros [|b fl] Hl; cbn in Hl; try discriminate.
    - cbn. split; [discriminate|]. intros (j & y & H & _). destruct j; discriminate.
    - cbn [has_open_child]. rewrite orb_true_iff, andb_true_iff, (IH fl) by lia. split.
      + intros [[Hb He] | (j & y & A & B & C)].
        * exists O, x. cbn. split; [reflexivity|]. split; [exact Hb|].
          unfold opt_nat_eqb in He. apply (option_eqb_spec Nat.eqb Nat.eqb_eq) in He. exact He.
        * exists (S j), y. cbn. auto.
      + intros ([|j] & y & A & B & C); cbn in A, B.
        * injection A as ->. left. split; [exact B|]. rewrite C. cbn. apply Nat.eqb_refl.
        * right. exists j, y. auto.
  Qed.

  Lemma sim_open_flags sym a r st : sim sym a r st -> open_flags a = map is_some (rg_spans r).
  Proof.
    intros HS. unfold open_flags. rewrite (sm_sym _ _ _ _ HS).
    pose proof (sm_inv _ _ _ _ HS) as I. pose proof (ri_len _ _ _ I) as Hlen. unfold reg_next in Hlen.
    pose proof (sm_len _ _ _ _ HS) as Hal.
    (* generalise over the suffix starting at [k] *)
    assert (G : forall al k, skipn k (a_spans a) = al ->
                open_from sym k al = map is_some (skipn k (rg_spans r))).
    { intros al. induction al as [|x tl IH]; intros k Hk.
      - cbn. assert (List.length (a_spans a) <= k)%nat.
        { apply (f_equal (@List.length _)) in Hk. rewrite skipn_length in Hk. cbn in Hk. lia. }
        rewrite skipn_all2 by lia. reflexivity.
      - assert (Hklt : (k < List.length (a_spans a))%nat).
        { apply (f_equal (@List.length _)) in Hk. rewrite skipn_length in Hk. cbn in Hk. lia. }
        assert (Htl : skipn (S k) (a_spans a) = tl).
        { eapply skipn_tail; eauto. }
        specialize (IH (S k) Htl). cbn [open_from]. rewrite IH.
        destruct (nth_error (rg_spans r) k) as [o|] eqn:Eo.
        2:{ apply nth_error_None in Eo. lia. }
        assert (Hsk : skipn k (rg_spans r) = o :: skipn (S k) (rg_spans r)).
        { clear -Eo. revert k Eo. induction (rg_spans r) as [|y l IHl]; intros [|k] E; cbn in *; try discriminate.
          - injection E as ->. reflexivity.
          - apply IHl. exact E. }
        rewrite Hsk. cbn [map]. f_equal.
        (* the flag of span k *)
        assert (Hchild : has_open_child k tl (map is_some (skipn (S k) (rg_spans r))) = true <-> 0 < nchild r k).
        { rewrite (has_open_child_iff k tl _).
          2:{ rewrite map_length, skipn_length. apply (f_equal (@List.length _)) in Htl.
              rewrite skipn_length in Htl. lia. }
          rewrite nchild_pos. split.
          - intros (j & y & A & B & C).
            assert (Ey : nth_error (a_spans a) (S k + j) = Some y).
            { rewrite <- Htl in A. rewrite nth_error_skipn' in A. exact A. }
            assert (Eb : is_some (nth (S k + j) (rg_spans r) None) = true).
            { rewrite <- B. rewrite <- (map_nth is_some). cbn [is_some].
              rewrite <- (firstn_skipn (S k) (map is_some (rg_spans r))) at 1.
              rewrite app_nth2; rewrite firstn_length, map_length; [|lia].
              replace (S k + j - Nat.min (S k) (List.length (rg_spans r)))%nat with j by lia.
              rewrite <- skipn_map. reflexivity. }
            destruct (nth (S k + j) (rg_spans r) None) as [s|] eqn:En; [|discriminate].
            assert (Hs : reg_get r (S k + j) = Some s).
            { unfold reg_get. destruct (nth_error (rg_spans r) (S k + j)) as [o'|] eqn:E'.
              - apply nth_error_nth with (d := None) in E'. rewrite En in E'. subst o'. reflexivity.
              - apply nth_error_None in E'. rewrite nth_overflow in En by lia. discriminate. }
            exists (S k + j)%nat, s. split; [exact Hs|].
            destruct (sm_span _ _ _ _ HS _ _ Hs) as (x' & Hx' & _ & _ & Hp & _). rewrite Ey in Hx'.
            injection Hx' as <-. congruence.
          - intros (c & s & Hs & Hp). pose proof (ri_parent _ _ _ I c s k Hs Hp) as Hlt.
            destruct (sm_span _ _ _ _ HS _ _ Hs) as (x' & Hx' & _ & _ & Hp' & _).
            exists (c - S k)%nat, x'. split; [|split].
            + rewrite <- Htl, nth_error_skipn'. replace (S k + (c - S k))%nat with c by lia. exact Hx'.
            + apply nth_error_nth. rewrite nth_error_map, nth_error_skipn'.
              replace (S k + (c - S k))%nat with c by lia.
              unfold reg_get in Hs. destruct (nth_error (rg_spans r) c) as [[s'|]|]; try discriminate.
              reflexivity.
            + congruence. }
        destruct o as [s|]; cbn [is_some].
        + assert (Hs : reg_get r k = Some s) by (unfold reg_get; rewrite Eo; reflexivity).
          destruct (ri_refs _ _ _ I k s Hs) as [Hr Hpos]. cbn [excess] in Hr.
          destruct (live sym k) eqn:El; [reflexivity|]. cbn [orb].
          destruct (on_any_stack sym k) eqn:Es; [reflexivity|]. cbn [orb].
          apply Hchild. apply sref_zero_any in Es. unfold live in El. apply N.ltb_ge in El. lia.
        + assert (Hs : reg_get r k = None) by (unfold reg_get; rewrite Eo; reflexivity).
          destruct (ri_absent _ _ _ I k Hs) as (A & B & C).
          unfold live. rewrite A, B. cbn [N.ltb orb].
          destruct (has_open_child k tl (map is_some (skipn (S k) (rg_spans r)))) eqn:Eh; [|reflexivity].
          pose proof (proj1 Hchild eq_refl). lia. }
    specialize (G (a_spans a) O eq_refl). exact G.
  Qed.

  Lemma sim_open sym a r st k : sim sym a r st -> a_open a k = reg_present r k.
  Proof.
    intros HS. unfold a_open. rewrite (sim_open_flags _ _ _ _ HS).
    change false with (is_some (@None rspan)). rewrite map_nth.
    unfold reg_present, reg_get. destruct (nth_error (rg_spans r) k) as [o|] eqn:E.
    - apply nth_error_nth with (d := None) in E. rewrite E. destruct o; reflexivity.
    - apply nth_error_None in E. rewrite nth_overflow by lia. reflexivity.
  Qed.
End Refine.

(** ** One front-end call *)
Section Steps.
  Variable f : cs_data -> bool.
  Variable key : N.

  Notation sim := (sim f key).
  Notation span_ok := (span_ok f key).

  (** the forest changes in values / counters / follows-from edges only, the Registry in reference counts
      and stacks only *)
  Lemma sim_change sym sym' a a' r r1 st' :
    sim sym a r (build f (closedf r) a) ->
    same_shape r r1 -> reg_inv sym' r1 -> n_spans sym' = n_spans sym ->
    a_sym a' = sym' -> a_events a' = a_events a ->
    skel (a_spans a') = skel (a_spans a) ->
    (forall k, option_map as_raw (nth_error (a_spans a') k) = option_map as_raw (nth_error (a_spans a) k)) ->
    fol_bounded (a_spans a') ->
    st' = build f (closedf r1) a' ->
    sim sym' a' r1 st'.
  Proof.
    intros HS Hsh I1 Hn Hsym Hev Hsk Hraw Hfol Hst.
    constructor; auto.
    - rewrite (skel_length _ _ Hsk), Hn. apply (sm_len _ _ _ _ _ _ HS).
    - intros k s1 Hs1. destruct Hsh as [_ Hsh]. specialize (Hsh k). rewrite Hs1 in Hsh.
      destruct (reg_get r k) as [s|] eqn:Es; [|discriminate]. cbn in Hsh. injection Hsh as Hm Hr Hp He.
      destruct (sm_span _ _ _ _ _ _ HS k s Es) as (x & Hx & A & B & C & D).
      pose proof (skel_nth _ _ k Hsk) as Hk. specialize (Hraw k). rewrite Hx in Hk, Hraw.
      destruct (nth_error (a_spans a') k) as [x'|] eqn:Ex'; [|contradiction]. destruct Hk as [Hm' Hl'].
      cbn in Hraw. injection Hraw as Hraw.
      exists x'. split; [exact Ex'|]. rewrite Hm, Hr, Hp, He, Hm', Hl', Hraw, (cap_rank_skel f _ _ k Hsk).
      auto.
    - intros k x p Hx Hp. pose proof (skel_nth _ _ k Hsk) as Hk. rewrite Hx in Hk.
      destruct (nth_error (a_spans a) k) as [y|] eqn:Ey; [|contradiction]. destruct Hk as [_ Hl'].
      eapply (sm_plt _ _ _ _ _ _ HS); eauto. congruence.
    - rewrite Hev. intros i e p Hi Hp. rewrite (skel_length _ _ Hsk). eapply (sm_evb _ _ _ _ _ _ HS); eauto.
  Qed.

  Lemma upd_span_raw l k g j :
    (forall s, as_raw (g s) = as_raw s) ->
    option_map as_raw (nth_error (upd_span l k g) j) = option_map as_raw (nth_error l j).
  Proof.
    intros Hg. rewrite upd_span_nth. destruct (Nat.eqb j k); [|reflexivity].
    destruct (nth_error l j); cbn; [rewrite Hg|]; reflexivity.
  Qed.

  Lemma upd_span_fol l k g :
    fol_bounded l -> (forall s, as_follows (g s) = as_follows s) -> fol_bounded (upd_span l k g).
  Proof.
    intros Hl Hg j s c Hj Hc. rewrite upd_span_length. rewrite upd_span_nth in Hj.
    destruct (Nat.eqb j k).
    - destruct (nth_error l j) as [s0|] eqn:E; [|discriminate]. cbn in Hj. injection Hj as <-.
      rewrite Hg in Hc. eapply Hl; eauto.
    - eapply Hl; eauto.
  Qed.

  (** a callback that updates the payload of one span, on a Registry [r1] of the same shape *)
  Lemma payload_callback sym sym' a r r1 st k s g G
        (step : reg -> nat -> cstorage -> result (reg * cstorage)) :
    sim sym a r st -> same_shape r r1 -> reg_inv sym' r1 -> n_spans sym' = n_spans sym ->
    reg_get r k = Some s ->
    keeps_skel g -> (forall s, as_raw (g s) = as_raw s) -> (forall s, as_follows (g s) = as_follows s) ->
    (forall x c, rs_meta s = as_meta x ->
       mk_spl (as_meta (g x)) (as_values (g x)) (as_entered (g x)) (as_exited (g x)) c
       = G (mk_spl (as_meta x) (as_values x) (as_entered x) (as_exited x) c)) ->
    (forall s1 st0, reg_get r1 k = Some s1 ->
       step r1 k st0 = match captured_id key s1 with
                       | Some c => let* st1 := of_outcome (on_span_update st0 c G) in ROk (r1, st1)
                       | None => ROk (r1, st0)
                       end) ->
    exists st', step r1 k st = ROk (r1, st') /\
      sim sym' (mk_astate sym' (upd_span (a_spans a) k g) (a_events a)) r1 st'.
  Proof.
    intros HS Hsh I1 Hn Hs Hg Hraw Hfol HG Hstep.
    destruct (same_shape_get _ _ _ _ Hsh Hs) as (s1 & Hs1 & Hshape).
    unfold shape in Hshape. injection Hshape as Hm _ _ He.
    pose proof (sm_span _ _ _ _ _ _ HS k s Hs) as Hok.
    assert (Hok1 : span_ok a k s1).
    { destruct Hok as (x & Hx & A & B & C & D). exists x. rewrite Hm, He. repeat split; auto.
      - destruct (same_shape_get _ _ _ _ Hsh Hs) as (s2 & Hs2 & Hshape2). rewrite Hs1 in Hs2. injection Hs2 as <-.
        unfold shape in Hshape2. congruence.
      - destruct (same_shape_get _ _ _ _ Hsh Hs) as (s2 & Hs2 & Hshape2). rewrite Hs1 in Hs2. injection Hs2 as <-.
        unfold shape in Hshape2. congruence. }
    rewrite (Hstep s1 st Hs1), (span_ok_captured f key a k s1 Hok1).
    destruct Hok as (x & Hx & A & _).
    pose proof (sm_st _ _ _ _ _ _ HS) as Hst. rewrite <- (closedf_shape f r r1 a Hsh) in Hst.
    set (a' := mk_astate sym' (upd_span (a_spans a) k g) (a_events a)).
    assert (HS0 : sim sym a r (build f (closedf r) a)) by (rewrite <- (sm_st _ _ _ _ _ _ HS); exact HS).
    assert (Hfinal : forall st', st' = build f (closedf r1) a' -> sim sym' a' r1 st').
    { intros st' E. eapply (sim_change sym sym' a a' r r1 st' HS0 Hsh I1 Hn); auto.
      - apply upd_span_skel. exact Hg.
      - intros j. apply upd_span_raw. exact Hraw.
      - apply upd_span_fol; [exact (sm_fol _ _ _ _ _ _ HS) | exact Hfol]. }
    rewrite Hm, A. destruct (f (as_meta x)) eqn:Ef.
    - rewrite Hst.
      rewrite (build_payload_update f (closedf r1) a a' k x g G Hx Ef Hg (Hfol x)); try reflexivity.
      + cbn [of_outcome rbind]. eexists. split; [reflexivity|]. apply Hfinal. reflexivity.
      + intros c. apply HG. exact A.
    - eexists. split; [reflexivity|]. apply Hfinal. rewrite Hst. symmetry.
      apply (build_update_uncaptured f (closedf r1) a a' k x g Hx Ef Hg); reflexivity.
  Qed.

  Variable sites : list cs_data.
  Variable ids : list N.
  Notation deliver := (layer_step f key).
  Notation sstep := (sub_step deliver sites ids).
  Notation spec := (spec_step f sites ids).

  Lemma step_record tid sym a r st k vals :
    sim sym a r st -> live sym k = true ->
    exists r' st', sstep (r, st) (tid, ORecord k vals) = ROk (r', st') /\
                   sim sym (spec a (tid, ORecord k vals)) r' st'.
  Proof.
    intros HS Hl. destruct (inv_live_present _ _ _ _ (sm_inv _ _ _ _ _ _ HS) Hl) as [s Hs].
    destruct (sm_span _ _ _ _ _ _ HS k s Hs) as (x & Hx & A & _).
    set (vs := from_value_set (cs_fields (as_meta x)) vals).
    destruct (payload_callback sym sym a r r st k s (as_record vs) (pl_record vs)
                (fun r1 k st0 => deliver r1 tid (CbRecord k vals) st0) HS (same_shape_refl r)
                (sm_inv _ _ _ _ _ _ HS) eq_refl Hs) as (st' & E & HS').
    - intros y. split; reflexivity.
    - reflexivity.
    - reflexivity.
    - intros y c _. reflexivity.
    - intros s1 st0 Hs1. cbn [layer_step]. unfold ctx_span. rewrite Hs1. rewrite Hs in Hs1. injection Hs1 as <-.
      rewrite A. reflexivity.
    - exists r, st'. split; [exact E|].
      unfold spec_step. cbn [snd fst]. rewrite (sm_sym _ _ _ _ _ _ HS). cbn [sym_next snd].
      replace (upd_span (a_spans a) k (fun s0 => as_record (from_value_set (cs_fields (as_meta s0)) vals) s0))
        with (upd_span (a_spans a) k (as_record vs)); [exact HS'|].
      unfold upd_span. rewrite Hx. reflexivity.
  Qed.

  Lemma step_enter tid sym a r st k :
    sim sym a r st -> live sym k = true ->
    exists r' st', sstep (r, st) (tid, OEnter k) = ROk (r', st') /\
                   sim (mk_sym (ss_spans sym) (set_stack (ss_stacks sym) tid (k :: stk sym tid)))
                       (spec a (tid, OEnter k)) r' st'.
  Proof.
    intros HS Hl. pose proof (sm_inv _ _ _ _ _ _ HS) as I.
    destruct (inv_live_present _ _ _ _ I Hl) as [s Hs].
    destruct (enter_ok sym r tid k I Hl) as (r1 & E1 & Hsh & I1).
    destruct (payload_callback sym _ a r r1 st k s as_enter pl_enter
                (fun r1 k st0 => deliver r1 tid (CbEnter k) st0) HS Hsh I1 eq_refl Hs) as (st' & E & HS').
    - intros y. split; reflexivity.
    - reflexivity.
    - reflexivity.
    - intros y c _. reflexivity.
    - intros s1 st0 Hs1. cbn [layer_step]. unfold ctx_span. rewrite Hs1. reflexivity.
    - exists r1, st'. split.
      + unfold sub_step. cbn [fst snd]. rewrite E1. cbn [rbind]. exact E.
      + unfold spec_step. cbn [snd fst]. rewrite (sm_sym _ _ _ _ _ _ HS). exact HS'.
  Qed.

  Lemma step_exit tid sym a r st k :
    sim sym a r st -> live sym k = true -> on_stack (stk sym tid) k = true ->
    exists r' st', sstep (r, st) (tid, OExit k) = ROk (r', st') /\
                   sim (mk_sym (ss_spans sym) (set_stack (ss_stacks sym) tid (remove_first (stk sym tid) k)))
                       (spec a (tid, OExit k)) r' st'.
  Proof.
    intros HS Hl Hon. pose proof (sm_inv _ _ _ _ _ _ HS) as I.
    destruct (inv_live_present _ _ _ _ I Hl) as [s Hs].
    destruct (exit_ok deliver sym r st tid k I Hl Hon) as (r1 & E1 & Hsh & I1).
    destruct (payload_callback sym _ a r r1 st k s as_exit pl_exit
                (fun r1 k st0 => deliver r1 tid (CbExit k) st0) HS Hsh I1 eq_refl Hs) as (st' & E & HS').
    - intros y. split; reflexivity.
    - reflexivity.
    - reflexivity.
    - intros y c _. reflexivity.
    - intros s1 st0 Hs1. cbn [layer_step]. unfold ctx_span. rewrite Hs1. reflexivity.
    - exists r1, st'. split.
      + unfold sub_step. cbn [fst snd].
        destruct (reg_exit_pop r tid k) as [rp fresh] eqn:Ep. rewrite E1. cbn [rbind]. exact E.
      + unfold spec_step. cbn [snd fst]. rewrite (sm_sym _ _ _ _ _ _ HS). exact HS'.
  Qed.

  Lemma step_clone tid sym a r st k :
    sim sym a r st -> live sym k = true ->
    exists r' st', sstep (r, st) (tid, OClone k) = ROk (r', st') /\
                   sim (mk_sym (set_handles (ss_spans sym) k (handles sym k + 1)) (ss_stacks sym))
                       (spec a (tid, OClone k)) r' st'.
  Proof.
    intros HS Hl. pose proof (sm_inv _ _ _ _ _ _ HS) as I.
    destruct (clone_ok sym r k I Hl) as (s & Hs & E1 & I1).
    exists (reg_set r k (with_refs s (rs_refs s + 1))), st. split.
    - unfold sub_step. cbn [fst snd]. rewrite E1. reflexivity.
    - unfold spec_step. cbn [snd fst]. rewrite (sm_sym _ _ _ _ _ _ HS). cbn [sym_next snd].
      pose proof (sm_st _ _ _ _ _ _ HS) as Hst.
      assert (HS0 : sim sym a r (build f (closedf r) a)) by (rewrite <- Hst; exact HS).
      eapply (sim_change sym _ a _ r _ st HS0 (same_shape_refs r k s _ Hs) I1); auto.
      + unfold n_spans. cbn. apply set_handles_length.
      + exact (sm_fol _ _ _ _ _ _ HS).
      + rewrite Hst. symmetry. etransitivity; [apply (closedf_shape f r _ _ (same_shape_refs r k s _ Hs))|].
        reflexivity.
  Qed.

  (** *** follows-from *)
  Lemma find_raw_open raw : forall (rl : list (option rspan)) (al : list aspan) b,
    List.length rl = List.length al ->
    (forall j s, nth_error rl j = Some (Some s) -> exists x, nth_error al j = Some x /\ rs_raw s = as_raw x) ->
    find_open_raw al (map is_some rl) b raw = find_raw rl b raw.
  Proof.
    induction rl as [|o rl IH]; intros [|x al] b Hl H; cbn in Hl; try discriminate; [reflexivity|].
    cbn [map find_open_raw find_raw].
    assert (Hrest : forall j s, nth_error rl j = Some (Some s) -> exists y, nth_error al j = Some y /\ rs_raw s = as_raw y).
    { intros j s Hj. apply (H (S j) s Hj). }
    destruct o as [s|]; cbn [is_some andb].
    - destruct (H O s eq_refl) as (y & Hy & Hr). cbn in Hy. injection Hy as <-. rewrite Hr.
      destruct (as_raw x =? raw); [reflexivity|]. apply IH; [lia | exact Hrest].
    - apply IH; [lia | exact Hrest].
  Qed.

  Lemma find_raw_present raw : forall l b j, find_raw l b raw = Some j ->
    (b <= j)%nat /\ exists s, nth_error l (j - b) = Some (Some s).
  Proof.
    induction l as [|o l IH]; intros b j H; cbn in H; [discriminate|].
    destruct o as [s|].
    - destruct (rs_raw s =? raw).
      + injection H as <-. split; [lia|]. rewrite Nat.sub_diag. exists s. reflexivity.
      + destruct (IH _ _ H) as [Hle (s' & Hs')]. split; [lia|]. exists s'.
        replace (j - b)%nat with (S (j - S b)) by lia. exact Hs'.
    - destruct (IH _ _ H) as [Hle (s' & Hs')]. split; [lia|]. exists s'.
      replace (j - b)%nat with (S (j - S b)) by lia. exact Hs'.
  Qed.

  Lemma sim_follow_target sym a r st t :
    sim sym a r st -> follow_target_of a t = resolve_target r t.
  Proof.
    intros HS. destruct t as [j|raw]; cbn.
    - rewrite (sim_open f key _ _ _ _ j HS). reflexivity.
    - rewrite (sim_open_flags f key _ _ _ _ HS). unfold ctx_span_raw. apply find_raw_open.
      + pose proof (ri_len _ _ _ (sm_inv _ _ _ _ _ _ HS)) as H1. unfold reg_next in H1.
        rewrite H1, (sm_len _ _ _ _ _ _ HS). reflexivity.
      + intros j s Hj. assert (Hs : reg_get r j = Some s) by (unfold reg_get; rewrite Hj; reflexivity).
        destruct (sm_span _ _ _ _ _ _ HS j s Hs) as (x & Hx & _ & B & _). eauto.
  Qed.

  Lemma resolve_present r t j : resolve_target r t = Some j -> exists s, reg_get r j = Some s.
  Proof.
    destruct t as [i|raw]; cbn.
    - destruct (reg_present r i) eqn:E; [|discriminate]. intros H. injection H as <-.
      apply reg_present_get. exact E.
    - unfold ctx_span_raw. intros H. apply find_raw_present in H as [_ (s & Hs)].
      rewrite Nat.sub_0_r in Hs. exists s. unfold reg_get. rewrite Hs. reflexivity.
  Qed.

  Lemma sim_same sym a r st a' :
    sim sym a r st -> a_sym a' = sym -> a_spans a' = a_spans a -> a_events a' = a_events a -> sim sym a' r st.
  Proof.
    intros HS H1 H2 H3. pose proof (sm_st _ _ _ _ _ _ HS) as Hst.
    assert (HS0 : sim sym a r (build f (closedf r) a)) by (rewrite <- Hst; exact HS).
    eapply (sim_change sym sym a a' r r st HS0 (same_shape_refl r) (sm_inv _ _ _ _ _ _ HS)); auto.
    - rewrite H2. reflexivity.
    - intros k. rewrite H2. reflexivity.
    - rewrite H2. exact (sm_fol _ _ _ _ _ _ HS).
    - rewrite Hst. unfold build, build_span, build_event. rewrite H2, H3. reflexivity.
  Qed.

  Lemma step_follows tid sym a r st k t :
    sim sym a r st -> live sym k = true ->
    exists r' st', sstep (r, st) (tid, OFollows k t) = ROk (r', st') /\
                   sim sym (spec a (tid, OFollows k t)) r' st'.
  Proof.
    intros HS Hl. pose proof (sm_inv _ _ _ _ _ _ HS) as I.
    destruct (inv_live_present _ _ _ _ I Hl) as [s Hs].
    unfold sub_step, spec_step. cbn [fst snd layer_step]. unfold ctx_span. rewrite Hs.
    rewrite (sim_follow_target _ _ _ _ t HS), (sm_sym _ _ _ _ _ _ HS). cbn [sym_next snd].
    destruct (resolve_target r t) as [fid|] eqn:Et.
    2:{ exists r, st. split; [reflexivity|]. apply (sim_same sym a r st); auto. }
    destruct (resolve_present _ _ _ Et) as [fs Hfs]. rewrite Hfs.
    pose proof (sm_span _ _ _ _ _ _ HS k s Hs) as Hok. pose proof (sm_span _ _ _ _ _ _ HS fid fs Hfs) as Hokf.
    rewrite (span_ok_captured f key a k s Hok), (span_ok_captured f key a fid fs Hokf).
    destruct Hok as (x & Hx & A & _). destruct Hokf as (xf & Hxf & Af & _).
    rewrite (sim_open f key _ _ _ _ k HS). unfold reg_present. rewrite Hs. cbn [andb].
    unfold captured. rewrite Hx, Hxf, A, Af.
    destruct (f (as_meta x)) eqn:Ef; cbn [andb].
    2:{ exists r, st. split; [reflexivity|]. apply (sim_same sym a r st); auto. }
    destruct (f (as_meta xf)) eqn:Eff.
    2:{ exists r, st. split; [reflexivity|]. apply (sim_same sym a r st); auto. }
    pose proof (sm_st _ _ _ _ _ _ HS) as Hst. rewrite Hst.
    set (a' := mk_astate sym (upd_span (a_spans a) k (as_follow fid)) (a_events a)).
    rewrite (build_follow f (closedf r) a a' k x fid Hx Ef eq_refl eq_refl). cbn [of_outcome rbind].
    exists r, (build f (closedf r) a'). split; [reflexivity|].
    assert (HS0 : sim sym a r (build f (closedf r) a)) by (rewrite <- Hst; exact HS).
    eapply (sim_change sym sym a a' r r _ HS0 (same_shape_refl r) I); auto.
    - apply upd_span_skel. intros y. split; reflexivity.
    - intros j. apply upd_span_raw. reflexivity.
    - intros j y c Hj Hc. cbn [a_spans a'] in *. rewrite upd_span_length. rewrite upd_span_nth in Hj.
      destruct (Nat.eqb j k).
      + destruct (nth_error (a_spans a) j) as [y0|] eqn:E; [|discriminate]. cbn in Hj. injection Hj as <-.
        cbn [as_follows as_follow] in Hc. apply in_app_or in Hc as [Hc | [<- | []]].
        * eapply (sm_fol _ _ _ _ _ _ HS); eauto.
        * apply nth_error_Some. congruence.
      + eapply (sm_fol _ _ _ _ _ _ HS); eauto.
  Qed.

  (** *** events *)
  Lemma sim_scope_attach sym a r st c :
    sim sym a r st -> reg_present r c = true ->
    scope_find r key (scope_of r c) = option_map (cap_rank f (a_spans a)) (attach f (a_spans a) (Some c)).
  Proof.
    intros HS Hc. pose proof (sm_inv _ _ _ _ _ _ HS) as I.
    assert (Hlt : (c < List.length (a_spans a))%nat).
    { apply reg_present_get in Hc as [s Hs]. apply reg_get_lt in Hs.
      rewrite (ri_len _ _ _ I) in Hs. rewrite (sm_len _ _ _ _ _ _ HS). exact Hs. }
    unfold scope_of, attach.
    apply (scope_find_nearest f key r (a_spans a) (List.length (a_spans a))); try lia; [| |exact Hc].
    - intros k s Hs _. pose proof (sm_span _ _ _ _ _ _ HS k s Hs) as Hok.
      pose proof (span_ok_captured f key a k s Hok) as Hcap. destruct Hok as (x & Hx & A & _ & C & _).
      exists x. rewrite Hcap, A. auto.
    - intros k s p Hs Hp. split; [eapply (ri_parent _ _ _ I); eauto|].
      destruct (inv_parent_present _ _ _ _ _ _ I Hs Hp) as [ps Hps]. unfold reg_present. rewrite Hps. reflexivity.
  Qed.

  Lemma sim_event_parent tid sym a r st pk :
    sim sym a r st -> wf_parent sym pk = true ->
    (match ctx_event_scope r tid pk with Some scope => scope_find r key scope | None => None end)
    = option_map (cap_rank f (a_spans a)) (attach f (a_spans a) (logical_parent sym tid pk)) /\
    (forall p, logical_parent sym tid pk = Some p -> (p < List.length (a_spans a))%nat).
  Proof.
    intros HS Hwf. pose proof (sm_inv _ _ _ _ _ _ HS) as I.
    assert (Hbound : forall c, reg_present r c = true -> (c < List.length (a_spans a))%nat).
    { intros c Hc. apply reg_present_get in Hc as [s Hs]. apply reg_get_lt in Hs.
      rewrite (ri_len _ _ _ I) in Hs. rewrite (sm_len _ _ _ _ _ _ HS). exact Hs. }
    unfold ctx_event_scope, ctx_event_span, ctx_lookup_current, logical_parent.
    destruct pk as [| |j]; cbn [wf_parent] in Hwf.
    - rewrite (current_ok _ _ tid I).
      change (spec_current (stack_of (ss_stacks sym) tid)) with (first_outer (stk sym tid)).
      destruct (first_outer (stk sym tid)) as [c|] eqn:Ec; cbn [option_map].
      + apply first_outer_on_stack in Ec. destruct (inv_stack_present _ _ _ _ _ I Ec) as [s Hs].
        assert (Hp : reg_present r c = true) by (unfold reg_present; rewrite Hs; reflexivity).
        split; [apply (sim_scope_attach _ _ _ _ c HS Hp)|]. intros p E. injection E as <-. auto.
      + split; [reflexivity | discriminate].
    - split; [reflexivity | discriminate].
    - destruct (inv_live_present _ _ _ _ I Hwf) as [s Hs].
      assert (Hp : reg_present r j = true) by (unfold reg_present; rewrite Hs; reflexivity).
      rewrite Hp. cbn [option_map]. split; [apply (sim_scope_attach _ _ _ _ j HS Hp)|].
      intros p E. injection E as <-. auto.
  Qed.

  Lemma step_event tid sym a r st cs pk vals meta :
    sim sym a r st -> nth_error sites cs = Some meta -> wf_parent sym pk = true ->
    exists r' st', sstep (r, st) (tid, OEvent cs pk vals) = ROk (r', st') /\
                   sim sym (spec a (tid, OEvent cs pk vals)) r' st'.
  Proof.
    intros HS Hcs Hwf. unfold sub_step, spec_step. cbn [fst snd layer_step]. rewrite Hcs.
    rewrite (sm_sym _ _ _ _ _ _ HS). cbn [sym_next snd].
    destruct (f meta) eqn:Ef; cbn [negb].
    2:{ exists r, st. split; [reflexivity|]. apply (sim_same sym a r st); auto. }
    destruct (sim_event_parent tid _ _ _ _ pk HS Hwf) as [Hpar Hlp]. rewrite Hpar.
    set (e := mk_aevent meta (logical_parent sym tid pk) (from_value_set (cs_fields meta) vals)).
    set (a' := mk_astate sym (a_spans a) (a_events a ++ [e])).
    pose proof (sm_st _ _ _ _ _ _ HS) as Hst. rewrite Hst.
    pose proof (build_new_event f (closedf r) a a' e eq_refl eq_refl) as Hb. cbn [ae_meta ae_values ae_lparent e] in Hb.
    rewrite Hb. cbn [of_outcome rbind].
    exists r, (build f (closedf r) a'). split; [reflexivity|].
    constructor; auto.
    - exact (sm_inv _ _ _ _ _ _ HS).
    - exact (sm_len _ _ _ _ _ _ HS).
    - exact (sm_span _ _ _ _ _ _ HS).
    - exact (sm_plt _ _ _ _ _ _ HS).
    - intros i e' p Hi Hp. cbn [a_events a'] in Hi. rewrite nth_error_snoc' in Hi.
      destruct (Nat.ltb i (List.length (a_events a))).
      + eapply (sm_evb _ _ _ _ _ _ HS); eauto.
      + destruct (Nat.eqb i (List.length (a_events a))); [|discriminate]. injection Hi as <-.
        apply Hlp. exact Hp.
    - exact (sm_fol _ _ _ _ _ _ HS).
  Qed.

  (** *** closing *)
  Lemma closedf_remove r k j : closedf (reg_remove r k) j = if Nat.eqb j k then true else closedf r j.
  Proof. unfold closedf, reg_present. rewrite reg_get_remove. destruct (Nat.eqb j k); reflexivity. Qed.

  Lemma cascade tid sym' a : forall fuel r st k,
    (k < fuel)%nat -> reg_inv_ex sym' r (Some k) ->
    (forall j s, reg_get r j = Some s -> span_ok a j s) -> st = build f (closedf r) a ->
    reg_present r k = true ->
    exists r' st', sub_try_close deliver fuel r st tid k = ROk (r', st') /\ reg_inv sym' r' /\
      (forall j s, reg_get r' j = Some s -> span_ok a j s) /\ st' = build f (closedf r') a.
  Proof.
    induction fuel as [|fuel IH]; intros r st k Hk I Hok Hst Hp; [lia|].
    apply reg_present_get in Hp as [s Hs].
    cbn [sub_try_close]. unfold reg_try_close. rewrite Hs. cbn [rbind].
    set (r1 := reg_set r k (with_refs s (rs_refs s - 1))).
    assert (Hsh : same_shape r r1) by (apply same_shape_refs; exact Hs).
    assert (Hok1 : forall j s1, reg_get r1 j = Some s1 -> span_ok a j s1).
    { intros j s1 Hj. unfold r1 in Hj. rewrite (reg_get_set_present _ _ _ _ _ Hs) in Hj.
      destruct (Nat.eqb_spec j k) as [->|]; [|apply Hok; exact Hj]. injection Hj as <-.
      destruct (Hok k s Hs) as (x & A & B & C & D & E). exists x. auto. }
    assert (Hst1 : st = build f (closedf r1) a) by (rewrite Hst; symmetry; apply closedf_shape; exact Hsh).
    destruct (N.leb_spec (rs_refs s) 1) as [Hle|Hgt].
    - (* last reference: the layer is told, then the slot is cleared *)
      pose proof (try_close_last_refs _ _ _ _ I Hs Hle) as Hone.
      assert (Hs1 : reg_get r1 k = Some (with_refs s (rs_refs s - 1))).
      { unfold r1. rewrite (reg_get_set_present _ _ _ _ _ Hs), Nat.eqb_refl. reflexivity. }
      cbn [layer_step]. unfold ctx_span. rewrite Hs1.
      pose proof (Hok1 k _ Hs1) as Hokk. rewrite (span_ok_captured f key a k _ Hokk).
      destruct Hokk as (x & Hx & A & _ & Cp & _). cbn [rs_meta with_refs] in A. cbn [rs_parent with_refs] in Cp.
      cbn [rs_meta with_refs]. rewrite A.
      destruct (inv_remove _ _ _ _ I Hs Hone) as (_ & _ & _ & I3).
      assert (Hrem : reg_remove r1 k = reg_remove r k) by apply reg_remove_set.
      assert (Hok3 : forall j s3, reg_get (reg_remove r k) j = Some s3 -> span_ok a j s3).
      { intros j s3 Hj. rewrite reg_get_remove in Hj. destruct (Nat.eqb j k); [discriminate|]. apply Hok. exact Hj. }
      assert (Hfin : forall st2, st2 = build f (closedf (reg_remove r k)) a ->
                exists r' st', match rs_parent s with
                               | Some p => sub_try_close deliver fuel (reg_remove r k) st2 tid p
                               | None => ROk (reg_remove r k, st2)
                               end = ROk (r', st') /\ reg_inv sym' r' /\
                  (forall j s', reg_get r' j = Some s' -> span_ok a j s') /\ st' = build f (closedf r') a).
      { intros st2 Hst2. destruct (rs_parent s) as [p|] eqn:Ep.
        - pose proof (ri_parent _ _ _ I k s p Hs Ep) as Hlt.
          destruct (inv_parent_present _ _ _ _ _ _ I Hs Ep) as [ps Hps].
          apply (IH (reg_remove r k) st2 p); auto; [lia|].
          unfold reg_present. rewrite reg_get_remove. destruct (Nat.eqb_spec p k); [lia|]. rewrite Hps. reflexivity.
        - exists (reg_remove r k), st2. split; [reflexivity|]. split; [exact I3|]. split; [exact Hok3 | exact Hst2]. }
      destruct (f (as_meta x)) eqn:Ef.
      + rewrite Hst1. rewrite (build_close f (closedf r1) a k x Hx Ef). cbn [of_outcome rbind].
        rewrite Hs1. cbn [rs_parent with_refs]. rewrite Hrem. apply Hfin.
        apply build_closed_ext. intros j _. rewrite closedf_remove.
        destruct (Nat.eqb j k); [reflexivity|]. unfold closedf. rewrite (same_shape_present _ _ j Hsh). reflexivity.
      + cbn [rbind]. rewrite Hs1. cbn [rs_parent with_refs]. rewrite Hrem. apply Hfin.
        rewrite Hst. apply build_closed_ext. intros j Hj. rewrite closedf_remove.
        destruct (Nat.eqb_spec j k) as [->|]; [|reflexivity].
        unfold captured in Hj. rewrite Hx in Hj. congruence.
    - (* other references remain *)
      exists r1, st. split; [reflexivity|]. split; [apply (try_close_keep _ _ _ _ I Hs Hgt)|].
      split; [exact Hok1 | exact Hst1].
  Qed.

  Lemma step_drop tid sym a r st k :
    sim sym a r st -> live sym k = true ->
    exists r' st', sstep (r, st) (tid, ODrop k) = ROk (r', st') /\
                   sim (mk_sym (set_handles (ss_spans sym) k (handles sym k - 1)) (ss_stacks sym))
                       (spec a (tid, ODrop k)) r' st'.
  Proof.
    intros HS Hl. pose proof (sm_inv _ _ _ _ _ _ HS) as I.
    destruct (inv_live_present _ _ _ _ I Hl) as [s Hs].
    set (sym' := mk_sym (set_handles (ss_spans sym) k (handles sym k - 1)) (ss_stacks sym)).
    destruct (cascade tid sym' a (close_fuel r) r st k) as (r' & st' & E & I' & Hok' & Hst').
    - unfold close_fuel. apply reg_get_lt in Hs. lia.
    - apply drop_start; assumption.
    - exact (sm_span _ _ _ _ _ _ HS).
    - exact (sm_st _ _ _ _ _ _ HS).
    - unfold reg_present. rewrite Hs. reflexivity.
    - exists r', st'. split; [exact E|].
      unfold spec_step. cbn [fst snd]. rewrite (sm_sym _ _ _ _ _ _ HS). cbn [sym_next snd]. fold sym'.
      constructor; auto.
      + cbn [a_spans]. rewrite (sm_len _ _ _ _ _ _ HS). unfold n_spans, sym'. cbn. symmetry. apply set_handles_length.
      + exact (sm_plt _ _ _ _ _ _ HS).
      + exact (sm_evb _ _ _ _ _ _ HS).
      + exact (sm_fol _ _ _ _ _ _ HS).
  Qed.

  (** *** a new span *)
  Lemma step_new_span tid sym a r st cs pk vals meta :
    sim sym a r st -> nth_error sites cs = Some meta -> wf_parent sym pk = true ->
    exists r' st', sstep (r, st) (tid, ONewSpan cs pk vals) = ROk (r', st') /\
                   sim (mk_sym (ss_spans sym ++ [mk_sspan cs 1]) (ss_stacks sym))
                       (spec a (tid, ONewSpan cs pk vals)) r' st'.
  Proof.
    intros HS Hcs Hwf. pose proof (sm_inv _ _ _ _ _ _ HS) as I.
    set (sym' := mk_sym (ss_spans sym ++ [mk_sspan cs 1]) (ss_stacks sym)).
    assert (Hn : reg_next r = List.length (a_spans a)).
    { rewrite (ri_len _ _ _ I), (sm_len _ _ _ _ _ _ HS). reflexivity. }
    set (raw := raw_of ids (reg_next r)).
    destruct (new_span_ok sym r tid cs meta pk raw I Hwf) as (r1 & E1 & Hsh & Hlp & I2).
    set (lp := match pk with PKRoot => None | PKExplicit j => Some j | PKCtx => first_outer (stk sym tid) end) in *.
    assert (Elp : logical_parent sym tid pk = lp).
    { unfold logical_parent, lp. destruct pk; reflexivity. }
    set (new := mk_rspan meta raw lp 1 []) in *.
    set (r2 := reg_app r1 new) in *.
    set (x := mk_aspan meta raw lp (from_value_set (cs_fields meta) vals) 0 0 []).
    set (a' := mk_astate sym' (a_spans a ++ [x]) (a_events a)).
    assert (Ea' : spec a (tid, ONewSpan cs pk vals) = a').
    { unfold spec_step. cbn [fst snd]. rewrite Hcs, (sm_sym _ _ _ _ _ _ HS), Elp. cbn [sym_next snd].
      unfold a', x, raw. rewrite Hn. reflexivity. }
    rewrite Ea'.
    assert (Hn1 : reg_next r1 = reg_next r) by (destruct Hsh; assumption).
    assert (Hlpn : forall p, lp = Some p -> (p < List.length (a_spans a))%nat).
    { intros p Ep. destruct (Hlp p Ep) as [ps Hps]. apply reg_get_lt in Hps. lia. }
    (* the Registry after [new_span] *)
    assert (Hget2 : forall j, reg_get r2 j = if Nat.eqb j (reg_next r) then Some new else reg_get r1 j).
    { intros j. unfold r2. rewrite reg_get_app, Hn1. reflexivity. }
    assert (Hold : forall j s1, reg_get r1 j = Some s1 -> span_ok a' j s1).
    { intros j s1 Hj. destruct Hsh as [_ Hsh]. specialize (Hsh j). rewrite Hj in Hsh.
      destruct (reg_get r j) as [s|] eqn:Es; [|discriminate]. cbn in Hsh. injection Hsh as Hm Hr Hp He.
      destruct (sm_span _ _ _ _ _ _ HS j s Es) as (y & Hy & A & B & C & D).
      assert (Hj' : (j < List.length (a_spans a))%nat) by (apply nth_error_Some; congruence).
      exists y. cbn [a_spans a']. rewrite nth_error_app1 by exact Hj'. rewrite cap_rank_app by lia.
      rewrite Hm, Hr, Hp, He. auto. }
    assert (Hplt' : plt (a_spans a')).
    { intros j y p Hj Hp. cbn [a_spans a'] in Hj. rewrite nth_error_snoc' in Hj.
      destruct (Nat.ltb_spec j (List.length (a_spans a))).
      - eapply (sm_plt _ _ _ _ _ _ HS); eauto.
      - destruct (Nat.eqb_spec j (List.length (a_spans a))) as [->|]; [|discriminate].
        injection Hj as <-. cbn in Hp. apply Hlpn. exact Hp. }
    assert (Hevb' : evs_bounded (a_spans a') (a_events a')).
    { intros i e p Hi Hp. cbn [a_spans a_events a'] in *. rewrite app_length. cbn.
      pose proof (sm_evb _ _ _ _ _ _ HS i e p Hi Hp). lia. }
    assert (Hfol' : fol_bounded (a_spans a')).
    { intros j y c Hj Hc. cbn [a_spans a'] in *. rewrite app_length. cbn. rewrite nth_error_snoc' in Hj.
      destruct (Nat.ltb_spec j (List.length (a_spans a))).
      - pose proof (sm_fol _ _ _ _ _ _ HS j y c Hj Hc). lia.
      - destruct (Nat.eqb j (List.length (a_spans a))); [|discriminate]. injection Hj as <-. destruct Hc. }
    assert (Hlen' : List.length (a_spans a') = n_spans sym').
    { cbn [a_spans a']. rewrite app_length. unfold n_spans, sym'. cbn. rewrite app_length.
      cbn. rewrite (sm_len _ _ _ _ _ _ HS). reflexivity. }
    assert (Hpres : forall R, (forall j, (j < List.length (a_spans a))%nat -> reg_present R j = reg_present r1 j) ->
              forall j, (j < List.length (a_spans a))%nat -> closedf R j = closedf r j).
    { intros R HR j Hj. unfold closedf. rewrite (HR j Hj), (same_shape_present _ _ j Hsh). reflexivity. }
    unfold sub_step. cbn [fst snd]. rewrite Hcs. fold raw. rewrite E1. cbn [rbind layer_step]. fold r2.
    destruct (f meta) eqn:Ef; cbn [negb].
    - (* captured *)
      assert (Hnew : reg_get r2 (reg_next r) = Some new) by (rewrite Hget2, Nat.eqb_refl; reflexivity).
      unfold ctx_span_scope, ctx_span. rewrite Hnew.
      assert (Hpar : scope_find r2 key (scope_of r2 (reg_next r))
                     = option_map (cap_rank f (a_spans a)) (attach f (a_spans a) lp)).
      { unfold scope_of. cbn [scope_from]. rewrite Hnew. cbn [scope_find]. rewrite Hnew.
        unfold captured_id. cbn [rs_ext new ext_find rs_parent].
        destruct lp as [p|] eqn:Ep; [|reflexivity].
        destruct (Hlp p eq_refl) as [ps Hps]. pose proof (reg_get_lt _ _ _ Hps) as Hplt.
        unfold attach.
        apply (scope_find_nearest f key r2 (a_spans a) (List.length (a_spans a))); try lia.
        - intros c s Hs Hc. rewrite Hget2 in Hs. destruct (Nat.eqb_spec c (reg_next r)); [lia|].
          destruct (proj2 Hsh c) as []. pose proof (proj2 Hsh c) as Hc2. rewrite Hs in Hc2.
          destruct (reg_get r c) as [s0|] eqn:Es0; [|discriminate]. cbn in Hc2. injection Hc2 as Hm _ Hp He.
          pose proof (sm_span _ _ _ _ _ _ HS c s0 Es0) as Hok0.
          pose proof (span_ok_captured f key a c s0 Hok0) as Hcap.
          destruct Hok0 as (y & Hy & A & _ & C & _). exists y.
          unfold captured_id in *. rewrite Hm, Hp, He, Hcap, A. auto.
        - intros c s q Hs Hq. split; [eapply (ri_parent _ _ _ I2); eauto|].
          destruct (inv_parent_present _ _ _ _ _ _ I2 Hs Hq) as [qs Hqs]. unfold reg_present. rewrite Hqs. reflexivity.
        - unfold reg_present. rewrite Hget2. destruct (Nat.eqb_spec p (reg_next r)); [lia|].
          destruct (same_shape_get _ _ _ _ Hsh Hps) as (ps1 & Hps1 & _). rewrite Hps1. reflexivity. }
      rewrite Hpar. rewrite (sm_st _ _ _ _ _ _ HS).
      set (r3 := reg_set_ext r2 (reg_next r) ([] ++ [(key, cap_rank f (a_spans a) (List.length (a_spans a)))])).
      assert (Hget3 : forall j, reg_get r3 j = if Nat.eqb j (reg_next r)
                                               then Some (with_ext new [(key, cap_rank f (a_spans a) (List.length (a_spans a)))])
                                               else reg_get r1 j).
      { intros j. unfold r3, reg_set_ext. rewrite Hnew. rewrite (reg_get_set_present _ _ _ _ _ Hnew), Hget2.
        destruct (Nat.eqb j (reg_next r)); reflexivity. }
      assert (Hb : push_span (build f (closedf r) a) (mk_spl meta (from_value_set (cs_fields meta) vals) 0 0 false)
                     (option_map (cap_rank f (a_spans a)) (attach f (a_spans a) lp))
                   = Done (build f (closedf r3) a', cap_rank f (a_spans a) (List.length (a_spans a)))).
      { apply (build_new_captured f a a' x (closedf r) (closedf r3)); auto.
        - exact (sm_plt _ _ _ _ _ _ HS).
        - exact (sm_evb _ _ _ _ _ _ HS).
        - exact (sm_fol _ _ _ _ _ _ HS).
        - apply Hpres. intros j Hj. unfold reg_present. rewrite Hget3.
          destruct (Nat.eqb_spec j (reg_next r)); [lia | reflexivity].
        - unfold closedf, reg_present. rewrite <- Hn, Hget3, Nat.eqb_refl. reflexivity. }
      rewrite Hb. cbn [of_outcome rbind rs_ext new].
      exists r3, (build f (closedf r3) a'). split; [reflexivity|].
      constructor; auto.
      + apply reg_inv_ext. exact I2.
      + intros j s3 Hj. rewrite Hget3 in Hj. destruct (Nat.eqb_spec j (reg_next r)) as [->|].
        * injection Hj as <-. exists x. cbn [a_spans a']. rewrite Hn, nth_error_app2, Nat.sub_diag by lia.
          cbn [nth_error rs_meta rs_raw rs_parent rs_ext with_ext new as_meta as_raw as_lparent x].
          rewrite Ef, cap_rank_app by lia. auto.
        * apply Hold. exact Hj.
    - (* filtered out *)
      exists r2, st. split; [reflexivity|].
      constructor; auto.
      + intros j s2 Hj. rewrite Hget2 in Hj. destruct (Nat.eqb_spec j (reg_next r)) as [->|].
        * injection Hj as <-. exists x. cbn [a_spans a']. rewrite Hn, nth_error_app2, Nat.sub_diag by lia.
          cbn [nth_error rs_meta rs_raw rs_parent rs_ext new as_meta as_raw as_lparent x].
          rewrite Ef. auto.
        * apply Hold. exact Hj.
      + rewrite (sm_st _ _ _ _ _ _ HS). symmetry.
        apply (build_new_uncaptured f a a' x (closedf r) (closedf r2)); auto.
        * exact (sm_plt _ _ _ _ _ _ HS).
        * exact (sm_evb _ _ _ _ _ _ HS).
        * exact (sm_fol _ _ _ _ _ _ HS).
        * apply Hpres. intros j Hj. unfold reg_present. rewrite Hget2.
          destruct (Nat.eqb_spec j (reg_next r)); [lia | reflexivity].
  Qed.

  (** *** all calls *)
  Lemma sim_init : sim sym_init a_init reg_init empty_storage.
  Proof.
    constructor; try reflexivity.
    - exact inv_init.
    - intros k s H. unfold reg_get in H. cbn in H. destruct k; discriminate.
    - intros k s p H. destruct k; discriminate.
    - intros i e p H. destruct i; discriminate.
    - intros k s j H. destruct k; discriminate.
  Qed.

  Lemma step_refine sym a r st o sym' :
    sim sym a r st -> wf_step true sites sym o = Some sym' ->
    exists r' st', sstep (r, st) o = ROk (r', st') /\ sim sym' (spec a o) r' st'.
  Proof.
    intros HS Hwf. destruct o as [tid op].
    unfold wf_step in Hwf. cbn [fst snd] in Hwf.
    destruct op as [cs pk vals | k vals | k | k | k | k | k t | cs pk vals].
    - destruct (wf_site_use sites KSpan cs vals && wf_parent sym pk) eqn:E; [|discriminate].
      injection Hwf as <-. apply andb_true_iff in E as [E1 E2]. unfold wf_site_use in E1.
      destruct (nth_error sites cs) as [meta|] eqn:Ecs; [|discriminate].
      apply (step_new_span tid sym a r st cs pk vals meta HS Ecs E2).
    - destruct (span_site sym k); [|discriminate].
      destruct (live sym k && wf_valset (site_fields sites n) vals) eqn:E; [|discriminate].
      injection Hwf as <-. apply andb_true_iff in E as [E1 _]. apply (step_record tid sym a r st k vals HS E1).
    - destruct (live sym k) eqn:E; [|discriminate]. injection Hwf as <-.
      apply (step_enter tid sym a r st k HS E).
    - destruct (live sym k && on_stack (stack_of (ss_stacks sym) tid) k) eqn:E; [|discriminate].
      injection Hwf as <-. apply andb_true_iff in E as [E1 E2]. apply (step_exit tid sym a r st k HS E1 E2).
    - destruct (live sym k) eqn:E; [|discriminate]. injection Hwf as <-.
      apply (step_clone tid sym a r st k HS E).
    - destruct (live sym k && (negb (handles sym k =? 1) || negb (on_any_stack sym k))) eqn:E; [|discriminate].
      injection Hwf as <-. apply andb_true_iff in E as [E1 _]. apply (step_drop tid sym a r st k HS E1).
    - destruct (live sym k && match t with FLive j => live sym j | FStale raw => true && wf_raw_id raw end) eqn:E;
        [|discriminate].
      injection Hwf as <-. apply andb_true_iff in E as [E1 _]. apply (step_follows tid sym a r st k t HS E1).
    - destruct (wf_site_use sites KEvent cs vals && wf_parent sym pk) eqn:E; [|discriminate].
      injection Hwf as <-. apply andb_true_iff in E as [E1 E2]. unfold wf_site_use in E1.
      destruct (nth_error sites cs) as [meta|] eqn:Ecs; [|discriminate].
      apply (step_event tid sym a r st cs pk vals meta HS Ecs E2).
  Qed.

  Lemma steps_refine : forall ops sym a r st symf,
    sim sym a r st ->
    wf_steps true sites sym ops = Some symf ->
    exists r' st', sub_steps deliver sites ids (r, st) ops = ROk (r', st') /\
                   sim symf (fold_left spec ops a) r' st'.
  Proof.
    induction ops as [|o ops IH]; intros sym a r st symf HS Hwf; cbn [sub_steps fold_left wf_steps] in *.
    - injection Hwf as <-. exists r, st. split; [reflexivity | exact HS].
    - destruct (wf_step true sites sym o) as [sym'|] eqn:Eo; [|discriminate].
      destruct (step_refine sym a r st o sym' HS Eo) as (r1 & st1 & E1 & HS1).
      rewrite E1. cbn [rbind]. apply (IH sym' _ r1 st1 symf HS1 Hwf).
  Qed.
End Steps.

(** ** The refinement theorem: for every filter, every id assignment and every well-formed
    single-threaded program (stale follows-from targets allowed) the capture layer runs to completion
    and its storage is the storage the specification prescribes *)
Theorem capture_refines_spec_key (f : cs_data -> bool) (key : N) (ids : list N) (p : prog) :
  wf_prog_stale p ->
  exists r, sub_run (layer_step f key) ids p empty_storage = ROk (r, spec_storage f ids p).
Proof.
  intros Hwf. unfold wf_prog_stale, wf_prog_stale_b, wf_prog_gen_b in Hwf.
  apply andb_true_iff in Hwf as [_ Hwf]. unfold sym_run in Hwf.
  destruct (wf_steps true (p_sites p) sym_init (p_ops p)) as [symf|] eqn:E; [|discriminate].
  destruct (steps_refine f key (p_sites p) ids (p_ops p) sym_init a_init reg_init empty_storage symf
              (sim_init f key) E) as (r & st & Er & HS).
  exists r. unfold sub_run. rewrite Er. f_equal. f_equal.
  rewrite (sm_st _ _ _ _ _ _ HS). unfold spec_storage, spec_run.
  apply build_closed_ext. intros k _. unfold closedf. rewrite (sim_open f key _ _ _ _ k HS). reflexivity.
Qed.

(** * Part C: stacks of layers *)
Definition idpairs (ks : list N) : list (N * N) := map (fun k => (k, k)) ks.

Lemma idpairs_in k k' ks : In (k, k') (idpairs ks) <-> k = k' /\ In k ks.
Proof.
  unfold idpairs. rewrite in_map_iff. split.
  - intros (x & E & Hx). injection E as <- <-. auto.
  - intros [<- H]. exists k. auto.
Qed.

Lemma idpairs_inj ks : rho_inj (idpairs ks).
Proof.
  intros j j' k k' H1 H2. apply idpairs_in in H1 as [<- _]. apply idpairs_in in H2 as [<- _]. tauto.
Qed.

Lemma single_inj k k' : rho_inj [(k, k')].
Proof. intros a b c d [E1|[]] [E2|[]]. injection E1 as <- <-. injection E2 as <- <-. tauto. Qed.

Section Stacks.
  Variable ids : list N.
  Variable p : prog.
  Hypothesis Hwf : wf_prog_stale p.

  Let run {L} (d : reg -> nat -> lcallback -> L -> result (reg * L)) (l0 : L) :=
    sub_steps d (p_sites p) ids (reg_init, l0) (p_ops p).

  (** the empty stack: the Registry alone runs the program *)
  Lemma stack_nil_total : exists r, stack_run ids p [] = ROk (r, []).
  Proof.
    destruct (capture_refines_spec_key (fun _ => true) 0 ids p Hwf) as [ra Ea].
    unfold sub_run in Ea.
    destruct (tri_steps (list layer) cstorage cstorage stack_deliver
                (layer_step (fun _ => true) 0) (layer_step (fun _ => true) 0) [] []
                (fun l _ _ => l = [])) with (sites := p_sites p) (ids := ids) (ops := p_ops p)
                (x := (reg_init, @nil layer)) (a := (reg_init, @empty_storage span_payload event_payload))
                (b := (reg_init, @empty_storage span_payload event_payload))
                (a1 := (ra, spec_storage (fun _ => true) ids p)) (b1 := (ra, spec_storage (fun _ => true) ids p))
      as ([r l] & E & _ & _ & Hl); auto.
    - intros r ra0 rb0 l la lb tid cb [ra1 la1] [rb1 lb1] (Ha & Hb & Hl) Ea1 Eb1. cbn in Ha, Hb, Hl. subst l.
      exists (r, []). split; [reflexivity|]. split; [|split; [|reflexivity]]; cbn.
      + eapply layer_other_r; [|exact Ha|exact Ea1]. intros j [].
      + eapply layer_other_r; [|exact Hb|exact Eb1]. intros j [].
    - split; [apply reg_sim_refl_nil|]. split; [apply reg_sim_refl_nil | reflexivity].
    - cbn in Hl. subst l. exists r. exact E.
  Qed.

  Theorem stacks_refine : forall ls,
    stack_fresh ls = true -> NoDup (stack_keys ls) ->
    exists r ls', stack_run ids p ls = ROk (r, ls') /\
      stack_storages ls' = map (fun f => spec_storage f ids p) (stack_filters ls) /\
      stack_keys ls' = stack_keys ls /\ stack_filters ls' = stack_filters ls.
  Proof.
    induction ls as [|[f k st0|] rest IH]; intros Hfresh Hnd.
    - destruct stack_nil_total as [r E]. exists r, []. auto.
    - (* a capture layer on top of the rest *)
      cbn [stack_fresh] in Hfresh.
      destruct st0 as [sp ev rs re]. cbn in Hfresh.
      destruct sp; [|discriminate]. destruct ev; [|discriminate]. destruct rs; [|discriminate].
      destruct re; [|discriminate].
      cbn [stack_keys] in Hnd. inversion Hnd as [|? ? Hnotin Hnd']; subst.
      destruct (IH Hfresh Hnd') as (rb & restb & Eb & Hsb & Hkb & Hfb).
      destruct (capture_refines_spec_key f k ids p Hwf) as [ra Ea].
      unfold stack_run, sub_run in *.
      set (RL := fun (l : list layer) (sta : cstorage) (lb : list layer) =>
                   l = LCapture f k sta :: lb /\ stack_keys lb = stack_keys rest).
      destruct (tri_steps (list layer) cstorage (list layer) stack_deliver (layer_step f k) stack_deliver
                  [(k, k)] (idpairs (stack_keys rest)) RL) with (sites := p_sites p) (ids := ids) (ops := p_ops p)
                  (x := (reg_init, LCapture f k empty_storage :: rest)) (a := (reg_init, @empty_storage span_payload event_payload))
                  (b := (reg_init, rest)) (a1 := (ra, spec_storage f ids p)) (b1 := (rb, restb))
        as ([r l] & E & _ & _ & Hl); auto.
      + intros r ra0 rb0 l la lb tid cb [ra1 la1] [rb1 lb1] (Ha & Hb & Hl & Hkeys) Ea1 Eb1.
        cbn in Ha, Hb, Hl, Hkeys. subst l. cbn [stack_deliver].
        pose proof (layer_cong [(k, k)] f k k r ra0 tid cb la (single_inj k k) (or_introl eq_refl) Ha) as Hc.
        destruct (res_sim_ok_r _ _ _ _ Hc Ea1) as ([rm stm] & Em & Hrm & Hstm). cbn in Hrm, Hstm. subst stm.
        rewrite Em. cbn [rbind].
        assert (Hbm : reg_sim (idpairs (stack_keys rest)) rm rb0).
        { eapply layer_other_l; [|exact Hb|exact Em]. intros j' Hin. apply idpairs_in in Hin as [_ Hin]. contradiction. }
        pose proof (stack_cong (idpairs (stack_keys rest)) rm rb0 tid cb lb (idpairs_inj _)) as Hsc.
        rewrite Hkeys in Hsc. specialize (Hsc (fun j Hj => proj2 (idpairs_in j j _) (conj eq_refl Hj)) Hbm).
        destruct (res_sim_ok_r _ _ _ _ Hsc Eb1) as ([r2 rest2] & E2 & Hr2 & Hrest2). cbn in Hr2, Hrest2. subst rest2.
        rewrite E2. cbn [rbind]. eexists. split; [reflexivity|]. split; [|split; [|split]]; cbn.
        * eapply stack_other_l; [|exact Hrm|exact E2].
          intros j j' Hj [Hin|[]]. injection Hin as <- <-. rewrite Hkeys in Hj. contradiction.
        * exact Hr2.
        * reflexivity.
        * destruct (stack_deliver_shape _ _ _ _ _ _ Eb1) as (A & _). rewrite A. exact Hkeys.
      + split; [|split; [|split]]; cbn; try reflexivity.
        * split; [reflexivity|]. constructor.
        * split; [reflexivity|]. constructor.
      + cbn in Hl. destruct Hl as [-> _]. exists r, (LCapture f k (spec_storage f ids p) :: restb).
        split; [exact E|]. cbn. rewrite Hsb, Hkb, Hfb. auto.
    - (* a pass-through layer on top of the rest *)
      cbn [stack_fresh stack_keys] in *.
      destruct (IH Hfresh Hnd) as (rb & restb & Eb & Hsb & Hkb & Hfb).
      unfold stack_run, sub_run in *.
      set (RL := fun (l : list layer) (la lb : list layer) =>
                   l = LPass :: la /\ la = lb /\ stack_keys la = stack_keys rest).
      destruct (tri_steps (list layer) (list layer) (list layer) stack_deliver stack_deliver stack_deliver
                  (idpairs (stack_keys rest)) (idpairs (stack_keys rest)) RL)
        with (sites := p_sites p) (ids := ids) (ops := p_ops p)
             (x := (reg_init, LPass :: rest)) (a := (reg_init, rest)) (b := (reg_init, rest))
             (a1 := (rb, restb)) (b1 := (rb, restb))
        as ([r l] & E & _ & _ & Hl); auto.
      + intros r ra0 rb0 l la lb tid cb [ra1 la1] [rb1 lb1] (Ha & Hb & Hl & Hab & Hkeys) Ea1 Eb1.
        cbn in Ha, Hb, Hl, Hab, Hkeys. subst l lb. cbn [stack_deliver].
        pose proof (stack_cong (idpairs (stack_keys rest)) r ra0 tid cb la (idpairs_inj _)) as Hsc.
        rewrite Hkeys in Hsc. pose proof (Hsc (fun j Hj => proj2 (idpairs_in j j _) (conj eq_refl Hj)) Ha) as Hsa.
        destruct (res_sim_ok_r _ _ _ _ Hsa Ea1) as ([r2 rest2] & E2 & Hr2 & Hrest2). cbn in Hr2, Hrest2. subst rest2.
        pose proof (stack_cong (idpairs (stack_keys rest)) r rb0 tid cb la (idpairs_inj _)) as Hsc'.
        rewrite Hkeys in Hsc'. pose proof (Hsc' (fun j Hj => proj2 (idpairs_in j j _) (conj eq_refl Hj)) Hb) as Hsb'.
        destruct (res_sim_ok_r _ _ _ _ Hsb' Eb1) as ([r2' rest2'] & E2' & Hr2' & Hrest2'). cbn in Hr2', Hrest2'.
        rewrite E2 in E2'. injection E2' as <- <-.
        rewrite E2. cbn [rbind]. eexists. split; [reflexivity|]. split; [|split; [|split; [|split]]]; cbn; auto.
        destruct (stack_deliver_shape _ _ _ _ _ _ Ea1) as (A & _). rewrite A. exact Hkeys.
      + split; [|split; [|split; [|split]]]; cbn; try reflexivity.
        * split; [reflexivity|]. constructor.
        * split; [reflexivity|]. constructor.
      + cbn in Hl. destruct Hl as [-> _]. exists r, (LPass :: restb). split; [exact E|]. cbn. auto.
  Qed.
End Stacks.

(** * The statements of Props/C05.v and Props/C16.v *)

(** the run, the symbolic end state and the simulation relation at the end of the run *)
Lemma capture_run_sim (f : cs_data -> bool) (key : N) (ids : list N) (p : prog) :
  wf_prog_stale p ->
  exists r st symf,
    sub_run (layer_step f key) ids p empty_storage = ROk (r, st) /\ sym_run true p = Some symf /\
    sim f key symf (spec_run f ids p) r st.
Proof.
  intros Hwf. unfold wf_prog_stale, wf_prog_stale_b, wf_prog_gen_b in Hwf.
  apply andb_true_iff in Hwf as [_ Hwf]. unfold sym_run in *.
  destruct (wf_steps true (p_sites p) sym_init (p_ops p)) as [symf|] eqn:E; [|discriminate].
  destruct (steps_refine f key (p_sites p) ids (p_ops p) sym_init a_init reg_init empty_storage symf
              (sim_init f key) E) as (r & st & Er & HS).
  exists r, st, symf. unfold sub_run. auto.
Qed.

Theorem capture_refines_spec (f : cs_data -> bool) (ids : list N) (p : prog) :
  wf_prog_stale p ->
  storage_of (layer_run f ids p) = Some (spec_storage f ids p).
Proof.
  intros Hwf. destruct (capture_refines_spec_key f layer_key0 ids p Hwf) as [r E].
  unfold layer_run. rewrite E. reflexivity.
Qed.

Theorem capture_total (f : cs_data -> bool) (ids : list N) (p : prog) :
  wf_prog_stale p ->
  exists r st, layer_run f ids p = ROk (r, st).
Proof.
  intros Hwf. destruct (capture_refines_spec_key f layer_key0 ids p Hwf) as [r E].
  exists r, (spec_storage f ids p). exact E.
Qed.

Theorem capture_run_invariants (f : cs_data -> bool) (ids : list N) (p : prog) :
  wf_prog_stale p ->
  exists r st symf,
    layer_run f ids p = ROk (r, st) /\ sym_run true p = Some symf /\
    reg_inv symf r /\
    (forall k s, reg_get r k = Some s ->
       rs_ext s = if f (rs_meta s)
                  then [(layer_key0, cap_rank f (a_spans (spec_run f ids p)) k)] else []) /\
    (forall k, reg_present r k = a_open (spec_run f ids p) k) /\
    st = build f (fun k => negb (reg_present r k)) (spec_run f ids p).
Proof.
  intros Hwf. destruct (capture_run_sim f layer_key0 ids p Hwf) as (r & st & symf & E & Es & HS).
  exists r, st, symf. split; [exact E|]. split; [exact Es|]. split; [exact (sm_inv _ _ _ _ _ _ HS)|].
  split; [|split].
  - intros k s Hs. destruct (sm_span _ _ _ _ _ _ HS k s Hs) as (x & _ & Hm & _ & _ & He).
    rewrite He, Hm. reflexivity.
  - intros k. symmetry. apply (sim_open f layer_key0 _ _ _ _ k HS).
  - exact (sm_st _ _ _ _ _ _ HS).
Qed.

Theorem stack_total (ids : list N) (p : prog) (ls : list layer) :
  wf_prog_stale p -> stack_fresh ls = true -> NoDup (stack_keys ls) ->
  exists r ls', stack_run ids p ls = ROk (r, ls').
Proof.
  intros Hwf Hf Hnd. destruct (stacks_refine ids p Hwf ls Hf Hnd) as (r & ls' & E & _).
  exists r, ls'. exact E.
Qed.

Lemma Forall2_map_spec {A B} (g : A -> B) (P : A -> B -> Prop) l :
  (forall a, P a (g a)) -> Forall2 P l (map g l).
Proof. intros H. induction l; cbn; constructor; auto. Qed.

Theorem layers_independent (ids : list N) (p : prog) (ls : list layer) :
  wf_prog_stale p -> stack_fresh ls = true -> NoDup (stack_keys ls) ->
  exists r ls', stack_run ids p ls = ROk (r, ls') /\
    Forall2 (fun filter st => storage_of (layer_run filter ids p) = Some st)
            (stack_filters ls) (stack_storages ls').
Proof.
  intros Hwf Hf Hnd. destruct (stacks_refine ids p Hwf ls Hf Hnd) as (r & ls' & E & Hs & _).
  exists r, ls'. split; [exact E|]. rewrite Hs. apply Forall2_map_spec.
  intros filter. apply capture_refines_spec; assumption.
Qed.
