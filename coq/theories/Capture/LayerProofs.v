(** Proofs about the capture layer model ([Capture/Layer.v]) over the Registry model.

    Part A: what a layer does to the Registry is confined to its own extension entries:
            simulations between runs of the subscriber driver under different layer stacks.
    Part B: a single capture layer refines the reference specification ([Capture/LayerSpec.v]).
    Part C: the theorems of C05 and C16. *)
From TT Require Export Capture.LayerSpec Host.RegistryProofs.
From TT Require Import Capture.QueriesProofs.

(** * Part A: simulations *)

Definition res_sim {A B} (R : A -> B -> Prop) (X : result A) (Y : result B) : Prop :=
  match X, Y with
  | ROk a, ROk b => R a b
  | RPanic s, RPanic s' => s = s'
  | RNoFuel, RNoFuel => True
  | RStuck, RStuck => True
  | _, _ => False
  end.

Lemma res_sim_bind {A B A' B'} (R : A -> B -> Prop) (R' : A' -> B' -> Prop) X Y f g :
  res_sim R X Y -> (forall a b, R a b -> res_sim R' (f a) (g b)) ->
  res_sim R' (rbind X f) (rbind Y g).
Proof. destruct X, Y; cbn; intros H Hf; try contradiction; auto. Qed.

Lemma res_sim_ok_r {A B} (R : A -> B -> Prop) X Y b :
  res_sim R X Y -> Y = ROk b -> exists a, X = ROk a /\ R a b.
Proof. intros H ->. destruct X; cbn in H; try contradiction. eauto. Qed.

Lemma res_sim_ok_l {A B} (R : A -> B -> Prop) X Y a :
  res_sim R X Y -> X = ROk a -> exists b, Y = ROk b /\ R a b.
Proof. intros H ->. destruct Y; cbn in H; try contradiction. eauto. Qed.

Lemma rbind_ok {A B} (X : result A) (f : A -> result B) b :
  rbind X f = ROk b -> exists a, X = ROk a /\ f a = ROk b.
Proof. destruct X; cbn; intros H; try discriminate. eauto. Qed.

Definition opt_rel {A B} (R : A -> B -> Prop) (x : option A) (y : option B) : Prop :=
  match x, y with
  | Some a, Some b => R a b
  | None, None => True
  | _, _ => False
  end.

(** [rho]: pairs (key on the left, key on the right) whose extension entries must agree *)
Definition span_sim (rho : list (N * N)) (s s' : rspan) : Prop :=
  rs_meta s = rs_meta s' /\ rs_raw s = rs_raw s' /\ rs_parent s = rs_parent s' /\ rs_refs s = rs_refs s' /\
  forall k k', In (k, k') rho -> ext_find k (rs_ext s) = ext_find k' (rs_ext s').

Definition reg_sim (rho : list (N * N)) (r r' : reg) : Prop :=
  rg_stacks r = rg_stacks r' /\ Forall2 (opt_rel (span_sim rho)) (rg_spans r) (rg_spans r').

Definition rho_inj (rho : list (N * N)) : Prop :=
  forall j j' k k', In (j, j') rho -> In (k, k') rho -> (j = k <-> j' = k').

Lemma Forall2_nth {A B} (R : A -> B -> Prop) l l' :
  Forall2 R l l' -> forall j, opt_rel R (nth_error l j) (nth_error l' j).
Proof.
  induction 1 as [|a b l l' Hab H IH]; intros [|j]; cbn; auto.
Qed.

Lemma Forall2_set_nth {A B} (R : A -> B -> Prop) l l' i x x' :
  Forall2 R l l' -> R x x' -> Forall2 R (set_nth l i x) (set_nth l' i x').
Proof.
  intros H Hx. revert i. induction H as [|a b l l' Hab H IH]; intros [|i]; cbn; constructor; auto.
Qed.

Lemma Forall2_len {A B} (R : A -> B -> Prop) l l' : Forall2 R l l' -> List.length l = List.length l'.
Proof. induction 1; cbn; congruence. Qed.

Section Sim.
  Variable rho : list (N * N).

  Lemma sim_next r r' : reg_sim rho r r' -> reg_next r = reg_next r'.
  Proof. intros [_ H]. unfold reg_next. eapply Forall2_len; eauto. Qed.

  Lemma sim_get r r' j : reg_sim rho r r' -> opt_rel (span_sim rho) (reg_get r j) (reg_get r' j).
  Proof.
    intros [_ H]. pose proof (Forall2_nth _ _ _ H j) as Hj. unfold reg_get.
    destruct (nth_error (rg_spans r) j) as [[s|]|], (nth_error (rg_spans r') j) as [[s'|]|]; cbn in *; auto.
  Qed.

  Lemma sim_present r r' j : reg_sim rho r r' -> reg_present r j = reg_present r' j.
  Proof.
    intros H. pose proof (sim_get _ _ j H) as Hj. unfold reg_present.
    destruct (reg_get r j), (reg_get r' j); cbn in Hj; try contradiction; reflexivity.
  Qed.

  Lemma sim_set r r' j s s' : reg_sim rho r r' -> span_sim rho s s' -> reg_sim rho (reg_set r j s) (reg_set r' j s').
  Proof. intros [A B] Hs. split; [exact A|]. cbn. apply Forall2_set_nth; [exact B | exact Hs]. Qed.

  Lemma sim_remove r r' j : reg_sim rho r r' -> reg_sim rho (reg_remove r j) (reg_remove r' j).
  Proof. intros [A B]. split; [exact A|]. cbn. apply Forall2_set_nth; [exact B | exact I]. Qed.

  Lemma sim_stacks r r' st : reg_sim rho r r' -> reg_sim rho (mk_reg (rg_spans r) st) (mk_reg (rg_spans r') st).
  Proof. intros [A B]. split; [reflexivity | exact B]. Qed.

  Lemma sim_app r r' s s' :
    reg_sim rho r r' -> span_sim rho s s' ->
    reg_sim rho (mk_reg (rg_spans r ++ [Some s]) (rg_stacks r)) (mk_reg (rg_spans r' ++ [Some s']) (rg_stacks r')).
  Proof.
    intros [A B] Hs. split; [exact A|]. cbn. apply Forall2_app; [exact B|]. constructor; [exact Hs | constructor].
  Qed.

  Lemma span_sim_refs s s' n : span_sim rho s s' -> span_sim rho (with_refs s n) (with_refs s' n).
  Proof. intros (A & B & C & D & E). repeat split; auto. Qed.

  Lemma sim_clone r r' id :
    reg_sim rho r r' -> res_sim (reg_sim rho) (reg_clone_span r id) (reg_clone_span r' id).
  Proof.
    intros H. pose proof (sim_get _ _ id H) as Hg. unfold reg_clone_span.
    destruct (reg_get r id) as [s|], (reg_get r' id) as [s'|]; cbn in Hg; try contradiction; [|reflexivity].
    destruct Hg as (A & B & C & D & E). rewrite D. destruct (rs_refs s' =? 0); [reflexivity|]. cbn.
    apply sim_set; [exact H|]. rewrite <- D. apply span_sim_refs. repeat split; auto.
  Qed.

  Lemma sim_current r r' tid : reg_sim rho r r' -> reg_current_span r tid = reg_current_span r' tid.
  Proof.
    intros H. unfold reg_current_span. destruct H as [A B]. rewrite A.
    destruct (stack_current (rstack_of (rg_stacks r') tid)) as [c|]; [|reflexivity].
    rewrite (sim_present r r' c (conj A B)). reflexivity.
  Qed.

  Definition pair_sim {X} (a b : reg * X) : Prop := reg_sim rho (fst a) (fst b) /\ snd a = snd b.

  Lemma sim_new_span r r' tid meta pk raw :
    reg_sim rho r r' ->
    res_sim pair_sim (reg_new_span r tid meta pk raw) (reg_new_span r' tid meta pk raw).
  Proof.
    intros H. unfold reg_new_span.
    eapply (res_sim_bind (fun a b : reg * option nat => pair_sim a b)).
    - destruct pk as [| |k].
      + rewrite (sim_current _ _ tid H). destruct (reg_current_span r' tid) as [c|].
        * eapply res_sim_bind; [apply sim_clone; exact H|]. intros a b Hab. split; [exact Hab | reflexivity].
        * split; [exact H | reflexivity].
      + split; [exact H | reflexivity].
      + eapply res_sim_bind; [apply sim_clone; exact H|]. intros a b Hab. split; [exact Hab | reflexivity].
    - intros [r1 p1] [r1' p1'] [Hr Hp]. cbn in Hr, Hp. subst p1'. cbn. split; cbn.
      + apply sim_app; [exact Hr|]. repeat split; auto.
      + apply sim_next. exact Hr.
  Qed.

  Lemma sim_enter r r' tid id :
    reg_sim rho r r' -> res_sim (reg_sim rho) (reg_enter r tid id) (reg_enter r' tid id).
  Proof.
    intros H. unfold reg_enter. destruct H as [A B]. rewrite A.
    destruct (stack_push (rstack_of (rg_stacks r') tid) id) as [s' fresh].
    pose proof (sim_stacks r r' (rset_stack (rg_stacks r') tid s') (conj A B)) as H1.
    destruct fresh; [apply sim_clone; exact H1 | exact H1].
  Qed.

  Lemma sim_exit_pop r r' tid id :
    reg_sim rho r r' ->
    reg_sim rho (fst (reg_exit_pop r tid id)) (fst (reg_exit_pop r' tid id)) /\
    snd (reg_exit_pop r tid id) = snd (reg_exit_pop r' tid id).
  Proof.
    intros [A B]. unfold reg_exit_pop. rewrite A.
    destruct (stack_pop (rstack_of (rg_stacks r') tid) id) as [s' fresh]. cbn.
    split; [|reflexivity]. apply sim_stacks. split; assumption.
  Qed.

  Lemma sim_try_close r r' id :
    reg_sim rho r r' -> res_sim pair_sim (reg_try_close r id) (reg_try_close r' id).
  Proof.
    intros H. pose proof (sim_get _ _ id H) as Hg. unfold reg_try_close.
    destruct (reg_get r id) as [s|], (reg_get r' id) as [s'|]; cbn in Hg; try contradiction; [|reflexivity].
    destruct Hg as (A & B & C & D & E). cbn. split; cbn.
    - apply sim_set; [exact H|]. rewrite D. apply span_sim_refs. repeat split; auto.
    - rewrite D. reflexivity.
  Qed.

  Lemma sim_scope r r' : reg_sim rho r r' -> forall fuel id, scope_from fuel r id = scope_from fuel r' id.
  Proof.
    intros H. induction fuel as [|f IH]; intros id; [reflexivity|]. cbn.
    pose proof (sim_get _ _ id H) as Hg.
    destruct (reg_get r id) as [s|], (reg_get r' id) as [s'|]; cbn in Hg; try contradiction; [|reflexivity].
    destruct Hg as (_ & _ & C & _). rewrite C. destruct (rs_parent s'); [rewrite IH|]; reflexivity.
  Qed.

  Lemma sim_find_raw l l' :
    Forall2 (opt_rel (span_sim rho)) l l' -> forall b raw, find_raw l b raw = find_raw l' b raw.
  Proof.
    induction 1 as [|o o' l l' Ho H IH]; intros b raw; [reflexivity|].
    destruct o as [s|], o' as [s'|]; cbn in Ho; try contradiction; cbn.
    - destruct Ho as (_ & B & _). rewrite B. destruct (rs_raw s' =? raw); [reflexivity | apply IH].
    - apply IH.
  Qed.

  Lemma sim_resolve r r' t : reg_sim rho r r' -> resolve_target r t = resolve_target r' t.
  Proof.
    intros H. destruct t as [j|raw]; cbn.
    - rewrite (sim_present _ _ j H). reflexivity.
    - unfold ctx_span_raw. apply sim_find_raw. exact (proj2 H).
  Qed.

  Lemma sim_span_scope r r' id : reg_sim rho r r' -> ctx_span_scope r id = ctx_span_scope r' id.
  Proof.
    intros H. unfold ctx_span_scope, scope_of. pose proof (sim_get _ _ id H) as Hg.
    destruct (reg_get r id), (reg_get r' id); cbn in Hg; try contradiction; [|reflexivity].
    rewrite (sim_scope _ _ H). reflexivity.
  Qed.

  Lemma sim_event_scope r r' tid pk : reg_sim rho r r' -> ctx_event_scope r tid pk = ctx_event_scope r' tid pk.
  Proof.
    intros H. unfold ctx_event_scope, ctx_event_span, ctx_lookup_current, scope_of.
    destruct pk as [| |k].
    - rewrite (sim_current _ _ tid H). destruct (reg_current_span r' tid); [|reflexivity].
      cbn [option_map]. rewrite (sim_scope _ _ H). reflexivity.
    - reflexivity.
    - rewrite (sim_present _ _ k H). destruct (reg_present r' k); [|reflexivity].
      cbn [option_map]. rewrite (sim_scope _ _ H). reflexivity.
  Qed.

  Lemma sim_scope_find r r' k k' :
    reg_sim rho r r' -> In (k, k') rho -> forall scope, scope_find r k scope = scope_find r' k' scope.
  Proof.
    intros H Hk. induction scope as [|id t IH]; [reflexivity|]. cbn.
    pose proof (sim_get _ _ id H) as Hg.
    destruct (reg_get r id) as [s|], (reg_get r' id) as [s'|]; cbn in Hg; try contradiction; [|exact IH].
    destruct Hg as (_ & _ & _ & _ & E). unfold captured_id. rewrite (E _ _ Hk).
    destruct (ext_find k' (rs_ext s')); [reflexivity | exact IH].
  Qed.
End Sim.

Lemma ext_find_app k e j c :
  ext_find k (e ++ [(j, c)]) =
  match ext_find k e with Some x => Some x | None => if j =? k then Some c else None end.
Proof.
  induction e as [|[j0 c0] t IH]; cbn; [reflexivity|].
  destruct (j0 =? k); [reflexivity | exact IH].
Qed.

Lemma reg_sim_refl_nil r : reg_sim [] r r.
Proof.
  split; [reflexivity|]. induction (rg_spans r) as [|o l IH]; constructor; [|exact IH].
  destruct o as [s|]; cbn; [|exact I]. repeat split. intros k k' [].
Qed.

(** ** One capture layer under related Registries *)
Lemma layer_cong rho f k k' r r' tid cb st :
  rho_inj rho -> In (k, k') rho -> reg_sim rho r r' ->
  res_sim (pair_sim rho) (layer_step f k r tid cb st) (layer_step f k' r' tid cb st).
Proof.
  intros Hinj Hk H.
  assert (Hupd : forall ps id g,
    res_sim (pair_sim rho)
      (match ctx_span r id with
       | None => RPanic ps
       | Some s => match captured_id k s with
                   | Some c => let* st1 := of_outcome (on_span_update st c g) in ROk (r, st1)
                   | None => ROk (r, st)
                   end
       end)
      (match ctx_span r' id with
       | None => RPanic ps
       | Some s => match captured_id k' s with
                   | Some c => let* st1 := of_outcome (on_span_update st c g) in ROk (r', st1)
                   | None => ROk (r', st)
                   end
       end)).
  { intros ps id g. unfold ctx_span. pose proof (sim_get _ _ _ id H) as Hg.
    destruct (reg_get r id) as [s|], (reg_get r' id) as [s'|]; cbn in Hg; try contradiction; [|reflexivity].
    destruct Hg as (_ & _ & _ & _ & E). unfold captured_id. rewrite (E _ _ Hk).
    destruct (ext_find k' (rs_ext s')); [|split; [exact H | reflexivity]].
    destruct (of_outcome (on_span_update st n g)); cbn; auto. split; [exact H | reflexivity]. }
  destruct cb as [id meta vals | id vals | id | id | id | id t | meta pk vals]; cbn [layer_step].
  - (* new span *)
    destruct (negb (f meta)); [split; [exact H | reflexivity]|].
    rewrite (sim_span_scope _ _ _ id H).
    replace (match ctx_span_scope r' id with Some scope => scope_find r k scope | None => None end)
      with (match ctx_span_scope r' id with Some scope => scope_find r' k' scope | None => None end).
    2:{ destruct (ctx_span_scope r' id); [|reflexivity]. symmetry. apply (sim_scope_find _ _ _ _ _ H Hk). }
    destruct (of_outcome (push_span st _ _)) as [[st1 arena_id]| | |]; cbn; auto.
    unfold ctx_span. pose proof (sim_get _ _ _ id H) as Hg.
    destruct (reg_get r id) as [s|] eqn:Es, (reg_get r' id) as [s'|] eqn:Es'; cbn in Hg; try contradiction;
      [|reflexivity].
    split; cbn; [|reflexivity]. unfold reg_set_ext. rewrite Es, Es'.
    apply sim_set; [exact H|]. destruct Hg as (A & B & C & D & E). repeat split; auto.
    intros j j' Hj. cbn [rs_ext with_ext]. rewrite !ext_find_app, (E _ _ Hj).
    destruct (ext_find j' (rs_ext s')); [reflexivity|].
    destruct (N.eqb_spec k j) as [->|Hne], (N.eqb_spec k' j') as [->|Hne']; try reflexivity.
    + exfalso. apply Hne'. apply (Hinj _ _ _ _ Hk Hj). reflexivity.
    + exfalso. apply Hne. apply (Hinj _ _ _ _ Hk Hj). reflexivity.
  - (* record *)
    unfold ctx_span. pose proof (sim_get _ _ _ id H) as Hg.
    destruct (reg_get r id) as [s|], (reg_get r' id) as [s'|]; cbn in Hg; try contradiction; [|reflexivity].
    destruct Hg as (A & _ & _ & _ & E). unfold captured_id. rewrite (E _ _ Hk), A.
    destruct (ext_find k' (rs_ext s')); [|split; [exact H | reflexivity]].
    destruct (of_outcome (on_span_update st n _)); cbn; auto. split; [exact H | reflexivity].
  - (* enter *) apply Hupd.
  - (* exit *) apply Hupd.
  - (* close *) apply Hupd.
  - (* follows *)
    unfold ctx_span. rewrite (sim_resolve _ _ _ t H). pose proof (sim_get _ _ _ id H) as Hg.
    destruct (reg_get r id) as [s|], (reg_get r' id) as [s'|]; cbn in Hg; try contradiction;
      [|split; [exact H | reflexivity]].
    destruct (resolve_target r' t) as [fid|]; [|split; [exact H | reflexivity]].
    pose proof (sim_get _ _ _ fid H) as Hf.
    destruct (reg_get r fid) as [fs|], (reg_get r' fid) as [fs'|]; cbn in Hf; try contradiction;
      [|split; [exact H | reflexivity]].
    destruct Hg as (_ & _ & _ & _ & E). destruct Hf as (_ & _ & _ & _ & Ef).
    unfold captured_id. rewrite (E _ _ Hk), (Ef _ _ Hk).
    destruct (ext_find k' (rs_ext s')); [|split; [exact H | reflexivity]].
    destruct (ext_find k' (rs_ext fs')); [|split; [exact H | reflexivity]].
    destruct (of_outcome (on_follows_from st n n0)); cbn; auto. split; [exact H | reflexivity].
  - (* event *)
    destruct (negb (f meta)); [split; [exact H | reflexivity]|].
    rewrite (sim_event_scope _ _ _ tid pk H).
    replace (match ctx_event_scope r' tid pk with Some scope => scope_find r k scope | None => None end)
      with (match ctx_event_scope r' tid pk with Some scope => scope_find r' k' scope | None => None end).
    2:{ destruct (ctx_event_scope r' tid pk); [|reflexivity]. symmetry. apply (sim_scope_find _ _ _ _ _ H Hk). }
    destruct (of_outcome (push_event st _ _)) as [[st1 eid]| | |]; cbn; auto. split; [exact H | reflexivity].
Qed.

(** the only thing a capture layer does to the Registry: one more entry under its own key *)
Lemma layer_step_reg f k r tid cb st r1 st1 :
  layer_step f k r tid cb st = ROk (r1, st1) ->
  r1 = r \/ exists id s c, reg_get r id = Some s /\ r1 = reg_set r id (with_ext s (rs_ext s ++ [(k, c)])).
Proof.
  destruct cb as [id meta vals | id vals | id | id | id | id t | meta pk vals]; cbn [layer_step]; intros H.
  - destruct (negb (f meta)); [injection H as <- <-; auto|].
    apply rbind_ok in H as ([st2 c] & _ & H). unfold ctx_span in H.
    destruct (reg_get r id) as [s|] eqn:Es; [|discriminate]. injection H as <- <-.
    right. exists id, s, c. split; [exact Es|]. unfold reg_set_ext. rewrite Es. reflexivity.
  - unfold ctx_span in H. destruct (reg_get r id) as [s|]; [|discriminate].
    destruct (captured_id k s); [|injection H as <- <-; auto].
    apply rbind_ok in H as (st2 & _ & H). injection H as <- <-. auto.
  - unfold ctx_span in H. destruct (reg_get r id) as [s|]; [|discriminate].
    destruct (captured_id k s); [|injection H as <- <-; auto].
    apply rbind_ok in H as (st2 & _ & H). injection H as <- <-. auto.
  - unfold ctx_span in H. destruct (reg_get r id) as [s|]; [|discriminate].
    destruct (captured_id k s); [|injection H as <- <-; auto].
    apply rbind_ok in H as (st2 & _ & H). injection H as <- <-. auto.
  - unfold ctx_span in H. destruct (reg_get r id) as [s|]; [|discriminate].
    destruct (captured_id k s); [|injection H as <- <-; auto].
    apply rbind_ok in H as (st2 & _ & H). injection H as <- <-. auto.
  - unfold ctx_span in H. destruct (reg_get r id) as [s|]; [|injection H as <- <-; auto].
    destruct (resolve_target r t) as [fid|]; [|injection H as <- <-; auto].
    destruct (reg_get r fid) as [fs|]; [|injection H as <- <-; auto].
    destruct (captured_id k s); [|injection H as <- <-; auto].
    destruct (captured_id k fs); [|injection H as <- <-; auto].
    apply rbind_ok in H as (st2 & _ & H). injection H as <- <-. auto.
  - destruct (negb (f meta)); [injection H as <- <-; auto|].
    apply rbind_ok in H as ([st2 c] & _ & H). injection H as <- <-. auto.
Qed.

Lemma Forall2_set_nth_l {A B} (R : A -> B -> Prop) l l' i x :
  Forall2 R l l' -> (forall y, nth_error l' i = Some y -> R x y) -> Forall2 R (set_nth l i x) l'.
Proof.
  intros H. revert i. induction H as [|a b l l' Hab H IH]; intros [|i] Hx; cbn; constructor; auto;
    try (apply Hx; reflexivity).
Qed.
Lemma Forall2_set_nth_r {A B} (R : A -> B -> Prop) l l' i x :
  Forall2 R l l' -> (forall y, nth_error l i = Some y -> R y x) -> Forall2 R l (set_nth l' i x).
Proof.
  intros H. revert i. induction H as [|a b l l' Hab H IH]; intros [|i] Hx; cbn; constructor; auto;
    try (apply Hx; reflexivity).
Qed.

Lemma layer_other_l rho f k r r' tid cb st r1 st1 :
  (forall j', ~ In (k, j') rho) -> reg_sim rho r r' ->
  layer_step f k r tid cb st = ROk (r1, st1) -> reg_sim rho r1 r'.
Proof.
  intros Hk H E. apply layer_step_reg in E as [-> | (id & s & c & Es & ->)]; [exact H|].
  destruct H as [A B]. split; [exact A|]. cbn. apply Forall2_set_nth_l; [exact B|].
  intros y Hy. pose proof (Forall2_nth _ _ _ B id) as Hid. rewrite Hy in Hid.
  unfold reg_get in Es. destruct (nth_error (rg_spans r) id) as [[s0|]|]; try discriminate.
  injection Es as ->. destruct y as [s'|]; cbn in Hid; [|contradiction]. cbn.
  destruct Hid as (P & Q & R & S & E). repeat split; auto.
  intros j j' Hj. cbn [rs_ext with_ext]. rewrite ext_find_app, (E _ _ Hj).
  destruct (ext_find j' (rs_ext s')); [reflexivity|].
  destruct (N.eqb_spec k j) as [->|]; [|reflexivity]. exfalso. eapply Hk; eauto.
Qed.

Lemma layer_other_r rho f k r r' tid cb st r1 st1 :
  (forall j, ~ In (j, k) rho) -> reg_sim rho r' r ->
  layer_step f k r tid cb st = ROk (r1, st1) -> reg_sim rho r' r1.
Proof.
  intros Hk H E. apply layer_step_reg in E as [-> | (id & s & c & Es & ->)]; [exact H|].
  destruct H as [A B]. split; [exact A|]. cbn. apply Forall2_set_nth_r; [exact B|].
  intros y Hy. pose proof (Forall2_nth _ _ _ B id) as Hid. rewrite Hy in Hid.
  unfold reg_get in Es. destruct (nth_error (rg_spans r) id) as [[s0|]|]; try discriminate.
  injection Es as ->. destruct y as [s'|]; cbn in Hid; [|contradiction]. cbn.
  destruct Hid as (P & Q & R & S & E). repeat split; auto.
  intros j j' Hj. cbn [rs_ext with_ext]. rewrite ext_find_app, <- (E _ _ Hj).
  destruct (ext_find j (rs_ext s')); [reflexivity|].
  destruct (N.eqb_spec k j') as [->|]; [|reflexivity]. exfalso. eapply Hk; eauto.
Qed.

(** ** Stacks under related Registries *)
Definition stack_sim rho (a b : reg * list layer) : Prop := reg_sim rho (fst a) (fst b) /\ snd a = snd b.

Lemma stack_cong rho r r' tid cb ls :
  rho_inj rho -> (forall k, In k (stack_keys ls) -> In (k, k) rho) -> reg_sim rho r r' ->
  res_sim (stack_sim rho) (stack_deliver r tid cb ls) (stack_deliver r' tid cb ls).
Proof.
  intros Hinj. revert r r'. induction ls as [|[f k st|] rest IH]; intros r r' Hkeys H; cbn [stack_deliver].
  - split; [exact H | reflexivity].
  - eapply res_sim_bind.
    + apply (layer_cong rho f k k r r' tid cb st Hinj); [apply Hkeys; left; reflexivity | exact H].
    + intros [r1 st1] [r1' st1'] [Hr Hs]. cbn in Hr, Hs. subst st1'.
      eapply res_sim_bind.
      * apply IH; [|exact Hr]. intros j Hj. apply Hkeys. right. exact Hj.
      * intros [r2 rest1] [r2' rest1'] [Hr2 Hs2]. cbn in Hr2, Hs2. subst rest1'. split; [exact Hr2 | reflexivity].
  - eapply res_sim_bind.
    + apply IH; [exact Hkeys | exact H].
    + intros [r2 rest1] [r2' rest1'] [Hr2 Hs2]. cbn in Hr2, Hs2. subst rest1'. split; [exact Hr2 | reflexivity].
Qed.

Lemma stack_other_l rho r r' tid cb ls r1 ls1 :
  (forall k j', In k (stack_keys ls) -> ~ In (k, j') rho) -> reg_sim rho r r' ->
  stack_deliver r tid cb ls = ROk (r1, ls1) -> reg_sim rho r1 r'.
Proof.
  revert r ls1. induction ls as [|[f k st|] rest IH]; intros r ls1 Hkeys H E; cbn [stack_deliver] in E.
  - injection E as <- <-. exact H.
  - apply rbind_ok in E as ([ra sta] & Ea & E). apply rbind_ok in E as ([rb restb] & Eb & E).
    injection E as <- <-. eapply IH; [| |exact Eb].
    + intros j j' Hj. apply Hkeys. right. exact Hj.
    + eapply layer_other_l; [|exact H|exact Ea]. intros j'. apply Hkeys. left. reflexivity.
  - apply rbind_ok in E as ([rb restb] & Eb & E). injection E as <- <-. eapply IH; eauto.
Qed.

(** the shape of a stack never changes *)
Lemma stack_deliver_shape r tid cb ls r1 ls1 :
  stack_deliver r tid cb ls = ROk (r1, ls1) ->
  stack_keys ls1 = stack_keys ls /\ stack_filters ls1 = stack_filters ls /\
  List.length (stack_storages ls1) = List.length (stack_storages ls).
Proof.
  revert r ls1. induction ls as [|[f k st|] rest IH]; intros r ls1 E; cbn [stack_deliver] in E.
  - injection E as <- <-. auto.
  - apply rbind_ok in E as ([ra sta] & Ea & E). apply rbind_ok in E as ([rb restb] & Eb & E).
    injection E as <- <-. destruct (IH _ _ Eb) as (A & B & C). cbn. rewrite A, B, C. auto.
  - apply rbind_ok in E as ([rb restb] & Eb & E). injection E as <- <-. destruct (IH _ _ Eb) as (A & B & C).
    cbn. auto.
Qed.

(** ** The driver: if two subscribers run a program without failure, so does a third whose layers
    behave like the first on the keys [rhoa] and like the second on the keys [rhob] *)
Section TriBwd.
  Variables L La Lb : Type.
  Variable d : reg -> nat -> lcallback -> L -> result (reg * L).
  Variable da : reg -> nat -> lcallback -> La -> result (reg * La).
  Variable db : reg -> nat -> lcallback -> Lb -> result (reg * Lb).
  Variables rhoa rhob : list (N * N).
  Variable RL : L -> La -> Lb -> Prop.

  Definition tri (x : reg * L) (a : reg * La) (b : reg * Lb) : Prop :=
    reg_sim rhoa (fst x) (fst a) /\ reg_sim rhob (fst x) (fst b) /\ RL (snd x) (snd a) (snd b).

  Hypothesis Hd : forall r ra rb l la lb tid cb a b,
    tri (r, l) (ra, la) (rb, lb) ->
    da ra tid cb la = ROk a -> db rb tid cb lb = ROk b ->
    exists x, d r tid cb l = ROk x /\ tri x a b.

  Lemma tri_try_close : forall fuel r ra rb l la lb tid id a b,
    tri (r, l) (ra, la) (rb, lb) ->
    sub_try_close da fuel ra la tid id = ROk a -> sub_try_close db fuel rb lb tid id = ROk b ->
    exists x, sub_try_close d fuel r l tid id = ROk x /\ tri x a b.
  Proof.
    induction fuel as [|f IH]; intros r ra rb l la lb tid id a b (Ha & Hb & Hl) Ea Eb; [discriminate|].
    cbn [sub_try_close] in *.
    apply rbind_ok in Ea as ([ra1 ca] & Ea1 & Ea). apply rbind_ok in Eb as ([rb1 cb] & Eb1 & Eb).
    destruct (res_sim_ok_r _ _ _ _ (sim_try_close rhoa r ra id Ha) Ea1) as ([r1 c] & E1 & Hra & Hca).
    destruct (res_sim_ok_r _ _ _ _ (sim_try_close rhob r rb id Hb) Eb1) as ([r1' c'] & E1' & Hrb & Hcb).
    rewrite E1 in E1'. injection E1' as <- <-. cbn in Hra, Hca, Hrb, Hcb. subst ca cb.
    rewrite E1. cbn [rbind]. destruct c.
    - apply rbind_ok in Ea as ([ra2 la2] & Ea2 & Ea). apply rbind_ok in Eb as ([rb2 lb2] & Eb2 & Eb).
      destruct (Hd r1 ra1 rb1 l la lb tid (CbClose id) _ _ (conj Hra (conj Hrb Hl)) Ea2 Eb2)
        as ([r2 l2] & E2 & Hra2 & Hrb2 & Hl2). cbn in Hra2, Hrb2, Hl2.
      rewrite E2. cbn [rbind].
      pose proof (sim_get _ _ _ id Hra2) as Ga. pose proof (sim_get _ _ _ id Hrb2) as Gb.
      destruct (reg_get r2 id) as [s|], (reg_get ra2 id) as [sa|]; cbn in Ga; try contradiction.
      + destruct (reg_get rb2 id) as [sb|]; cbn in Gb; [|contradiction].
        destruct Ga as (_ & _ & Pa & _). destruct Gb as (_ & _ & Pb & _). rewrite <- Pa in Ea. rewrite <- Pb in Eb.
        assert (T : tri (reg_remove r2 id, l2) (reg_remove ra2 id, la2) (reg_remove rb2 id, lb2)).
        { split; [apply sim_remove; exact Hra2|]. split; [apply sim_remove; exact Hrb2 | exact Hl2]. }
        destruct (rs_parent s) as [p|].
        * eapply IH; eauto.
        * injection Ea as <-. injection Eb as <-. eexists. split; [reflexivity | exact T].
      + destruct (reg_get rb2 id) as [sb|]; cbn in Gb; [contradiction|].
        injection Ea as <-. injection Eb as <-. eexists. split; [reflexivity|].
        split; [exact Hra2|]. split; [exact Hrb2 | exact Hl2].
    - injection Ea as <-. injection Eb as <-. eexists. split; [reflexivity|].
      split; [exact Hra|]. split; [exact Hrb | exact Hl].
  Qed.

  Lemma tri_step sites ids x a b o a1 b1 :
    tri x a b ->
    sub_step da sites ids a o = ROk a1 -> sub_step db sites ids b o = ROk b1 ->
    exists x1, sub_step d sites ids x o = ROk x1 /\ tri x1 a1 b1.
  Proof.
    destruct x as [r l], a as [ra la], b as [rb lb], o as [tid op].
    intros T Ea Eb. pose proof T as (Ha & Hb & Hl). cbn in Ha, Hb, Hl.
    unfold sub_step in *. cbn [fst snd] in *.
    destruct op as [cs pk vals | k vals | k | k | k | k | k t | cs pk vals].
    - destruct (nth_error sites cs) as [meta|]; [|discriminate].
      apply rbind_ok in Ea as ([ra1 ida] & Ea1 & Ea). apply rbind_ok in Eb as ([rb1 idb] & Eb1 & Eb).
      rewrite <- (sim_next _ _ _ Ha) in Ea1. rewrite <- (sim_next _ _ _ Hb) in Eb1.
      destruct (res_sim_ok_r _ _ _ _ (sim_new_span rhoa r ra tid meta pk _ Ha) Ea1) as ([r1 id] & E1 & Hra & Hia).
      destruct (res_sim_ok_r _ _ _ _ (sim_new_span rhob r rb tid meta pk _ Hb) Eb1) as ([r1' id'] & E1' & Hrb & Hib).
      rewrite E1 in E1'. injection E1' as <- <-. cbn in Hra, Hia, Hrb, Hib. subst ida idb.
      rewrite E1. cbn [rbind]. eapply Hd; eauto. split; [exact Hra|]. split; [exact Hrb | exact Hl].
    - eapply Hd; eauto.
    - apply rbind_ok in Ea as (ra1 & Ea1 & Ea). apply rbind_ok in Eb as (rb1 & Eb1 & Eb).
      destruct (res_sim_ok_r _ _ _ _ (sim_enter rhoa r ra tid k Ha) Ea1) as (r1 & E1 & Hra).
      destruct (res_sim_ok_r _ _ _ _ (sim_enter rhob r rb tid k Hb) Eb1) as (r1' & E1' & Hrb).
      rewrite E1 in E1'. injection E1' as <-. rewrite E1. cbn [rbind].
      eapply Hd; eauto. split; [exact Hra|]. split; [exact Hrb | exact Hl].
    - destruct (sim_exit_pop rhoa r ra tid k Ha) as [Pa Fa]. destruct (sim_exit_pop rhob r rb tid k Hb) as [Pb Fb].
      destruct (reg_exit_pop r tid k) as [r1 fr], (reg_exit_pop ra tid k) as [ra1 fa], (reg_exit_pop rb tid k) as [rb1 fb].
      cbn in Pa, Fa, Pb, Fb. subst fa fb.
      apply rbind_ok in Ea as ([ra2 la2] & Ea2 & Ea). apply rbind_ok in Eb as ([rb2 lb2] & Eb2 & Eb).
      assert (exists x2, (if fr then sub_try_close d (close_fuel r1) r1 l tid k else ROk (r1, l)) = ROk x2
                         /\ tri x2 (ra2, la2) (rb2, lb2)) as ([r2 l2] & E2 & T2).
      { destruct fr.
        - unfold close_fuel in *. rewrite <- (sim_next _ _ _ Pa) in Ea2. rewrite <- (sim_next _ _ _ Pb) in Eb2.
          eapply tri_try_close; eauto. split; [exact Pa|]. split; [exact Pb | exact Hl].
        - injection Ea2 as <- <-. injection Eb2 as <- <-. eexists. split; [reflexivity|].
          split; [exact Pa|]. split; [exact Pb | exact Hl]. }
      rewrite E2. cbn [rbind]. eapply Hd; eauto.
    - apply rbind_ok in Ea as (ra1 & Ea1 & Ea). apply rbind_ok in Eb as (rb1 & Eb1 & Eb).
      destruct (res_sim_ok_r _ _ _ _ (sim_clone rhoa r ra k Ha) Ea1) as (r1 & E1 & Hra).
      destruct (res_sim_ok_r _ _ _ _ (sim_clone rhob r rb k Hb) Eb1) as (r1' & E1' & Hrb).
      rewrite E1 in E1'. injection E1' as <-. rewrite E1. cbn [rbind].
      injection Ea as <-. injection Eb as <-. eexists. split; [reflexivity|].
      split; [exact Hra|]. split; [exact Hrb | exact Hl].
    - unfold close_fuel in *. rewrite <- (sim_next _ _ _ Ha) in Ea. rewrite <- (sim_next _ _ _ Hb) in Eb.
      eapply tri_try_close; eauto.
    - eapply Hd; eauto.
    - destruct (nth_error sites cs) as [meta|]; [|discriminate]. eapply Hd; eauto.
  Qed.

  Lemma tri_steps sites ids ops : forall x a b a1 b1,
    tri x a b ->
    sub_steps da sites ids a ops = ROk a1 -> sub_steps db sites ids b ops = ROk b1 ->
    exists x1, sub_steps d sites ids x ops = ROk x1 /\ tri x1 a1 b1.
  Proof.
    induction ops as [|o rest IH]; intros x a b a1 b1 T Ea Eb; cbn [sub_steps] in *.
    - injection Ea as <-. injection Eb as <-. eexists. split; [reflexivity | exact T].
    - apply rbind_ok in Ea as (a2 & Ea2 & Ea). apply rbind_ok in Eb as (b2 & Eb2 & Eb).
      destruct (tri_step _ _ _ _ _ _ _ _ T Ea2 Eb2) as (x2 & E2 & T2). rewrite E2. cbn [rbind].
      eapply IH; eauto.
  Qed.
End TriBwd.

(** * Part B: a single capture layer refines the specification *)

(** ** The abstract forest: facts that depend only on metadata and logical parents *)
Definition plt (spans : list aspan) : Prop :=
  forall k s p, nth_error spans k = Some s -> as_lparent s = Some p -> (p < k)%nat.
Definition skel (spans : list aspan) : list (cs_data * option nat) :=
  map (fun s => (as_meta s, as_lparent s)) spans.

Lemma skel_length a b : skel a = skel b -> List.length a = List.length b.
Proof. intros H. apply (f_equal (@List.length _)) in H. unfold skel in H. rewrite !map_length in H. exact H. Qed.

Lemma skel_nth a b k :
  skel a = skel b ->
  match nth_error a k, nth_error b k with
  | Some s, Some s' => as_meta s = as_meta s' /\ as_lparent s = as_lparent s'
  | None, None => True
  | _, _ => False
  end.
Proof.
  intros H. apply (f_equal (fun l => nth_error l k)) in H. unfold skel in H. rewrite !nth_error_map in H.
  destruct (nth_error a k), (nth_error b k); cbn in H; try discriminate; auto.
  injection H as -> ->. auto.
Qed.

Section Spec.
  Variable f : cs_data -> bool.

  Lemma nearest_cap_skel a b : skel a = skel b ->
    forall fuel start, nearest_cap f a fuel start = nearest_cap f b fuel start.
  Proof.
    intros H. induction fuel as [|n IH]; intros [p|]; cbn; try reflexivity.
    pose proof (skel_nth a b p H) as Hp.
    destruct (nth_error a p) as [s|], (nth_error b p) as [s'|]; try contradiction; [|reflexivity].
    destruct Hp as [-> ->]. destruct (f (as_meta s')); [reflexivity | apply IH].
  Qed.

  Lemma attach_skel a b start : skel a = skel b -> attach f a start = attach f b start.
  Proof. intros H. unfold attach. rewrite (skel_length _ _ H). apply nearest_cap_skel. exact H. Qed.

  Lemma captured_skel a b k : skel a = skel b -> captured f a k = captured f b k.
  Proof.
    intros H. unfold captured. pose proof (skel_nth a b k H) as Hk.
    destruct (nth_error a k), (nth_error b k); try contradiction; [|reflexivity]. destruct Hk as [-> _]. reflexivity.
  Qed.

  Lemma lparent_of_skel a b k : skel a = skel b -> lparent_of a k = lparent_of b k.
  Proof.
    intros H. unfold lparent_of. pose proof (skel_nth a b k H) as Hk.
    destruct (nth_error a k), (nth_error b k); try contradiction; [|reflexivity]. destruct Hk as [_ ->]. reflexivity.
  Qed.

  Lemma span_attach_skel a b k : skel a = skel b -> span_attach f a k = span_attach f b k.
  Proof. intros H. unfold span_attach. rewrite (lparent_of_skel _ _ k H). apply attach_skel. exact H. Qed.

  Lemma cap_rank_meta a k :
    cap_rank f a k = N.of_nat (List.length (List.filter f (firstn k (map as_meta a)))).
  Proof.
    unfold cap_rank. f_equal. rewrite firstn_map. generalize (firstn k a). intros l.
    induction l as [|s l IH]; cbn; [reflexivity|]. destruct (f (as_meta s)); cbn; congruence.
  Qed.

  Lemma cap_rank_skel a b k : skel a = skel b -> cap_rank f a k = cap_rank f b k.
  Proof.
    intros H. rewrite !cap_rank_meta. apply (f_equal (map fst)) in H. unfold skel in H.
    rewrite !map_map in H. cbn [fst] in H.
    change (map (fun x : aspan => as_meta x) a) with (map as_meta a) in H.
    change (map (fun x : aspan => as_meta x) b) with (map as_meta b) in H.
    rewrite H. reflexivity.
  Qed.

  Lemma attached_spans_skel a b K : skel a = skel b -> attached_spans f a K = attached_spans f b K.
  Proof.
    intros H. unfold attached_spans. rewrite (skel_length _ _ H). apply filter_ext. intros c.
    rewrite (captured_skel _ _ c H), (span_attach_skel _ _ c H). reflexivity.
  Qed.

  Lemma event_attach_skel a b evs i : skel a = skel b -> event_attach f a evs i = event_attach f b evs i.
  Proof. intros H. unfold event_attach. destruct (nth_error evs i); [|reflexivity]. apply attach_skel. exact H. Qed.

  Lemma attached_events_skel a b evs K : skel a = skel b -> attached_events f a evs K = attached_events f b evs K.
  Proof.
    intros H. unfold attached_events. apply filter_ext. intros i. rewrite (event_attach_skel _ _ evs i H). reflexivity.
  Qed.

  (** *** fuel *)
  Lemma nearest_cap_fuel l : plt l -> forall fuel fuel' start,
    (forall p, start = Some p -> (p < fuel)%nat /\ (p < fuel')%nat) ->
    nearest_cap f l fuel start = nearest_cap f l fuel' start.
  Proof.
    intros Hl. induction fuel as [|n IH]; intros fuel' [p|] Hp; try (destruct fuel'; reflexivity).
    - destruct (Hp p eq_refl). lia.
    - destruct (Hp p eq_refl) as [H1 H2]. destruct fuel' as [|n']; [lia|]. cbn.
      destruct (nth_error l p) as [s|] eqn:E; [|reflexivity].
      destruct (f (as_meta s)); [reflexivity|]. apply IH. intros q Hq.
      pose proof (Hl p s q E Hq). lia.
  Qed.

  Lemma nearest_cap_some l fuel start p :
    nearest_cap f l fuel start = Some p -> captured f l p = true /\ (p < List.length l)%nat.
  Proof.
    revert start. induction fuel as [|n IH]; intros [q|]; cbn; try discriminate.
    destruct (nth_error l q) as [s|] eqn:E; [|discriminate].
    destruct (f (as_meta s)) eqn:Ef.
    - intros H. injection H as <-. unfold captured. rewrite E. split; [exact Ef|].
      apply nth_error_Some. congruence.
    - apply IH.
  Qed.

  Lemma nearest_cap_le l : plt l -> forall fuel start q p,
    start = Some q -> nearest_cap f l fuel start = Some p -> (p <= q)%nat.
  Proof.
    intros Hl. induction fuel as [|n IH]; intros start q p -> H; cbn in H; [discriminate|].
    destruct (nth_error l q) as [s|] eqn:E; [|discriminate].
    destruct (f (as_meta s)); [injection H as <-; lia|].
    destruct (as_lparent s) as [q'|] eqn:Eq; [|destruct n; discriminate].
    pose proof (Hl q s q' E Eq). specialize (IH (Some q') q' p eq_refl H). lia.
  Qed.

  Lemma span_attach_lt l k p : plt l -> span_attach f l k = Some p -> (p < k)%nat.
  Proof.
    intros Hl H. unfold span_attach, attach, lparent_of in H.
    destruct (nth_error l k) as [s|] eqn:E; [|discriminate].
    destruct (as_lparent s) as [q|] eqn:Eq; [|discriminate].
    pose proof (Hl k s q E Eq). pose proof (nearest_cap_le l Hl _ _ q p eq_refl H). lia.
  Qed.

  (** *** appending a span *)
  Lemma nearest_cap_app l x : plt l -> forall fuel start,
    (forall p, start = Some p -> (p < List.length l)%nat) ->
    nearest_cap f (l ++ [x]) fuel start = nearest_cap f l fuel start.
  Proof.
    intros Hl. induction fuel as [|n IH]; intros [p|] Hp; cbn; try reflexivity.
    specialize (Hp p eq_refl) as Hlt. rewrite nth_error_app1 by exact Hlt.
    destruct (nth_error l p) as [s|] eqn:E; [|reflexivity].
    destruct (f (as_meta s)); [reflexivity|]. apply IH. intros q Hq. pose proof (Hl p s q E Hq). lia.
  Qed.

  Lemma attach_app l x start :
    plt l -> (forall p, start = Some p -> (p < List.length l)%nat) ->
    attach f (l ++ [x]) start = attach f l start.
  Proof.
    intros Hl Hp. unfold attach. rewrite (nearest_cap_app l x Hl _ _ Hp).
    apply nearest_cap_fuel; [exact Hl|]. intros p E. specialize (Hp p E). rewrite app_length. cbn. lia.
  Qed.

  Lemma cap_rank_app l x k : (k <= List.length l)%nat -> cap_rank f (l ++ [x]) k = cap_rank f l k.
  Proof. intros H. unfold cap_rank. rewrite firstn_app. replace (k - List.length l)%nat with O by lia. cbn. rewrite app_nil_r. reflexivity. Qed.

  Lemma cap_rank_S l k s :
    nth_error l k = Some s ->
    cap_rank f l (S k) = cap_rank f l k + (if f (as_meta s) then 1 else 0).
  Proof.
    intros E. unfold cap_rank.
    assert (H : firstn (S k) l = firstn k l ++ [s]).
    { revert k E. induction l as [|a l IH]; intros [|k] E; cbn in *; try discriminate.
      - injection E as ->. reflexivity.
      - f_equal. apply IH. exact E. }
    rewrite H, filter_app, app_length. cbn. destruct (f (as_meta s)); cbn; lia.
  Qed.

  Lemma cap_rank_mono l k k' : (k <= k')%nat -> cap_rank f l k <= cap_rank f l k'.
  Proof.
    intros H. induction H as [|m H IH]; [lia|].
    destruct (nth_error l m) as [s|] eqn:E.
    - rewrite (cap_rank_S _ _ _ E). destruct (f (as_meta s)); lia.
    - unfold cap_rank in *. apply nth_error_None in E.
      rewrite (firstn_all2 (n := S m)) by lia. rewrite (firstn_all2 (n := m)) in IH by lia. exact IH.
  Qed.

  Lemma cap_rank_lt l k k' : captured f l k = true -> (k < k')%nat -> cap_rank f l k < cap_rank f l k'.
  Proof.
    intros Hc H. unfold captured in Hc. destruct (nth_error l k) as [s|] eqn:E; [|discriminate].
    pose proof (cap_rank_S _ _ _ E) as HS. rewrite Hc in HS.
    pose proof (cap_rank_mono l (S k) k' H). lia.
  Qed.

  Lemma cap_rank_inj l k k' :
    captured f l k = true -> captured f l k' = true -> cap_rank f l k = cap_rank f l k' -> k = k'.
  Proof.
    intros H1 H2 E. destruct (Nat.lt_trichotomy k k') as [H|[H|H]]; [|exact H|].
    - pose proof (cap_rank_lt l k k' H1 H). lia.
    - pose proof (cap_rank_lt l k' k H2 H). lia.
  Qed.

  Lemma captured_app l x k :
    captured f (l ++ [x]) k =
    if Nat.ltb k (List.length l) then captured f l k else Nat.eqb k (List.length l) && f (as_meta x).
  Proof.
    unfold captured. rewrite nth_error_snoc'. destruct (Nat.ltb k (List.length l)); [reflexivity|].
    destruct (Nat.eqb k (List.length l)); reflexivity.
  Qed.

  Lemma captured_lt l k : captured f l k = true -> (k < List.length l)%nat.
  Proof. unfold captured. destruct (nth_error l k) eqn:E; [|discriminate]. intros _. apply nth_error_Some. congruence. Qed.

  Lemma lparent_of_app l x k :
    lparent_of (l ++ [x]) k =
    if Nat.ltb k (List.length l) then lparent_of l k
    else if Nat.eqb k (List.length l) then as_lparent x else None.
  Proof.
    unfold lparent_of. rewrite nth_error_snoc'. destruct (Nat.ltb k (List.length l)); [reflexivity|].
    destruct (Nat.eqb k (List.length l)); reflexivity.
  Qed.

  Lemma lparent_of_lt l k p : plt l -> lparent_of l k = Some p -> (p < k)%nat /\ (k < List.length l)%nat.
  Proof.
    intros Hl. unfold lparent_of. destruct (nth_error l k) as [s|] eqn:E; [|discriminate].
    intros H. split; [eapply Hl; eauto|]. apply nth_error_Some. congruence.
  Qed.

  Lemma span_attach_app l x k :
    plt l -> (k < List.length l)%nat -> span_attach f (l ++ [x]) k = span_attach f l k.
  Proof.
    intros Hl Hk. unfold span_attach. rewrite lparent_of_app.
    destruct (Nat.ltb_spec k (List.length l)); [|lia]. apply attach_app; [exact Hl|].
    intros p Hp. apply (lparent_of_lt l k p Hl) in Hp. lia.
  Qed.

  Lemma span_attach_new l x :
    plt l -> (forall p, as_lparent x = Some p -> (p < List.length l)%nat) ->
    span_attach f (l ++ [x]) (List.length l) = attach f l (as_lparent x).
  Proof.
    intros Hl Hx. unfold span_attach. rewrite lparent_of_app, Nat.ltb_irrefl, Nat.eqb_refl.
    apply attach_app; assumption.
  Qed.

  Lemma attached_spans_app l x K :
    plt l -> (forall p, as_lparent x = Some p -> (p < List.length l)%nat) ->
    attached_spans f (l ++ [x]) K =
    attached_spans f l K ++
    (if f (as_meta x) && opt_nat_eqb (attach f l (as_lparent x)) K then [List.length l] else []).
  Proof.
    intros Hl Hx. unfold attached_spans. rewrite app_length. cbn [List.length].
    rewrite Nat.add_1_r, seq_S, filter_app. cbn [List.filter Nat.add]. f_equal.
    - apply filter_ext_in. intros c Hc. apply in_seq in Hc. rewrite captured_app.
      destruct (Nat.ltb_spec c (List.length l)); [|lia]. rewrite span_attach_app by (auto; lia). reflexivity.
    - rewrite captured_app, Nat.ltb_irrefl, Nat.eqb_refl, span_attach_new by assumption. cbn [andb].
      destruct (f (as_meta x) && opt_nat_eqb (attach f l (as_lparent x)) K); reflexivity.
  Qed.

  Definition evs_bounded (l : list aspan) (evs : list aevent) : Prop :=
    forall i e p, nth_error evs i = Some e -> ae_lparent e = Some p -> (p < List.length l)%nat.

  Lemma event_attach_app l x evs i :
    plt l -> evs_bounded l evs -> event_attach f (l ++ [x]) evs i = event_attach f l evs i.
  Proof.
    intros Hl Hb. unfold event_attach. destruct (nth_error evs i) as [e|] eqn:E; [|reflexivity].
    apply attach_app; [exact Hl|]. intros p Hp. eapply Hb; eauto.
  Qed.

  Lemma attached_events_app_span l x evs K :
    plt l -> evs_bounded l evs -> attached_events f (l ++ [x]) evs K = attached_events f l evs K.
  Proof.
    intros Hl Hb. unfold attached_events. apply filter_ext. intros i. rewrite event_attach_app by assumption. reflexivity.
  Qed.

  Lemma event_attach_snoc l evs e i :
    event_attach f l (evs ++ [e]) i =
    if Nat.ltb i (List.length evs) then event_attach f l evs i
    else if Nat.eqb i (List.length evs) then attach f l (ae_lparent e) else None.
  Proof.
    unfold event_attach. rewrite nth_error_snoc'. destruct (Nat.ltb i (List.length evs)); [reflexivity|].
    destruct (Nat.eqb i (List.length evs)); reflexivity.
  Qed.

  Lemma attached_events_snoc l evs e K :
    attached_events f l (evs ++ [e]) K =
    attached_events f l evs K ++
    (if opt_nat_eqb (attach f l (ae_lparent e)) K then [List.length evs] else []).
  Proof.
    unfold attached_events. rewrite app_length. cbn [List.length].
    rewrite Nat.add_1_r, seq_S, filter_app. cbn [List.filter Nat.add]. f_equal.
    - apply filter_ext_in. intros c Hc. apply in_seq in Hc. rewrite event_attach_snoc.
      destruct (Nat.ltb_spec c (List.length evs)); [reflexivity | lia].
    - rewrite event_attach_snoc, Nat.ltb_irrefl, Nat.eqb_refl.
      destruct (opt_nat_eqb (attach f l (ae_lparent e)) K); reflexivity.
  Qed.
End Spec.

(** ** The captured spans by position *)
Lemma nth_error_indexed_from {A} (l : list A) : forall b j,
  nth_error (combine (seq b (List.length l)) l) j = option_map (fun x => ((b + j)%nat, x)) (nth_error l j).
Proof.
  induction l as [|a l IH]; intros b j; cbn.
  - destruct j; reflexivity.
  - destruct j as [|j]; cbn; [rewrite Nat.add_0_r; reflexivity|].
    rewrite IH. rewrite Nat.add_succ_r. reflexivity.
Qed.

Lemma nth_error_indexed {A} (l : list A) j :
  nth_error (indexed l) j = option_map (fun x => (j, x)) (nth_error l j).
Proof. unfold indexed. rewrite nth_error_indexed_from. reflexivity. Qed.

Lemma indexed_app {A} (l : list A) x : indexed (l ++ [x]) = indexed l ++ [(List.length l, x)].
Proof.
  apply list_ext. intros j. rewrite nth_error_indexed, !nth_error_snoc', nth_error_indexed.
  assert (E : List.length (indexed l) = List.length l).
  { unfold indexed. rewrite combine_length, seq_length. lia. }
  rewrite E. destruct (Nat.ltb j (List.length l)); [reflexivity|].
  destruct (Nat.eqb_spec j (List.length l)) as [->|]; reflexivity.
Qed.

Lemma indexed_length {A} (l : list A) : List.length (indexed l) = List.length l.
Proof. unfold indexed. rewrite combine_length, seq_length. lia. Qed.

Lemma map_snd_indexed {A} (l : list A) : map snd (indexed l) = l.
Proof.
  apply list_ext. intros j. rewrite nth_error_map, nth_error_indexed. destruct (nth_error l j); reflexivity.
Qed.

Definition caps (f : cs_data -> bool) (l : list aspan) : list (nat * aspan) :=
  List.filter (fun ks => f (as_meta (snd ks))) (indexed l).

Lemma caps_app f l x :
  caps f (l ++ [x]) = caps f l ++ (if f (as_meta x) then [(List.length l, x)] else []).
Proof. unfold caps. rewrite indexed_app, filter_app. cbn. destruct (f (as_meta x)); reflexivity. Qed.

Lemma filter_map_snd {A B} (P : B -> bool) (L : list (A * B)) :
  List.filter P (map snd L) = map snd (List.filter (fun ab => P (snd ab)) L).
Proof. induction L as [|[a b] L IH]; cbn; [reflexivity|]. destruct (P b); cbn; congruence. Qed.

Lemma caps_length f l : N.of_nat (List.length (caps f l)) = cap_rank f l (List.length l).
Proof.
  unfold cap_rank, caps. rewrite firstn_all. f_equal.
  rewrite <- (map_snd_indexed l) at 2.
  rewrite (filter_map_snd (fun s => f (as_meta s))), map_length. reflexivity.
Qed.

Lemma caps_nth_inv f l : forall j k s,
  nth_error (caps f l) j = Some (k, s) ->
  nth_error l k = Some s /\ f (as_meta s) = true /\ cap_rank f l k = N.of_nat j.
Proof.
  induction l as [|x l IH] using rev_ind; intros j k s H.
  - destruct j; discriminate.
  - rewrite caps_app in H. pose proof (caps_length f l) as Hlen.
    destruct (Nat.ltb_spec j (List.length (caps f l))) as [Hj|Hj].
    + rewrite nth_error_app1 in H by exact Hj. destruct (IH _ _ _ H) as (A & B & C).
      assert (k < List.length l)%nat by (apply nth_error_Some; congruence).
      split; [rewrite nth_error_app1 by lia; exact A|]. split; [exact B|].
      rewrite cap_rank_app by lia. exact C.
    + rewrite nth_error_app2 in H by exact Hj. destruct (f (as_meta x)) eqn:Ef.
      * destruct (j - List.length (caps f l))%nat as [|d] eqn:Ed; [|destruct d; discriminate].
        cbn in H. injection H as <- <-. split; [rewrite nth_error_app2 by lia; rewrite Nat.sub_diag; reflexivity|].
        split; [exact Ef|]. rewrite cap_rank_app by lia. rewrite <- Hlen. f_equal. lia.
      * destruct (j - List.length (caps f l))%nat; discriminate.
Qed.

Lemma caps_nth_rank f l : forall k s,
  nth_error l k = Some s -> f (as_meta s) = true ->
  nth_error (caps f l) (N.to_nat (cap_rank f l k)) = Some (k, s).
Proof.
  induction l as [|x l IH] using rev_ind; intros k s H Hf.
  - destruct k; discriminate.
  - rewrite caps_app. pose proof (caps_length f l) as Hlen. rewrite nth_error_snoc' in H.
    destruct (Nat.ltb_spec k (List.length l)) as [Hk|Hk].
    + rewrite cap_rank_app by lia. rewrite nth_error_app1; [apply IH; assumption|].
      assert (Hc : captured f l k = true) by (unfold captured; rewrite H; exact Hf).
      pose proof (cap_rank_lt f l k (List.length l) Hc Hk). lia.
    + destruct (Nat.eqb_spec k (List.length l)) as [->|]; [|discriminate]. injection H as ->.
      rewrite Hf, cap_rank_app by lia. rewrite nth_error_app2 by lia.
      replace (N.to_nat (cap_rank f l (List.length l)) - List.length (caps f l))%nat with O by lia.
      reflexivity.
Qed.

(** ** [build], componentwise *)
Lemma build_get f closed a i :
  get_span (build f closed a) i =
  option_map (build_span f closed a) (nth_error (caps f (a_spans a)) (N.to_nat i)).
Proof. unfold get_span, build. cbn [st_spans]. rewrite nth_error_map. reflexivity. Qed.

Lemma build_nspans f closed a : nspans (build f closed a) = cap_rank f (a_spans a) (List.length (a_spans a)).
Proof. unfold nspans, build. cbn [st_spans]. rewrite map_length. apply caps_length. Qed.

Lemma build_nevents f closed a : nevents (build f closed a) = N.of_nat (List.length (a_events a)).
Proof. unfold nevents, build. cbn [st_events]. rewrite map_length, indexed_length. reflexivity. Qed.

Lemma storage_ext (a b : cstorage) :
  (forall i, get_span a i = get_span b i) -> st_events a = st_events b ->
  st_root_span_ids a = st_root_span_ids b -> st_root_event_ids a = st_root_event_ids b -> a = b.
Proof.
  destruct a as [s1 e1 r1 q1], b as [s2 e2 r2 q2]. cbn. intros H -> -> ->. f_equal.
  apply list_ext. intros j. specialize (H (N.of_nat j)). unfold get_span in H. cbn in H.
  rewrite Nat2N.id in H. exact H.
Qed.

(** the position of a captured span *)
Lemma build_get_rank f closed a k s :
  nth_error (a_spans a) k = Some s -> f (as_meta s) = true ->
  get_span (build f closed a) (cap_rank f (a_spans a) k) = Some (build_span f closed a (k, s)).
Proof. intros H Hf. rewrite build_get, (caps_nth_rank f _ _ _ H Hf). reflexivity. Qed.

Lemma cap_rank_lt_nspans f closed a k :
  captured f (a_spans a) k = true -> cap_rank f (a_spans a) k < nspans (build f closed a).
Proof. intros H. rewrite build_nspans. apply cap_rank_lt; [exact H | apply captured_lt in H; exact H]. Qed.

(** ** Changing one span of the forest without touching metadata or logical parents *)
Definition keeps_skel (g : aspan -> aspan) : Prop :=
  forall s, as_meta (g s) = as_meta s /\ as_lparent (g s) = as_lparent s.

Lemma upd_span_nth l k g j :
  nth_error (upd_span l k g) j = if Nat.eqb j k then option_map g (nth_error l j) else nth_error l j.
Proof.
  unfold upd_span. destruct (nth_error l k) as [s|] eqn:E.
  - rewrite set_nth_nth. destruct (Nat.eqb_spec j k) as [->|]; [|reflexivity].
    rewrite E. assert (k < List.length l)%nat by (apply nth_error_Some; congruence).
    destruct (Nat.ltb_spec k (List.length l)); [reflexivity | lia].
  - destruct (Nat.eqb_spec j k) as [->|]; [|reflexivity]. rewrite E. reflexivity.
Qed.

Lemma upd_span_length l k g : List.length (upd_span l k g) = List.length l.
Proof. unfold upd_span. destruct (nth_error l k); [apply set_nth_length | reflexivity]. Qed.

Lemma upd_span_skel l k g : keeps_skel g -> skel (upd_span l k g) = skel l.
Proof.
  intros Hg. apply list_ext. intros j. unfold skel. rewrite !nth_error_map, upd_span_nth.
  destruct (Nat.eqb j k); [|reflexivity]. destruct (nth_error l j) as [s|]; [|reflexivity].
  cbn. destruct (Hg s) as [-> ->]. reflexivity.
Qed.

Lemma filter_map_comm {A} (P : A -> bool) (h : A -> A) (L : list A) :
  (forall x, P (h x) = P x) -> List.filter P (map h L) = map h (List.filter P L).
Proof.
  intros H. induction L as [|x L IH]; cbn; [reflexivity|]. rewrite H. destruct (P x); cbn; congruence.
Qed.

Definition upd_pair (k : nat) (g : aspan -> aspan) (ks : nat * aspan) : nat * aspan :=
  if Nat.eqb (fst ks) k then (fst ks, g (snd ks)) else ks.

Lemma caps_upd f l k g : keeps_skel g -> caps f (upd_span l k g) = map (upd_pair k g) (caps f l).
Proof.
  intros Hg. unfold caps.
  assert (E : indexed (upd_span l k g) = map (upd_pair k g) (indexed l)).
  { apply list_ext. intros j. rewrite nth_error_map, !nth_error_indexed, upd_span_nth.
    unfold upd_pair. destruct (nth_error l j) as [s|]; cbn; [|destruct (Nat.eqb j k); reflexivity].
    destruct (Nat.eqb j k); reflexivity. }
  rewrite E. apply filter_map_comm. intros [j s]. unfold upd_pair. cbn.
  destruct (Nat.eqb j k); cbn; [|reflexivity]. destruct (Hg s) as [-> _]. reflexivity.
Qed.

Section BuildFacts.
  Variable f : cs_data -> bool.

  Lemma build_span_skel closed a a' ks :
    skel (a_spans a') = skel (a_spans a) -> a_events a' = a_events a ->
    build_span f closed a' ks = build_span f closed a ks.
  Proof.
    intros Hs He. unfold build_span. rewrite He.
    rewrite (cap_rank_skel f _ _ (fst ks) Hs), (span_attach_skel f _ _ (fst ks) Hs),
      (attached_spans_skel f _ _ (Some (fst ks)) Hs), (attached_events_skel f _ _ _ (Some (fst ks)) Hs).
    f_equal.
    - destruct (span_attach f (a_spans a) (fst ks)); cbn; [|reflexivity]. rewrite (cap_rank_skel f _ _ _ Hs). reflexivity.
    - apply map_ext. intros c. apply cap_rank_skel. exact Hs.
    - apply map_ext. intros c. apply cap_rank_skel. exact Hs.
  Qed.

  Lemma build_events_skel a a' :
    skel (a_spans a') = skel (a_spans a) -> a_events a' = a_events a ->
    map (build_event f a') (indexed (a_events a')) = map (build_event f a) (indexed (a_events a)).
  Proof.
    intros Hs He. rewrite He. apply map_ext. intros ie. unfold build_event.
    rewrite (attach_skel f _ _ _ Hs). destruct (attach f (a_spans a) (ae_lparent (snd ie))); cbn; [|reflexivity].
    rewrite (cap_rank_skel f _ _ _ Hs). reflexivity.
  Qed.

  Lemma build_roots_skel a a' :
    skel (a_spans a') = skel (a_spans a) ->
    map (cap_rank f (a_spans a')) (attached_spans f (a_spans a') None)
    = map (cap_rank f (a_spans a)) (attached_spans f (a_spans a) None).
  Proof.
    intros Hs. rewrite (attached_spans_skel f _ _ None Hs). apply map_ext. intros c. apply cap_rank_skel. exact Hs.
  Qed.

  Lemma caps_in_captured l k s : In (k, s) (caps f l) -> nth_error l k = Some s /\ f (as_meta s) = true.
  Proof.
    intros H. apply In_nth_error in H as [j Hj]. apply caps_nth_inv in Hj as (A & B & _). auto.
  Qed.

  Lemma build_closed_ext closed closed' a :
    (forall k, captured f (a_spans a) k = true -> closed k = closed' k) ->
    build f closed a = build f closed' a.
  Proof.
    intros H. unfold build. f_equal. apply map_ext_in. intros [k s] Hin.
    apply caps_in_captured in Hin as [A B]. unfold build_span. cbn [fst snd].
    rewrite (H k); [reflexivity|]. unfold captured. rewrite A. exact B.
  Qed.

  (** one captured span's record changes by [T], everything else stays *)
  Lemma build_point_update closed a a' k0 s0 g (T : span_rec span_payload -> span_rec span_payload) st' :
    nth_error (a_spans a) k0 = Some s0 -> f (as_meta s0) = true -> keeps_skel g ->
    a_spans a' = upd_span (a_spans a) k0 g -> a_events a' = a_events a ->
    build_span f closed a (k0, g s0) = T (build_span f closed a (k0, s0)) ->
    st_events st' = st_events (build f closed a) ->
    st_root_span_ids st' = st_root_span_ids (build f closed a) ->
    st_root_event_ids st' = st_root_event_ids (build f closed a) ->
    (forall i, get_span st' i =
               option_map (fun r => if i =? cap_rank f (a_spans a) k0 then T r else r)
                          (get_span (build f closed a) i)) ->
    st' = build f closed a'.
  Proof.
    intros Hk0 Hf Hg Hsp Hev HT He Hr Hre Hget.
    assert (Hs : skel (a_spans a') = skel (a_spans a)) by (rewrite Hsp; apply upd_span_skel; exact Hg).
    apply storage_ext.
    - intros i. rewrite Hget, !build_get, Hsp, (caps_upd f _ _ _ Hg), nth_error_map.
      destruct (nth_error (caps f (a_spans a)) (N.to_nat i)) as [[k s]|] eqn:E; [|reflexivity].
      cbn [option_map]. apply caps_nth_inv in E as (A & B & C). rewrite N2Nat.id in C. f_equal.
      unfold upd_pair. cbn [fst snd]. destruct (Nat.eqb_spec k k0) as [->|Hne].
      + rewrite Hk0 in A. injection A as <-. rewrite C, N.eqb_refl.
        rewrite (build_span_skel closed a a' _ Hs Hev). symmetry. exact HT.
      + destruct (N.eqb_spec i (cap_rank f (a_spans a) k0)) as [Ei|_].
        * exfalso. apply Hne. apply (cap_rank_inj f (a_spans a)); [| |congruence].
          -- unfold captured. rewrite A. exact B.
          -- unfold captured. rewrite Hk0. exact Hf.
        * symmetry. apply build_span_skel; assumption.
    - rewrite He. unfold build. cbn [st_events]. symmetry. apply build_events_skel; assumption.
    - rewrite Hr. unfold build. cbn [st_root_span_ids]. symmetry. apply build_roots_skel. exact Hs.
    - rewrite Hre. unfold build. cbn [st_root_event_ids]. rewrite Hev.
      rewrite (attached_events_skel f _ _ _ None Hs). reflexivity.
  Qed.

  (** a span the filter disabled does not show *)
  Lemma build_update_uncaptured closed a a' k0 s0 g :
    nth_error (a_spans a) k0 = Some s0 -> f (as_meta s0) = false -> keeps_skel g ->
    a_spans a' = upd_span (a_spans a) k0 g -> a_events a' = a_events a ->
    build f closed a' = build f closed a.
  Proof.
    intros Hk0 Hf Hg Hsp Hev.
    assert (Hs : skel (a_spans a') = skel (a_spans a)) by (rewrite Hsp; apply upd_span_skel; exact Hg).
    unfold build. f_equal.
    - rewrite Hsp. fold (caps f (upd_span (a_spans a) k0 g)). fold (caps f (a_spans a)).
      rewrite (caps_upd f _ _ _ Hg), map_map. apply map_ext_in. intros [k s] Hin.
      apply caps_in_captured in Hin as [A B]. unfold upd_pair. cbn [fst snd].
      destruct (Nat.eqb_spec k k0) as [->|_]; [congruence|]. apply build_span_skel; assumption.
    - apply build_events_skel; assumption.
    - apply build_roots_skel. exact Hs.
    - rewrite Hev, (attached_events_skel f _ _ _ None Hs). reflexivity.
  Qed.
End BuildFacts.

(** ** A new span *)
Definition fol_bounded (l : list aspan) : Prop :=
  forall k s j, nth_error l k = Some s -> In j (as_follows s) -> (j < List.length l)%nat.

Lemma filter_nil {A} (P : A -> bool) (l : list A) : (forall x, In x l -> P x = false) -> List.filter P l = [].
Proof.
  induction l as [|a l IH]; intros H; cbn; [reflexivity|].
  rewrite (H a (or_introl eq_refl)). apply IH. intros x Hx. apply H. right. exact Hx.
Qed.

Section NewSpan.
  Variable f : cs_data -> bool.
  Variables a a' : astate.
  Variable x : aspan.
  Variables closed closed' : nat -> bool.
  Let l := a_spans a.
  Let n := List.length (a_spans a).
  Hypothesis Hplt : plt l.
  Hypothesis Hevb : evs_bounded l (a_events a).
  Hypothesis Hfol : fol_bounded l.
  Hypothesis Hx : forall p, as_lparent x = Some p -> (p < n)%nat.
  Hypothesis Hsp : a_spans a' = l ++ [x].
  Hypothesis Hev : a_events a' = a_events a.
  Hypothesis Hclosed : forall k, (k < n)%nat -> closed' k = closed k.

  Let lp := as_lparent x.
  Let att := attach f l lp.
  Ltac ulia := unfold n, l in *; lia.

  Lemma ns_rank k : (k <= n)%nat -> cap_rank f (a_spans a') k = cap_rank f l k.
  Proof. intros H. rewrite Hsp. apply cap_rank_app. exact H. Qed.

  Lemma ns_att_lt p : att = Some p -> (p < n)%nat /\ captured f l p = true.
  Proof. intros H. apply nearest_cap_some in H as [A B]. split; [exact B | exact A]. Qed.

  Lemma ns_opt_rank (o : option nat) :
    (forall p, o = Some p -> (p < n)%nat) ->
    option_map (cap_rank f (a_spans a')) o = option_map (cap_rank f l) o.
  Proof. intros H. destruct o as [p|]; cbn; [|reflexivity]. rewrite ns_rank; [reflexivity|]. specialize (H p eq_refl). ulia. Qed.

  Lemma ns_attached_none_above K :
    (forall k, K = Some k -> (n <= k)%nat) -> K <> None -> attached_spans f l K = [].
  Proof.
    intros HK Hnn. unfold attached_spans. apply filter_nil. intros c Hc. apply in_seq in Hc.
    destruct K as [k|]; [|congruence]. specialize (HK k eq_refl).
    destruct (span_attach f l c) as [p|] eqn:E; cbn; [|apply andb_false_r].
    apply span_attach_lt in E; [|exact Hplt]. destruct (Nat.eqb_spec p k); [ulia | apply andb_false_r].
  Qed.

  Lemma ns_events_none_above k : (n <= k)%nat -> attached_events f l (a_events a) (Some k) = [].
  Proof.
    intros Hk. unfold attached_events. apply filter_nil. intros i Hi. unfold event_attach.
    destruct (nth_error (a_events a) i) as [e|]; [|reflexivity].
    destruct (attach f l (ae_lparent e)) as [p|] eqn:E; [|reflexivity]. cbn.
    apply nearest_cap_some in E as [_ E]. fold n in E. destruct (Nat.eqb_spec p k); [ulia | reflexivity].
  Qed.

  Lemma ns_map_rank (ks : list nat) :
    (forall c, In c ks -> (c < n)%nat) -> map (cap_rank f (a_spans a')) ks = map (cap_rank f l) ks.
  Proof. intros H. apply map_ext_in. intros c Hc. apply ns_rank. specialize (H c Hc). ulia. Qed.

  Lemma ns_attached_lt K c : In c (attached_spans f l K) -> (c < n)%nat.
  Proof. unfold attached_spans. intros H. apply filter_In in H as [H _]. apply in_seq in H. fold n in H. ulia. Qed.

  (** an old span: one more child if the new span is captured and attaches to it *)
  Lemma ns_build_span_old k s :
    nth_error l k = Some s ->
    build_span f closed' a' (k, s) =
    (fun r => if f (as_meta x) && opt_nat_eqb att (Some k) then add_child r (cap_rank f l n) else r)
      (build_span f closed a (k, s)).
  Proof.
    intros Hk. assert (Hkn : (k < n)%nat) by (apply nth_error_Some; unfold l in Hk; congruence).
    unfold build_span. cbn [fst snd]. rewrite Hev, (Hclosed k Hkn), (ns_rank k) by ulia.
    rewrite Hsp, (span_attach_app f l x k Hplt Hkn).
    rewrite (attached_spans_app f l x (Some k) Hplt Hx), (attached_events_app_span f l x _ (Some k) Hplt Hevb).
    rewrite <- Hsp. rewrite ns_opt_rank.
    2:{ intros p Hp. apply span_attach_lt in Hp; [ulia | exact Hplt]. }
    rewrite map_app, (ns_map_rank (attached_spans f l (Some k))) by (apply ns_attached_lt).
    rewrite (ns_map_rank (as_follows s)) by (intros c Hc; eapply Hfol; eauto).
    fold lp. fold att. fold n.
    destruct (f (as_meta x) && opt_nat_eqb att (Some k)); cbn [map].
    - unfold add_child. cbn. rewrite (ns_rank (List.length l)) by ulia. reflexivity.
    - rewrite app_nil_r. reflexivity.
  Qed.

  Lemma ns_build_span_new :
    build_span f closed' a' (n, x) =
    mk_span (mk_spl (as_meta x) (as_values x) (as_entered x) (as_exited x) (closed' n))
            (cap_rank f l n) (option_map (cap_rank f l) att) [] []
            (map (cap_rank f (a_spans a')) (as_follows x)).
  Proof.
    unfold build_span. cbn [fst snd]. change n with (List.length l).
    rewrite Hev, (ns_rank (List.length l)) by ulia.
    rewrite Hsp, (span_attach_new f l x Hplt Hx).
    rewrite (attached_spans_app f l x (Some (List.length l)) Hplt Hx),
      (attached_events_app_span f l x _ (Some (List.length l)) Hplt Hevb).
    rewrite <- Hsp. fold lp. fold att.
    rewrite ns_opt_rank by (intros p Hp; apply ns_att_lt in Hp; tauto).
    rewrite (ns_attached_none_above (Some (List.length l)))
      by (try (intros k E; injection E as <-; ulia); discriminate).
    rewrite (ns_events_none_above (List.length l)) by ulia.
    replace (f (as_meta x) && opt_nat_eqb att (Some (List.length l))) with false; [reflexivity|].
    destruct att as [p|] eqn:E; cbn; [|symmetry; apply andb_false_r].
    apply ns_att_lt in E as [E _]. destruct (Nat.eqb_spec p (List.length l)); [ulia|]. symmetry. apply andb_false_r.
  Qed.

  Lemma ns_events :
    map (build_event f a') (indexed (a_events a')) = map (build_event f a) (indexed (a_events a)).
  Proof.
    rewrite Hev. apply map_ext_in. intros [i e] Hin. unfold build_event. cbn [fst snd].
    apply In_nth_error in Hin as [j Hj]. rewrite nth_error_indexed in Hj.
    destruct (nth_error (a_events a) j) as [e'|] eqn:Ee; [|discriminate]. cbn in Hj. injection Hj as <- <-.
    rewrite Hsp, (attach_app f l x _ Hplt) by (intros p Hp; eapply Hevb; eauto). rewrite <- Hsp.
    rewrite ns_opt_rank; [reflexivity|]. intros p Hp. apply nearest_cap_some in Hp. tauto.
  Qed.

  Lemma ns_roots :
    map (cap_rank f (a_spans a')) (attached_spans f (a_spans a') None) =
    map (cap_rank f l) (attached_spans f l None) ++
    (if f (as_meta x) && opt_nat_eqb att None then [cap_rank f l n] else []).
  Proof.
    rewrite Hsp, (attached_spans_app f l x None Hplt Hx), <- Hsp, map_app.
    rewrite (ns_map_rank (attached_spans f l None)) by (apply ns_attached_lt).
    fold lp. fold att. destruct (f (as_meta x) && opt_nat_eqb att None); cbn [map]; [|reflexivity].
    rewrite (ns_rank (List.length l)) by ulia. reflexivity.
  Qed.

  Lemma ns_root_events :
    attached_events f (a_spans a') (a_events a') None = attached_events f l (a_events a) None.
  Proof. rewrite Hev, Hsp. apply attached_events_app_span; assumption. Qed.

  (** the filter disabled the new span: nothing shows *)
  Lemma build_new_uncaptured : f (as_meta x) = false -> build f closed' a' = build f closed a.
  Proof.
    intros Hf. unfold build. f_equal.
    - rewrite Hsp. fold (caps f (l ++ [x])). rewrite caps_app, Hf, app_nil_r.
      apply map_ext_in. intros [k s] Hin. apply caps_in_captured in Hin as [A _].
      rewrite (ns_build_span_old k s A), Hf. reflexivity.
    - apply ns_events.
    - rewrite ns_roots, Hf. cbn. apply app_nil_r.
    - f_equal. apply ns_root_events.
  Qed.

  (** the filter enabled it: [push_span] *)
  Lemma build_new_captured :
    f (as_meta x) = true -> as_entered x = 0 -> as_exited x = 0 -> as_follows x = [] -> closed' n = false ->
    push_span (build f closed a) (mk_spl (as_meta x) (as_values x) 0 0 false) (option_map (cap_rank f l) att)
    = Done (build f closed' a', cap_rank f l n).
  Proof.
    intros Hf He Hx' Hfo Hcl. change n with (List.length l) in *.
    assert (Hok : opt_id_ok (build f closed a) (option_map (cap_rank f l) att) = true).
    { destruct att as [p|] eqn:E; cbn; [|reflexivity]. apply ns_att_lt in E as [_ E].
      unfold id_ok. apply N.ltb_lt. apply cap_rank_lt_nspans. exact E. }
    destruct (push_span_effect _ (mk_spl (as_meta x) (as_values x) 0 0 false) _ Hok)
      as (st' & Ep & Eev & Ere & Ero & _ & Eget).
    rewrite Ep, build_nspans. fold l. f_equal. f_equal.
    rewrite build_nspans in Ero, Eget. fold l in Ero, Eget.
    apply storage_ext.
    - intros i. rewrite Eget, !build_get, Hsp, caps_app, Hf. fold l.
      pose proof (caps_length f l) as Hlen.
      destruct (N.eqb_spec i (cap_rank f l (List.length l))) as [->|Hne].
      + rewrite <- Hlen, Nat2N.id, nth_error_app2 by ulia. rewrite Nat.sub_diag. cbn [nth_error option_map].
        pose proof ns_build_span_new as Hnew. change n with (List.length l) in Hnew.
        rewrite Hnew, He, Hx', Hfo, Hcl, Hlen. reflexivity.
      + destruct (Nat.ltb_spec (N.to_nat i) (List.length (caps f l))) as [Hi|Hi].
        * rewrite nth_error_app1 by exact Hi.
          destruct (nth_error (caps f l) (N.to_nat i)) as [[k s]|] eqn:E; [|reflexivity].
          cbn [option_map]. apply caps_nth_inv in E as (A & B & C). rewrite N2Nat.id in C. f_equal.
          rewrite (ns_build_span_old k s A), Hf. cbn [andb]. unfold child_added.
          replace (option_eqb N.eqb (option_map (cap_rank f l) att) (Some i)) with (opt_nat_eqb att (Some k));
            [reflexivity|].
          destruct att as [p|] eqn:Ea; cbn; [|reflexivity]. apply ns_att_lt in Ea as [_ Ea].
          subst i. destruct (Nat.eqb_spec p k) as [->|Hpk]; [symmetry; apply N.eqb_refl|].
          symmetry. apply N.eqb_neq. intros Er. apply Hpk. apply (cap_rank_inj f l); auto.
          unfold captured. rewrite A. exact B.
        * rewrite nth_error_app2 by exact Hi.
          assert (E1 : nth_error (caps f l) (N.to_nat i) = None) by (apply nth_error_None; exact Hi).
          rewrite E1. cbn [option_map].
          destruct (N.to_nat i - List.length (caps f l))%nat as [|d] eqn:Ed; [ulia|]. destruct d; reflexivity.
    - rewrite Eev. unfold build. cbn [st_events]. symmetry. apply ns_events.
    - rewrite Ero. unfold build. cbn [st_root_span_ids]. rewrite ns_roots, Hf. cbn [andb]. f_equal.
      destruct att; reflexivity.
    - rewrite Ere. unfold build. cbn [st_root_event_ids]. rewrite ns_root_events. reflexivity.
  Qed.
End NewSpan.

(** ** Events, payload updates, follows-from edges, closing *)
Section BuildOps.
  Variable f : cs_data -> bool.

  Lemma build_new_event closed a a' e :
    a_spans a' = a_spans a -> a_events a' = a_events a ++ [e] ->
    push_event (build f closed a) (mk_epl (ae_meta e) (ae_values e))
               (option_map (cap_rank f (a_spans a)) (attach f (a_spans a) (ae_lparent e)))
    = Done (build f closed a', N.of_nat (List.length (a_events a))).
  Proof.
    intros Hsp Hev. set (l := a_spans a). set (att := attach f l (ae_lparent e)).
    assert (Hok : opt_id_ok (build f closed a) (option_map (cap_rank f l) att) = true).
    { destruct att as [p|] eqn:E; cbn; [|reflexivity]. apply nearest_cap_some in E as [E _].
      unfold id_ok. apply N.ltb_lt. apply cap_rank_lt_nspans. exact E. }
    destruct (push_event_effect _ (mk_epl (ae_meta e) (ae_values e)) _ Hok)
      as (st' & Ep & Eev & Ero & Ere & _ & Eget).
    rewrite Ep, build_nevents. f_equal. f_equal. rewrite build_nevents in Eev, Ere, Eget.
    assert (Hsp_b : forall ks, build_span f closed a' ks =
              (fun r => if opt_nat_eqb att (Some (fst ks)) then add_event r (N.of_nat (List.length (a_events a))) else r)
                (build_span f closed a ks)).
    { intros [k s]. unfold build_span. cbn [fst snd]. rewrite Hsp, Hev, attached_events_snoc. fold l. fold att.
      destruct (opt_nat_eqb att (Some k)); [|rewrite app_nil_r; reflexivity].
      unfold add_event. cbn. rewrite map_app. reflexivity. }
    apply storage_ext.
    - intros i. rewrite Eget, !build_get, Hsp. fold l.
      destruct (nth_error (caps f l) (N.to_nat i)) as [[k s]|] eqn:E; [|reflexivity].
      cbn [option_map]. apply caps_nth_inv in E as (A & B & C). rewrite N2Nat.id in C. f_equal.
      rewrite Hsp_b. cbn [fst]. unfold event_added.
      replace (option_eqb N.eqb (option_map (cap_rank f l) att) (Some i)) with (opt_nat_eqb att (Some k));
        [reflexivity|].
      destruct att as [p|] eqn:Ea; cbn; [|reflexivity]. apply nearest_cap_some in Ea as [Ea _].
      subst i. destruct (Nat.eqb_spec p k) as [->|Hpk]; [symmetry; apply N.eqb_refl|].
      symmetry. apply N.eqb_neq. intros Er. apply Hpk. apply (cap_rank_inj f l); auto.
      unfold captured. rewrite A. exact B.
    - rewrite Eev. unfold build. cbn [st_events]. rewrite Hev, indexed_app, map_app. f_equal.
      + apply map_ext. intros ie. unfold build_event. rewrite Hsp. reflexivity.
      + cbn [map]. unfold build_event. cbn [fst snd]. rewrite Hsp. reflexivity.
    - rewrite Ero. unfold build. cbn [st_root_span_ids]. rewrite Hsp. reflexivity.
    - rewrite Ere. unfold build. cbn [st_root_event_ids]. rewrite Hsp, Hev, attached_events_snoc, map_app.
      fold l. fold att. f_equal. destruct att; reflexivity.
  Qed.

  Lemma build_new_event_uncaptured closed a a' :
    a_spans a' = a_spans a -> a_events a' = a_events a -> build f closed a' = build f closed a.
  Proof.
    intros Hsp Hev. unfold build, build_span, build_event. rewrite Hsp, Hev. reflexivity.
  Qed.

  Lemma build_payload_update closed a a' k0 s0 g G :
    nth_error (a_spans a) k0 = Some s0 -> f (as_meta s0) = true -> keeps_skel g ->
    as_follows (g s0) = as_follows s0 ->
    (forall c, mk_spl (as_meta (g s0)) (as_values (g s0)) (as_entered (g s0)) (as_exited (g s0)) c
               = G (mk_spl (as_meta s0) (as_values s0) (as_entered s0) (as_exited s0) c)) ->
    a_spans a' = upd_span (a_spans a) k0 g -> a_events a' = a_events a ->
    on_span_update (build f closed a) (cap_rank f (a_spans a) k0) G = Done (build f closed a').
  Proof.
    intros Hk0 Hf Hg Hfo HG Hsp Hev.
    assert (Hok : id_ok (build f closed a) (cap_rank f (a_spans a) k0) = true).
    { unfold id_ok. apply N.ltb_lt. apply cap_rank_lt_nspans. unfold captured. rewrite Hk0. exact Hf. }
    destruct (on_span_update_effect _ _ G Hok) as (st' & Ep & Eev & Ero & Ere & _ & Eget).
    rewrite Ep. f_equal.
    eapply (build_point_update f closed a a' k0 s0 g (set_payload G)); eauto.
    unfold build_span, set_payload. cbn [fst snd sp_payload sp_id sp_parent_id sp_child_ids sp_event_ids sp_follows_from_ids].
    rewrite Hfo, HG. reflexivity.
  Qed.

  Lemma build_follow closed a a' k0 s0 j0 :
    nth_error (a_spans a) k0 = Some s0 -> f (as_meta s0) = true ->
    a_spans a' = upd_span (a_spans a) k0 (as_follow j0) -> a_events a' = a_events a ->
    on_follows_from (build f closed a) (cap_rank f (a_spans a) k0) (cap_rank f (a_spans a) j0)
    = Done (build f closed a').
  Proof.
    intros Hk0 Hf Hsp Hev.
    assert (Hok : id_ok (build f closed a) (cap_rank f (a_spans a) k0) = true).
    { unfold id_ok. apply N.ltb_lt. apply cap_rank_lt_nspans. unfold captured. rewrite Hk0. exact Hf. }
    destruct (on_follows_from_effect _ _ (cap_rank f (a_spans a) j0) Hok) as (st' & Ep & Eev & Ero & Ere & _ & Eget).
    rewrite Ep. f_equal.
    eapply (build_point_update f closed a a' k0 s0 (as_follow j0)
              (fun r => add_follows r (cap_rank f (a_spans a) j0))); eauto.
    - intros s. split; reflexivity.
    - unfold build_span, add_follows, as_follow. cbn. rewrite map_app. reflexivity.
  Qed.

  Lemma build_close closed a k0 s0 :
    nth_error (a_spans a) k0 = Some s0 -> f (as_meta s0) = true ->
    on_span_update (build f closed a) (cap_rank f (a_spans a) k0) pl_close
    = Done (build f (fun j => if Nat.eqb j k0 then true else closed j) a).
  Proof.
    intros Hk0 Hf.
    assert (Hok : id_ok (build f closed a) (cap_rank f (a_spans a) k0) = true).
    { unfold id_ok. apply N.ltb_lt. apply cap_rank_lt_nspans. unfold captured. rewrite Hk0. exact Hf. }
    destruct (on_span_update_effect _ _ pl_close Hok) as (st' & Ep & Eev & Ero & Ere & _ & Eget).
    rewrite Ep. f_equal. apply storage_ext; try assumption.
    intros i. rewrite Eget, !build_get.
    destruct (nth_error (caps f (a_spans a)) (N.to_nat i)) as [[k s]|] eqn:E; [|reflexivity].
    cbn [option_map]. apply caps_nth_inv in E as (A & B & C). rewrite N2Nat.id in C. f_equal.
    unfold build_span. cbn [fst snd]. destruct (Nat.eqb_spec k k0) as [->|Hne].
    - rewrite C, N.eqb_refl. reflexivity.
    - destruct (N.eqb_spec i (cap_rank f (a_spans a) k0)) as [Ei|_]; [|reflexivity].
      exfalso. apply Hne. apply (cap_rank_inj f (a_spans a)); [| |congruence].
      + unfold captured. rewrite A. exact B.
      + unfold captured. rewrite Hk0. exact Hf.
  Qed.

  Lemma build_close_uncaptured closed a k0 :
    captured f (a_spans a) k0 = false ->
    build f (fun j => if Nat.eqb j k0 then true else closed j) a = build f closed a.
  Proof.
    intros H. apply build_closed_ext. intros k Hk. destruct (Nat.eqb_spec k k0); [congruence | reflexivity].
  Qed.
End BuildOps.
