(** C08 — the receiver never misuses host span ids and never leaks host spans.
    Property theorems only; every proof is [exact <lemma>] (proofs in Tunnel/ReceiverTrack.v and,
    for the judge, Judge/C08.v).

    Vocabulary.  [track_all opn calls = Some opn'] (ReceiverSpec.v): the strict tracker, started
    with the set [opn] of open host ids, accepts [calls]: every id in every call is open when the
    call is made, [new_span] returns an id that is not open, [try_close] hits an open id.
    [TInv st w opn]: every host id in the local map is open, the local map is injective, every open
    id was issued by this host ([<= w_next w]).  [Exact local opn]: the open ids are exactly the range
    of the local map.  [hist_scope]: no step re-announces an alive span id (C06's proviso).
    [hist_calls h steps]: all host calls of the history, in order (receive calls, forced exits of
    persist, exits and closes of drop, call-site registrations of the restored receiver). *)
From TT Require Import Tunnel.TypesProofs Tunnel.ReceiverSpec Tunnel.ReceiverInv Tunnel.ReceiverHistInv
  Tunnel.ReceiverTrack Tunnel.ReceiverOrder Tunnel.ReceiverOrderProofs Tunnel.ReceiverRestoreOrder
  Tunnel.ReceiverRestoreOrderProofs Judge.C08 Judge.RecvProofs Judge.RecvOk Judge.RecvOkOfCorr.
From stdpp Require Import gmap.
Open Scope N_scope.

(** * Clause 1: ids passed to the host are open; new ids fresh; closes hit open ids *)

(** one event, any state satisfying the invariants (accepted, rejected or not) *)
Theorem C08_event_ids_valid : forall st w opn ev o st' w' calls,
  Inv st -> TInv st w opn -> no_reannounce st ev = true ->
  try_receive st w ev = (o, st', w', calls) ->
  exists opn', track_all opn calls = Some opn' /\ TInv st' w' opn' /\
               (Exact (r_local st) opn -> Exact (r_local st') opn').
Proof. exact try_receive_track. Qed.

(** [persist]: the forced exits use open ids only and leave the tracker unchanged *)
Theorem C08_persist_ids_valid : forall st w opn spans local exits,
  TInv st w opn -> persist st = (spans, local, exits) ->
  spans = r_spans st /\ local = r_local st /\ track_all opn exits = Some opn.
Proof. exact persist_track. Qed.

(** [Drop]: exits, then closes of distinct open ids *)
Theorem C08_drop_ids_valid : forall st w opn,
  TInv st w opn ->
  exists opn', track_all opn (drop_calls st) = Some opn' /\ forall h, h ∈ opn' -> h ∈ opn.
Proof. exact drop_calls_track. Qed.

(** [new] with the local map carried over intact ([local] = the persisted one) or lost ([local] = ∅,
    for which the premise holds as soon as the open ids were issued by this host) *)
Theorem C08_restore_ids_valid : forall w md spans local opn st' w' regs,
  TInvL local (w_next w) opn -> restore w md spans local = (st', w', regs) ->
  track_all opn regs = Some opn /\ TInv st' w' opn /\ r_local st' = local /\ w_next w' = w_next w.
Proof. exact restore_TInv. Qed.

Theorem C08_lost_map_invariant : forall n opn,
  (forall h, h ∈ opn -> (h <= n)%N) -> TInvL ∅ n opn.
Proof. exact TInvL_empty. Qed.

(** one step of a history *)
Theorem C08_step_ids_valid : forall h s opn,
  HInv h -> TInv (h_st h) (h_w h) opn -> step_scope h s ->
  exists opn', track_all opn (mobs_calls (hist_step h s).2) = Some opn' /\
               TInv (h_st (hist_step h s).1) (h_w (hist_step h s).1) opn' /\
               (keep_step s -> Exact (r_local (h_st h)) opn ->
                Exact (r_local (h_st (hist_step h s).1)) opn').
Proof. exact hist_step_track. Qed.

(** whole histories, from any state satisfying the invariants *)
Theorem C08_history_ids_valid_from : forall steps h opn,
  HInv h -> TInv (h_st h) (h_w h) opn -> hist_scope h steps ->
  exists opn', track_all opn (hist_calls h steps) = Some opn' /\
               TInv (h_st (hist_final h steps)) (h_w (hist_final h steps)) opn' /\
               (keep_only steps -> Exact (r_local (h_st h)) opn ->
                Exact (r_local (h_st (hist_final h steps))) opn').
Proof. exact hist_track. Qed.

(** whole histories from the initial receiver: the tracker started from the empty set accepts
    every call, i.e. every id was issued to this chain and not yet closed *)
Theorem C08_history_ids_valid : forall steps,
  hist_scope hist_init steps ->
  exists opn, track_all ∅ (hist_calls hist_init steps) = Some opn /\
              TInv (h_st (hist_final hist_init steps)) (h_w (hist_final hist_init steps)) opn.
Proof. exact hist_ids_valid. Qed.

(** what acceptance by the tracker means for a single call inside a sequence *)
Theorem C08_tracker_accepts_means : forall opn a c b o,
  track_all opn (a ++ c :: b) = Some o ->
  exists o1, track_all opn a = Some o1 /\ (forall h, In h (ids_used c) -> h ∈ o1) /\
             match c with
             | HNewSpan h _ _ _ => h ∉ o1
             | HTryClose h => h ∈ o1
             | _ => True
             end.
Proof. exact track_all_use. Qed.

(** after the local map is lost (persist-lose or drop) the ids issued before are never used again *)
Theorem C08_lost_ids_never_used : forall steps h,
  HInv h -> r_local (h_st h) = ∅ -> hist_scope h steps ->
  exists opn, track_all ∅ (hist_calls h steps) = Some opn.
Proof. exact lost_ids_never_used. Qed.

Theorem C08_lose_step_empties_local : forall h s,
  s = SPersist false \/ s = SDrop -> r_local (h_st (hist_step h s).1) = ∅.
Proof. exact lose_step_local_empty. Qed.

(** * Clause 2: no host span is closed twice *)

(** for any host: between two closes of the same id the host has issued that id again *)
Theorem C08_no_double_close : forall opn a b c o h,
  track_all opn (a ++ HTryClose h :: b ++ HTryClose h :: c) = Some o ->
  exists md p vs, In (HNewSpan h md p vs) b.
Proof. exact track_no_double_close. Qed.

(** for the model host (fresh ids): no id is closed twice in the whole history *)
Theorem C08_close_once : forall steps,
  hist_scope hist_init steps -> NoDup (closed (hist_calls hist_init steps)).
Proof. exact hist_close_once. Qed.

(** * Clauses 1 and 2 for every order the code may pick

    The finalisation batches and the registrations of a restored receiver come from iterating hash
    containers; [obs_reorder] (Tunnel/ReceiverOrder.v) relates a step's observation to the same
    observation with the exits permuted, then the closes permuted, and the registrations permuted. *)
Theorem C08_history_ids_valid_any_order : forall steps obs',
  hist_scope hist_init steps -> Forall2 obs_reorder (hist_run hist_init steps) obs' ->
  exists opn, track_all ∅ (flat_map mobs_calls obs') = Some opn /\
              TInv (h_st (hist_final hist_init steps)) (h_w (hist_final hist_init steps)) opn.
Proof. exact hist_ids_valid_any_order. Qed.

Theorem C08_close_once_any_order : forall steps obs',
  hist_scope hist_init steps -> Forall2 obs_reorder (hist_run hist_init steps) obs' ->
  NoDup (closed (flat_map mobs_calls obs')).
Proof. exact hist_close_once_any_order. Qed.

(** the iteration orders as a parameter of the model ([hist_run_ord], Tunnel/ReceiverRestoreOrder.v):
    for every choice of orders in every restore and every finalisation, the run in those orders is
    accepted by the strict tracker and closes no id twice *)
Theorem C08_history_ids_valid_every_order : forall orc steps,
  oracle_ok orc -> hist_scope hist_init steps ->
  exists opn, track_all ∅ (flat_map mobs_calls (hist_run_ord orc hist_init steps)) = Some opn /\
              TInv (h_st (hist_final_ord orc hist_init steps)) (h_w (hist_final_ord orc hist_init steps)) opn.
Proof. exact hist_ids_valid_every_order. Qed.

Theorem C08_close_once_every_order : forall orc steps,
  oracle_ok orc -> hist_scope hist_init steps ->
  NoDup (closed (flat_map mobs_calls (hist_run_ord orc hist_init steps))).
Proof. exact hist_close_once_every_order. Qed.

(** [new] in any order of the persisted metadata: same receiver, same set of interned call sites,
    the same registrations up to order *)
Theorem C08_restore_in_any_order : forall w md pi spans local,
  pi ≡ₚ map_to_list md ->
  let '(st, w', regs) := restore w md spans local in
  let '(st2, w2, regs2) := restore_in_order w pi spans local in
  st2 = st /\ arena_equiv w' w2 /\ reg_reorder regs regs2.
Proof. exact restore_in_order_spec. Qed.

(** the strict tracker cannot tell two such orders apart *)
Theorem C08_tracker_order_insensitive : forall opn l l',
  reorder l l' -> track_all opn l = track_all opn l'.
Proof. exact track_all_reorder. Qed.

(** On every history on which the judge found the implementation equal to the model
    ([corr_history]), the calls the implementation really made - every batch in the order in which
    it was made - are accepted by the strict tracker, and no host id is closed twice. *)
Theorem C08_implementation_calls_valid : forall steps impl,
  hist_scope hist_init steps -> corr_history steps impl = true ->
  (exists opn, track_all ∅ (flat_map iobs_calls impl) = Some opn) /\
  NoDup (closed (flat_map iobs_calls impl)).
Proof. exact impl_calls_tracked. Qed.

(** * Clause 3: the host span is closed exactly once, at the drop of the last handle *)
Theorem C08_close_at_last_drop : forall st w id d o st' w' calls,
  Inv st -> r_spans st !! id = Some d ->
  try_receive st w (ESpanDropped id) = (o, st', w', calls) ->
  o = Accepted /\ w' = w /\
  if (sd_refs d =? 1)%N then
    r_spans st' = delete id (r_spans st) /\ r_local st' = delete id (r_local st) /\
    calls = match r_local st !! id with Some h => [HTryClose h] | None => [] end
  else
    calls = [] /\ r_local st' = r_local st /\
    r_spans st' = <[id := mk_sd (sd_meta d) (sd_parent d) (sd_refs d - 1) (sd_values d)]> (r_spans st).
Proof. exact close_at_last_drop. Qed.

Theorem C08_close_only_at_last_drop : forall st w ev o st' w' calls h,
  try_receive st w ev = (o, st', w', calls) -> In (HTryClose h) calls ->
  exists id d, ev = ESpanDropped id /\ r_spans st !! id = Some d /\ sd_refs d = 1%N /\
               r_local st !! id = Some h /\ calls = [HTryClose h].
Proof. exact close_only_at_last_drop. Qed.

Theorem C08_clone_not_forwarded : forall st w id o st' w' calls,
  try_receive st w (ESpanCloned id) = (o, st', w', calls) ->
  calls = [] /\ w' = w /\ r_local st' = r_local st.
Proof. exact clone_no_calls. Qed.

(** * Clause 4: with the local map preserved nothing leaks *)

(** receive / persist-keep histories: the open host spans are exactly those of the local map *)
Theorem C08_keep_exact : forall steps,
  hist_scope hist_init steps -> keep_only steps ->
  exists opn, track_all ∅ (hist_calls hist_init steps) = Some opn /\
              Exact (r_local (h_st (hist_final hist_init steps))) opn.
Proof. exact hist_keep_exact. Qed.

(** ... hence a completed execution (no guest span alive) leaves an empty local map and no host
    span issued to this chain open *)
Theorem C08_complete_run_clean : forall steps opn,
  hist_scope hist_init steps -> keep_only steps ->
  track_all ∅ (hist_calls hist_init steps) = Some opn ->
  r_spans (h_st (hist_final hist_init steps)) = ∅ ->
  r_local (h_st (hist_final hist_init steps)) = ∅ /\ opn = ∅.
Proof. exact complete_run_clean. Qed.

(** "no guest span alive" in terms of the events: the alive spans follow the reference fold *)
Theorem C08_alive_spans_follow_spec : forall st w ev st' w' calls,
  Inv st -> try_receive st w ev = (Accepted, st', w', calls) ->
  r_spans st' = spec_step (r_spans st) ev.
Proof. exact accepted_spans_spec. Qed.

(** * The judge *)
Theorem C08_scope_b_spec : forall steps h, hist_scope_b h steps = true <-> hist_scope h steps.
Proof. exact hist_scope_b_spec. Qed.

(** the executable statement [ok_c08] holds of the model's own observations on every history in
    scope; on a correspondence case the implementation's observations equal the model's
    ([corr_history]), so [PropFail] without [Mismatch] cannot happen *)
(** whenever the judge finds model and implementation equal on a history in scope, the
    implementation's own observations satisfy both executable statements ([ok_c08]: ids valid against
    the snapshots; [refs_ok]: handle counts recomputed from the history): a [PropFail] without a
    [Mismatch] is impossible *)
Theorem C08_judge_ok_whenever_corr : forall steps impl,
  hist_scope hist_init steps -> corr_history steps impl = true ->
  ok_c08 steps impl && refs_ok steps impl = true.
Proof. exact judge_c08_ok_of_corr. Qed.

Theorem C08_judge_agrees_whenever_corr : forall steps impl,
  hist_scope hist_init steps -> corr_history steps impl = true -> judge_c08 steps impl = Agree.
Proof. exact judge_c08_agree_of_corr. Qed.

Theorem C08_judge_ok_on_model : forall steps,
  hist_scope hist_init steps -> ok_c08 steps (map iobs_of (hist_run hist_init steps)) = true.
Proof. exact ok_c08_model. Qed.

(** the handle counts recomputed from the accepted events of the history alone ([refs_ok]: [NewSpan]
    gives one, a clone adds one, a drop takes one away and forgets the span at zero, persist commits,
    drop rolls back) are the counts of the model's persisted spans after every step: the host span is
    closed exactly when the GUEST's last handle goes, not when the receiver's own bookkeeping says so *)
Theorem C08_handle_counts_from_history : forall steps,
  hist_scope hist_init steps -> refs_ok steps (map iobs_of (hist_run hist_init steps)) = true.
Proof. exact refs_ok_model. Qed.

(** * Non-vacuity *)
Definition ex_cs : cs_data :=
  mk_cs KSpan "s"%string "t"%string LInfo None None None ["f0"%string].

(** clone / drop, nested enters, a persist keeping the map (the host ids 1, 2 stay usable), a
    persist losing it (guest span 1 is re-created lazily as host span 3; host span 1 stays open
    in the tracker and is never used again), a drop *)
Definition ex_steps : list hstep :=
  [ SRecv (ENewCallSite 0 ex_cs);
    SRecv (ENewSpan 1 None 0 []);
    SRecv (ENewSpan 2 (Some 1) 0 [("f0"%string, VInt 1)]);
    SRecv (ESpanCloned 2);
    SRecv (ESpanEntered 1);
    SRecv (ESpanEntered 2);
    SPersist true;
    SRecv (ESpanDropped 2);
    SRecv (ESpanEntered 2);
    SRecv (ESpanExited 2);
    SRecv (ESpanDropped 2);
    SPersist false;
    SRecv (ESpanEntered 1);
    SRecv (ESpanExited 1);
    SRecv (ENewSpan 5 (Some 1) 0 []);
    SDrop;
    SRecv (ESpanDropped 1) ].

(** a completed execution with the map kept throughout *)
Definition ex_complete : list hstep :=
  [ SRecv (ENewCallSite 0 ex_cs);
    SRecv (ENewSpan 1 None 0 []);
    SRecv (ESpanEntered 1);
    SRecv (ENewSpan 2 (Some 1) 0 []);
    SRecv (ESpanCloned 2);
    SPersist true;
    SRecv (ESpanDropped 1);
    SRecv (ESpanEntered 2);
    SRecv (ESpanEntered 2);
    SRecv (ESpanExited 2);
    SRecv (ESpanDropped 2);
    SPersist true;
    SRecv (ESpanExited 2);
    SRecv (ESpanDropped 2) ].

Example C08_example :
  hist_scope_b hist_init ex_steps = true
  /\ closed (hist_calls hist_init ex_steps) = [2; 4]%N
  /\ issued (hist_calls hist_init ex_steps) = [1; 2; 3; 4]%N
  /\ option_map elements (track_all ∅ (hist_calls hist_init ex_steps)) = Some [1; 3]%N
  /\ ok_c08 ex_steps (map iobs_of (hist_run hist_init ex_steps)) = true
  /\ hist_scope_b hist_init ex_complete = true
  /\ forallb keep_step_b ex_complete = true
  /\ closed (hist_calls hist_init ex_complete) = [1; 2]%N
  /\ option_map elements (track_all ∅ (hist_calls hist_init ex_complete)) = Some []
  /\ map_to_list (r_local (h_st (hist_final hist_init ex_complete))) = []
  /\ judge_c08 ex_complete (map iobs_of (hist_run hist_init ex_complete)) = Agree
  (* the tracker is strict: a second close, or the use of a closed id, is refused *)
  /\ track_all ∅ [HNewSpan 1 ex_cs PCtx []; HTryClose 1; HTryClose 1] = None
  /\ track_all ∅ [HNewSpan 1 ex_cs PCtx []; HTryClose 1; HEnter 1] = None
  /\ track_all ∅ [HEnter 7] = None.
Proof. vm_compute. repeat split. Qed.
