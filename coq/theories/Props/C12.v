(** C12 — the sender emits a well-formed, faithful stream with unique span ids.
    Property theorems only; every proof is [exact <lemma>].

    Vocabulary.
    [prog] (Guest/Program.v): a guest program, ops on spans named by creation index; [wf_prog_b]:
    what the safe [tracing] API permits.
    [front_run alloc enabled p] (Guest/Front.v): the calls [tracing] makes on the subscriber
    ([scall]; environment model), [alloc n] = id returned by the n-th [new_span] call.
    [sender_event mid sites c] (Tunnel/Sender.v): the one event the sender emits from subscriber
    call [c]; [mid cs] = metadata id (address) of call site [cs].
    [sender_run mid p] = events of [p] under a fresh sender; [sender_run_from start mid p] under a
    sender whose 32-bit counter starts at [start]; [op_events] drops the [NewCallSite] announcements.
    [sender_alloc n] = id of the n-th span of a fresh sender: [(1 + n) mod 2^32], [None] when that
    is 0 ([Id::from_u64 0] panics).  [known_id_wrap n] = [2^32 - 1 <=? n]: the known class (F9) of
    allocations made after [2^32 - 1] spans.
    [spec_events mid sites [] ops]: one entry per op, in program order: the event carrying the op's
    span ids (creation index k has id k + 1), explicit parent and captured values
    ([captured] = C14's specification of value capture).
    [arun a_init evs] (Tunnel/ReceiverAbs.v): outcomes and final state of the abstract receiver.
    [crun sched]: ids handed out when the threads listed in [sched] perform their atomic
    [fetch_add] steps in that order. *)
From stdpp Require Import gmap.
From TT Require Import Tunnel.ReceiverAbs Tunnel.Sender Tunnel.SenderProofs Judge.C12 Judge.C12Proofs.

(** ** exactly one event per subscriber call, in order *)
Theorem C12_one_event_per_call : forall start mid p,
  let calls := fst (front_run (sender_alloc_from start) all_enabled p) in
  sender_run_from start mid p = map (sender_event mid (p_sites p)) calls
  /\ op_events (sender_run_from start mid p) = map (sender_event mid (p_sites p)) (op_calls calls)
  /\ List.length (sender_run_from start mid p) = List.length calls.
Proof. exact sender_image_proof. Qed.

(** ** exactly one non-announcement event per op of the program, in program order, carrying the
    op's span ids, explicit parent and captured values; the guest's calls do not panic *)
Theorem C12_sender_one_per_op : forall mid p,
  wf_prog_b p = true -> spans_created (p_ops p) <= U32 - 1 ->
  sender_panicked p = false
  /\ map Some (op_events (sender_run mid p)) = spec_events mid (p_sites p) [] (p_ops p)
  /\ List.length (op_events (sender_run mid p)) = List.length (p_ops p).
Proof. exact sender_one_per_op_proof. Qed.

(** the same for arbitrary (also ill-formed) programs: ops on spans that were never created yield
    nothing, every other op its event *)
Theorem C12_sender_closed_form : forall mid p,
  spans_created (p_ops p) <= U32 - 1 ->
  sender_panicked p = false
  /\ op_events (sender_run mid p) = somes (spec_events mid (p_sites p) [] (p_ops p)).
Proof. exact sender_run_closed. Qed.

(** ** every call site used by a span or event was announced earlier, with the site's description
    (every program, every counter start) *)
Theorem C12_sender_announces_before_use : forall start mid p pre ev post m,
  sender_run_from start mid p = pre ++ ev :: post ->
  event_meta ev = Some m ->
  exists cs, m = mid cs /\ In (ENewCallSite (mid cs) (site_data (p_sites p) cs)) pre.
Proof. exact sender_announces_before_use_proof. Qed.

Theorem C12_announcements_content : forall start mid p m d,
  In (ENewCallSite m d) (sender_run_from start mid p) ->
  exists cs, m = mid cs /\ d = site_data (p_sites p) cs.
Proof. exact sender_announcements_content_proof. Qed.

(** ** the stream of a well-formed program is well-formed: the abstract receiver accepts every
    event (span ids referenced only between creation and last drop, call sites known, at most 32
    values), and ends with exactly the spans that still have handles, with the program's handle
    counts *)
Theorem C12_sender_wf : forall mid p,
  wf_prog_b p = true -> spans_created (p_ops p) <= U32 - 1 ->
  exists st, sym_run false p = Some st
    /\ Forall (fun o => o = Accepted) (fst (arun a_init (sender_run mid p)))
    /\ (forall id, sd_refs <$> (a_spans (snd (arun a_init (sender_run mid p))) !! id) = live_refs st id)
    /\ sender_panicked p = false.
Proof. exact sender_wf_proof. Qed.

(** ** span ids are non-zero and never reused while fewer than 2^32 - 1 spans have been created *)
Theorem C12_ids_fresh :
  (forall n, known_id_wrap n = false -> exists id, sender_alloc n = Some id /\ id <> 0 /\ id < U32)
  /\ (forall n m, known_id_wrap n = false -> known_id_wrap m = false -> n <> m ->
      sender_alloc n <> sender_alloc m).
Proof. exact ids_fresh_alloc. Qed.

Theorem C12_stream_ids_fresh : forall mid p,
  spans_created (p_ops p) <= U32 - 1 ->
  NoDup (new_span_ids (sender_run mid p))
  /\ Forall (fun id => id <> 0 /\ id < U32) (new_span_ids (sender_run mid p))
  /\ List.length (new_span_ids (sender_run mid p)) = nspans (p_ops p).
Proof. exact sender_ids_fresh_proof. Qed.

(** the bound of the two theorems above is the complement of the known class *)
Theorem C12_known_class_is_the_bound : forall p,
  prog_wraps 1 p = false <-> spans_created (p_ops p) <= U32 - 1.
Proof. exact prog_wraps_false. Qed.

(** ** ids handed out to concurrently running threads: for every schedule of any number of threads
    making at most 2^32 - 1 allocations in total, all ids are pairwise distinct (also across
    threads), non-zero, and every thread receives one id per allocation it makes *)
Theorem C12_ids_fresh_interleaved : forall sched,
  N.of_nat (List.length sched) <= U32 - 1 ->
  let out := crun sched in
  NoDup (map snd out)
  /\ Forall (fun id => id <> 0 /\ id < U32) (map snd out)
  /\ (forall t, List.length (ids_of t out) = count_occ Nat.eq_dec sched t)
  /\ (forall t1 t2 id, In id (ids_of t1 out) -> In id (ids_of t2 out) -> t1 = t2).
Proof. exact ids_fresh_interleaved_proof. Qed.

(** ** the model's allocator is the atomic counter of the code: iterating [fetch_add] from [start]
    and applying [Id::from_u64]'s check gives [sender_alloc_from start]; a sender at [start] is a
    fresh sender that has created [start - 1] spans *)
Theorem C12_alloc_is_fetch_add : forall start n,
  start < U32 -> fst (sender_new_id (ctr_after start n)) = sender_alloc_from start (N.of_nat n).
Proof. exact sender_new_id_closed. Qed.

Theorem C12_start_offset : forall start n,
  1 <= start -> sender_alloc_from start n = sender_alloc (start - 1 + n).
Proof. exact sender_alloc_from_shift. Qed.

(** ** KNOWN FINDING (F9, span-id-wrap): without the bound the freshness statement is false: the
    allocation made after 2^32 - 1 spans yields 0 — the [NewSpan] event carries id 0 and the guest's
    tracing call panics in [Id::from_u64] — and the next one repeats the first id *)
Theorem C12_ids_wrap_refuted :
  (exists n, known_id_wrap n = true /\ sender_alloc n = None)
  /\ (exists n m, n <> m /\ known_id_wrap m = true /\ sender_alloc n = sender_alloc m /\ sender_alloc n <> None)
  /\ ~ (forall n, exists id, sender_alloc n = Some id /\ id <> 0)
  /\ ~ (forall n m, n <> m -> sender_alloc n <> sender_alloc m).
Proof. exact ids_wrap_refuted_proof. Qed.

Example C12_wrap_witness :
  known_id_wrap (2 ^ 32 - 1) = true /\ sender_alloc (2 ^ 32 - 1) = None
  /\ known_id_wrap (2 ^ 32) = true /\ sender_alloc (2 ^ 32) = sender_alloc 0 /\ sender_alloc 0 = Some 1.
Proof. vm_compute. repeat split. Qed.

(** the same on a program: a sender two steps before the wrap (counter at 2^32 - 1, as after
    2^32 - 2 spans) running a program that creates two spans *)
Example C12_wrap_program :
  let p := mk_prog ex_sites [ (0, ONewSpan 2 PKCtx []); (0, ONewSpan 2 PKCtx []); (0, OEnter 0) ]%nat in
  wf_prog_b p = true /\ prog_wraps (2 ^ 32 - 1) p = true
  /\ sender_run_from (2 ^ 32 - 1) N.of_nat p
     = [ ENewCallSite 2 (site_data ex_sites 2); ENewSpan 4294967295 None 2 []; ENewSpan 0 None 2 [] ]
  /\ sender_panicked_from (2 ^ 32 - 1) p = true.
Proof. vm_compute. repeat split. Qed.

(** ** Non-vacuity *)
Example C12_example_fib :
  wf_prog_b ex_fib = true /\ prog_wraps 1 ex_fib = false
  /\ sender_run N.of_nat ex_fib
     = [ ENewCallSite 0 (site_data ex_sites 0);
         ENewSpan 1 None 0 [("iter", VUInt 5)]%string;
         ESpanEntered 1;
         ENewCallSite 1 (site_data ex_sites 1);
         ENewEvent 1 None [("message", VObj "performing iteration"); ("current", VUInt 1)]%string;
         ENewEvent 1 None [("message", VObj "performing iteration"); ("current", VUInt 2)]%string;
         EValuesRecorded 1 [("approx", VFloat 4617315517961601024)]%string;
         ESpanExited 1;
         ESpanDropped 1;
         ENewEvent 1 None [("message", VObj "computed"); ("current", VInt (-1))]%string ]
  /\ fst (arun a_init (sender_run N.of_nat ex_fib)) = repeat Accepted 10
  /\ a_alive (snd (arun a_init (sender_run N.of_nat ex_fib))) 1 = false.
Proof. vm_compute. repeat split. Qed.

Example C12_example_explicit_parent :
  wf_prog_b ex_explicit_parent = true
  /\ op_events (sender_run N.of_nat ex_explicit_parent)
     = [ ENewSpan 1 None 0 []; ENewSpan 2 (Some 1) 2 []; ESpanCloned 1; ESpanDropped 1; ESpanDropped 1;
         ESpanEntered 2; ENewEvent 1 (Some 2) [("current", VBool true)]%string; ESpanExited 2;
         EFollowsFrom 2 2; ESpanDropped 2 ]
  /\ Forall (fun o => o = Accepted) (fst (arun a_init (sender_run N.of_nat ex_explicit_parent))).
Proof. vm_compute. repeat split; repeat constructor. Qed.

(** Link to the check: the judge's executable statement ([sender_ok]: one event per call, call
    sites announced before use, ids non-zero / fresh / used only while alive, stream accepted by the
    abstract receiver, events faithful to the operations) is a consequence of the theorems - for the
    model's own output from every counter start, and for ANY observation the correspondence accepts
    (given the three conjuncts about the position of announcements and foreign traffic, which the
    correspondence does not determine and each of which is shown to be needed).  Inside the known
    class the verdict is [Agree] or [KnownF 1], never [PropFail]. *)
Theorem C12_judge_agrees_on_model : forall start p,
  sender_hyp start p = true -> prog_wraps start p = false ->
  judge_sender start p (model_sobs start p) = Agree.
Proof. exact judge_sender_model. Qed.

Theorem C12_judge_ok_whenever_corr : forall start p o,
  sender_hyp start p = true -> prog_wraps start p = false ->
  sender_corr start p o = true ->
  zip_all (call_event_match (p_sites p)) (so_calls o) (so_events o) = true ->
  (so_foreign_calls o =? so_foreign_events o) = true ->
  announced_b (p_sites p) [] (so_events o) = true ->
  sender_ok p o = true.
Proof. exact sender_ok_of_corr. Qed.

Theorem C12_judge_known_class_never_propfail : forall start p o,
  sender_hyp start p = true -> prog_wraps start p = true -> sender_corr start p o = true ->
  judge_sender start p o = Agree \/ judge_sender start p o = KnownF 1.
Proof. exact judge_sender_corr_known. Qed.

(** concurrent allocation: the id conjuncts of the concurrent judge follow from the interleaving
    theorem whenever the correspondence holds *)
Theorem C12_conc_judge_ids_whenever_corr : forall start counts sched o,
  conc_hyp start counts sched = true -> conc_corr start counts sched o = true ->
  nodup_N (List.concat (co_ids o)) = true
  /\ forallb (fun id => negb (id =? 0)) (List.concat (co_ids o)) = true
  /\ list_eqb Nat.eqb (map (@List.length N) (co_ids o)) counts = true.
Proof. exact conc_ids_ok. Qed.

Example C12_example_schedule :
  crun [0; 1; 0; 2; 1]%nat = [(0%nat, 1); (1%nat, 2); (0%nat, 3); (2%nat, 4); (1%nat, 5)]
  /\ ids_of 0%nat (crun [0; 1; 0; 2; 1]%nat) = [1; 3]
  /\ crun_from (2 ^ 32 - 1) [0; 1; 0]%nat = [(0%nat, 4294967295); (1%nat, 0); (0%nat, 1)].
Proof. vm_compute. repeat split. Qed.
