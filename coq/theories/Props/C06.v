(** C06 — the receiver is total and rejects exactly the invalid events.
    Property theorems only; every proof is [exact <lemma>]. *)
From TT Require Import Tunnel.ReceiverAbs Tunnel.ReceiverInv Tunnel.ReceiverHistInv Tunnel.ReceiverAbsProofs.
From TT Require Import Judge.Recv Judge.RecvOk Judge.RecvOkProofs Judge.RecvOkOfCorr Judge.C06.
From stdpp Require Import gmap.
Local Open Scope N_scope.

(** No step of any history (events arbitrary except for C06's proviso, receivers default or
    restored from state produced earlier in the same history, local map kept or lost, roll-backs)
    panics. *)
Theorem C06_never_panics : forall steps,
  hist_scope hist_init steps -> Forall (fun o => is_panic o = false) (hist_run hist_init steps).
Proof. exact (fun steps => hist_total steps hist_init HInv_init). Qed.

(** Every state reachable by such a history satisfies the invariant under which the
    single-event theorems below are stated. *)
Theorem C06_reachable_states_invariant : forall steps,
  hist_scope hist_init steps -> Inv (h_st (hist_final hist_init steps)).
Proof. exact reachable_Inv. Qed.

Theorem C06_total : forall st w ev o st' w' calls,
  Inv st -> try_receive st w ev = (o, st', w', calls) -> o <> Panicked.
Proof. exact recv_total. Qed.

(** An event is rejected exactly when it is invalid: it refers to a call site never announced,
    to a span that is not alive, or carries more than 32 values. *)
Theorem C06_rejects_exactly_invalid : forall st w ev o st' w' calls,
  Inv st -> no_reannounce st ev = true -> try_receive st w ev = (o, st', w', calls) ->
  ((exists e, o = Rejected e) <-> valid st ev = false).
Proof. exact recv_rejects_iff. Qed.

(** The reported error names an applicable reason. *)
Theorem C06_reason_applicable : forall st w ev e st' w' calls,
  Inv st -> no_reannounce st ev = true -> try_receive st w ev = (Rejected e, st', w', calls) ->
  applicable st ev e.
Proof. exact recv_reason. Qed.

(** More precisely, outcome and persistable state are those of the abstract receiver, which looks
    only at the known call sites and the alive spans. *)
Theorem C06_outcome_is_reference_outcome : forall st w ev o st' w' calls,
  Inv st -> no_reannounce st ev = true -> try_receive st w ev = (o, st', w', calls) ->
  astep (abs st) ev = (o, abs st').
Proof. exact try_receive_refines. Qed.

(** Link to the check: on every history in scope the model's own observations pass the executable
    statement the judge evaluates on the implementation's observations ([ok_c06]: no panic, outcome =
    reference outcome computed from the observed state; [ok_abstract]: outcomes and span states are
    the abstract receiver's).  So whenever the correspondence holds on a case, the statement holds. *)
Theorem C06_judge_ok_on_model : forall steps,
  hist_scope hist_init steps ->
  ok_c06 snap_empty steps (map iobs_of (hist_run hist_init steps)) = true.
Proof. exact ok_c06_model. Qed.

Theorem C06_judge_abstract_ok_on_model : forall steps,
  hist_scope hist_init steps ->
  ok_abstract ah_init steps (map iobs_of (hist_run hist_init steps)) = true.
Proof. exact ok_abstract_model. Qed.

(** ... and on the observations of ANY run that the correspondence check accepts: whenever the judge
    finds model and implementation equal on a history in scope, the implementation's own observations
    satisfy the executable statement, so a [PropFail] without a [Mismatch] is impossible. *)
Theorem C06_judge_ok_whenever_corr : forall steps impl,
  hist_scope hist_init steps -> corr_history steps impl = true -> ok_c06 snap_empty steps impl = true.
Proof. exact ok_c06_of_corr. Qed.

Theorem C06_judge_abstract_ok_whenever_corr : forall steps impl,
  hist_scope hist_init steps -> corr_history steps impl = true -> ok_abstract ah_init steps impl = true.
Proof. exact ok_abstract_of_corr. Qed.

Theorem C06_judge_agrees_whenever_corr : forall steps impl,
  hist_scope hist_init steps -> corr_history steps impl = true -> judge_c06 steps impl = Agree.
Proof. exact judge_c06_agree_of_corr. Qed.

(** Non-vacuity: the repaired F2 and F3 histories (restored without the local map) run without a
    panic or a rejection; a bogus event on the default receiver is rejected. *)
Definition ex_cs (n : nat) : cs_data :=
  mk_cs KSpan "s" "t" LInfo None None None (map (fun i => String (Ascii.ascii_of_nat (65 + i)%nat) EmptyString) (seq 0 n)).
Definition ex_vals (a n : nat) : tvalues :=
  map (fun i => (String (Ascii.ascii_of_nat (65 + i)%nat) EmptyString, VInt (Z.of_nat i))) (seq a n).
Example C06_example :
  map outcome_of (hist_run hist_init
    [SRecv (ENewCallSite 0 (ex_cs 40%nat)); SRecv (ENewSpan 1 None 0 (ex_vals 0%nat 20%nat));
     SRecv (EValuesRecorded 1 (ex_vals 20%nat 20%nat)); SPersist false; SRecv (ESpanEntered 1);
     SRecv (ENewSpan 2 (Some 1) 0 []); SRecv (ESpanDropped 1); SPersist false; SRecv (ESpanEntered 2);
     SRecv (ESpanEntered 7)])
  = [Some Accepted; Some Accepted; Some Accepted; None; Some Accepted; Some Accepted; Some Accepted; None;
     Some Accepted; Some (Rejected (UnknownSpan 7))].
Proof. vm_compute. reflexivity. Qed.
