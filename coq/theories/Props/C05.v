(** C05 — what the capture layer stores is exactly what the traced program did.
    Property theorems only; every proof is [exact <lemma>].

    [layer_run filter ids p] ([Capture/Layer.v]): the callbacks of [CaptureLayer] transcribed from
    [capture/src/layer.rs], run over the model of [tracing_subscriber::Registry] ([Host/Registry.v])
    on the subscriber calls of guest program [p]; [ids]: the ids the Registry issued (any list).
    [spec_storage filter ids p] ([Capture/LayerSpec.v]): the reference interpreter written from the
    property text (logical parents, nearest captured ancestor, values, enter/exit counts, follows-from
    edges among captured spans, closed = no handle, not entered, no open child), then the storage read
    off the final forest. *)
From TT Require Import Capture.LayerProofs Capture.Footprint Judge.C05C16Proofs.

(** The whole captured forest — spans and events the filter enabled, in emission order, metadata,
    values, parent links, child / event / follows-from lists, root lists, enter and exit counts, closed
    flags — is the one the specification prescribes.  For every filter (any predicate on metadata),
    every well-formed program - its operations assigned to threads in any way, i.e. every interleaving at
    callback granularity of any number of threads (enter / exit on the issuing thread's own stack) -
    and every id assignment. *)
Theorem C05_capture_refines_spec :
  forall (filter : cs_data -> bool) (ids : list N) (p : prog),
    wf_prog p ->
    storage_of (layer_run filter ids p) = Some (spec_storage filter ids p).
Proof.
  exact (fun filter ids p Hwf => capture_refines_spec filter ids p (wf_prog_stale_of_wf p Hwf)).
Qed.

(** the same for programs that also name stale ids in follows-from (the programs of C16) *)
Theorem C05_capture_refines_spec_stale :
  forall (filter : cs_data -> bool) (ids : list N) (p : prog),
    wf_prog_stale p ->
    storage_of (layer_run filter ids p) = Some (spec_storage filter ids p).
Proof. exact capture_refines_spec. Qed.

(** The invariants at the end of every run: Registry reference counts = live handles + stack entry
    + open children (and a span is gone iff all three are zero); a span carries the layer's extension
    iff the filter enabled it, the captured id being its rank among enabled spans; the Registry holds
    exactly the spans that are open in the specification; closed flags = spans the Registry closed. *)
Theorem C05_run_invariants :
  forall (filter : cs_data -> bool) (ids : list N) (p : prog),
    wf_prog_stale p ->
    exists r st symf,
      layer_run filter ids p = ROk (r, st) /\ sym_run true p = Some symf /\
      reg_inv symf r /\
      (forall k s, reg_get r k = Some s ->
         rs_ext s = if filter (rs_meta s)
                    then [(layer_key0, cap_rank filter (a_spans (spec_run filter ids p)) k)] else []) /\
      (forall k, reg_present r k = a_open (spec_run filter ids p) k) /\
      st = build filter (fun k => negb (reg_present r k)) (spec_run filter ids p).
Proof. exact capture_run_invariants. Qed.

(** "Each span's enter and exit counts equal what the program did", counted: in the forest the storage
    is read off from ([spec_run]; [build] copies the two counters into [stats.entered] / [stats.exited]
    of the captured span), the counters of span [k] are the numbers of enter / exit operations on [k] in
    the execution - whoever issued them, in whatever order ([count_ops] counts, so any permutation of
    the operations, e.g. another schedule, gives the same numbers). *)
Theorem C05_enter_exit_counts :
  forall (filter : cs_data -> bool) (ids : list N) (p : prog) (k : nat) (x : aspan),
    wf_prog_stale p -> nth_error (a_spans (spec_run filter ids p)) k = Some x ->
    as_entered x = count_ops (is_enter k) (p_ops p) /\ as_exited x = count_ops (is_exit k) (p_ops p).
Proof. exact counters_are_counts. Qed.

Theorem C05_counts_ignore_order : forall P a b, Permutation.Permutation a b -> count_ops P a = count_ops P b.
Proof. exact count_ops_perm. Qed.

(** the judge of the correspondence run ([Judge/C05.v]) on the model's own output: within the
    hypotheses an implementation that does what the model does is judged [Agree]; and [Agree] pins the
    implementation's storage to the specification's *)
Theorem C05_judge_ok_on_model : forall p ids f,
  wf_prog_b p = true -> single_threaded p = true ->
  judge_capture p ids f (storage_of (layer_run (feval f) ids p)) = Agree.
Proof. exact judge_capture_ok_on_model. Qed.

Theorem C05_judge_agree_means : forall p ids f impl,
  judge_capture p ids f impl = Agree ->
  impl = Some (spec_storage (feval f) ids p) /\ impl = storage_of (layer_run (feval f) ids p).
Proof. exact judge_capture_agree. Qed.

(** Non-vacuity.  Sites: 0 = INFO span "fib" {approx, iter}, 1 = DEBUG event, 2 = TRACE span "child".
    Program: outer (INFO) > mid (TRACE, filtered out by [FLevel LInfo]) > leaf (INFO, explicit parent
    mid); an event inside mid; records overriding in place; follows-from towards a captured and a
    filtered-out span; outer stays open through its grandchild until leaf is dropped. *)
Definition c05_ex : prog :=
  mk_prog ex_sites
    [ (0, ONewSpan 0 PKCtx [(1, Some (PUInt W64 1))]);
      (0, OEnter 0);
      (0, ONewSpan 2 PKCtx []);
      (0, OEnter 1);
      (0, ONewSpan 0 (PKExplicit 1) [(0, Some (PBool true)); (1, Some (PUInt W64 2))]);
      (0, OEvent 1 PKCtx [(1, Some (PInt W8 (-1)))]);
      (0, ORecord 2 [(1, Some (PUInt W64 3)); (0, None)]);
      (0, OFollows 2 (FLive 0));
      (0, OFollows 2 (FLive 1));
      (0, OExit 1); (0, OExit 0);
      (0, ODrop 0); (0, ODrop 1);
      (0, OEvent 1 (PKExplicit 2) []) ]%nat.

Example C05_example :
  wf_prog_b c05_ex = true /\ single_threaded c05_ex = true /\
  (* under LevelFilter::INFO: two spans, leaf attached to outer (mid skipped), no events (DEBUG);
     leaf's record overrode "iter" in place; one follows-from edge (the one towards mid is dropped);
     nothing closed yet: leaf still has a handle and keeps mid and outer open *)
  option_map (fun st => (map (fun s => (sp_parent_id s, sp_child_ids s, sp_follows_from_ids s,
                                         spl_values (sp_payload s), spl_entered (sp_payload s),
                                         spl_closed (sp_payload s))) (st_spans st),
                         List.length (st_events st), st_root_span_ids st))
             (storage_of (layer_run (feval (FLevel LInfo)) [] c05_ex))
  = Some ([ (None, [1], [], [("iter", VUInt 1)], 1, false);
            (Some 0, [], [0], [("approx", VBool true); ("iter", VUInt 3)], 0, false) ]%string,
          0%nat, [0]) /\
  (* without a filter: three spans in a chain, both events attached (to mid and to leaf) *)
  option_map (fun st => (map (fun s => (sp_parent_id s, sp_event_ids s, sp_follows_from_ids s))
                             (st_spans st),
                         map (fun e => ev_parent_id e) (st_events st)))
             (storage_of (layer_run (fun _ => true) [] c05_ex))
  = Some ([ (None, [], []); (Some 0, [0], []); (Some 1, [1], [0; 1]) ], [Some 1; Some 2]) /\
  (* and after the last handle is dropped everything is closed *)
  option_map (fun st => map (fun s => spl_closed (sp_payload s)) (st_spans st))
             (storage_of (layer_run (fun _ => true) []
                            (mk_prog ex_sites (p_ops c05_ex ++ [(0%nat, ODrop 2%nat)]))))
  = Some [true; true; true].
Proof. vm_compute. repeat split. Qed.
