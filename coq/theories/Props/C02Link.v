(** C02 - link between the property theorems ([Props/C02.v]) and the judge of the quiescent-cut
    clause ([Judge/C02.v]); proofs in [Judge/C02C03OfCorr.v], which use [C02_quiescent_cuts_invisible].
    Theorems only; every proof is [exact <lemma>].

    [ok_c02] compares, on the implementation's observations alone, the cut run with the uncut run of
    the same events (same results, same host calls up to registrations, cuts silent).  Whenever the
    judge finds both runs equal to the model's ([corr_history] for the cut run, [corr_history_arena]
    for the uncut run, which starts from the arena the cut run left), that comparison succeeds: a
    [PropFail] without a [Mismatch] is impossible. *)
From TT Require Import Tunnel.ReceiverHistInv Tunnel.ReceiverCuts Judge.Recv Judge.RecvOk Judge.C02 Judge.C02C03OfCorr.
From stdpp Require Import gmap.

Theorem C02_judge_ok_whenever_corr : forall steps impl_cut impl_uncut,
  hist_scope hist_init steps -> qcuts_b hist_init steps = true ->
  corr_history steps impl_cut = true ->
  corr_history_arena (announced [] steps) (map SRecv (events_of steps)) impl_uncut = true ->
  ok_c02 impl_cut impl_uncut = true.
Proof. exact ok_c02_of_corr. Qed.

(** ... whatever arena the uncut run starts from (the arena only decides which registrations are made) *)
Theorem C02_judge_ok_any_arena : forall ar steps impl_cut impl_uncut,
  hist_scope hist_init steps -> qcuts_b hist_init steps = true ->
  corr_history steps impl_cut = true ->
  corr_history_arena ar (map SRecv (events_of steps)) impl_uncut = true ->
  ok_c02 impl_cut impl_uncut = true.
Proof. exact ok_c02_of_corr_any_arena. Qed.

Theorem C02_judge_agrees_whenever_corr : forall steps impl_cut impl_uncut,
  hist_scope hist_init steps -> qcuts_b hist_init steps = true ->
  corr_history steps impl_cut = true ->
  corr_history_arena (announced [] steps) (map SRecv (events_of steps)) impl_uncut = true ->
  judge_c02 steps impl_cut impl_uncut = Agree.
Proof. exact judge_c02_agree_whenever_corr. Qed.

(** the boolean form of the quiescent-cut hypothesis is the hypothesis of the theorem *)
Theorem C02_qcuts_b_spec : forall steps h, qcuts_b h steps = true <-> qcuts h steps.
Proof. exact qcuts_b_spec. Qed.
