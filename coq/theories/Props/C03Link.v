(** C03 - link between the property theorems ([Props/C03.v]) and the judge ([Judge/C03.v]); proofs in
    [Judge/C02C03OfCorr.v], which use [C03_presented_on_first_enter] and the abstract refinement.
    Theorems only; every proof is [exact <lemma>].

    [ok_c03] checks on the implementation's observations that nothing is rejected and that a span
    without a host span is presented exactly on its first enter, with its call site and the latest
    values.  It holds of any observations the correspondence accepts, on every history without drops
    whose stream the abstract receiver accepts.  [attached] (events of a span entered after the restart
    are attached to it under a real Registry) is computed by the harness and stays an input; the
    corresponding model-level statement is [C03_entered_after_restart_is_current]. *)
From TT Require Import Tunnel.ReceiverHistInv Tunnel.ReceiverAbs Judge.Recv Judge.RecvOk Judge.C03 Judge.C02C03OfCorr.
From stdpp Require Import gmap.

Theorem C03_judge_ok_whenever_corr : forall steps impl,
  hist_scope hist_init steps -> no_drop steps = true -> stream_accepted steps = true ->
  corr_history steps impl = true ->
  ok_c03 snap_empty steps impl = true.
Proof. exact ok_c03_of_corr. Qed.

Theorem C03_judge_agrees_whenever_corr : forall steps impl attached,
  hist_scope hist_init steps -> no_drop steps = true -> stream_accepted steps = true ->
  corr_history steps impl = true -> attached = true ->
  judge_c03 steps impl attached = Agree.
Proof. exact judge_c03_agree_whenever_corr. Qed.
