(** C16 — capturing never panics and is independent of other layers in the stack.
    Property theorems only; every proof is [exact <lemma>].

    Every [unwrap()] of [capture/src/layer.rs] and of [Storage], and every panic of the Registry
    itself, is an explicit outcome [RPanic _] of the model; [ROk] means that every callback of the
    run completed.  Programs: [wf_prog_stale] = what the safe [tracing] API permits, including
    [follows_from] towards an arbitrary id (closed, unknown, or by coincidence that of an open span),
    and records / enters / exits / events / children on spans the layer filtered out. *)
From TT Require Import Capture.LayerProofs Judge.C05C16Proofs.

(** one capture layer: no callback panics, whatever the filter and whatever ids the Registry issued *)
Theorem C16_capture_total :
  forall (filter : cs_data -> bool) (ids : list N) (p : prog),
    wf_prog_stale p ->
    exists r st, layer_run filter ids p = ROk (r, st).
Proof. exact capture_total. Qed.

(** any stack: any number of capture layers with their own storages (distinct storage keys) and
    filters, pass-through layers anywhere *)
Theorem C16_stack_total :
  forall (ids : list N) (p : prog) (ls : list layer),
    wf_prog_stale p -> stack_fresh ls = true -> NoDup (stack_keys ls) ->
    exists r ls', stack_run ids p ls = ROk (r, ls').
Proof. exact stack_total. Qed.

(** what each layer of the stack captures is what it captures alone *)
Theorem C16_layers_independent :
  forall (ids : list N) (p : prog) (ls : list layer),
    wf_prog_stale p -> stack_fresh ls = true -> NoDup (stack_keys ls) ->
    exists r ls', stack_run ids p ls = ROk (r, ls') /\
      Forall2 (fun filter st => storage_of (layer_run filter ids p) = Some st)
              (stack_filters ls) (stack_storages ls').
Proof. exact layers_independent. Qed.

(** ... which is what the specification prescribes for its filter *)
Theorem C16_stack_storages_are_spec :
  forall (ids : list N) (p : prog) (ls : list layer),
    wf_prog_stale p -> stack_fresh ls = true -> NoDup (stack_keys ls) ->
    exists r ls', stack_run ids p ls = ROk (r, ls') /\
      stack_storages ls' = map (fun filter => spec_storage filter ids p) (stack_filters ls) /\
      stack_keys ls' = stack_keys ls /\ stack_filters ls' = stack_filters ls.
Proof. exact (fun ids p ls Hwf => stacks_refine ids p Hwf ls). Qed.

(** the judge of the correspondence run ([Judge/C16.v], stacks built by [mk_stack]: distinct storage
    keys, empty storages) on the model's own output: [Agree] for every stack specification *)
Theorem C16_judge_ok_on_model : forall p ids specs,
  wf_prog_stale_b p = true -> single_threaded p = true ->
  judge_stack p ids specs (stack_result (stack_run ids p (mk_stack specs)))
              (map (fun f => storage_of (layer_run (feval f) ids p)) (spec_filters specs)) = Agree.
Proof. exact judge_stack_ok_on_model. Qed.

(** Non-vacuity: follows-from towards the id of a closed span (finding F5), an unknown id and the raw
    id of an open span; records and enters on a span one of the layers filtered out; two capture
    layers with different filters and a pass-through layer between them (finding F6). *)
Definition c16_ex : prog :=
  mk_prog ex_sites
    [ (0, ONewSpan 0 PKCtx []);            (* raw id 1, INFO *)
      (0, ONewSpan 2 PKCtx []);            (* raw id 2, TRACE *)
      (0, ODrop 0);                        (* span 0 closes *)
      (0, OFollows 1 (FStale 1));          (* towards the closed span *)
      (0, OFollows 1 (FStale 77));         (* unknown *)
      (0, ONewSpan 0 PKCtx []);            (* raw id 3 *)
      (0, OFollows 2 (FStale 2));          (* the raw id of the open span 1 *)
      (0, OEnter 1); (0, ORecord 1 []); (0, OEvent 1 PKCtx []); (0, OExit 1) ]%nat.

Definition c16_stack : list layer :=
  [ LCapture (feval (FLevel LInfo)) 10 empty_storage; LPass; LCapture (fun _ => true) 20 empty_storage ].

Example C16_example :
  wf_prog_stale_b c16_ex = true /\ wf_prog_b c16_ex = false /\ single_threaded c16_ex = true /\
  stack_fresh c16_stack = true /\
  match stack_run [1; 2; 3] c16_ex c16_stack with
  | ROk (_, ls') =>
      map (fun st => (map (fun s => (sp_follows_from_ids s, spl_entered (sp_payload s),
                                     spl_closed (sp_payload s))) (st_spans st),
                      map (fun e => ev_parent_id e) (st_events st)))
          (stack_storages ls')
      = [ (* INFO layer: spans 0 and 2; the edge 2 -> 1 is dropped (1 is filtered out); no event *)
          ([([], 0, true); ([], 0, false)], []);
          (* unfiltered layer: the stale edges are dropped, the edge to the open span is kept *)
          ([([], 0, true); ([], 1, false); ([1], 0, false)], [Some 1]) ]
      /\ stack_storages ls'
         = [ spec_storage (feval (FLevel LInfo)) [1; 2; 3] c16_ex; spec_storage (fun _ => true) [1; 2; 3] c16_ex ]
  | _ => False
  end.
Proof. vm_compute. repeat split; discriminate || reflexivity. Qed.
