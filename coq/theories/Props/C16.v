(** C16 — capturing never panics and is independent of other layers in the stack.
    Property theorems only; every proof is [exact <lemma>].

    Every [unwrap()] of [capture/src/layer.rs] and of [Storage], and every panic of the Registry
    itself, is an explicit outcome [RPanic _] of the model; [ROk] means that every callback of the
    run completed.  Programs: [wf_prog_stale] = what the safe [tracing] API permits, including
    [follows_from] towards an arbitrary id (closed, unknown, or by coincidence that of an open span),
    and records / enters / exits / events / children on spans the layer filtered out. *)
From TT Require Import Capture.LayerProofs Judge.C05C16Proofs.
From TT Require Import Capture.HostileProofs Judge.Hostile.

(** one capture layer: no callback panics, whatever the filter and whatever ids the Registry issued *)
Theorem C16_capture_total :
  forall (filter : cs_data -> bool) (ids : list N) (p : prog),
    wf_prog_stale p ->
    exists r st, layer_run filter ids p = ROk (r, st).
Proof. exact capture_total. Qed.

(** any stack: any number of capture layers with their own storages (distinct storage keys) and
    filters, pass-through layers anywhere *)
Theorem C16_stack_total :
  forall (ids : list N) (p : prog) (ls : list layer),
    wf_prog_stale p -> stack_fresh ls = true -> NoDup (stack_keys ls) ->
    exists r ls', stack_run ids p ls = ROk (r, ls').
Proof. exact stack_total. Qed.

(** what each layer of the stack captures is what it captures alone *)
Theorem C16_layers_independent :
  forall (ids : list N) (p : prog) (ls : list layer),
    wf_prog_stale p -> stack_fresh ls = true -> NoDup (stack_keys ls) ->
    exists r ls', stack_run ids p ls = ROk (r, ls') /\
      Forall2 (fun filter st => storage_of (layer_run filter ids p) = Some st)
              (stack_filters ls) (stack_storages ls').
Proof. exact layers_independent. Qed.

(** ... which is what the specification prescribes for its filter *)
Theorem C16_stack_storages_are_spec :
  forall (ids : list N) (p : prog) (ls : list layer),
    wf_prog_stale p -> stack_fresh ls = true -> NoDup (stack_keys ls) ->
    exists r ls', stack_run ids p ls = ROk (r, ls') /\
      stack_storages ls' = map (fun filter => spec_storage filter ids p) (stack_filters ls) /\
      stack_keys ls' = stack_keys ls /\ stack_filters ls' = stack_filters ls.
Proof. exact (fun ids p ls Hwf => stacks_refine ids p Hwf ls). Qed.

(** the judge of the correspondence run ([Judge/C16.v], stacks built by [mk_stack]: distinct storage
    keys, empty storages) on the model's own output: [Agree] for every stack specification *)
Theorem C16_judge_ok_on_model : forall p ids specs,
  wf_prog_stale_b p = true -> single_threaded p = true ->
  judge_stack p ids specs (stack_result (stack_run ids p (mk_stack specs)))
              (map (fun f => storage_of (layer_run (feval f) ids p)) (spec_filters specs)) = Agree.
Proof. exact judge_stack_ok_on_model. Qed.

(** Non-vacuity: follows-from towards the id of a closed span (finding F5), an unknown id and the raw
    id of an open span; records and enters on a span one of the layers filtered out; two capture
    layers with different filters and a pass-through layer between them (finding F6). *)
Definition c16_ex : prog :=
  mk_prog ex_sites
    [ (0, ONewSpan 0 PKCtx []);            (* raw id 1, INFO *)
      (0, ONewSpan 2 PKCtx []);            (* raw id 2, TRACE *)
      (0, ODrop 0);                        (* span 0 closes *)
      (0, OFollows 1 (FStale 1));          (* towards the closed span *)
      (0, OFollows 1 (FStale 77));         (* unknown *)
      (0, ONewSpan 0 PKCtx []);            (* raw id 3 *)
      (0, OFollows 2 (FStale 2));          (* the raw id of the open span 1 *)
      (0, OEnter 1); (0, ORecord 1 []); (0, OEvent 1 PKCtx []); (0, OExit 1) ]%nat.

Definition c16_stack : list layer :=
  [ LCapture (feval (FLevel LInfo)) 10 empty_storage; LPass; LCapture (fun _ => true) 20 empty_storage ].

Example C16_example :
  wf_prog_stale_b c16_ex = true /\ wf_prog_b c16_ex = false /\ single_threaded c16_ex = true /\
  stack_fresh c16_stack = true /\
  match stack_run [1; 2; 3] c16_ex c16_stack with
  | ROk (_, ls') =>
      map (fun st => (map (fun s => (sp_follows_from_ids s, spl_entered (sp_payload s),
                                     spl_closed (sp_payload s))) (st_spans st),
                      map (fun e => ev_parent_id e) (st_events st)))
          (stack_storages ls')
      = [ (* INFO layer: spans 0 and 2; the edge 2 -> 1 is dropped (1 is filtered out); no event *)
          ([([], 0, true); ([], 0, false)], []);
          (* unfiltered layer: the stale edges are dropped, the edge to the open span is kept *)
          ([([], 0, true); ([], 1, false); ([1], 0, false)], [Some 1]) ]
      /\ stack_storages ls'
         = [ spec_storage (feval (FLevel LInfo)) [1; 2; 3] c16_ex; spec_storage (fun _ => true) [1; 2; 3] c16_ex ]
  | _ => False
  end.
Proof. vm_compute. repeat split; discriminate || reflexivity. Qed.

(** ** Hostile renderings ([Capture/Hostile.v]): values whose [Debug] impl emits tracing events of its
    own, or panics, while the capture layer renders it.

    [hrun d ids hp]: the lock-level machine (acquisitions of the storage's write lock, poisoning,
    re-entrancy guard of the default dispatcher) under discipline [d]; [RenderFirst] is the code
    ([TracedValues::from_record(values)] before [self.lock()]), [LockFirst] the historical defect F10.
    [hstorage_of x = Some st]: the guest ran to its end (panics caught at the top-level operation), no
    deadlock, the lock neither held nor poisoned, and the storage is [st].
    [flatten hp]: the quiet program [hp] must be captured as: the inner events a loud value emits
    outside the guard just before the operation that renders it, an operation whose rendering panics
    dropped; it is a well-formed program, so every theorem of C05 / C16 applies to it. *)

(** with the render-before-lock discipline every hostile program is captured exactly as its
    flattening, without deadlock, poisoning or an escaping panic *)
Theorem C16_hostile_render_first_captures_flattened :
  forall (ids : list N) (hp : hprog),
    wf_hprog_b hp = true ->
    hstorage_of (hrun RenderFirst ids hp) = storage_of (layer_run (fun _ => true) ids (flatten hp))
    /\ exists st, hstorage_of (hrun RenderFirst ids hp) = Some st.
Proof. exact render_first_captures_flattened. Qed.

Theorem C16_hostile_flatten_wf :
  forall hp : hprog, wf_hprog_b hp = true -> wf_prog_b (flatten hp) = true.
Proof. exact flatten_wf. Qed.

Theorem C16_hostile_flatten_single_threaded :
  forall hp : hprog, wf_hprog_b hp = true -> single_threaded (flatten hp) = true.
Proof. exact flatten_single_threaded. Qed.

(** .. which is the storage the reference specification prescribes for the flattening *)
Theorem C16_hostile_render_first_is_spec :
  forall (ids : list N) (hp : hprog),
    wf_hprog_b hp = true ->
    hstorage_of (hrun RenderFirst ids hp) = Some (spec_storage (fun _ => true) ids (flatten hp)).
Proof. exact render_first_is_spec. Qed.

(** the lock-before-render discipline deadlocks: a record whose value emits an event while it is
    rendered *)
Theorem C16_lock_first_deadlocks_refuted :
  exists ids hp, wf_hprog_b hp = true /\ hrun LockFirst ids hp = HDeadlock.
Proof. exact lock_first_deadlocks. Qed.

(** .. and poisons the storage: a record whose value panics while it is rendered, then an event *)
Theorem C16_lock_first_poisons_refuted :
  exists ids hp, wf_hprog_b hp = true /\ hstorage_of (hrun LockFirst ids hp) = None /\
                 is_deadlock (hrun LockFirst ids hp) = false /\
                 exists r st, hrun LockFirst ids hp = HOk (r, st, LPoisoned).
Proof. exact lock_first_poisons. Qed.

(** the judge of the correspondence run ([Judge/Hostile.v]) *)
Theorem C16_hostile_judge_ok_on_model : forall hp ids,
  wf_hprog_b hp = true ->
  judge_hostile hp ids (hstorage_of (hrun RenderFirst ids hp)) = Agree.
Proof. exact judge_hostile_agree_on_model. Qed.

Theorem C16_hostile_judge_ok_whenever_corr : forall hp ids impl,
  wf_hprog_b hp = true ->
  option_eqb cstorage_eqb (hstorage_of (hrun RenderFirst ids hp)) impl = true ->
  option_eqb cstorage_eqb (Some (spec_storage (fun _ => true) ids (flatten hp))) impl = true.
Proof. exact judge_hostile_ok_of_corr. Qed.

(** Non-vacuity: the two witnesses under the discipline of the code, and a program with depth (a
    loud value inside an inner event is inert, a bomb inside an inner event takes the outer record with
    it, loud and panicking event values, a span creation with a loud attribute) *)
Example C16_hostile_example_loud :
  wf_hprog_b hw_loud = true /\
  hrun LockFirst [1; 2] hw_loud = HDeadlock /\
  hstorage_of (hrun RenderFirst [1; 2] hw_loud) = Some (spec_storage (fun _ => true) [1; 2] (flatten hw_loud)) /\
  p_ops (flatten hw_loud)
  = [ (0, ONewSpan 0 PKCtx []); (0, OEvent 1 PKCtx [(0, Some (PStr "from a Debug impl"))]);
      (0, ORecord 0 [(0, Some (PDebug "loud"))]) ]%nat.
Proof. vm_compute. repeat split. Qed.

Example C16_hostile_example_bomb :
  wf_hprog_b hw_bomb = true /\
  hstorage_of (hrun LockFirst [1; 2] hw_bomb) = None /\
  hstorage_of (hrun RenderFirst [1; 2] hw_bomb) = Some (spec_storage (fun _ => true) [1; 2] (flatten hw_bomb)) /\
  p_ops (flatten hw_bomb)
  = [ (0, ONewSpan 0 PKCtx []); (0, OEvent 1 PKCtx [(0, Some (PStr "after the panic"))]) ]%nat.
Proof. vm_compute. repeat split. Qed.

Example C16_hostile_example_deep :
  wf_hprog_b hw_deep = true /\
  List.length (p_ops (flatten hw_deep)) = 9%nat /\
  hstorage_of (hrun RenderFirst [1] hw_deep) = Some (spec_storage (fun _ => true) [1] (flatten hw_deep)) /\
  judge_hostile hw_deep [1] (hstorage_of (hrun RenderFirst [1] hw_deep)) = Agree /\
  judge_hostile hw_deep [1] None = PropFail.
Proof. vm_compute. repeat split. Qed.
