(** C15 — value collections are insertion-ordered maps; conversions agree with equality.
    Property theorems only; every proof is [exact <lemma>]. *)
From TT Require Import Values.Values Values.ValuesProofs Values.ValueProofs Judge.C15Proofs.

(** Every collection reachable by any sequence of insert / extend / collect / deserialize
    operations is the denotation of the history of the entries "inserted one by one":
    distinct names in first-insertion order, each with its latest value. *)
Theorem C15_reachable_is_history_map : forall ops, vrun ops = denote (hrun ops).
Proof. exact vrun_denote. Qed.

Theorem C15_names_distinct : forall h, NoDup (map fst (denote h)).
Proof. exact denote_nodup. Qed.

Theorem C15_insert_in_place_returns_old :
  forall h k v, insert (denote h) k v = (denote (h ++ [(k, v)]), last_val h k).
Proof. exact insert_denote. Qed.

Theorem C15_lookup_latest : forall h k, get (denote h) k = last_val h k.
Proof. exact get_denote. Qed.

Theorem C15_len_counts_distinct : forall h, len (denote h) = N.of_nat (List.length (keys_of h)).
Proof. exact len_denote. Qed.

Theorem C15_is_empty : forall h, is_empty (denote h) = match h with [] => true | _ => false end.
Proof. exact is_empty_denote. Qed.

(** indexing by name yields the latest value and panics exactly when the name was never inserted *)
Theorem C15_index_latest_or_panic : forall h k, index (denote h) k = last_val h k.
Proof. exact index_denote. Qed.

Theorem C15_extend_one_by_one : forall h l, extend (denote h) l = denote (h ++ l).
Proof. exact extend_denote. Qed.

Theorem C15_collect_one_by_one : forall l, from_iter l = denote l.
Proof. exact from_iter_denote. Qed.

Theorem C15_deserialize_one_by_one : forall l, deser l = denote l.
Proof. exact deser_denote. Qed.

Theorem C15_iter_back : forall m, iter_back m = rev (iter m).
Proof. exact iter_back_rev. Qed.

Theorem C15_into_iter : forall m, into_iter m = iter m.
Proof. exact into_iter_iter. Qed.

(** [v == x] holds exactly when the accessor of x's type succeeds on v with an equal result *)
Theorem C15_eq_iff_accessor : forall v x, wf_const x = true ->
  (eq_vc v x = true <-> exists y, as_type (type_of x) v = Some y /\ const_eq y x = true).
Proof. exact eq_vc_iff_accessor. Qed.

Theorem C15_eq_symmetric : forall x v, eq_cv x v = eq_vc v x.
Proof. exact eq_cv_sym. Qed.

Theorem C15_i64_view_iff_fits : forall z,
  as_type TI64 (VInt z) = Some (CI64 z) <-> (- 2 ^ 63 <= z < 2 ^ 63)%Z.
Proof. exact as_i64_iff. Qed.

Theorem C15_u64_view_iff_fits : forall z,
  as_type TU64 (VUInt z) = Some (CU64 z) <-> (0 <= z < 2 ^ 64)%Z.
Proof. exact as_u64_iff. Qed.

(** the judges of the correspondence run ([Judge/C15.v]) on the model's own output: the observations
    the specification predicts from the history alone are the model's observations after every
    operation, and the conversion clauses hold of the model's answers - an implementation that does
    what the model does is judged [Agree] (or is outside the hypotheses) on every input *)
Theorem C15_spec_observations_are_model_observations : forall probe ops h,
  model_obs probe (denote h) ops = spec_obs probe h ops.
Proof. exact model_obs_is_spec_obs. Qed.

Theorem C15_judge_ops_ok_on_model : forall ops probe, judge_ops ops probe (model_obs probe [] ops) = Agree.
Proof. exact judge_ops_ok_on_model. Qed.

Theorem C15_judge_conv_ok_on_model : forall v x,
  judge_conv v x (eq_vc v x) (eq_cv x v) (as_type (type_of x) v) = Agree \/
  judge_conv v x (eq_vc v x) (eq_cv x v) (as_type (type_of x) v) = OutOfScope.
Proof. exact judge_conv_ok_on_model. Qed.

Theorem C15_judge_debug_ok_on_model : forall v r, judge_debug v r (as_debug_str v) (is_debug v r) = Agree.
Proof. exact judge_debug_ok_on_model. Qed.

(** Non-vacuity: a concrete history with a repeated name. *)
Example C15_example :
  denote [("a", VInt 1); ("b", VBool true); ("a", VInt 2)]%string
  = [("a", VInt 2); ("b", VBool true)]%string
  /\ wf_const (CI64 (2 ^ 63 - 1)) = true
  /\ eq_vc (VInt (2 ^ 63)) (CI128 (2 ^ 63)) = true
  /\ as_type TI64 (VInt (2 ^ 63)) = None.
Proof. vm_compute. repeat split. Qed.
