(** C13 — host-side filtering applies to tunnelled spans and events.
    Property theorems only; every proof is [exact <lemma>].

    The property as stated is FALSE for the crate (known finding F7, host-filter-ignored): the
    receiver never consults [Subscriber::enabled].  This file states (1) that fact and the class
    of programs x filters on which it matters, with a witness on which the statement fails;
    (2) the statement outside that class; (3) the two clauses that do hold for every program and
    every filter: nothing is rejected, and everything the host enables is still delivered.

    Vocabulary (see Props/C01.v for the rest).
    [enabled : nat -> bool]: the host's answer to the interest / [enabled] test for the call sites
    of the program's pool; [site_enabled pred sites] = the answer of a host configured with the
    metadata predicate [pred : cs_data -> bool]; [eval_filter f] = a predicate from the small AST
    the harness mirrors (level threshold, target prefix, name, kind, field, not / and / or).
    [native_calls enabled p]: what such a host sees natively (the macros skip disabled spans and
    events; ops on a disabled span do nothing; a child of a disabled explicit parent is an explicit
    root).  [tunnel_calls_under enabled mid p] := [tunnel_calls mid p]: what it sees through the
    tunnel.  [known_host_filter enabled p]: some span / event of [p] has a call site with
    [enabled cs = false].  [restrict_calls enabled calls]: the unfiltered native trace with the
    calls about disabled spans / events removed, ids renumbered and disabled explicit parents
    turned into roots.  [delivered_sites calls]: call sites of the [HNewSpan] / [HEvent] calls. *)
From stdpp Require Import gmap.
From TT Require Import Tunnel.Tunnel Tunnel.TunnelProofs.

(** ** (1) the tunnel does not depend on the host's filter.  True by definition of the model:
    [try_receive] has no parameter for the host's [enabled] answers because the code never asks;
    that the code really behaves so is what the correspondence run checks (tunnel runs into
    filtering recording hosts are compared with this model). *)
Theorem C13_tunnel_ignores_host_filter : forall e1 e2 mid p,
  tunnel_calls_under e1 mid p = tunnel_calls_under e2 mid p
  /\ tunnel_calls_under e1 mid p = tunnel_calls mid p.
Proof. intros. split; reflexivity. Qed.

(** the native run consults the filter on the call sites that occur only *)
Theorem C13_native_filter_irrelevant : forall enabled p,
  known_host_filter enabled p = false -> native_calls enabled p = native_calls all_enabled p.
Proof. exact native_filter_irrelevant_proof. Qed.

(** ** (2) outside the known classes the filtered native trace and the tunnelled trace coincide *)
Theorem C13_tunnel_is_native_filtered : forall enabled (mid : nat -> N) (p : prog),
  (forall a b, mid a = mid b -> a = b) ->
  wf_prog_b p = true -> single_threaded p = true ->
  (spans_created (p_ops p) <= U32 - 1)%N -> known_explicit_root p = false ->
  known_host_filter enabled p = false ->
  strip_reg (tunnel_calls_under enabled mid p)
  = strip_reg (canon (normalise (p_sites p) (native_calls enabled p))).
Proof. exact tunnel_is_native_filtered_proof. Qed.

(** ** KNOWN FINDING (F7, host-filter-ignored): a DEBUG span into a host limited to INFO is
    delivered through the tunnel and not natively *)
Theorem C13_host_filter_refuted :
  exists p enabled mid,
    (forall a b : nat, mid a = mid b -> a = b)
    /\ wf_prog_b p = true /\ single_threaded p = true /\ known_explicit_root p = false
    /\ known_host_filter enabled p = true
    /\ (exists cs, enabled cs = false
          /\ In (site_data (p_sites p) cs) (delivered_sites (tunnel_calls_under enabled mid p))
          /\ ~ In (site_data (p_sites p) cs)
                  (delivered_sites (normalise (p_sites p) (native_calls enabled p))))
    /\ strip_reg (tunnel_calls_under enabled mid p)
       <> strip_reg (canon (normalise (p_sites p) (native_calls enabled p))).
Proof. exact host_filter_refuted_proof. Qed.

(** ** (3a) filtering never causes a valid guest stream to be rejected: every event of every
    well-formed program is accepted; the answers do not involve the host at all *)
Theorem C13_filtering_never_rejects : forall (mid : nat -> N) (p : prog),
  (forall a b, mid a = mid b -> a = b) ->
  wf_prog_b p = true -> (spans_created (p_ops p) <= U32 - 1)%N ->
  Forall (fun o => o = Accepted) (tunnel_outcomes mid p)
  /\ List.length (tunnel_outcomes mid p) = List.length (sender_run mid p).
Proof. exact tunnel_never_rejects_proof. Qed.

(** ** (3b) everything the host enables is still delivered, with its call site, values and
    enter / exit / close history: for every program and every filter the tunnel delivers (up to the
    spelling of explicit roots, F8) the complete unfiltered native trace, and what the filtering
    host sees natively is exactly the restriction of that same trace to the enabled call sites *)
Theorem C13_enabled_still_delivered : forall enabled (mid : nat -> N) (p : prog),
  (forall a b, mid a = mid b -> a = b) ->
  wf_prog_b p = true -> (spans_created (p_ops p) <= U32 - 1)%N ->
  let unfiltered := native_calls all_enabled p in
  strip_reg (tunnel_calls_under enabled mid p) = map unroot (strip_reg (normalise (p_sites p) unfiltered))
  /\ native_calls enabled p = restrict_calls enabled unfiltered.
Proof. exact enabled_still_delivered_proof. Qed.

(** the same in one equation, for hosts configured with a metadata predicate: what the filtering host
    sees natively is the tunnelled trace with the spans and events it disables taken out (and the
    remaining spans renumbered), up to the spelling of explicit roots.  [restrict_hcalls pred]
    removes from a host trace every [HNewSpan] / [HEvent] whose metadata [pred] rejects and every
    call about such a span. *)
Theorem C13_enabled_subtrace : forall (pred : cs_data -> bool) (mid : nat -> N) (p : prog),
  (forall a b, mid a = mid b -> a = b) ->
  wf_prog_b p = true -> (spans_created (p_ops p) <= U32 - 1)%N ->
  map unroot (strip_reg (normalise (p_sites p) (native_calls (site_enabled pred (p_sites p)) p)))
  = map unroot (restrict_hcalls pred (strip_reg (tunnel_calls mid p))).
Proof. exact enabled_subtrace_proof. Qed.

(** the restriction, for every well-formed program by itself *)
Theorem C13_filtered_trace_is_restriction : forall enabled p,
  wf_prog_b p = true ->
  native_calls enabled p = restrict_calls enabled (native_calls all_enabled p).
Proof. exact native_filtered_is_restriction_proof. Qed.

(** spelled out for spans and events: each one the host sees natively reaches it through the tunnel
    with the same call site and the same values *)
Theorem C13_enabled_items_delivered : forall enabled (mid : nat -> N) (p : prog),
  (forall a b, mid a = mid b -> a = b) ->
  wf_prog_b p = true -> (spans_created (p_ops p) <= U32 - 1)%N ->
  (forall i cs q vals, In (SNewSpan i cs q vals) (native_calls enabled p) ->
     exists h pk, In (HNewSpan h (site_data (p_sites p) cs) pk vals) (tunnel_calls mid p))
  /\ (forall cs q vals, In (SEvent cs q vals) (native_calls enabled p) ->
     exists pk, In (HEvent (site_data (p_sites p) cs) pk vals) (tunnel_calls mid p)).
Proof. exact enabled_items_delivered_proof. Qed.

(** ** non-vacuity: a host limited to DEBUG enables everything of the witness program (outside the
    class, equal traces, non-empty); a host limited to INFO disables its DEBUG span (inside the
    class): natively 5 calls besides registrations, 9 through the tunnel; the native trace is the
    restriction of the unfiltered one and of the tunnelled one *)
Example C13_example :
  let debug := site_enabled (eval_filter (FMaxLevel LDebug)) wit_sites in
  known_host_filter debug wit_filter = false
  /\ strip_reg (tunnel_calls_under debug N.of_nat wit_filter)
     = strip_reg (canon (normalise wit_sites (native_calls debug wit_filter)))
  /\ known_host_filter wit_info_only wit_filter = true
  /\ List.length (strip_reg (normalise wit_sites (native_calls wit_info_only wit_filter))) = 5%nat
  /\ List.length (strip_reg (tunnel_calls_under wit_info_only N.of_nat wit_filter)) = 9%nat
  /\ native_calls wit_info_only wit_filter
     = restrict_calls wit_info_only (native_calls all_enabled wit_filter)
  /\ strip_reg (normalise wit_sites (native_calls wit_info_only wit_filter))
     = restrict_hcalls (eval_filter (FMaxLevel LInfo)) (strip_reg (tunnel_calls N.of_nat wit_filter))
  /\ eval_filter (FAnd (FTargetPrefix "app::") (FNot FIsSpan)) (nth 1 wit_sites cs_none) = false.
Proof. vm_compute. repeat split. Qed.
