(** C11 — events and persisted state round-trip through serde and keep their wire shape.
    Property theorems only; every proof is [exact <lemma>].  Model: [Wire/Codec.v]. *)
From TT Require Import Wire.Codec Wire.CodecProofs.
From Coq Require Import Permutation.

(** ** Round trips: decoding the encoding gives the value back — all values, all nesting depths *)

(** what "encodable" means for a value set: distinct names (always true of a [TracedValues], see
    C15), integers in their Rust range, floats finite *)
Theorem C11_wf_values_meaning : forall vs,
  wf_values vs = true <->
  NoDup (map fst vs) /\ Forall (fun kv => wire_value_ok (snd kv) = true) vs.
Proof. exact wf_values_spec. Qed.

Theorem C11_value_roundtrip : forall v,
  wire_value_ok v = true -> dec_value (enc_value v) = Some v.
Proof. exact dec_enc_value. Qed.

Theorem C11_error_chain_roundtrip : forall chain msg,
  dec_error (enc_error msg chain) = Some (msg, chain).
Proof. exact dec_enc_error. Qed.

Theorem C11_values_roundtrip : forall vs,
  wf_values vs = true -> dec_values (enc_values vs) = Some vs.
Proof. exact dec_enc_values. Qed.

(** without distinct names the decoder inserts one by one: later entries overwrite in place *)
Theorem C11_values_roundtrip_any_names : forall vs,
  Forall (fun kv => wire_value_ok (snd kv) = true) vs ->
  dec_values (enc_values vs) = Some (deser vs).
Proof. exact dec_enc_values_gen. Qed.

Theorem C11_call_site_roundtrip : forall d, wf_cs d = true -> dec_cs (enc_cs d) = Some d.
Proof. exact dec_enc_cs. Qed.

(** all nine variants *)
Theorem C11_event_roundtrip : forall e, wf_event e = true -> dec_event (enc_event e) = Some e.
Proof. exact dec_enc_event. Qed.

Theorem C11_span_data_roundtrip : forall s,
  wf_span_data s = true -> dec_span_data (enc_span_data s) = Some s.
Proof. exact dec_enc_span_data. Qed.

Theorem C11_wf_spans_meaning : forall m,
  wf_spans m = true <->
  NoDup (map fst m) /\ Forall (fun ka => wf_id (fst ka) = true /\ wf_span_data (snd ka) = true) m.
Proof. exact wf_spans_spec. Qed.

Theorem C11_spans_roundtrip : forall m, wf_spans m = true -> dec_spans (enc_spans m) = Some m.
Proof. exact dec_enc_spans. Qed.

Theorem C11_metadata_roundtrip : forall m,
  wf_metadata m = true -> dec_metadata (enc_metadata m) = Some m.
Proof. exact dec_enc_metadata. Qed.

(** persisted maps are written in hash order: whatever the member order, the same finite map is
    read back, and the document is the canonical encoding of that map *)
Theorem C11_spans_roundtrip_any_member_order : forall m ms,
  wf_spans m = true -> Permutation ms (members (enc_spans m)) ->
  exists m', Permutation m m' /\ JObj ms = enc_spans m' /\ wf_spans m' = true
             /\ dec_spans (JObj ms) = Some m'.
Proof. exact dec_enc_spans_perm. Qed.

Theorem C11_metadata_roundtrip_any_member_order : forall m ms,
  wf_metadata m = true -> Permutation ms (members (enc_metadata m)) ->
  exists m', Permutation m m' /\ JObj ms = enc_metadata m' /\ wf_metadata m' = true
             /\ dec_metadata (JObj ms) = Some m'.
Proof. exact dec_enc_metadata_perm. Qed.

Theorem C11_permuted_map_same_lookups : forall (A : Type) (m m' : pmap A),
  Permutation m m' -> NoDup (map fst m) -> forall k, pm_get m k = pm_get m' k.
Proof. exact @pm_get_perm. Qed.

(** duplicate ids in a document: the last entry wins *)
Theorem C11_duplicate_id_last_wins : forall (A : Type) (m : pmap A) k a k',
  pm_get (pm_insert m k a) k' = if N.eqb k k' then Some a else pm_get m k'.
Proof. exact @pm_get_insert. Qed.

(** map keys: decimal numerals, canonical ones only *)
Theorem C11_key_roundtrip : forall n, wf_id n = true -> dec_key (string_of_N n) = Some n.
Proof. exact dec_key_of_N. Qed.
Theorem C11_key_canonical : forall s n, dec_key s = Some n -> s = string_of_N n /\ wf_id n = true.
Proof. exact dec_key_inv. Qed.

(** ** Re-encoding identity *)
Theorem C11_event_reencodes_identically : forall e,
  wf_event e = true -> option_map enc_event (dec_event (enc_event e)) = Some (enc_event e).
Proof. exact reenc_event. Qed.
Theorem C11_values_reencode_identically : forall vs,
  wf_values vs = true -> option_map enc_values (dec_values (enc_values vs)) = Some (enc_values vs).
Proof. exact reenc_values. Qed.
Theorem C11_spans_reencode_identically : forall m,
  wf_spans m = true -> option_map enc_spans (dec_spans (enc_spans m)) = Some (enc_spans m).
Proof. exact reenc_spans. Qed.
Theorem C11_metadata_reencodes_identically : forall m,
  wf_metadata m = true ->
  option_map enc_metadata (dec_metadata (enc_metadata m)) = Some (enc_metadata m).
Proof. exact reenc_metadata. Qed.

(** whatever document was accepted, the value read is well formed and its canonical encoding reads
    back as the same value (state read by one build and written again stays readable and equal) *)
Theorem C11_decoded_event_is_canonical : forall j e,
  dec_event j = Some e -> wf_event e = true /\ dec_event (enc_event e) = Some e.
Proof. exact dec_event_canonical. Qed.
Theorem C11_decoded_spans_are_canonical : forall j m,
  dec_spans j = Some m -> wf_spans m = true /\ dec_spans (enc_spans m) = Some m.
Proof. exact dec_spans_canonical. Qed.
Theorem C11_decoded_metadata_is_canonical : forall j m,
  dec_metadata j = Some m -> wf_metadata m = true /\ dec_metadata (enc_metadata m) = Some m.
Proof. exact dec_metadata_canonical. Qed.

(** ** Order of values *)
Theorem C11_values_member_order : forall vs, member_keys (enc_values vs) = map fst vs.
Proof. exact enc_values_keys. Qed.
Theorem C11_event_values_member_order : forall e,
  event_value_keys (enc_event e) = option_map (map fst) (event_values e).
Proof. exact event_value_keys_enc. Qed.
(** decoding keeps the order of first occurrence of the member keys *)
Theorem C11_decoding_keeps_order : forall ms vs,
  dec_values (JObj ms) = Some vs -> map fst vs = first_occ [] (map fst ms).
Proof. exact dec_values_order. Qed.

(** ** Tolerance of the decoders (forward compatibility) *)
(** the decoder of a variant looks at its members only through the lookups of its own fields *)
Theorem C11_event_decoder_reads_own_fields_only : forall tag ms ms',
  (forall f, In f (event_fields tag) -> find_field f ms = find_field f ms') ->
  dec_event (JObj [(tag, JObj ms)]) = dec_event (JObj [(tag, JObj ms')]).
Proof. exact dec_event_ext. Qed.
Theorem C11_event_member_order_irrelevant : forall tag ms ms',
  Permutation ms ms' -> dec_event (JObj [(tag, JObj ms)]) = dec_event (JObj [(tag, JObj ms')]).
Proof. exact dec_event_perm. Qed.
Theorem C11_event_unknown_member_ignored : forall tag k j ms,
  ~ In k (event_fields tag) ->
  dec_event (JObj [(tag, JObj ((k, j) :: ms))]) = dec_event (JObj [(tag, JObj ms)]).
Proof. exact dec_event_unknown. Qed.
Theorem C11_span_data_decoder_reads_own_fields_only : forall ms ms',
  (forall f, In f span_data_fields -> find_field f ms = find_field f ms') ->
  dec_span_data (JObj ms) = dec_span_data (JObj ms').
Proof. exact dec_span_data_ext. Qed.
Theorem C11_call_site_decoder_reads_own_fields_only : forall ms ms',
  (forall f, In f cs_fields_known -> find_field f ms = find_field f ms') ->
  dec_cs_members ms = dec_cs_members ms'.
Proof. exact dec_cs_members_ext. Qed.
Theorem C11_error_decoder_reads_own_fields_only : forall ms ms',
  (forall f, In f ["message"; "source"]%string -> find_field f ms = find_field f ms') ->
  dec_error (JObj ms) = dec_error (JObj ms').
Proof. exact dec_error_ext. Qed.
Theorem C11_lookup_ignores_member_order : forall (A : Type) k (ms ms' : list (string * A)),
  Permutation ms ms' -> find_field k ms = find_field k ms'.
Proof. exact @find_field_perm. Qed.
Theorem C11_lookup_ignores_other_members : forall (A : Type) k k' (a : A) ms,
  k' <> k -> find_field k ((k', a) :: ms) = find_field k ms.
Proof. exact @find_field_cons_ne. Qed.
(** an optional member may be absent or [null] *)
Theorem C11_optional_null_is_absent : forall (A : Type) (d : json -> option A) k ms,
  find_field k ms = FAbsent -> optf d k ((k, JNull) :: ms) = optf d k ms.
Proof. exact @optf_null. Qed.

(** ** Wire shape: variant and field names, optional members omitted when absent *)
Theorem C11_shape_values : forall b z s m c,
  enc_value (VBool b) = JObj [("bool", JBool b)]%string
  /\ enc_value (VInt z) = JObj [("int", JInt z)]%string
  /\ enc_value (VUInt z) = JObj [("u_int", JInt z)]%string
  /\ (forall bits, f64_finite bits = true ->
                   enc_value (VFloat bits) = JObj [("float", JFloat bits)]%string)
  /\ enc_value (VStr s) = JObj [("string", JStr s)]%string
  /\ enc_value (VObj s) = JObj [("object", JStr s)]%string
  /\ enc_value (VErr m []) = JObj [("error", JObj [("message", JStr m); ("source", JNull)])]%string
  /\ (forall m', enc_value (VErr m (m' :: c))
                 = JObj [("error", JObj [("message", JStr m); ("source", enc_error m' c)])]%string).
Proof. exact shape_values. Qed.

Theorem C11_shape_call_site : forall k n t l mp f ln fs,
  enc_cs (mk_cs k n t l (Some mp) (Some f) (Some ln) fs)
  = JObj [("kind", enc_kind k); ("name", JStr n); ("target", JStr t); ("level", enc_level l);
          ("module_path", JStr mp); ("file", JStr f); ("line", JInt (Z.of_N ln));
          ("fields", JArr (map JStr fs))]%string
  /\ enc_cs (mk_cs k n t l None None None fs)
     = JObj [("kind", enc_kind k); ("name", JStr n); ("target", JStr t); ("level", enc_level l);
             ("fields", JArr (map JStr fs))]%string
  /\ enc_kind KSpan = JStr "span" /\ enc_kind KEvent = JStr "event"
  /\ enc_level LError = JStr "error" /\ enc_level LWarn = JStr "warn"
  /\ enc_level LInfo = JStr "info" /\ enc_level LDebug = JStr "debug"
  /\ enc_level LTrace = JStr "trace".
Proof. exact shape_call_site. Qed.

Theorem C11_shape_optional_member : forall (A : Type) k (e : A -> json) o,
  opt_member k e o = match o with Some a => [(k, e a)] | None => [] end.
Proof. exact @shape_optional. Qed.

Theorem C11_shape_events : forall i p m f d vs,
  enc_event (ENewCallSite i d)
  = JObj [("new_call_site", JObj (("id", JInt (Z.of_N i)) :: enc_cs_members d))]%string
  /\ enc_event (ENewSpan i (Some p) m vs)
     = JObj [("new_span", JObj [("id", JInt (Z.of_N i)); ("parent_id", JInt (Z.of_N p));
                                ("metadata_id", JInt (Z.of_N m)); ("values", enc_values vs)])]%string
  /\ enc_event (ENewSpan i None m vs)
     = JObj [("new_span", JObj [("id", JInt (Z.of_N i)); ("metadata_id", JInt (Z.of_N m));
                                ("values", enc_values vs)])]%string
  /\ enc_event (EFollowsFrom i f)
     = JObj [("follows_from", JObj [("id", JInt (Z.of_N i)); ("follows_from", JInt (Z.of_N f))])]%string
  /\ enc_event (ESpanEntered i) = JObj [("span_entered", JObj [("id", JInt (Z.of_N i))])]%string
  /\ enc_event (ESpanExited i) = JObj [("span_exited", JObj [("id", JInt (Z.of_N i))])]%string
  /\ enc_event (ESpanCloned i) = JObj [("span_cloned", JObj [("id", JInt (Z.of_N i))])]%string
  /\ enc_event (ESpanDropped i) = JObj [("span_dropped", JObj [("id", JInt (Z.of_N i))])]%string
  /\ enc_event (EValuesRecorded i vs)
     = JObj [("values_recorded", JObj [("id", JInt (Z.of_N i)); ("values", enc_values vs)])]%string
  /\ enc_event (ENewEvent m (Some p) vs)
     = JObj [("new_event", JObj [("metadata_id", JInt (Z.of_N m)); ("parent", JInt (Z.of_N p));
                                 ("values", enc_values vs)])]%string
  /\ enc_event (ENewEvent m None vs)
     = JObj [("new_event", JObj [("metadata_id", JInt (Z.of_N m)); ("values", enc_values vs)])]%string.
Proof. exact shape_events. Qed.

Theorem C11_shape_value_set : forall vs,
  enc_values vs = JObj (map (fun kv => (fst kv, enc_value (snd kv))) vs).
Proof. exact enc_values_members. Qed.

Theorem C11_shape_persisted : forall m p r vs,
  enc_span_data (mk_sd m (Some p) r vs)
  = JObj [("metadata_id", JInt (Z.of_N m)); ("parent_id", JInt (Z.of_N p));
          ("ref_count", JInt (Z.of_N r)); ("values", enc_values vs)]%string
  /\ enc_span_data (mk_sd m None r vs)
     = JObj [("metadata_id", JInt (Z.of_N m)); ("ref_count", JInt (Z.of_N r));
             ("values", enc_values vs)]%string
  /\ (forall spans, enc_spans spans
                    = JObj (map (fun ka => (string_of_N (fst ka), enc_span_data (snd ka))) spans))
  /\ (forall metas, enc_metadata metas
                    = JObj (map (fun ka => (string_of_N (fst ka), enc_cs (snd ka))) metas))
  /\ string_of_N 0 = "0"%string
  /\ string_of_N 18446744073709551615 = "18446744073709551615"%string.
Proof. exact shape_persisted. Qed.

(** ** Conformance to the frozen format *)
Theorem C11_event_encoding_conforms : forall e,
  wf_event e = true -> conforms_event (enc_event e) = true.
Proof. exact conforms_event_enc. Qed.
Theorem C11_conforming_event_is_readable : forall j,
  conforms_event j = true ->
  exists e, wf_event e = true /\ j = enc_event e /\ dec_event j = Some e.
Proof. exact conforms_event_inv. Qed.
Theorem C11_spans_encoding_conforms_any_member_order : forall m ms,
  wf_spans m = true -> Permutation ms (members (enc_spans m)) -> conforms_spans (JObj ms) = true.
Proof. exact conforms_spans_perm. Qed.
Theorem C11_metadata_encoding_conforms_any_member_order : forall m ms,
  wf_metadata m = true -> Permutation ms (members (enc_metadata m)) ->
  conforms_metadata (JObj ms) = true.
Proof. exact conforms_metadata_perm. Qed.

(** ** Outside the property: non-finite floats are written as [null], which is not read back *)
Theorem C11_nonfinite_float_is_null_and_unreadable : forall b,
  f64_finite b = false ->
  enc_value (VFloat b) = JObj [("float"%string, JNull)]
  /\ dec_value (enc_value (VFloat b)) = None.
Proof. exact enc_nonfinite_is_null. Qed.

(** ** Non-vacuity *)
Definition ex_values32 : tvalues :=
  map (fun i => (string_of_N (N.of_nat i), VUInt (Z.of_nat i))) (seq 0 32).

Definition ex_values : tvalues :=
  [("min", VInt (- 2 ^ 127)); ("max", VInt (2 ^ 127 - 1)); ("umax", VUInt (2 ^ 128 - 1));
   ("f", VFloat 4591870180066957722); ("negzero", VFloat (2 ^ 63));
   ("s", VStr (bs [209; 133; 10; 34])); ("o", VObj "Foo { x: 1 }");
   ("e", VErr "outer" ["middle"; "inner"]); ("b", VBool true)]%string.

Example C11_example_extremes_chain_and_sizes :
  wf_event (ENewSpan (2 ^ 64 - 1) (Some 0) 7 ex_values) = true
  /\ dec_event (enc_event (ENewSpan (2 ^ 64 - 1) (Some 0) 7 ex_values))
     = Some (ENewSpan (2 ^ 64 - 1) (Some 0) 7 ex_values)
  /\ wf_event (ENewEvent 1 None []) = true
  /\ dec_event (enc_event (ENewEvent 1 None [])) = Some (ENewEvent 1 None [])
  /\ List.length ex_values32 = 32%nat
  /\ wf_event (EValuesRecorded 3 ex_values32) = true
  /\ dec_event (enc_event (EValuesRecorded 3 ex_values32)) = Some (EValuesRecorded 3 ex_values32)
  /\ jdepth (enc_value (VErr "outer" ["middle"; "inner"]%string)) = 4%nat
  /\ conforms_event (enc_event (ENewSpan (2 ^ 64 - 1) (Some 0) 7 ex_values)) = true.
Proof. vm_compute. repeat split. Qed.

Example C11_example_call_site_and_persisted :
  let d := mk_cs KEvent "event src/lib.rs:5"%string "my::target"%string LWarn
                 (Some "my::module"%string) (Some "src/lib.rs"%string) (Some (2 ^ 32 - 1))
                 ["message"; "x"]%string in
  let s := mk_sd 1 (Some 5) (2 ^ 64 - 1) ex_values in
  dec_event (enc_event (ENewCallSite 9 d)) = Some (ENewCallSite 9 d)
  /\ dec_metadata (enc_metadata [(9, d); (0, d)]) = Some [(9, d); (0, d)]
  /\ dec_spans (enc_spans [(2 ^ 64 - 1, s); (0, mk_sd 0 None 0 [])])
     = Some [(2 ^ 64 - 1, s); (0, mk_sd 0 None 0 [])]
  /\ dec_spans (JObj (rev (members (enc_spans [(2 ^ 64 - 1, s); (0, mk_sd 0 None 0 [])]))))
     = Some [(0, mk_sd 0 None 0 []); (2 ^ 64 - 1, s)]
  /\ dec_spans (enc_spans []) = Some [].
Proof. vm_compute. repeat split. Qed.

(** the distinct-names hypothesis matters, is satisfiable, and is what the decoder restores *)
Example C11_example_duplicate_names :
  let vs := [("a", VInt 1); ("b", VBool true); ("a", VInt 2)]%string in
  wf_values vs = false
  /\ dec_values (enc_values vs) = Some [("a", VInt 2); ("b", VBool true)]%string
  /\ wf_values [("a", VInt 2); ("b", VBool true)]%string = true.
Proof. vm_compute. repeat split. Qed.

(** range checks, tolerance and the non-finite case on concrete documents *)
Example C11_example_decoder_limits :
  dec_event (JObj [("span_entered", JObj [("id", JInt (2 ^ 64))])])%string = None
  /\ dec_event (JObj [("span_entered", JObj [("id", JInt (-1))])])%string = None
  /\ dec_event (JObj [("span_entered", JObj [("id", JFloat 4607182418800017408)])])%string = None
  /\ dec_value (JObj [("int", JInt (2 ^ 127))])%string = None
  /\ dec_value (JObj [("u_int", JInt (-1))])%string = None
  /\ dec_value (JObj [("u_int", JInt (2 ^ 128))])%string = None
  /\ dec_value (JObj [("float", JNull)])%string = None
  /\ enc_value (VFloat 9218868437227405312) = JObj [("float", JNull)]%string
  /\ dec_event (JObj [("span_entered", JObj [("future", JArr [JNull]); ("id", JInt 5)])])%string
     = Some (ESpanEntered 5)
  /\ dec_event (JObj [("span_entered", JObj [("id", JInt 5); ("id", JInt 5)])])%string = None
  /\ dec_event (JObj [("new_event", JObj [("values", JObj []); ("parent", JNull);
                                          ("metadata_id", JInt 1)])])%string
     = Some (ENewEvent 1 None [])
  /\ dec_event (JObj [("unknown_variant", JObj [("id", JInt 5)])])%string = None
  /\ dec_key "007"%string = None /\ dec_key ""%string = None /\ dec_key "7"%string = Some 7.
Proof. vm_compute. repeat split. Qed.
