(** C18 — predicates mean what they say and explain themselves consistently.
    Property theorems only; every proof is [exact <lemma>].

    [wf_pred sp p] says that [p] is a predicate Rust's types accept for spans ([sp = true]) or
    events ([sp = false]): [name] on spans only, [message] on events only, span predicates inside
    [parent] / [ancestor], constants within the range of their Rust type. *)
From TT Require Import Capture.Predicates Capture.PredicatesProofs.
From TT Require Import Judge.C18Proofs.

(** Evaluation equals the reference meaning: exact / threshold level, target equal to the path or
    below it at a "::" boundary, field present and matching with strict kinds, message text,
    direct parent, any ancestor, and / or — for every predicate of any depth and every item. *)
Theorem C18_eval_denotes : forall p sp x, wf_pred sp p = true -> eval p x = denote p x.
Proof. exact eval_denote. Qed.

(** A supporting case for an expected outcome exists exactly when evaluation yields that outcome. *)
Theorem C18_case_iff_eval : forall b p x, find_case b p x <> None <-> eval p x = b.
Proof. exact case_iff_eval. Qed.

(** ... and hence exactly when the reference meaning is that outcome *)
Theorem C18_case_iff_meaning : forall sp b p x,
  wf_pred sp p = true -> (find_case b p x <> None <-> denote p x = b).
Proof. exact case_iff_denote. Qed.

(** The same for any implementation of the atoms' [find_case] that honours the documented contract
    of [Predicate::find_case] (not only the one [predicates] 3.1.3 has). *)
Theorem C18_case_iff_eval_any_atoms :
  forall (lcase : bool -> latom -> level -> option ctree)
         (scase : bool -> satom -> string -> option ctree)
         (vcase : bool -> vatom -> tconst -> option ctree)
         (bcase : bool -> bool -> tvalue -> option ctree),
    (forall b a x, lcase b a x <> None <-> latom_eval a x = b) ->
    (forall b a x, scase b a x <> None <-> satom_eval a x = b) ->
    (forall b a y, vcase b a y <> None <-> vatom_eval a y = b) ->
    (forall b c v, bcase b c v <> None <-> c = b) ->
    forall b p x, find_case_with lcase scase vcase bcase b p x <> None <-> eval p x = b.
Proof. exact case_iff_eval_with. Qed.

(** Exactly one of the two outcomes has a supporting case. *)
Theorem C18_case_exclusive : forall p x, find_case true p x <> None <-> find_case false p x = None.
Proof. exact case_exclusive. Qed.

(** The target boundary: [target(path)] accepts the path itself and what continues it with "::". *)
Theorem C18_target_boundary : forall path t,
  target_str_eval path t = true <-> t = path \/ exists rest, t = (path ++ "::" ++ rest)%string.
Proof. exact target_boundary. Qed.

(** The ancestors walked by [ancestor] are [iter::successors(parent, parent)], all of them spans. *)
Theorem C18_ancestors_successors : forall x,
  ancestors x = match parent x with None => [] | Some s => s :: ancestors s end.
Proof. exact ancestors_successors. Qed.

(** Scanner helpers over any sequence [l] of items; [matching p l] are the items whose reference
    meaning is true, in order. *)
Theorem C18_single_unique : forall sp p, wf_pred sp p = true -> forall l x,
  scan_single (eval p) l = SOk x <-> matching p l = [x].
Proof. exact single_unique. Qed.

Theorem C18_single_panics : forall sp p, wf_pred sp p = true -> forall l,
  (scan_single (eval p) l = SPanic PNoMatch <-> List.length (matching p l) = 0%nat) /\
  (scan_single (eval p) l = SPanic PMultiple <-> (2 <= List.length (matching p l))%nat) /\
  ((exists t, scan_single (eval p) l = SPanic t) <-> List.length (matching p l) <> 1%nat).
Proof. exact single_panics. Qed.

Theorem C18_first_is_first : forall sp p, wf_pred sp p = true -> forall l x,
  scan_first (eval p) l = SOk x <-> hd_error (matching p l) = Some x.
Proof. exact first_is_first. Qed.

Theorem C18_first_panics : forall sp p, wf_pred sp p = true -> forall l,
  (exists t, scan_first (eval p) l = SPanic t) <-> List.length (matching p l) = 0%nat.
Proof. exact first_panics. Qed.

Theorem C18_last_is_last : forall sp p, wf_pred sp p = true -> forall l x,
  scan_last (eval p) l = SOk x <-> hd_error (rev (matching p l)) = Some x.
Proof. exact last_is_last. Qed.

Theorem C18_last_panics : forall sp p, wf_pred sp p = true -> forall l,
  (exists t, scan_last (eval p) l = SPanic t) <-> List.length (matching p l) = 0%nat.
Proof. exact last_panics. Qed.

Theorem C18_all_iff_count : forall sp p, wf_pred sp p = true -> forall l,
  (scan_all (eval p) l = SOk tt <-> List.length (matching p l) = List.length l) /\
  (scan_all (eval p) l = SOk tt \/ scan_all (eval p) l = SPanic PNotAll).
Proof. exact all_iff_count. Qed.

Theorem C18_none_iff_count : forall sp p, wf_pred sp p = true -> forall l,
  (scan_none (eval p) l = SOk tt <-> List.length (matching p l) = 0%nat) /\
  (scan_none (eval p) l = SOk tt \/ scan_none (eval p) l = SPanic PMatched).
Proof. exact none_iff_count. Qed.

(** The scanner helpers for an arbitrary item type and [eval] function, as equations. *)
Theorem C18_scanners_determined : forall (A : Type) (f : A -> bool) (l : list A),
  scan_single f l = match filter f l with
                    | [] => SPanic PNoMatch | [x] => SOk x | _ :: _ :: _ => SPanic PMultiple end
  /\ scan_first f l = match filter f l with [] => SPanic PNoMatch | x :: _ => SOk x end
  /\ scan_last f l = match rev (filter f l) with [] => SPanic PNoMatch | x :: _ => SOk x end
  /\ scan_all f l = (if Nat.eqb (List.length (filter f l)) (List.length l) then SOk tt else SPanic PNotAll)
  /\ scan_none f l = match filter f l with [] => SOk tt | _ :: _ => SPanic PMatched end.
Proof.
  exact (fun A f l => conj (scan_single_spec f l) (conj (scan_first_spec f l)
          (conj (scan_last_spec f l) (conj (scan_all_spec f l) (scan_none_spec f l))))).
Qed.

(** the judges of the correspondence run ([Judge/C18.v]) on the model's own answers: within the
    hypotheses (a predicate the Rust types accept for the kind of item, values in range) an
    implementation that evaluates, explains and scans as the model does is judged [Agree] *)
Theorem C18_judge_items_ok_on_model : forall sp items p,
  judge_items sp items p (map (model_iobs p) items) = Agree \/
  judge_items sp items p (map (model_iobs p) items) = OutOfScope.
Proof. exact judge_items_ok_on_model. Qed.

Theorem C18_scanners_are_reference_scanners : forall sp p l with_last,
  wf_pred sp p = true -> model_sobs p l with_last = ref_sobs p l with_last.
Proof. exact model_sobs_is_ref_sobs. Qed.

Theorem C18_judge_scan_ok_on_model : forall sp items sel p with_last l,
  pick items sel = Some l ->
  judge_scan sp items sel p (model_sobs p l with_last) = Agree \/
  judge_scan sp items sel p (model_sobs p l with_last) = OutOfScope.
Proof. exact judge_scan_ok_on_model. Qed.

(** Non-vacuity: an event three levels deep, predicates of every factory, both outcomes. *)
Local Open Scope string_scope.
Example C18_example :
  let root := mk_sdata LInfo "app" "root" [("id", VInt 42); ("flag", VBool true)] in
  let mid := mk_sdata LDebug "app::db" "query" [("rows", VUInt 42)] in
  let ev := mk_item false (mk_sdata LWarn "appx" "event" [("message", VObj "done"); ("n", VInt 7)])
                    [mid; root] in
  let sp_mid := mk_item true mid [root] in
  let p := PAnd (PAncestor (PAnd (PTarget "app") (PName (AEq "root"))))
                (POr (PMessage (AContains "on")) (PField "n" (FEquiv (CU64 7)))) in
  wf_pred false p = true
  /\ eval p ev = true
  /\ find_case true p ev = Some (CNode [CNode [CNode [CNode [CNode []]; CNode [CNode []]]];
                                        CNode [CNode [CNode []]]])
  /\ find_case false p ev = None
  /\ eval (PParent (PName (AEq "root"))) ev = false
  /\ find_case false (PAncestor (PLevelEq LError)) ev = Some (CNode [CNode [CNode []]; CNode [CNode []]])
  /\ find_case false (PAncestor (PLevelEq LError)) (mk_item true root []) = Some (CNode [])
  /\ eval (PTarget "app") ev = false /\ eval (PTarget "app") sp_mid = true
  /\ eval (PField "n" (FEquiv (CU64 7))) ev = false /\ eval (PField "n" (FEquiv (CI64 7))) ev = true
  /\ eval (PField "rows" (FValue TU64 (VAGe (CU64 42)))) sp_mid = true
  /\ eval (PLevelMax (Some LInfo)) ev = true /\ eval (PLevelMax (Some LInfo)) sp_mid = false
  /\ eval (PLevelMax None) ev = false
  /\ scan_single (eval (PTarget "app")) [ev; sp_mid; ev] = SOk sp_mid
  /\ scan_single (eval (PLevelEq LWarn)) [ev; sp_mid; ev] = SPanic PMultiple
  /\ scan_last (eval (PLevelMax (Some LTrace))) [ev; sp_mid] = SOk sp_mid
  /\ scan_all (eval (PLevelEq LWarn)) [ev; sp_mid] = SPanic PNotAll
  /\ scan_none (eval (PLevelEq LError)) [ev; sp_mid] = SOk tt.
Proof. vm_compute. repeat split. Qed.
