(** C03 — after a host restart live spans are restored faithfully; nothing is rejected.
    Property theorems only. *)
From TT Require Import Tunnel.ReceiverAbs Tunnel.ReceiverInv Tunnel.ReceiverHistInv
  Tunnel.ReceiverAbsProofs Tunnel.ReceiverMisc Tunnel.ReceiverFinalize Tunnel.ReceiverAttach.
From stdpp Require Import gmap.
Local Open Scope N_scope.

(** Acceptance results and persistable state do not depend on whether the local span map was kept
    or lost at any cut: the abstract receiver, which the implementation refines on every history,
    does not even see the flag.  In particular a stream that is accepted by one uninterrupted
    receiver is accepted after any number of host restarts, including events for spans whose
    explicit parent has been dropped, and the final persisted state is the same. *)
Theorem C03_history_refines_abstract : forall steps,
  hist_scope hist_init steps ->
  ahist_run ah_init steps =
  (map outcome_of (hist_run hist_init steps), absh (hist_final hist_init steps)).
Proof. exact (fun steps => hist_run_refines steps hist_init HInv_init). Qed.

Theorem C03_restart_is_invisible_to_acceptance : forall steps h,
  ahist_run h (map forget_keep steps) = ahist_run h steps.
Proof. exact ahist_run_forget_keep. Qed.

Theorem C03_same_as_uncut_run : forall steps h,
  AInv h -> no_drop steps = true ->
  let '(os, h') := ahist_run h steps in
  let '(os', a') := arun (ah_cur h) (events_of steps) in
  omap id os = os' /\ ah_cur h' = a'.
Proof. exact ahist_no_drop_is_stream. Qed.

(** A span without a host span is presented on its first enter, before the enter: one [new_span]
    with the span's call site carrying the latest values of the call site's fields (the first 32,
    the remaining ones by [record] calls right after), and the id returned is remembered, so it is
    not presented again (the [Some h] case). *)
Theorem C03_presented_on_first_enter : forall st w id st' w' calls,
  Inv st -> try_receive st w (ESpanEntered id) = (Accepted, st', w', calls) ->
  match r_local st !! id with
  | Some h => calls = [HEnter h] /\ w' = w
  | None =>
      exists d md p, r_spans st !! id = Some d /\ r_meta st !! sd_meta d = Some md /\
        let h := (w_next w + 1)%N in
        r_local st' !! id = Some h /\
        (exists recs, calls = HNewSpan h md p (firstn 32 (host_vals md (sd_values d))) :: recs ++ [HEnter h]
                      /\ Forall (fun c => exists vs, c = HRecord h vs) recs) /\
        presented_values calls = host_vals md (sd_values d)
  end.
Proof. exact entered_presentation. Qed.

(** Events emitted inside a span that was entered after the restart are attached to it: when the
    entered span has no host span yet, the host span created for it is the host thread's current
    span right after the event, whatever the thread had entered before (host ids issued earlier);
    a span that has a host span becomes current unless the thread is already inside it (the
    Registry's [SpanStack] skips duplicate entries); and a contextual guest event reaches the host as
    exactly one contextual event, which the host attaches to its current span. *)
Theorem C03_entered_after_restart_is_current : forall st w id st' w' calls stk,
  Inv st -> r_local st !! id = None ->
  try_receive st w (ESpanEntered id) = (Accepted, st', w', calls) ->
  (forall x, x ∈ stk -> (x <= w_next w)%N) ->
  let h := (w_next w + 1)%N in
  r_local st' !! id = Some h /\ stack_apply stk calls = h :: stk /\ current (stack_apply stk calls) = Some h.
Proof. exact enter_after_restart_is_current. Qed.

Theorem C03_entered_known_span_is_current : forall st w id h st' w' calls stk,
  Inv st -> r_local st !! id = Some h ->
  try_receive st w (ESpanEntered id) = (Accepted, st', w', calls) ->
  stack_apply stk calls = h :: stk /\ (on_stack h stk = false -> current (stack_apply stk calls) = Some h).
Proof. exact enter_known_is_current. Qed.

Theorem C03_contextual_event_goes_to_current_span : forall st w m vs o st' w' calls,
  try_receive st w (ENewEvent m None vs) = (o, st', w', calls) -> o = Accepted ->
  exists md, r_meta st !! m = Some md /\ calls = [HEvent md PCtx (host_vals md vs)] /\ st' = st /\ w' = w /\
             forall stk, stack_apply stk calls = stk.
Proof. exact contextual_event_is_contextual. Qed.

(** Non-vacuity: the repaired F3 history. *)
Example C03_example :
  let cs := mk_cs KSpan "s" "t" LInfo None None None ["a"%string] in
  map outcome_of (hist_run hist_init
    [SRecv (ENewCallSite 0 cs); SRecv (ENewSpan 1 None 0 []); SRecv (ENewSpan 2 (Some 1) 0 [("a"%string, VInt 5)]);
     SRecv (ESpanDropped 1); SPersist false; SRecv (ESpanEntered 2); SRecv (ENewEvent 0 None []); SRecv (ESpanExited 2)])
  = [Some Accepted; Some Accepted; Some Accepted; Some Accepted; None; Some Accepted; Some Accepted; Some Accepted].
Proof. vm_compute. reflexivity. Qed.
