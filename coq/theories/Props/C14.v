(** C14 — every recorded field value is captured once, in order, with the right kind.
    Property theorems only; every proof is [exact <lemma>].

    Vocabulary ([Guest/Program.v], [Values/Values.v]):
    [names]  field names of the call site, in declaration order (repetitions allowed);
    [vs]     the value-set array: (field index, [Some] value or [None] = Empty), in array order;
    [from_value_set names vs]  model of [TracedValues::from_values / from_record / from_event];
    [provided_spec names vs]   the (name, reference value) pairs of the non-Empty entries, in array
                               order; [spec_value] is the property's own table of kinds;
    [denote h]                 distinct names of [h] in order of first occurrence, each with the
                               value of its last occurrence. *)
From TT Require Import Values.ValuesProofs Guest.Program Guest.ProgramProofs.

(** Captured values = the specification's map of the provided non-Empty entries, for every field
    list and every array (any order, any repetition of indices or names, any number of entries). *)
Theorem C14_capture_once_in_order : forall names vs,
  from_value_set names vs = denote (provided_spec names vs).
Proof. exact from_value_set_denote_spec. Qed.

(** ... hence: each name once, *)
Theorem C14_names_distinct : forall names vs, NoDup (map fst (from_value_set names vs)).
Proof. exact from_value_set_nodup. Qed.

(** ... a name is present iff some entry provides a value for a field of that name, *)
Theorem C14_present_iff_provided : forall names vs k,
  In k (map fst (from_value_set names vs)) <->
  exists i p, In (i, Some p) vs /\ nth_error names i = Some k.
Proof. exact from_value_set_names. Qed.

(** ... names in order of first occurrence among the provided entries (a repeated name keeps its
    first position), *)
Theorem C14_first_occurrence_order : forall names vs,
  map fst (from_value_set names vs) = first_occ [] (map fst (provided_spec names vs)).
Proof. exact from_value_set_order. Qed.

(** ... and each name carries the reference value of the last entry providing it. *)
Theorem C14_last_value : forall names vs k,
  get (from_value_set names vs) k = last_val (provided_spec names vs) k.
Proof. exact from_value_set_last. Qed.

(** Empty fields are omitted: an Empty entry changes nothing, wherever it stands; *)
Theorem C14_empty_omitted : forall names a i b,
  from_value_set names (a ++ (i, None) :: b) = from_value_set names (a ++ b).
Proof. exact empty_entry_omitted. Qed.

(** all of them can be deleted at once; *)
Theorem C14_empty_all_omitted : forall names vs,
  from_value_set names vs = from_value_set names (nonempty vs).
Proof. exact empty_entries_omitted. Qed.

(** and a name whose fields are only given Empty (or are not listed) is absent. *)
Theorem C14_only_empty_absent : forall names vs k,
  (forall i p, In (i, Some p) vs -> nth_error names i <> Some k) ->
  get (from_value_set names vs) k = None /\ ~ In k (map fst (from_value_set names vs)).
Proof. exact only_empty_absent. Qed.

(** Kinds and contents are exact: the two-step model (tracing-core's [Value] impl picks the
    callback, the crate's visitor stores) agrees with the property's table on every primitive. *)
Theorem C14_conv_is_spec : forall p, conv p = spec_value p.
Proof. exact conv_spec. Qed.

Theorem C14_conv_exact :
  (forall w z, conv (PInt w z) = VInt z)             (* i8 i16 i32 i64 i128 isize: Int, exact number *)
  /\ (forall w z, conv (PUInt w z) = VUInt z)        (* u8 u16 u32 u64 u128 usize: UInt, exact number *)
  /\ (forall b, conv (PF32 b) = VFloat b)            (* f32: the bits of its f64 widening *)
  /\ (forall b, conv (PF64 b) = VFloat b)            (* f64: its bits *)
  /\ (forall b, conv (PBool b) = VBool b)
  /\ (forall s, conv (PStr s) = VStr s)
  /\ (forall s, conv (PDisplay s) = VObj s)          (* the Display rendering *)
  /\ (forall s, conv (PDebug s) = VObj s)            (* the Debug rendering *)
  /\ (forall m c, conv (PError m c) = VErr m c).     (* message and every source, outermost first *)
Proof. exact conv_exact_all. Qed.

Theorem C14_error_full_chain : forall m c,
  exists c', conv (PError m c) = VErr m c' /\ c' = c
             /\ err_depth (conv (PError m c)) = Some (List.length c).
Proof. exact conv_error_chain. Qed.

(** The visitor never produces an ill-formed value from an existing Rust value; *)
Theorem C14_conv_wf : forall p, wf_prim p = true -> wf_value (conv p) = true.
Proof. exact conv_wf. Qed.

(** nor does a whole capture. *)
Theorem C14_capture_wf : forall names vs,
  (forall i p, In (i, Some p) vs -> wf_prim p = true) ->
  forall k v, In (k, v) (from_value_set names vs) -> wf_value v = true.
Proof. exact from_value_set_wf. Qed.

(** Declaration order.  For an array whose field indices increase (what [span!]/[event!] build) on a
    call site with distinct field names, the result is literally the list of provided entries:
    each once, in declaration order, with its own value; *)
Corollary C14_declaration_order : forall names vs,
  NoDup names -> decl_order vs = true ->
  from_value_set names vs = provided_spec names vs.
Proof. exact declaration_order_distinct. Qed.

(** with repeated names, the full array of the macros (one entry per declared field, all present)
    yields the declared names without their later repetitions. *)
Corollary C14_declaration_order_full : forall names vs,
  map fst vs = seq 0 (List.length names) ->
  (forall e, In e vs -> snd e <> None) ->
  map fst (from_value_set names vs) = first_occ [] names.
Proof. exact declaration_order_full. Qed.

(** Non-vacuity: fields [a b a c d]; array shuffled, with an Empty entry, a repeated name (second
    field "a" given after "b") and a repeated index; every kind of value. *)
Local Open Scope string_scope.
Example C14_example :
  let names := ["a"; "b"; "a"; "c"; "d"]%string in
  let vs := [ (1, Some (PInt W8 (-128))); (0, Some (PUInt W128 (2 ^ 128 - 1)));
              (3, None); (2, Some (PError "top" ["mid"; "root"]));
              (4, Some (PF32 4609434218613702656)); (1, Some (PDisplay "shown")) ]%nat in
  from_value_set names vs
  = [ ("b", VObj "shown"); ("a", VErr "top" ["mid"; "root"]); ("d", VFloat 4609434218613702656) ]%string
  /\ wf_valset names vs = true
  /\ decl_order vs = false
  /\ from_value_set ["x"; "y"; "z"]%string [(0, Some (PBool true)); (1, None); (2, Some (PStr "s"))]%nat
     = [("x", VBool true); ("z", VStr "s")]%string
  /\ decl_order [(0, Some (PBool true)); (1, None); (2, Some (PStr ""))]%nat = true
  /\ wf_prog_b ex_fib = true.
Proof. vm_compute. repeat split. Qed.
