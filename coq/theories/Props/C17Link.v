(** C17 - link between the property theorems ([Props/C17.v]) and what the check evaluates
    ([Judge/C17.v]); kept in a file of its own because the proofs ([Judge/C17Proofs.v]) use the
    theorems of [Props/C17.v].  Theorems only; every proof is [exact <lemma>].

    The judge evaluates [laws_ok] - an independent boolean formulation of the C17 laws on the
    observations alone - and [corr_storage] - the model rebuilt from the observed parent / follows
    links reproduces the observations.  Both hold of the model's own observations of every reachable
    storage (items identified by distinct payloads, as the harness does); the model's observation
    function is total on reachable storages; a storage is determined by the links the judge replays. *)
From TT Require Import Capture.Queries Capture.QueriesProofs Judge.C17 Judge.C17Proofs.

Theorem C17_judge_laws_hold_on_model : forall (st : mstorage) o,
  reachable st -> payloads_distinct st -> model_storage_obs st = Done o -> laws_ok o = true.
Proof. exact laws_ok_on_model_distinct. Qed.

(** the side condition is needed: two spans with one payload are one item for the harness *)
Theorem C17_judge_payload_condition_needed :
  exists st o, reachable st /\ model_storage_obs st = Done o /\ laws_ok o = false.
Proof. exact payload_condition_needed. Qed.

Theorem C17_judge_replay_rebuilds_model : forall (st : mstorage) o,
  reachable st -> model_storage_obs st = Done o -> model_of o = Done st.
Proof. exact model_of_on_model. Qed.

Theorem C17_judge_corr_on_model : forall (st : mstorage) o,
  reachable st -> model_storage_obs st = Done o -> corr_storage o = true.
Proof. exact corr_storage_on_model. Qed.

Theorem C17_judge_comparisons_whenever_corr : forall (sts : list mstorage) (obs : list storage_obs) (c : cmp_obs),
  Forall2 (fun st o => reachable st /\ model_storage_obs st = Done o) sts obs ->
  corr_cmp (map Done sts) c = true -> cmp_ok obs c = true.
Proof. exact cmp_ok_of_corr. Qed.

Theorem C17_judge_agrees_on_reachable : forall st : mstorage,
  reachable st -> payloads_are_positions st ->
  exists o, model_storage_obs st = Done o /\ judge_c17 [o] [] = Agree.
Proof. exact judge_c17_agrees_on_reachable. Qed.

Theorem C17_judge_agrees_on_model : forall (sts : list mstorage) (obs : list storage_obs) (cmps : list cmp_obs),
  Forall2 (fun st o => reachable st /\ payloads_are_positions st /\ model_storage_obs st = Done o) sts obs ->
  forallb (corr_cmp (map Done sts)) cmps = true -> judge_c17 obs cmps = Agree.
Proof. exact judge_c17_on_model. Qed.

(** what [laws_ok] alone guarantees: the observed links replay to a reachable storage with exactly
    those payloads, parents and follows-from lists *)
Theorem C17_judge_laws_imply_replayable : forall o, laws_ok o = true ->
  exists st', model_of o = Done st' /\ reachable st' /\
    cores st' = map (fun so => (so_i so, so_parent so, io_fwd (so_follows so))) (sto_spans o) /\
    ecores st' = map (fun eo => (eo_i eo, eo_parent eo)) (sto_events o).
Proof. exact laws_ok_replay_valid. Qed.
