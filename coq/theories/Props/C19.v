(** C19 — concurrent emitters are captured completely and consistently.
    Property theorems only; every proof is [exact <lemma>].

    PARTIAL (runtime): the theorems are about executions at callback granularity.  An execution of
    several threads against one subscriber is a sequence of front-end calls, each tagged with the
    thread that makes it ([prog]: [p_ops : list (thread id * op)]); the subscriber (the model of
    [tracing_subscriber::Registry] with per-thread span stacks, and the transcription of
    [CaptureLayer]) handles each call as one step.  "Under every schedule" is therefore "for every
    such sequence" - equivalently for every interleaving [interleave ps sch] of per-thread programs
    [ps] by a scheduler [sch].  That the real callbacks behave atomically at this granularity (one
    acquisition of the storage's write lock per callback, linearizable Registry) is ASSUMED, not
    proved; the correspondence runs exercise it with free-running threads.

    Vocabulary ([Capture/Concurrent.v]): [thread_ops t ops]: the operations thread [t] issues, in
    its program order.  [own_stack t ops]: the span stack of thread [t] computed from ITS OWN enter /
    exit operations alone.  [emitted_spans p] / [emitted_events p]: the spans and events the
    execution emits, in emission order, each with its position, issuing thread, call site, parent
    kind and values; [of_thread t] restricts to one thread.  [em_lparent_ops ops e]: the logical
    parent of an emitted item: its explicit parent, none for an explicit root, and for a contextual
    item the current span of [own_stack (em_tid e)] just before the item.  [span_owners f p]: the
    thread that emitted the i-th captured span; [select owners t l]: the entries of [l] owned by
    [t].  [spec_storage], [attach] (nearest enabled span along logical parents), [cap_rank]
    (captured id of a span = its rank among enabled spans): [Capture/LayerSpec.v].
    [reachable]: reachable from the empty storage by valid mutations, the hypothesis of every
    theorem of C17 ([Props/C17.v]). *)
From TT Require Import Capture.ConcurrentProofs Capture.SoloProofs Capture.SoloOpen Capture.Queries Capture.QueriesProofs.

(** ** under every schedule the layer completes every callback and stores exactly what the
    specification prescribes.  For every filter, every id assignment and every execution the safe
    API permits: any number of threads, explicit parents / follows-from / enters / clones / drops
    on spans created by other threads included. *)
Theorem C19_every_execution_refines_spec :
  forall (filter : cs_data -> bool) (ids : list N) (p : prog),
    wf_prog_stale p ->
    storage_of (layer_run filter ids p) = Some (spec_storage filter ids p).
Proof. exact capture_refines_spec. Qed.

Theorem C19_every_schedule_refines_spec :
  forall (filter : cs_data -> bool) (ids : list N) (sites : list cs_data)
         (ps : list (list Program.op)) (sch : list nat),
    let p := mk_prog sites (interleave ps sch) in
    wf_prog_stale p ->
    storage_of (layer_run filter ids p) = Some (spec_storage filter ids p) /\
    forall t, complete ps sch -> thread_ops t (p_ops p) = nth t ps [].
Proof.
  exact (fun filter ids sites ps sch Hwf =>
           conj (capture_refines_spec filter ids _ Hwf) (fun t Hc => thread_ops_complete t ps sch Hc)).
Qed.

(** the scheduler only interleaves: each thread's operations occur in its program order *)
Theorem C19_schedule_preserves_program_order : forall t sch ps,
  thread_ops t (interleave ps sch) ++ nth t (remaining ps sch) [] = nth t ps [].
Proof. exact thread_ops_interleave. Qed.

(** ** the storage satisfies all structural laws of C17: whatever the program (even one the API
    does not permit), if every callback of the run completes, the storage is reachable by valid
    storage mutations, so [storage_wf] and every theorem of Props/C17.v hold of it *)
Theorem C19_completed_run_reachable : forall filter ids p r st,
  layer_run filter ids p = ROk (r, st) -> reachable st /\ storage_wf st.
Proof. exact (fun filter ids p r st E => let R := layer_run_reachable filter ids p r st E in conj R (reachable_wf st R)). Qed.

Theorem C19_storage_reachable : forall filter ids p,
  wf_prog_stale p -> reachable (spec_storage filter ids p) /\ storage_wf (spec_storage filter ids p).
Proof. exact (fun filter ids p Hwf => let R := spec_storage_reachable filter ids p Hwf in conj R (reachable_wf _ R)). Qed.

(** ** every emitted item is captured exactly once, in emission order *)
Theorem C19_spans_exactly_once : forall filter ids p,
  map (fun r => spl_meta (sp_payload r)) (st_spans (spec_storage filter ids p))
  = List.filter filter (map em_meta (emitted_spans p)).
Proof. exact storage_spans_emitted. Qed.

Theorem C19_events_exactly_once : forall filter ids p,
  map (fun e => (epl_meta (ev_payload e), epl_values (ev_payload e))) (st_events (spec_storage filter ids p))
  = map (fun e => (em_meta e, from_value_set (cs_fields (em_meta e)) (em_vals e)))
        (List.filter (fun e => filter (em_meta e)) (emitted_events p)).
Proof. exact storage_events_emitted. Qed.

(** ** each thread's items appear in that thread's emission order, which is its program order *)
Theorem C19_thread_spans_in_thread_order : forall filter ids p t,
  map (fun r => spl_meta (sp_payload r)) (select (span_owners filter p) t (st_spans (spec_storage filter ids p)))
  = List.filter filter (map em_meta (of_thread t (emitted_spans p))).
Proof. exact thread_spans_in_order. Qed.

Theorem C19_thread_events_in_thread_order : forall filter ids p t,
  map (fun e => (epl_meta (ev_payload e), epl_values (ev_payload e)))
      (select (event_owners filter p) t (st_events (spec_storage filter ids p)))
  = map (fun e => (em_meta e, from_value_set (cs_fields (em_meta e)) (em_vals e)))
        (List.filter (fun e => filter (em_meta e)) (of_thread t (emitted_events p))).
Proof. exact thread_events_in_order. Qed.

Theorem C19_thread_emits_its_program : forall p t,
  map em_triple (of_thread t (emitted_spans p)) = span_emits (p_sites p) (thread_ops t (p_ops p)) /\
  map em_triple (of_thread t (emitted_events p)) = event_emits (p_sites p) (thread_ops t (p_ops p)).
Proof. exact thread_emits_own_program. Qed.

(** ** ... with the parent the thread's own span stack dictates.
    Thread-locality: the stack the specification consults for thread [t] is a function of the
    operations of [t] alone, whatever the other threads do in between. *)
Theorem C19_stack_is_thread_local : forall filter sites ids t ops,
  stack_of (ss_stacks (a_sym (fold_left (spec_step filter sites ids) ops a_init))) t = own_stack t ops.
Proof. exact stack_own. Qed.

(** the forest of the specification: the k-th span is the k-th emitted span with the logical parent
    its own thread dictates; the events are the enabled emitted events *)
Theorem C19_forest_is_emitted : forall filter ids p,
  skel (a_spans (spec_run filter ids p)) = skel_of (p_ops p) (emitted_spans p) /\
  aevs (a_events (spec_run filter ids p))
  = evs_of (p_ops p) (List.filter (fun e => filter (em_meta e)) (emitted_events p)).
Proof. exact (fun filter ids p => forest_is_emitted filter (p_sites p) ids (p_ops p)). Qed.

(** a captured span / event is attached to the nearest enabled span on the chain of logical parents
    that starts at the parent its own thread's stack (or its explicit parent) dictates *)
Theorem C19_span_parent : forall filter ids p k e,
  nth_error (emitted_spans p) k = Some e -> filter (em_meta e) = true ->
  let spans := a_spans (spec_run filter ids p) in
  exists r, get_span (spec_storage filter ids p) (cap_rank filter spans k) = Some r /\
    spl_meta (sp_payload r) = em_meta e /\
    sp_parent_id r = option_map (cap_rank filter spans) (attach filter spans (em_lparent_ops (p_ops p) e)).
Proof. exact storage_span_parent. Qed.

Theorem C19_event_parent : forall filter ids p i e,
  nth_error (List.filter (fun e => filter (em_meta e)) (emitted_events p)) i = Some e ->
  let spans := a_spans (spec_run filter ids p) in
  exists r, get_event (spec_storage filter ids p) (N.of_nat i) = Some r /\
    epl_meta (ev_payload r) = em_meta e /\
    ev_parent_id r = option_map (cap_rank filter spans) (attach filter spans (em_lparent_ops (p_ops p) e)).
Proof. exact storage_event_parent. Qed.

(** ** per-thread projections equal the single-threaded reference.
    [solo t p] ([Capture/Solo.v]): the execution [p] with the operations of every thread but the main
    thread (0) and the worker [t] taken out, span names adjusted.  [isolated t p]: [t] names only its
    own and the main thread's spans, the main thread only its own, and no other thread names a span
    of [t].  [tview_of t filter ids p]: what the forest of the specification says about the spans and
    events of [t] - metadata, values in recording order, enter and exit counts, the captured span each
    is attached to, follows-from edges - with every span named by (owner, rank among the owner's
    spans) instead of by creation index.
    Whatever the other workers do and however the scheduler interleaves them, the view of a worker
    is the view in its solo execution. *)
Theorem C19_worker_view_is_solo_view : forall (t : nat) (filter : cs_data -> bool) (ids ids' : list N) (p : prog),
  wf_prog_b p = true -> wf_prog_b (solo t p) = true -> isolated t p = true ->
  tview_of t filter ids p = tview_of t filter ids' (solo t p).
Proof. exact tview_solo. Qed.

(** ... and the spans of the worker are open (not yet closed by the subscriber: a handle is alive, or
    a thread has entered the span, or a child is open) exactly when they are in the solo execution;
    [oview t owners a]: the open flags of the spans of [t], in creation order.  With the entry above
    this is every field of a captured span of [t]: metadata, values, entered, exited, closed, parent,
    follows-from. *)
Theorem C19_worker_spans_open_as_in_solo : forall (t : nat) (filter : cs_data -> bool) (ids ids' : list N) (p : prog),
  wf_prog_b p = true -> wf_prog_b (solo t p) = true -> isolated t p = true ->
  oview t (owners_of (p_sites p) (p_ops p)) (spec_run filter ids p)
  = oview t (owners_of (p_sites p) (p_ops (solo t p))) (spec_run filter ids' (solo t p)).
Proof. exact oview_solo. Qed.

(** hence two executions with the same solo execution of [t] - e.g. two interleavings of the same
    per-thread programs - give [t] the same view *)
Theorem C19_worker_view_schedule_independent : forall t filter ids ids' p p',
  wf_prog_b p = true -> wf_prog_b (solo t p) = true -> isolated t p = true ->
  wf_prog_b p' = true -> isolated t p' = true -> solo t p' = solo t p ->
  tview_of t filter ids p = tview_of t filter ids' p'.
Proof.
  exact (fun t filter ids ids' p p' W S I W' I' E =>
           eq_trans (tview_solo t filter ids ids p W S I)
                    (eq_trans (f_equal (tview_of t filter ids) (eq_sym E))
                              (eq_sym (tview_solo t filter ids' ids p' W' (eq_ind_r (fun q => wf_prog_b q = true) S E) I')))).
Qed.

(** ** Non-vacuity.  Two worker threads (1 and 2) and the main thread (0).  Main creates a shared
    span (INFO); each worker enters its own span, creates a child with the shared span as explicit
    parent, emits an event inside its own span; worker 1 also enters the shared span.  Two schedules
    of the same per-thread programs: both executions are well-formed, capture the same items per
    thread in the same order with the same parents, in different global orders. *)
Definition c19_threads : list (list Program.op) :=
  [ [ ONewSpan 0 PKCtx [] ];                                        (* main: span 0 *)
    [ ONewSpan 2 PKCtx []; OEnter 1; ONewSpan 0 (PKExplicit 0) []; OEvent 1 PKCtx []; OEnter 0; OExit 0; OExit 1 ];
    [ ONewSpan 2 PKCtx []; OEnter 3; OEvent 1 PKCtx []; ONewSpan 0 (PKExplicit 0) []; OExit 3 ] ]%nat.
(** worker 1 first, then worker 2 (span indices: 0 shared, 1, 2 of worker 1, 3, 4 of worker 2) *)
Definition c19_sched_a : list nat := [0; 1; 1; 1; 1; 1; 1; 1; 2; 2; 2; 2; 2]%nat.
Definition c19_prog_a : prog := mk_prog ex_sites (interleave c19_threads c19_sched_a).
(** alternating: worker 2 creates its span before worker 1 creates its child, so the creation
    indices differ; the same per-thread programs with the names the alternation produces *)
Definition c19_threads_b : list (list Program.op) :=
  [ [ ONewSpan 0 PKCtx [] ];
    [ ONewSpan 2 PKCtx []; OEnter 1; ONewSpan 0 (PKExplicit 0) []; OEvent 1 PKCtx []; OEnter 0; OExit 0; OExit 1 ];
    [ ONewSpan 2 PKCtx []; OEnter 2; OEvent 1 PKCtx []; ONewSpan 0 (PKExplicit 0) []; OExit 2 ] ]%nat.
Definition c19_sched_b : list nat := [0; 1; 2; 1; 2; 1; 2; 1; 2; 1; 2; 1; 1]%nat.
Definition c19_prog_b : prog := mk_prog ex_sites (interleave c19_threads_b c19_sched_b).

Example C19_example :
  wf_prog_b c19_prog_a = true /\ wf_prog_b c19_prog_b = true /\
  single_threaded c19_prog_a = false /\
  List.length (p_ops c19_prog_a) = 13%nat /\ List.length (p_ops c19_prog_b) = 13%nat /\
  (* per thread, what is captured and where it is attached (parent given by metadata name) is the same
     under both schedules *)
  (let view p t :=
     option_map (fun st =>
       (map (fun r => (cs_name (spl_meta (sp_payload r)), spl_entered (sp_payload r),
                       option_map (fun q => match get_span st q with
                                            | Some pr => cs_name (spl_meta (sp_payload pr)) | None => ""%string end)
                                  (sp_parent_id r)))
            (select (span_owners (fun _ => true) p) t (st_spans st)),
        map (fun e => option_map (fun q => N.to_nat q) (ev_parent_id e))
            (select (event_owners (fun _ => true) p) t (st_events st))))
       (storage_of (layer_run (fun _ => true) [] p)) in
   view c19_prog_a 0%nat = Some ([("fib", 1, None)], [])%string /\
   view c19_prog_b 0%nat = Some ([("fib", 1, None)], [])%string /\
   view c19_prog_a 1%nat = Some ([("child", 1, None); ("fib", 0, Some "fib")], [Some 1%nat])%string /\
   view c19_prog_b 1%nat = Some ([("child", 1, None); ("fib", 0, Some "fib")], [Some 1%nat])%string /\
   view c19_prog_a 2%nat = Some ([("child", 1, None); ("fib", 0, Some "fib")], [Some 3%nat])%string /\
   view c19_prog_b 2%nat = Some ([("child", 1, None); ("fib", 0, Some "fib")], [Some 2%nat])%string) /\
  (* the global capture order differs *)
  option_map (fun st => map (fun r => cs_name (spl_meta (sp_payload r))) (st_spans st))
             (storage_of (layer_run (fun _ => true) [] c19_prog_a))
  = Some ["fib"; "child"; "fib"; "child"; "fib"]%string /\
  option_map (fun st => map (fun r => cs_name (spl_meta (sp_payload r))) (st_spans st))
             (storage_of (layer_run (fun _ => true) [] c19_prog_b))
  = Some ["fib"; "child"; "child"; "fib"; "fib"]%string /\
  (* the hypotheses of the non-interference theorem hold for both workers under both schedules, the
     solo executions coincide, and the views are not empty *)
  isolated 1 c19_prog_a = true /\ isolated 2 c19_prog_a = true /\
  isolated 1 c19_prog_b = true /\ isolated 2 c19_prog_b = true /\
  wf_prog_b (solo 1 c19_prog_a) = true /\ wf_prog_b (solo 2 c19_prog_a) = true /\
  solo 1 c19_prog_b = solo 1 c19_prog_a /\ solo 2 c19_prog_b = solo 2 c19_prog_a /\
  isolated 0 c19_prog_a = false /\
  map (fun e => (cs_name (fst (fst (fst (fst (fst e))))), snd (fst e), snd e))
      (fst (tview_of 2 (fun _ => true) [] c19_prog_b))
  = [("child", None, []); ("fib", Some (0, 0), [])]%string%nat.
Proof. vm_compute. repeat split. Qed.
