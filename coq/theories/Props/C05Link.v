(** C05, continued: what the capture layer stores is exactly what the traced program did - also when
    the program's values misbehave while the layer renders them (a [Debug] impl that emits events of
    its own, or panics and is caught by the guest).  Property theorems only; every proof is
    [exact <lemma>].  The lock-level machine [hrun RenderFirst] ([Capture/Hostile.v]) is the code's
    discipline: values are rendered after the filter / [captured_id] test and before the storage is
    locked.  [flatten] is the quiet program such a run amounts to: the events the values emitted, in
    order, before the operation that rendered them; an operation whose rendering panicked is absent. *)
From TT Require Import Capture.HostileProofs Judge.Hostile.

(** every well-formed hostile program is captured, without deadlock, poisoning or escaped panic, as
    the specification prescribes for its flattened program *)
Theorem C05_hostile_program_is_spec_of_flattened : forall ids hp, wf_hprog_b hp = true ->
  hstorage_of (hrun RenderFirst ids hp) = Some (spec_storage (fun _ => true) ids (flatten hp)).
Proof. exact render_first_is_spec. Qed.

(** .. and as the capture layer model captures that quiet program *)
Theorem C05_hostile_program_is_flattened : forall ids hp, wf_hprog_b hp = true ->
  hstorage_of (hrun RenderFirst ids hp) = storage_of (layer_run (fun _ => true) ids (flatten hp))
  /\ exists st, hstorage_of (hrun RenderFirst ids hp) = Some st.
Proof. exact render_first_captures_flattened. Qed.

(** the flattened program is within the hypotheses of the theorems of [Props/C05.v] *)
Theorem C05_hostile_flatten_wf : forall hp, wf_hprog_b hp = true -> wf_prog_b (flatten hp) = true.
Proof. exact flatten_wf. Qed.

(** the judge of the hostile correspondence runs: [Agree] on the model's own output, and no
    [PropFail] without a [Mismatch] *)
Theorem C05_hostile_judge_ok_on_model : forall hp ids, wf_hprog_b hp = true ->
  judge_hostile hp ids (hstorage_of (hrun RenderFirst ids hp)) = Agree.
Proof. exact judge_hostile_agree_on_model. Qed.

Theorem C05_hostile_judge_ok_whenever_corr : forall hp ids impl, wf_hprog_b hp = true ->
  option_eqb cstorage_eqb (hstorage_of (hrun RenderFirst ids hp)) impl = true ->
  option_eqb cstorage_eqb (Some (spec_storage (fun _ => true) ids (flatten hp))) impl = true.
Proof. exact judge_hostile_ok_of_corr. Qed.

(** non-vacuity: a program with nested loud values, an inner bomb, loud and bombing event values and a
    span creation with a loud attribute *)
Example C05_hostile_example : wf_hprog_b hw_deep = true /\
  hstorage_of (hrun RenderFirst [1] hw_deep) = Some (spec_storage (fun _ => true) [1] (flatten hw_deep)).
Proof. split; vm_compute; reflexivity. Qed.
