(** C04 — persist commits, drop rolls back, and the host's span context is always restored.
    Property theorems only; every proof is [exact <lemma>].

    Vocabulary ([Tunnel/ReceiverFinalize.v]).  A history ([Tunnel/ReceiverHistory.v]) is a list of
    steps [SRecv ev | SPersist keep | SDrop]; [hist_scope] is C06's proviso (no [NewSpan] for an
    alive id).  [is_lifetime steps pre evs fin]: [steps = pre ++ map SRecv evs ++ fin :: post]
    where [pre] is empty or ends in a persist/drop and [fin] is a persist or a drop - any
    lifetime of the history, cut at any point of the guest stream.  [lrun st0 w0 evs] processes the
    events of the lifetime: final state [st], the outcomes [os], the host calls [T].
    [fin_calls st fin] is the batch of calls of the finalisation. *)
From TT Require Import Tunnel.ReceiverSpec Tunnel.ReceiverInv Tunnel.ReceiverHistInv
  Tunnel.ReceiverFinalize Tunnel.ReceiverFinalizeProofs Tunnel.ReceiverOrder Tunnel.ReceiverOrderProofs
  Tunnel.ReceiverRestoreOrder Tunnel.ReceiverRestoreOrderProofs
  Judge.Recv Judge.RecvProofs Judge.C08 Judge.C04 Judge.C04Proofs.
From stdpp Require Import gmap.

(** ** A. Lifetime bookkeeping *)

(** The unmatched-enter map is the reference fold over the accepted events of the lifetime:
    +1 on enter, -1 saturating on exit, reset when the span dies; no entry at 0. *)
Theorem C04_entered_is_fold :
  ∀ steps pre evs fin, hist_scope hist_init steps → is_lifetime steps pre evs fin →
  let h0 := hist_final hist_init pre in
  ∀ st w os T, lrun (h_st h0) (h_w h0) evs = (st, w, os, T) →
  ∀ id, r_entered st !! id = nz (ref_entered (r_spans (h_st h0)) (accepted os) id 0).
Proof. exact entered_is_fold. Qed.

(** The uncommitted set is: spans for which a [NewSpan] was accepted in this lifetime and that are
    still alive; each of them has a host span, created by this lifetime. *)
Theorem C04_uncommitted_is_born_alive :
  ∀ steps pre evs fin, hist_scope hist_init steps → is_lifetime steps pre evs fin →
  let h0 := hist_final hist_init pre in
  ∀ st w os T, lrun (h_st h0) (h_w h0) evs = (st, w, os, T) →
  (∀ id, id ∈ r_uncommitted st ↔ born_in (accepted os) id = true ∧ is_Some (r_spans st !! id)) ∧
  (∀ id, id ∈ r_uncommitted st →
         ∃ h, r_local st !! id = Some h ∧ (w_next (h_w h0) < h)%N ∧ ∃ md p vs, HNewSpan h md p vs ∈ T).
Proof. exact uncommitted_is_born_alive. Qed.

(** (the alive spans themselves are the reference fold of C02 over the accepted events) *)
Theorem C04_alive_is_spec_fold :
  ∀ evs st0 w0 st w os T, lrun st0 w0 evs = (st, w, os, T) →
  r_spans st = fold_left spec_step (accepted os) (r_spans st0).
Proof. exact lrun_spans. Qed.

(** [T] and the finalisation batch are exactly what the history makes observable at this lifetime. *)
Theorem C04_lifetime_observed :
  ∀ steps pre evs fin, hist_scope hist_init steps → is_lifetime steps pre evs fin →
  let h0 := hist_final hist_init pre in
  ∀ st w os T, lrun (h_st h0) (h_w h0) evs = (st, w, os, T) →
  ∃ ofin rest,
    hist_run hist_init steps = hist_run hist_init pre ++ hist_run h0 (map SRecv evs) ++ ofin :: rest ∧
    flat_map obs_calls (hist_run h0 (map SRecv evs)) = T ∧
    map commit_of (hist_run h0 (map SRecv evs)) = map (λ eo, CRecv (snd eo)) os ∧
    obs_calls ofin = fin_calls st fin.
Proof. exact lifetime_observed. Qed.

(** ** B. What finalisation emits *)

(** [persist]: only [HExit]; for a span with host span [h], as many as its unmatched enters;
    no exit for anything else. *)
Theorem C04_persist_exits :
  ∀ steps pre evs fin, hist_scope hist_init steps → is_lifetime steps pre evs fin →
  let h0 := hist_final hist_init pre in
  ∀ st w os T, lrun (h_st h0) (h_w h0) evs = (st, w, os, T) →
  let F := snd (persist st) in
  forallb is_exit_call F = true ∧
  (∀ id h, r_local st !! id = Some h →
     n_exits h F = ref_entered (r_spans (h_st h0)) (accepted os) id 0) ∧
  (∀ x, x ∈ ee_ids F → ∃ id, r_local st !! id = Some x ∧
                             ref_entered (r_spans (h_st h0)) (accepted os) id 0 ≠ 0%N).
Proof. exact persist_exits. Qed.

Theorem C04_persist_closes_nothing :
  ∀ st, close_ids (snd (persist st)) = [] ∧ forallb is_exit_call (snd (persist st)) = true.
Proof. exact persist_closes_nothing. Qed.

(** [Drop]: the exits of [persist], then closes: pairwise distinct host spans, exactly those of the
    spans born in this lifetime and still alive, every one created by this lifetime (its id was
    issued after the lifetime began), so no span that existed before is closed. *)
Theorem C04_drop_exits_then_closes :
  ∀ steps pre evs fin, hist_scope hist_init steps → is_lifetime steps pre evs fin →
  let h0 := hist_final hist_init pre in
  ∀ st w os T, lrun (h_st h0) (h_w h0) evs = (st, w, os, T) →
  ∃ C, drop_calls st = snd (persist st) ++ C ∧
       forallb is_close_call C = true ∧ NoDup (close_ids C) ∧
       (∀ x, x ∈ close_ids C ↔
             ∃ id, born_in (accepted os) id = true ∧ is_Some (r_spans st !! id) ∧ r_local st !! id = Some x) ∧
       (∀ x, x ∈ close_ids C → (w_next (h_w h0) < x)%N ∧ ∃ md p vs, HNewSpan x md p vs ∈ T).
Proof. exact drop_exits_then_closes. Qed.

(** Enters and exits balance (counter saturating at 0) for the host span of every span that is
    alive at the end of the lifetime - at any prefix of any stream, re-entrant or not. *)
Theorem C04_balance_zero_alive :
  ∀ steps pre evs fin, hist_scope hist_init steps → is_lifetime steps pre evs fin →
  let h0 := hist_final hist_init pre in
  ∀ st w os T, lrun (h_st h0) (h_w h0) evs = (st, w, os, T) →
  ∀ id h, r_local st !! id = Some h → bal (T ++ fin_calls st fin) h = 0%N.
Proof. exact balance_zero_alive. Qed.

(** ... and for every host id when the guest never drops the last handle of an entered span. *)
Theorem C04_balance_zero :
  ∀ steps pre evs fin, hist_scope hist_init steps → is_lifetime steps pre evs fin →
  let h0 := hist_final hist_init pre in
  ∀ st w os T, lrun (h_st h0) (h_w h0) evs = (st, w, os, T) →
  wf_drop (h_st h0) (h_w h0) evs = true →
  ∀ h, bal (T ++ fin_calls st fin) h = 0%N.
Proof. exact balance_zero. Qed.

(** Host side: a call list that is balanced on every id it enters or exits, none of them on the
    stack beforehand, leaves the stack ([SpanStack], duplicates allowed) as it was. *)
Theorem C04_stack_restored_by_balanced_calls :
  ∀ stk calls, (∀ h, h ∈ ee_ids calls → h ∉ stk ∧ bal calls h = 0%N) → stack_apply stk calls = stk.
Proof. exact stack_restored_pure. Qed.

(** One lifetime: the stack and the current span are restored, provided the host spans handed to
    the receiver are not entered and the stack holds only ids issued before the lifetime. *)
Theorem C04_stack_restored :
  ∀ steps pre evs fin, hist_scope hist_init steps → is_lifetime steps pre evs fin →
  let h0 := hist_final hist_init pre in
  ∀ st w os T, lrun (h_st h0) (h_w h0) evs = (st, w, os, T) →
  ∀ stk, wf_drop (h_st h0) (h_w h0) evs = true →
  (∀ id h, r_local (h_st h0) !! id = Some h → h ∉ stk) → (∀ h, h ∈ stk → (h <= w_next (h_w h0))%N) →
  stack_apply stk (T ++ fin_calls st fin) = stk ∧
  current (stack_apply stk (T ++ fin_calls st fin)) = current stk.
Proof. exact stack_restored. Qed.

(** The same on the stack as stored by the code (entries flagged as duplicates). *)
Theorem C04_flagged_stack_restored :
  ∀ steps pre evs fin, hist_scope hist_init steps → is_lifetime steps pre evs fin →
  let h0 := hist_final hist_init pre in
  ∀ st w os T, lrun (h_st h0) (h_w h0) evs = (st, w, os, T) →
  ∀ stk : fstack, wf_drop (h_st h0) (h_w h0) evs = true → flags_ok stk →
  (∀ id h, r_local (h_st h0) !! id = Some h → h ∉ map fst stk) →
  (∀ h, h ∈ map fst stk → (h <= w_next (h_w h0))%N) →
  fstack_apply stk (T ++ fin_calls st fin) = stk ∧
  fcurrent (fstack_apply stk (T ++ fin_calls st fin)) = fcurrent stk.
Proof. exact fstack_restored. Qed.

(** Whole histories: a sequence of lifetimes, each cut anywhere and finalised by persist (local
    map kept or lost) or drop.  Whatever the host thread had entered before the receiver processed
    anything is what it has entered afterwards, and its current span is the same. *)
Theorem C04_host_context_restored :
  ∀ (ls : list life) stk,
  Forall (λ l : life, is_recv (snd l) = false) ls →
  hist_scope hist_init (lives_steps ls) → wf_drop_lives hist_init ls = true →
  (∀ h, h ∈ stk → (h <= w_next (h_w hist_init))%N) →
  stack_apply stk (all_calls (hist_run hist_init (lives_steps ls))) = stk ∧
  current (stack_apply stk (all_calls (hist_run hist_init (lives_steps ls)))) = current stk.
Proof. exact host_context_restored. Qed.

(** ** B'. Every order the code may pick

    [CurrentExecution::finalize] iterates a [HashMap] and a [HashSet], [new] a [HashMap]: the order
    of the forced exits, of the closes and of the registrations is unspecified.  The model fixes
    ascending keys; [Tunnel/ReceiverOrder.v] defines which batches the code may emit instead
    ([fin_reorder]: a permutation of the exits followed by a permutation of the closes;
    [obs_reorder]: a history step with its batches re-ordered that way). *)

(** the finalisation of a state in any iteration order of its two containers is such a batch *)
Theorem C04_finalize_in_any_container_order :
  ∀ st pe pc, pe ≡ₚ map_to_list (r_entered st) → pc ≡ₚ elements (r_uncommitted st) →
  fin_reorder (drop_calls st) (finalize_in_order st true pe pc) ∧
  fin_reorder (snd (persist st)) (finalize_in_order st false pe pc).
Proof. exact finalize_in_order_reorder. Qed.

(** one lifetime: the stack and the current span are restored whatever order is picked *)
Theorem C04_stack_restored_any_order :
  ∀ steps pre evs fin, hist_scope hist_init steps → is_lifetime steps pre evs fin →
  let h0 := hist_final hist_init pre in
  ∀ st w os T, lrun (h_st h0) (h_w h0) evs = (st, w, os, T) →
  ∀ stk F', wf_drop (h_st h0) (h_w h0) evs = true →
  (∀ id h, r_local (h_st h0) !! id = Some h → h ∉ stk) → (∀ h, h ∈ stk → (h <= w_next (h_w h0))%N) →
  fin_reorder (fin_calls st fin) F' →
  stack_apply stk (T ++ F') = stk ∧ current (stack_apply stk (T ++ F')) = current stk.
Proof. exact stack_restored_any_order. Qed.

(** whole histories: the host thread's span context is restored for every choice of order in
    every finalisation and every restore *)
Theorem C04_host_context_restored_any_order :
  ∀ (ls : list life) stk obs',
  Forall (λ l : life, is_recv (snd l) = false) ls →
  hist_scope hist_init (lives_steps ls) → wf_drop_lives hist_init ls = true →
  (∀ h, h ∈ stk → (h <= w_next (h_w hist_init))%N) →
  Forall2 obs_reorder (hist_run hist_init (lives_steps ls)) obs' →
  stack_apply stk (all_calls obs') = stk ∧ current (stack_apply stk (all_calls obs')) = current stk.
Proof. exact host_context_restored_any_order. Qed.

(** the enter / exit balance of every host id is the same for every such choice *)
Theorem C04_balance_any_order :
  ∀ steps obs' h, Forall2 obs_reorder (hist_run hist_init steps) obs' →
  bal (all_calls obs') h = bal (all_calls (hist_run hist_init steps)) h.
Proof. exact balance_any_order. Qed.

(** The iteration orders as a parameter of the model itself ([Tunnel/ReceiverRestoreOrder.v]):
    [hist_run_ord orc] runs a history with every [new] iterating the persisted metadata, and every
    finalisation iterating the entered map and the uncommitted set, in the orders the oracle [orc]
    picks for that step (any permutations; the arena then grows in another order, which no later
    step can observe).  The model's own run is the identity oracle. *)
Theorem C04_model_is_identity_oracle :
  ∀ steps h, hist_run_ord (λ _, order_id) h steps = hist_run h steps.
Proof. exact hist_run_ord_id. Qed.

Theorem C04_every_order_is_a_reordering :
  ∀ orc steps, oracle_ok orc →
  Forall2 obs_reorder (hist_run hist_init steps) (hist_run_ord orc hist_init steps).
Proof. exact hist_run_ord_reorder. Qed.

(** for every choice of iteration orders, the run in those orders restores the host's context *)
Theorem C04_host_context_restored_every_order :
  ∀ orc (ls : list life) stk, oracle_ok orc →
  Forall (λ l : life, is_recv (snd l) = false) ls →
  hist_scope hist_init (lives_steps ls) → wf_drop_lives hist_init ls = true →
  (∀ h, h ∈ stk → (h <= w_next (h_w hist_init))%N) →
  let obs' := hist_run_ord orc hist_init (lives_steps ls) in
  stack_apply stk (all_calls obs') = stk ∧ current (stack_apply stk (all_calls obs')) = current stk.
Proof. exact host_context_restored_every_order. Qed.

(** what the correspondence check establishes: when the judge finds the implementation's batch [b]
    equal to the model's batch [a] ([batch_eqb]), [b] - in the order in which the implementation made
    the calls - is such a re-ordering of [a] ... *)
Theorem C04_judged_batch_is_reordering :
  ∀ a b, exits_before_closes false a = true → batch_eqb a b = true → fin_reorder a b.
Proof. exact batch_eqb_fin_reorder. Qed.

(** ... so that on every history on which the implementation matched the model, the calls the
    implementation really made, in its own order, restore the host's span context. *)
Theorem C04_implementation_restores_context :
  ∀ (ls : list life) stk impl,
  Forall (λ l : life, is_recv (snd l) = false) ls →
  hist_scope hist_init (lives_steps ls) → wf_drop_lives hist_init ls = true →
  (∀ h, h ∈ stk → (h <= w_next (h_w hist_init))%N) →
  corr_history (lives_steps ls) impl = true →
  let obs' := zip_mobs (hist_run hist_init (lives_steps ls)) impl in
  stack_apply stk (all_calls obs') = stk ∧ current (stack_apply stk (all_calls obs')) = current stk.
Proof. exact impl_context_restored. Qed.

(** ** B''. The judge's executable statement is a consequence of the theorems

    [walk] (Judge/C04.v) recomputes from the implementation's snapshots what every finalisation batch
    must contain and checks balance and the stack.  On every history in scope on which the judge
    finds model and implementation equal ([corr_history]), that executable statement holds of the
    implementation's own observations: a [PropFail] verdict without a [Mismatch] is impossible; and
    the judge's "every lifetime so far satisfied wf_drop" flag is exactly [wf_drop_lives]. *)
Theorem C04_judge_ok_whenever_corr : ∀ steps impl,
  hist_scope hist_init steps → corr_history steps impl = true →
  fst (C04.walk steps impl empty_snap [] true) = true.
Proof. exact judge_c04_ok_of_corr. Qed.

Theorem C04_judge_ok_on_model : ∀ steps,
  hist_scope hist_init steps →
  fst (C04.walk steps (map C08.iobs_of (hist_run hist_init steps)) empty_snap [] true) = true.
Proof. exact judge_c04_ok_on_model. Qed.

Theorem C04_judge_wf_flag_is_wf_drop_lives : ∀ (ls : list life) tl impl,
  Forall (λ l : life, is_recv (snd l) = false) ls →
  let steps := lives_steps ls ++ map SRecv tl in
  hist_scope hist_init steps → corr_history steps impl = true →
  snd (C04.walk steps impl empty_snap [] true) = wf_drop_lives hist_init ls.
Proof. exact walk_snd_lives_of_corr. Qed.

Theorem C04_judge_agrees_whenever_corr : ∀ steps impl reg_ok,
  hist_scope hist_init steps → corr_history steps impl = true →
  (wf_walk hist_init steps true = true → reg_ok = true) →
  judge_c04 steps impl reg_ok = Agree.
Proof. exact judge_c04_agree_of_corr. Qed.

(** ** C. Rollback and retry *)

(** The outcome of an event (including the reported error) is a function of the metadata and the
    alive spans. *)
Theorem C04_outcome_is_function_of_committed :
  ∀ st w ev o st' w' calls, Inv st → no_reannounce st ev = true →
  try_receive st w ev = (o, st', w', calls) → o = ref_outcome (r_meta st) (r_spans st) ev.
Proof. exact try_receive_outcome. Qed.

Theorem C04_outcome_depends_on_committed :
  ∀ st1 w1 st2 w2 ev o1 st1' w1' c1 o2 st2' w2' c2,
  Inv st1 → Inv st2 → r_meta st1 = r_meta st2 → r_spans st1 = r_spans st2 →
  no_reannounce st1 ev = true →
  try_receive st1 w1 ev = (o1, st1', w1', c1) → try_receive st2 w2 ev = (o2, st2', w2', c2) →
  o1 = o2 ∧ r_meta st1' = r_meta st2' ∧ r_spans st1' = r_spans st2'.
Proof. exact outcome_depends_on_committed. Qed.

(** A segment [seg] (no persist inside) processed after a persist and then discarded by a drop
    leaves no trace: whatever follows ([rest]: the retried segment and anything after it, any
    steps) gets the same acceptance results, persists the same states, and ends in the same
    committed state as in the history where the discard never happened - also when the two runs
    differ in whether the local span map survived the persist. *)
Theorem C04_retry_equivalent :
  ∀ pre k k' seg rest,
  forallb (λ s, negb (is_persist s)) seg = true →
  hist_scope hist_init (pre ++ [SPersist k] ++ seg ++ [SDrop] ++ rest) →
  let A1 := pre ++ [SPersist k] ++ seg ++ [SDrop] in
  let A2 := pre ++ [SPersist k'] in
  let h1 := hist_final hist_init A1 in
  let h2 := hist_final hist_init A2 in
  hist_scope hist_init (A2 ++ rest) ∧
  hist_run hist_init (A1 ++ rest) = hist_run hist_init A1 ++ hist_run h1 rest ∧
  hist_run hist_init (A2 ++ rest) = hist_run hist_init A2 ++ hist_run h2 rest ∧
  map commit_of (hist_run h1 rest) = map commit_of (hist_run h2 rest) ∧
  same_committed (hist_final hist_init (A1 ++ rest)) (hist_final hist_init (A2 ++ rest)).
Proof. exact retry_equivalent. Qed.

(** ** Non-vacuity *)

(** F4: enter, enter, persist -> two forced exits; enter, enter, exit, drop -> one exit, then the
    close of the span born in this lifetime; both histories are in scope, satisfy [wf_drop] and
    restore a host stack that held span 0. *)
Example C04_example :
  let cs := mk_cs KSpan "f4"%string "t"%string LInfo None None None [] in
  let l1 : life := ([ENewCallSite 0 cs; ENewSpan 1 None 0 []; ESpanEntered 1; ESpanEntered 1], SPersist true) in
  let l2 : life := ([ESpanEntered 1; ESpanEntered 1; ESpanExited 1], SDrop) in
  let l3 : life := ([ENewCallSite 0 cs; ENewSpan 1 None 0 []; ESpanEntered 1; ESpanEntered 1; ESpanExited 1], SDrop) in
  map obs_calls (hist_run hist_init (lives_steps [l1]))
    = [[HRegister cs]; [HNewSpan 1 cs PCtx []]; [HEnter 1]; [HEnter 1]; [HExit 1; HExit 1]]
  ∧ map obs_calls (hist_run hist_init (lives_steps [l3]))
    = [[HRegister cs]; [HNewSpan 1 cs PCtx []]; [HEnter 1]; [HEnter 1]; [HExit 1]; [HExit 1; HTryClose 1]]
  ∧ last (map obs_calls (hist_run hist_init (lives_steps [l1; l2]))) = Some [HExit 1]
  ∧ hist_scopeb hist_init (lives_steps [l1; l2]) = true
  ∧ wf_drop_lives hist_init [l1; l2] = true
  ∧ stack_apply [0%N] (all_calls (hist_run hist_init (lives_steps [l1; l2]))) = [0%N]
  ∧ stack_apply [0%N] (all_calls (hist_run hist_init (map SRecv (fst l1)))) = [1%N; 1%N; 0%N].
Proof. vm_compute. repeat split; reflexivity. Qed.

(** The clause [wf_drop] is needed: a guest that drops the last handle of a span it is inside
    (impossible through the safe [tracing] API) leaves the host span closed but not exited. *)
Example C04_wf_drop_needed :
  let cs := mk_cs KSpan "f4"%string "t"%string LInfo None None None [] in
  let l : life := ([ENewCallSite 0 cs; ENewSpan 1 None 0 []; ESpanEntered 1; ESpanDropped 1], SPersist true) in
  hist_scopeb hist_init (lives_steps [l]) = true
  ∧ wf_drop_lives hist_init [l] = false
  ∧ all_calls (hist_run hist_init (lives_steps [l]))
    = [HRegister cs; HNewSpan 1 cs PCtx []; HEnter 1; HTryClose 1]
  ∧ bal (all_calls (hist_run hist_init (lives_steps [l]))) 1 = 1%N.
Proof. vm_compute. repeat split; reflexivity. Qed.

(** Non-vacuity of the order theorems: two spans entered and born in a lifetime that is dropped;
    the batch "exit 2, exit 1, exit 1, close 2, close 1" is one the code may emit where the model
    emits "exit 1, exit 1, exit 2, close 1, close 2", the judge accepts it, and it restores the stack;
    "close 1" before "exit 1" is not accepted. *)
Example C04_order_example :
  let cs := mk_cs KSpan "f4"%string "t"%string LInfo None None None [] in
  let evs := [ENewCallSite 0 cs; ENewSpan 1 None 0 []; ENewSpan 2 None 0 []; ESpanEntered 1; ESpanEntered 2; ESpanEntered 1] in
  let st := h_st (hist_final hist_init (map SRecv evs)) in
  let F' := [HExit 2; HExit 1; HExit 1; HTryClose 2; HTryClose 1] in
  drop_calls st = [HExit 1; HExit 1; HExit 2; HTryClose 1; HTryClose 2]
  ∧ finalize_in_order st true [(2, 1); (1, 2)]%N [2; 1]%N = F'
  ∧ batch_eqb (drop_calls st) F' = true
  ∧ batch_eqb (drop_calls st) [HExit 2; HExit 1; HTryClose 1; HExit 1; HTryClose 2] = false
  ∧ stack_apply [0%N] (all_calls (hist_run hist_init (map SRecv evs)) ++ F') = [0%N].
Proof. vm_compute. repeat split; reflexivity. Qed.
