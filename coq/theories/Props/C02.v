(** C02 — splitting an execution across receiver lifetimes is invisible to the host.
    Property theorems only. *)
From TT Require Import Tunnel.ReceiverAbs Tunnel.ReceiverInv Tunnel.ReceiverHistInv
  Tunnel.ReceiverAbsProofs Tunnel.ReceiverCuts Judge.Recv Judge.RecvOk Judge.RecvOkOfCorr Judge.C02.
From stdpp Require Import gmap.
Local Open Scope N_scope.

(** Cuts (persist, serde round trip, restore with the retained local span map) taken where no guest
    span is entered: the host sees exactly the calls of the uncut single-receiver run, every event
    gets the same result, and the cuts themselves make no host call. *)
Theorem C02_quiescent_cuts_invisible : forall steps,
  hist_scope hist_init steps -> qcuts hist_init steps ->
  omap recv_part (hist_run hist_init steps) =
  omap recv_part (hist_run hist_init (map SRecv (events_of steps)))
  /\ flat_map other_calls (hist_run hist_init steps) = [].
Proof. exact quiescent_cuts_invisible_init. Qed.

(** At every point of every history (cuts anywhere, quiescent or not, local map kept or lost,
    any host) acceptance results and persistable state are those of the abstract receiver... *)
Theorem C02_history_refines_abstract : forall steps,
  hist_scope hist_init steps ->
  ahist_run ah_init steps =
  (map outcome_of (hist_run hist_init steps), absh (hist_final hist_init steps)).
Proof. exact (fun steps => hist_run_refines steps hist_init HInv_init). Qed.

(** ...and without roll-backs the abstract receiver ignores the cuts altogether: the persisted
    span state is the fold of [spec_step] over the accepted events of the stream. *)
Theorem C02_persisted_state_is_history_fold : forall steps h,
  AInv h -> no_drop steps = true ->
  let '(os, h') := ahist_run h steps in
  let '(os', a') := arun (ah_cur h) (events_of steps) in
  omap id os = os' /\ ah_cur h' = a'.
Proof. exact ahist_no_drop_is_stream. Qed.

(** What the persisted state lists: exactly the spans that still have handles, each with its call
    site, explicit parent, handle count and values accumulated with [extend] (latest value of every
    recorded field, C15). *)
Theorem C02_persisted_state_step : forall a ev,
  snd (astep a ev) =
  match fst (astep a ev) with
  | Accepted => mk_a (match ev with ENewCallSite id d => <[id := d]> (a_meta a) | _ => a_meta a end)
                     (spec_step (a_spans a) ev)
  | _ => a
  end.
Proof. exact (fun a ev => eq_refl). Qed.

(** Link to the check (state clause): whenever the judge finds model and implementation equal on a
    history in scope, the implementation's persisted state and acceptance results are those of the
    abstract receiver ([ok_abstract]), and the state judge answers [Agree]. *)
Theorem C02_state_judge_agrees_whenever_corr : forall steps impl,
  hist_scope hist_init steps -> corr_history steps impl = true -> judge_c02_state steps impl = Agree.
Proof. exact judge_c02_state_agree_of_corr. Qed.

Example C02_example :
  let cs := mk_cs KSpan "s" "t" LInfo None None None ["a"%string] in
  let steps := [SRecv (ENewCallSite 0 cs); SPersist true; SRecv (ENewSpan 1 None 0 [("a"%string, VInt 1)]);
                SRecv (ESpanEntered 1); SRecv (ESpanExited 1); SPersist true;
                SRecv (EValuesRecorded 1 [("a"%string, VInt 2)]); SRecv (ESpanDropped 1)] in
  omap recv_part (hist_run hist_init steps) = omap recv_part (hist_run hist_init (map SRecv (events_of steps)))
  /\ map_to_list (r_spans (h_st (hist_final hist_init steps))) = [].
Proof. vm_compute. split; reflexivity. Qed.
