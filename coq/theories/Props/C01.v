(** C01 — tunnelled traces are indistinguishable from native traces on the host.
    Property theorems only; every proof is [exact <lemma>].

    Vocabulary.
    [prog], [wf_prog_b], [single_threaded] (Guest/Program.v): guest programs (ops on spans named by
    creation index) and what the safe [tracing] API permits.
    [front_run alloc enabled p] (Guest/Front.v): the calls [tracing] makes on the subscriber the
    program runs under ([scall]; environment model).
    [native_calls enabled p] (Tunnel/Tunnel.v): those calls under a recording host issuing the ids
    1, 2, 3, ... whose interest / [enabled] test answers [enabled cs] for call site [cs].
    [tunnel_calls mid p]: the calls ([hcall]) the event receiver (Tunnel/Receiver.v, fresh state,
    host issuing 1, 2, 3, ...) makes on its host when fed, in order, the events the event sender
    (Tunnel/Sender.v) emits for [p]; [mid cs] = metadata id (address) of call site [cs].  The serde
    encoding in between is the identity by C11.  [tunnel_outcomes]: the receiver's answers.
    [normalise sites calls]: the native trace in the receiver's vocabulary: call sites by content,
    [clone_span] erased, only the last [try_close] of each span kept (the receiver counts handles
    itself).  [canon]: [PRoot] is rewritten to [PCtx] where the host thread's span stack (tracked
    through the trace's own enters / exits) is empty, the two being the same thing to a host then.
    [unroot]: [PRoot] rewritten to [PCtx] everywhere (what the wire format does: F8).
    [strip_reg]: [register_callsite] calls removed (call-site object identity is exempted).
    [known_explicit_root p]: some explicit-root span / event of [p] is created while the issuing
    thread has entered a span (known class F8).  [U32] = 2^32. *)
From stdpp Require Import gmap.
From TT Require Import Tunnel.Tunnel Tunnel.TunnelProofs.

(** ** the tunnel is the identity: same calls, in the same order, with the same ids, content-equal
    call sites, the same values in the same order, the same parents, enters, exits, closes,
    follows-from edges and events *)
Theorem C01_tunnel_is_identity : forall (mid : nat -> N) (p : prog),
  (forall a b, mid a = mid b -> a = b) ->
  wf_prog_b p = true -> single_threaded p = true ->
  (spans_created (p_ops p) <= U32 - 1)%N ->
  known_explicit_root p = false ->
  strip_reg (tunnel_calls mid p)
  = strip_reg (canon (normalise (p_sites p) (native_calls all_enabled p))).
Proof. exact tunnel_is_identity_proof. Qed.

(** ** for every well-formed program (known class included, any assignment of ops to threads) the
    only difference is the spelling of explicit roots; and the receiver accepts every event *)
Theorem C01_tunnel_is_identity_upto_root : forall (mid : nat -> N) (p : prog),
  (forall a b, mid a = mid b -> a = b) ->
  wf_prog_b p = true -> (spans_created (p_ops p) <= U32 - 1)%N ->
  strip_reg (tunnel_calls mid p)
  = map unroot (strip_reg (normalise (p_sites p) (native_calls all_enabled p)))
  /\ tunnel_outcomes mid p = repeat Accepted (List.length (sender_run mid p)).
Proof. exact tunnel_is_identity_upto_root_proof. Qed.

(** ** outside the known class a host cannot tell the rewritten roots from the original ones *)
Theorem C01_canon_is_unroot : forall p,
  wf_prog_b p = true -> single_threaded p = true -> known_explicit_root p = false ->
  canon (normalise (p_sites p) (native_calls all_enabled p))
  = map unroot (normalise (p_sites p) (native_calls all_enabled p)).
Proof. exact canon_is_unroot_proof. Qed.

(** ** below the wrap of the sender's 32-bit counter the guest sees the ids a recording host issues *)
Theorem C01_same_ids_below_wrap : forall p enabled,
  (spans_created (p_ops p) <= U32 - 1)%N ->
  front_run sender_alloc enabled p = front_run host_alloc enabled p.
Proof. exact sender_alloc_is_host_alloc. Qed.

(** ** values: what the receiver hands to the host is what the sender captured (the documented value
    model), also for call sites with repeated field names and value sets in any order *)
Theorem C01_host_values_unchanged : forall md vals,
  host_vals md (from_value_set (cs_fields md) vals) = from_value_set (cs_fields md) vals.
Proof. exact host_vals_from_value_set. Qed.

(** ** hosts: any host whose state is a function of the calls it receives (handle traffic folded,
    contextual = root on an empty stack) ends in the same state *)
Theorem C01_same_for_function_hosts : forall (A : Type) (host : list hcall -> A) (mid : nat -> N) (p : prog),
  (forall a b, mid a = mid b -> a = b) ->
  wf_prog_b p = true -> single_threaded p = true ->
  (spans_created (p_ops p) <= U32 - 1)%N -> known_explicit_root p = false ->
  host (strip_reg (tunnel_calls mid p))
  = host (strip_reg (canon (normalise (p_sites p) (native_calls all_enabled p)))).
Proof. exact @tunnel_same_for_function_hosts_proof. Qed.

(** what [normalise] erased: [n] clones followed by [n + 1] closes of a span count as one close *)
Theorem C01_normalise_clone_close_burst : forall sites (cnt : gmap N N) id c n rest,
  cnt !! id = Some c -> (1 <= c)%N ->
  norm_go sites cnt (repeat (SClone id) n ++ repeat (STryClose id) (S n) ++ rest)
  = norm_go sites cnt (STryClose id :: rest).
Proof. exact normalise_clone_close_burst_proof. Qed.

(** ** KNOWN FINDING (F8, explicit-root): inside the known class the statement is false *)
Theorem C01_tunnel_explicit_root_refuted :
  exists p mid,
    (forall a b : nat, mid a = mid b -> a = b)
    /\ wf_prog_b p = true /\ single_threaded p = true /\ (spans_created (p_ops p) <= U32 - 1)%N
    /\ known_explicit_root p = true
    /\ strip_reg (tunnel_calls mid p)
       <> strip_reg (canon (normalise (p_sites p) (native_calls all_enabled p))).
Proof. exact tunnel_explicit_root_refuted_proof. Qed.

(** ** non-vacuity: the hypotheses hold for programs with explicit parents dropped before their
    children, re-entrant enters, explicit roots outside entered spans, values of several kinds;
    the traces compared are not empty *)
Example C01_example :
  let hyp p := wf_prog_b p && single_threaded p && negb (known_explicit_root p) in
  hyp ex_fib = true /\ hyp ex_explicit_parent = true /\ hyp ex_reentrant = true
  /\ hyp wit_root_outside = true /\ hyp wit_explicit_root = false
  /\ List.length (strip_reg (tunnel_calls N.of_nat ex_reentrant)) = 10%nat
  /\ strip_reg (tunnel_calls N.of_nat wit_root_outside)
     = strip_reg (canon (normalise wit_sites (native_calls all_enabled wit_root_outside)))
  /\ List.length (List.filter (fun c => match c with SClone _ => true | _ => false end)
                              (native_calls all_enabled ex_explicit_parent)) = 1%nat.
Proof. vm_compute. repeat split. Qed.
