(** C10 — concurrent receivers intern each call site exactly once.
    Property theorems only; every proof is [exact <lemma>] (proofs in Tunnel/ArenaConcProofs.v).
    Every statement is universally quantified over the bucketing function [hash : cs_data -> N]
    (arbitrary collisions), the number of threads, their announcement lists [lists] (thread [i]
    announces [lists !! i], in order) and the schedule.

    Vocabulary (Tunnel/ArenaConc.v).  ATOMIC level: [run_sched hash (conc_init lists) sch = Some st]:
    the schedule [sch : list tid] (whose critical section runs next; entries naming a finished thread
    are skipped, so every list is a schedule) ran from the empty arena to [st] without a panic
    ([None] = the tail-slice panic); one step = one critical section of [Arena::alloc_metadata]
    ([Arena.phase1] under the read lock, [Arena.phase2] under the write lock).
    [finished_with lists st i p d m b]: announcement number [p] of thread [i] is [d] and has returned
    [(m, b)] = (metadata reference, [is_new]); [is_new = true] is what triggers [register_callsite].
    [all_done st]: every thread has finished all its announcements.  [announced lists d]: [d] occurs
    in some list.  [c_log st]: the finished announcements in the order of their completing steps.
    LOCK level: [lrun hash (lock_init lists) msch = Some L]: a micro-schedule over lock acquisitions
    and lock-protected pieces of work, with the two [RwLock]s explicit.

    ASSUMED, not proved (this is what makes C10 partial): a critical section is atomic with respect to
    the other threads' critical sections (atomic level), resp. a lock-protected piece of work is
    atomic and [RwLock] grants a request exactly when it is compatible with the guards that exist
    (lock level); locks are never poisoned; allocation never fails. *)
From TT Require Import Tunnel.Arena Tunnel.ArenaProofs Tunnel.ArenaConc Tunnel.ArenaConcProofs.
From stdpp Require Import gmap.
Local Open Scope N_scope.

(** ** no panic, no stuck announcement *)

(** EVERY schedule (complete or not) runs without the tail-slice panic *)
Theorem C10_conc_no_panic : forall hash lists sch,
  exists st, run_sched hash (conc_init lists) sch = Some st.
Proof. exact conc_no_panic. Qed.

(** ... because of the invariant of a thread that waits between its two critical sections: the
    remembered length never exceeds the bucket (so [&bucket[scanned_bucket_len..]] is in range), the
    remembered hash is the description's, and nothing below the remembered length matches *)
Theorem C10_conc_scanned_bound : forall hash lists sch st i t d h n,
  run_sched hash (conc_init lists) sch = Some st ->
  c_threads st !! i = Some t -> t_pc t = Scanned d h n ->
  h = hash d /\ (n <= List.length (bucket_of (c_arena st) h))%nat
  /\ forall m, m ∈ take n (bucket_of (c_arena st) h) -> to_data m <> d.
Proof. exact conc_scanned_bound. Qed.

(** ... and because buckets are append-only: from ANY state (reachable or not), under ANY schedule *)
Theorem C10_conc_buckets_append_only : forall hash sch st st',
  run_sched hash st sch = Some st' ->
  forall h, bucket_of (c_arena st) h `prefix_of` bucket_of (c_arena st') h.
Proof. exact conc_buckets_append_only. Qed.

(** a schedule that gives every thread two turns per announcement runs all threads to completion
    (an announcement needs at most two critical sections); such schedules exist *)
Theorem C10_conc_fair_completes : forall hash lists sch st,
  enough_turns lists sch = true ->
  run_sched hash (conc_init lists) sch = Some st -> all_done st = true.
Proof. exact conc_fair_completes. Qed.
Theorem C10_conc_fair_schedule_exists : forall lists, exists sch, enough_turns lists sch = true.
Proof. exact conc_fair_schedule_exists. Qed.

(** when all threads are done, every announcement has returned a result ("no announcement fails") *)
Theorem C10_conc_all_finished : forall hash lists sch st i l p d,
  run_sched hash (conc_init lists) sch = Some st -> all_done st = true ->
  lists !! i = Some l -> l !! p = Some d ->
  exists m b, finished_with lists st i p d m b.
Proof. exact conc_all_finished. Qed.
Theorem C10_conc_results_length : forall hash lists sch st i l,
  run_sched hash (conc_init lists) sch = Some st -> all_done st = true ->
  lists !! i = Some l ->
  exists t, c_threads st !! i = Some t /\ List.length (t_res t) = List.length l.
Proof. exact conc_results_length. Qed.

(** ** linearizability: the arena reached by ANY schedule is the arena of the SEQUENTIAL allocation
    (C09's [alloc_seq]) of the descriptions in the order of their completing steps, with the same
    results; the log is exactly the finished announcements, each once *)
Theorem C10_conc_linearizable : forall hash lists sch st,
  run_sched hash (conc_init lists) sch = Some st ->
  alloc_seq hash arena_empty (log_descs (c_log st)) = Some (c_arena st, log_results (c_log st))
  /\ NoDup (c_log st)
  /\ forall i p d m b, mk_lentry i p d m b ∈ c_log st <-> finished_with lists st i p d m b.
Proof. exact conc_linearizable. Qed.

(** the linearization point of an announcement whose read phase found nothing is its write phase:
    there, whatever happened in between, the write phase computes what a whole sequential
    [alloc_metadata] computes in the current arena *)
Theorem C10_conc_phase2_is_alloc : forall hash a d n,
  (n <= List.length (bucket_of a (hash d)))%nat ->
  (forall m, m ∈ take n (bucket_of a (hash d)) -> to_data m <> d) ->
  phase2 hash a d n = alloc_metadata hash a d.
Proof. exact phase2_is_alloc. Qed.

(** ** identity: across all threads and positions, in every reachable state: same object iff same
    description (and same address = same object) *)
Theorem C10_conc_identity : forall hash lists sch st i p d1 m1 b1 j q d2 m2 b2,
  run_sched hash (conc_init lists) sch = Some st ->
  finished_with lists st i p d1 m1 b1 -> finished_with lists st j q d2 m2 b2 ->
  (m_ptr m1 = m_ptr m2 <-> d1 = d2) /\ (m_ptr m1 = m_ptr m2 -> m1 = m2).
Proof. exact conc_identity. Qed.

(** ** content: the object returned for [d] has content [d] and is the object stored at its address *)
Theorem C10_conc_content : forall hash lists sch st i p d m b,
  run_sched hash (conc_init lists) sch = Some st ->
  finished_with lists st i p d m b ->
  to_data m = d /\ m ∈ heap (c_arena st) /\ deref (c_arena st) (m_ptr m) = Some m.
Proof. exact conc_content. Qed.

(** ** exactly one registration per distinct description: for every announced description some
    announcement returned [is_new = true], no two announcements did; the heap holds exactly one object
    per distinct description *)
Theorem C10_conc_new_once : forall hash lists sch st,
  run_sched hash (conc_init lists) sch = Some st -> all_done st = true ->
  (forall d, announced lists d -> exists i p m, finished_with lists st i p d m true)
  /\ (forall i p j q d m1 m2, finished_with lists st i p d m1 true ->
        finished_with lists st j q d m2 true -> i = j /\ p = q)
  /\ NoDup (to_data <$> heap (c_arena st))
  /\ (forall d, d ∈ to_data <$> heap (c_arena st) <-> announced lists d)
  /\ List.length (heap (c_arena st)) = List.length (distinct_descs (List.concat lists)).
Proof. exact conc_new_once. Qed.
(** at most one, also in the middle of a run *)
Theorem C10_conc_new_at_most_once : forall hash lists sch st i p j q d m1 m2,
  run_sched hash (conc_init lists) sch = Some st ->
  finished_with lists st i p d m1 true -> finished_with lists st j q d m2 true ->
  i = j /\ p = q.
Proof. exact conc_new_at_most_once. Qed.

(** ** overlapping readers: two read-locked sections of different threads commute, so the atomic
    steps also cover read phases that overlap in real time *)
Theorem C10_conc_read_steps_commute : forall hash st i j s1 s12 s2 s21,
  i <> j -> next_phase st i = Some 1 -> next_phase st j = Some 1 ->
  step hash st i = SRok s1 -> step hash s1 j = SRok s12 ->
  step hash st j = SRok s2 -> step hash s2 i = SRok s21 ->
  c_arena s12 = c_arena st /\ c_arena s21 = c_arena st /\ c_threads s12 = c_threads s21.
Proof. exact read_steps_commute. Qed.

(** ** lock level *)

(** EVERY micro-schedule runs without the tail-slice panic *)
Theorem C10_lock_no_panic : forall hash lists msch, exists L, lrun hash (lock_init lists) msch = Some L.
Proof. exact lock_no_panic. Qed.

(** progress: in every reachable state in which some thread has not finished, some thread can take
    its next step (no deadlock) *)
Theorem C10_conc_progress : forall hash lists msch L,
  lrun hash (lock_init lists) msch = Some L -> lall_done L = false ->
  exists i, lenabled hash L i = true.
Proof. exact conc_progress. Qed.

(** no livelock either: whatever the micro-schedule, the number of its entries that are steps (not
    waiting on a lock, not naming a finished thread) is bounded by a measure of the announcement lists
    (5 + 4 * number of strings per description); so a run that keeps scheduling enabled threads
    (one exists by progress) reaches [lall_done] *)
Theorem C10_lock_steps_bounded : forall hash lists msch,
  (lsteps hash (lock_init lists) msch <= lcost (lock_init lists))%nat.
Proof. exact lock_steps_bounded. Qed.

(** mutual exclusion in every reachable state: a write guard excludes every other guard of its lock;
    no thread holds two read guards of one lock *)
Theorem C10_lock_exclusive : forall hash lists msch L,
  lrun hash (lock_init lists) msch = Some L ->
  (forall i j, rw_writer (l_md L) = Some i -> holds_lock (l_md L) j -> j = i)
  /\ (forall i j, rw_writer (l_str L) = Some i -> holds_lock (l_str L) j -> j = i)
  /\ NoDup (rw_readers (l_md L)) /\ NoDup (rw_readers (l_str L)).
Proof. exact lock_exclusive_reach. Qed.

(** lock order metadata -> strings: a strings guard is held only inside the metadata write guard *)
Theorem C10_lock_order : forall hash lists msch L i,
  lrun hash (lock_init lists) msch = Some L ->
  holds_lock (l_str L) i -> rw_writer (l_md L) = Some i.
Proof. exact lock_order_reach. Qed.

(** ... and never reversed: a thread that requests a metadata guard holds no guard at all (in
    particular a reader has released before it asks for the write guard); a thread that requests a
    strings guard holds no strings guard (and holds the metadata write guard) *)
Theorem C10_lock_requests : forall hash lists msch L i t,
  lrun hash (lock_init lists) msch = Some L -> l_threads L !! i = Some t ->
  (requests_md t = true -> ~ holds_lock (l_md L) i /\ ~ holds_lock (l_str L) i)
  /\ (requests_str t = true -> ~ holds_lock (l_str L) i /\ rw_writer (l_md L) = Some i).
Proof. exact lock_requests_reach. Qed.

(** ** the lock level refines the atomic level: a complete run of the lock level (any micro-schedule)
    ends in the arena and with the per-thread results of a complete run of the atomic level under some
    schedule (the critical section of the atomic level is placed at the last micro-step of the
    lock-protected work; mutual exclusion makes the earlier micro-steps invisible to the others) *)
Theorem C10_lock_refines_atomic : forall hash lists msch L,
  lrun hash (lock_init lists) msch = Some L -> lall_done L = true ->
  exists sch st, run_sched hash (conc_init lists) sch = Some st /\ all_done st = true
    /\ l_arena L = c_arena st /\ lt_res <$> l_threads L = t_res <$> c_threads st.
Proof. exact lock_complete_is_atomic_run. Qed.

(** ... hence the C10 conclusions for the lock level itself: identity, content, a result for every
    announcement, exactly one [is_new] per distinct description, one heap object per distinct
    description *)
Theorem C10_lock_level_exactly_once : forall hash lists msch L,
  lrun hash (lock_init lists) msch = Some L -> lall_done L = true ->
  (forall i p d1 m1 b1 j q d2 m2 b2,
      lfinished_with lists L i p d1 m1 b1 -> lfinished_with lists L j q d2 m2 b2 ->
      (m_ptr m1 = m_ptr m2 <-> d1 = d2) /\ (m_ptr m1 = m_ptr m2 -> m1 = m2))
  /\ (forall i p d m b, lfinished_with lists L i p d m b ->
        to_data m = d /\ deref (l_arena L) (m_ptr m) = Some m)
  /\ (forall i l p d, lists !! i = Some l -> l !! p = Some d -> exists m b, lfinished_with lists L i p d m b)
  /\ (forall d, announced lists d -> exists i p m, lfinished_with lists L i p d m true)
  /\ (forall i p j q d m1 m2, lfinished_with lists L i p d m1 true ->
        lfinished_with lists L j q d m2 true -> i = j /\ p = q)
  /\ NoDup (to_data <$> heap (l_arena L))
  /\ (forall d, d ∈ to_data <$> heap (l_arena L) <-> announced lists d)
  /\ List.length (heap (l_arena L)) = List.length (distinct_descs (List.concat lists)).
Proof. exact lock_level_exactly_once. Qed.

(** ** non-vacuity *)
Section examples.
  Let d1 := mk_cs KSpan "fib"%string "app"%string LInfo None (Some "lib.rs"%string) (Some 7) ["approx"%string].
  Let d2 := mk_cs KSpan "fib"%string "app"%string LInfo None (Some "lib.rs"%string) (Some 8) ["approx"%string].
  Let h0 : cs_data -> N := fun _ => 0.
  Let flags (st : option cstate) : option (list (list (N * bool))) :=
    match st with
    | Some st => Some (map (fun t => map (fun r => (m_ptr (fst r), snd r)) (t_res t)) (c_threads st))
    | None => None
    end.

  (** two threads, the same description, both read phases before either write phase: both miss,
      the first writer allocates, the second finds the new entry in the bucket tail; one [is_new] *)
  Example C10_example_race :
    flags (run_sched h0 (conc_init [[d1]; [d1]]) [0; 1; 0; 1]%nat) = Some [[(0, true)]; [(0, false)]]
    /\ flags (run_sched h0 (conc_init [[d1]; [d1]]) [0; 1; 1; 0]%nat) = Some [[(0, false)]; [(0, true)]].
  Proof. vm_compute. split; reflexivity. Qed.

  (** different descriptions in one bucket, interleaved: the second writer re-scans a tail that holds
      only the other description, allocates; then each re-announces the other's description *)
  Example C10_example_collision :
    flags (run_sched h0 (conc_init [[d1; d2]; [d2; d1]]) [0; 1; 1; 0; 0; 1]%nat)
    = Some [[(1, true); (0, false)]; [(0, true); (1, false)]].
  Proof. vm_compute. reflexivity. Qed.

  (** without the re-scan of the tail the race would allocate twice: the scanned length is really
      smaller than the bucket when the second writer enters *)
  Example C10_example_tail_nonempty :
    match run_sched h0 (conc_init [[d1]; [d1]]) [0; 1; 0]%nat with
    | Some st => (map t_pc (c_threads st), List.length (bucket_of (c_arena st) 0))
    | None => ([], 0%nat)
    end = ([Idle; Scanned d1 0 0], 1%nat).
  Proof. vm_compute. reflexivity. Qed.

  (** lock level: while thread 0 is inside [leak_metadata] thread 1 is blocked and thread 0 enabled;
      the run completes with one allocation *)
  Example C10_example_lock_level :
    (match lrun h0 (lock_init [[d1]; [d1]]) [0; 0; 1; 1; 0; 0]%nat with
     | Some L => (lenabled h0 L 0%nat, lenabled h0 L 1%nat, rw_writer (l_md L))
     | None => (false, false, None)
     end = (true, false, Some 0%nat))
    /\ (match lrun h0 (lock_init [[d1]; [d1]]) ([0; 0; 1; 1]%nat ++ replicate 40 0%nat ++ replicate 40 1%nat) with
        | Some L => (lall_done L, map (fun t => map (fun r => (m_ptr (fst r), snd r)) (lt_res t)) (l_threads L),
                     List.length (strings (l_arena L)))
        | None => (false, [], 0%nat)
        end = (true, [[(0, true)]; [(0, false)]], 4%nat)).
  Proof. vm_compute. split; reflexivity. Qed.
End examples.
