(** C17 — the storage query API is a consistent view of one forest.
    Property theorems only; every proof is [exact <lemma>].

    All theorems quantify over every storage [reachable] from the empty one by any sequence of the
    storage's mutations ([push_span], [push_event], [on_follows_from], payload updates) in which
    the span ids passed in exist, as the capture layer guarantees; payload types are arbitrary.
    Queries return [Done x] (the answer), [Panic] (an out-of-range arena access in the code) or
    [OutOfFuel] (model artefact of the fuelled loops); the totality theorems exclude the last two.

    The iterator theorems at the end are facts about the model's id-list iterators; that
    [ExactSizeIterator::len], [next] and [next_back] of the Rust iterators behave like them is
    established by the correspondence run only (Judge/C17.v), not by proof. *)
From TT Require Import Capture.Queries Capture.QueriesProofs.
From Coq Require Import Sorting.Sorted Sorting.Permutation.

(** ** The invariant, and absence of panics *)
Theorem C17_wf_invariant : forall (SP EP : Type) (st : storage SP EP),
  reachable st -> storage_wf st.
Proof. exact @reachable_wf. Qed.

Theorem C17_valid_mutation_never_panics : forall (SP EP : Type) (st : storage SP EP) (o : op SP EP),
  reachable st -> op_valid st o = true -> exists st', step st o = Done st' /\ reachable st'.
Proof. exact @reachable_step_done. Qed.

Theorem C17_valid_runs_reach : forall (SP EP : Type) (ops : list (op SP EP)) (st : storage SP EP),
  reachable st -> valid_ops st ops = true -> exists st', run st ops = Done st' /\ reachable st'.
Proof. exact @valid_run_reachable. Qed.

(** every query on an existing item answers: no panic, and the fuel of [ancestors] (number of
    spans) and of [descendants] (number of spans) is never exhausted, i.e. the walks are finite *)
Theorem C17_span_queries_total : forall (SP EP : Type) (st : storage SP EP), reachable st ->
  forall s, is_span st s ->
  (exists x, parent st s = Done x) /\ (exists l, children st s = Done l) /\
  (exists l, events st s = Done l) /\ (exists l, follows_from st s = Done l) /\
  (exists l, ancestors st s = Done l) /\ (exists l, descendants st s = Done l) /\
  (exists l, descendant_events st s = Done l).
Proof. exact @R_span_queries_total. Qed.

Theorem C17_event_queries_total : forall (SP EP : Type) (st : storage SP EP), reachable st ->
  forall e, is_event st e ->
  (exists x, event_parent st e = Done x) /\ (exists l, event_ancestors st e = Done l).
Proof. exact @R_event_queries_total. Qed.

Theorem C17_queries_answer_exactly_on_items : forall (SP EP : Type) (st : storage SP EP), reachable st ->
  forall s e,
  ((exists x, parent st s = Done x) <-> is_span st s) /\
  ((exists x, event_parent st e = Done x) <-> is_event st e).
Proof. exact @R_queries_only_on_items. Qed.

Theorem C17_storage_queries_total : forall (SP EP : Type) (st : storage SP EP), reachable st ->
  all_spans st = Done (iota (List.length (st_spans st))) /\
  all_events st = Done (iota (List.length (st_events st))) /\
  (exists l, root_spans st = Done l) /\ (exists l, root_events st = Done l).
Proof. exact @R_storage_queries_total. Qed.

(** ** all_spans / all_events: every item once, in capture order (holds for any storage value) *)
Theorem C17_all_spans_exact : forall (SP EP : Type) (st : storage SP EP),
  forall l s, all_spans st = Done l -> (In s l <-> is_span st s).
Proof. exact @R_all_spans. Qed.
Theorem C17_all_spans_ordered : forall (SP EP : Type) (st : storage SP EP),
  forall l, all_spans st = Done l -> StronglySorted N.lt l.
Proof. exact @R_all_spans_ordered. Qed.
Theorem C17_all_events_exact : forall (SP EP : Type) (st : storage SP EP),
  forall l e, all_events st = Done l -> (In e l <-> is_event st e).
Proof. exact @R_all_events. Qed.
Theorem C17_all_events_ordered : forall (SP EP : Type) (st : storage SP EP),
  forall l, all_events st = Done l -> StronglySorted N.lt l.
Proof. exact @R_all_events_ordered. Qed.

(** ** parent and children (events) are inverse relations *)
Theorem C17_parent_children_inverse : forall (SP EP : Type) (st : storage SP EP), reachable st ->
  forall p l c, children st p = Done l -> (In c l <-> parent st c = Done (Some p)).
Proof. exact @R_parent_children_inverse. Qed.

Theorem C17_children_ordered_distinct : forall (SP EP : Type) (st : storage SP EP), reachable st ->
  forall p l, children st p = Done l -> StronglySorted N.lt l /\ NoDup l.
Proof. exact @R_children_ordered. Qed.

Theorem C17_event_parent_events_inverse : forall (SP EP : Type) (st : storage SP EP), reachable st ->
  forall p l e, events st p = Done l -> (In e l <-> event_parent st e = Done (Some p)).
Proof. exact @R_event_parent_events_inverse. Qed.

Theorem C17_events_ordered_distinct : forall (SP EP : Type) (st : storage SP EP), reachable st ->
  forall p l, events st p = Done l -> StronglySorted N.lt l /\ NoDup l.
Proof. exact @R_events_ordered. Qed.

(** ** roots are exactly the spans / events without a captured parent *)
Theorem C17_root_spans_exact : forall (SP EP : Type) (st : storage SP EP), reachable st ->
  forall l s, root_spans st = Done l -> (In s l <-> parent st s = Done None).
Proof. exact @R_root_spans_exact. Qed.
Theorem C17_root_spans_ordered_distinct : forall (SP EP : Type) (st : storage SP EP), reachable st ->
  forall l, root_spans st = Done l -> StronglySorted N.lt l /\ NoDup l.
Proof. exact @R_root_spans_ordered. Qed.
Theorem C17_root_events_exact : forall (SP EP : Type) (st : storage SP EP), reachable st ->
  forall l e, root_events st = Done l -> (In e l <-> event_parent st e = Done None).
Proof. exact @R_root_events_exact. Qed.
Theorem C17_root_events_ordered_distinct : forall (SP EP : Type) (st : storage SP EP), reachable st ->
  forall l, root_events st = Done l -> StronglySorted N.lt l /\ NoDup l.
Proof. exact @R_root_events_ordered. Qed.

(** ** ancestors: the chain of parents — first element is the parent, every next element the
    parent of the previous one, ids strictly decreasing, the last one a root *)
Theorem C17_ancestors_chain_of_parents : forall (SP EP : Type) (st : storage SP EP), reachable st ->
  forall s l, ancestors st s = Done l ->
  match l with
  | [] => parent st s = Done None
  | p :: l' => parent st s = Done (Some p) /\ ancestors st p = Done l'
  end.
Proof. exact @R_ancestors_unfold. Qed.

Theorem C17_ancestors_strictly_decreasing : forall (SP EP : Type) (st : storage SP EP), reachable st ->
  forall s l, ancestors st s = Done l -> StronglySorted (fun a b => b < a) (s :: l).
Proof. exact @R_ancestors_decreasing. Qed.

Theorem C17_ancestors_end_at_root : forall (SP EP : Type) (st : storage SP EP), reachable st ->
  forall s l rs, ancestors st s = Done l -> root_spans st = Done rs -> In (last l s) rs.
Proof. exact @R_ancestors_end_at_root. Qed.

Theorem C17_event_ancestors_chain_of_parents : forall (SP EP : Type) (st : storage SP EP), reachable st ->
  forall e l, event_ancestors st e = Done l ->
  match l with
  | [] => event_parent st e = Done None
  | p :: l' => event_parent st e = Done (Some p) /\ ancestors st p = Done l'
  end.
Proof. exact @R_event_ancestors_unfold. Qed.

(** ** descendants (the stack-of-slices walk): each once, exactly the spans having [s] among
    their ancestors, ancestors before their descendants *)
Theorem C17_descendants_distinct : forall (SP EP : Type) (st : storage SP EP), reachable st ->
  forall s l, descendants st s = Done l -> NoDup l.
Proof. exact @R_descendants_nodup. Qed.

Theorem C17_descendants_exact : forall (SP EP : Type) (st : storage SP EP), reachable st ->
  forall s l d, descendants st s = Done l ->
  (In d l <-> exists a, ancestors st d = Done a /\ In s a).
Proof. exact @R_descendants_exact. Qed.

Theorem C17_descendants_parents_first : forall (SP EP : Type) (st : storage SP EP), reachable st ->
  forall s l d1 d2 a, descendants st s = Done l -> In d1 l -> In d2 l ->
  ancestors st d2 = Done a -> In d1 a ->
  exists l1 l2 l3, l = l1 ++ d1 :: l2 ++ d2 :: l3.
Proof. exact @R_descendants_parents_first. Qed.

(** ** descendant events: exactly the events of the descendants, each once *)
Theorem C17_descendant_events_exact : forall (SP EP : Type) (st : storage SP EP), reachable st ->
  forall s le l, descendant_events st s = Done le -> descendants st s = Done l ->
  NoDup le /\
  (forall e, In e le <-> exists d es, In d l /\ events st d = Done es /\ In e es) /\
  (forall e, In e le <-> exists d, In d l /\ event_parent st e = Done (Some d)).
Proof. exact @R_descendant_events_exact. Qed.

(** ** items: equal only to themselves, ordered by capture order within a storage (parents before
    children), unequal and unordered across storages ([tag] = identity of the storage) *)
Theorem C17_span_eq_is_identity : forall (SP EP : Type) (st : storage SP EP), reachable st ->
  forall tag a b ka kb, span_key st tag a = Done ka -> span_key st tag b = Done kb ->
  (key_eq ka kb = true <-> a = b).
Proof. exact @R_span_eq_identity. Qed.

Theorem C17_span_order_is_capture_order : forall (SP EP : Type) (st : storage SP EP), reachable st ->
  forall tag a b ka kb, span_key st tag a = Done ka -> span_key st tag b = Done kb ->
  key_cmp ka kb = Some (a ?= b).
Proof. exact @R_span_order_capture. Qed.

Theorem C17_event_eq_is_identity : forall (SP EP : Type) (st : storage SP EP), reachable st ->
  forall tag a b ka kb, event_key st tag a = Done ka -> event_key st tag b = Done kb ->
  (key_eq ka kb = true <-> a = b).
Proof. exact @R_event_eq_identity. Qed.

Theorem C17_event_order_is_capture_order : forall (SP EP : Type) (st : storage SP EP), reachable st ->
  forall tag a b ka kb, event_key st tag a = Done ka -> event_key st tag b = Done kb ->
  key_cmp ka kb = Some (a ?= b).
Proof. exact @R_event_order_capture. Qed.

Theorem C17_parent_before_child : forall (SP EP : Type) (st : storage SP EP), reachable st ->
  forall c p, parent st c = Done (Some p) -> p < c.
Proof. exact @R_parent_before_child. Qed.

Theorem C17_parent_less_than_child_in_order : forall (SP EP : Type) (st : storage SP EP), reachable st ->
  forall tag c p kc kp, parent st c = Done (Some p) ->
  span_key st tag c = Done kc -> span_key st tag p = Done kp -> key_cmp kp kc = Some Lt.
Proof. exact @R_parent_less_in_order. Qed.

Theorem C17_spans_across_storages : forall (SP EP : Type) (st1 st2 : storage SP EP) t1 t2 a b ka kb,
  t1 <> t2 -> span_key st1 t1 a = Done ka -> span_key st2 t2 b = Done kb ->
  key_eq ka kb = false /\ key_cmp ka kb = None.
Proof. exact @keys_across_storages. Qed.

Theorem C17_events_across_storages : forall (SP EP : Type) (st1 st2 : storage SP EP) t1 t2 a b ka kb,
  t1 <> t2 -> event_key st1 t1 a = Done ka -> event_key st2 t2 b = Done kb ->
  key_eq ka kb = false /\ key_cmp ka kb = None.
Proof. exact @event_keys_across_storages. Qed.

Theorem C17_order_consistent_with_eq : forall a b : item_key,
  (key_cmp a b = Some Eq <-> key_eq a b = true) /\ key_cmp b a = option_map CompOpp (key_cmp a b).
Proof. exact (fun a b => conj (key_cmp_eq a b) (key_cmp_antisym a b)). Qed.

(** ** iterators (MODEL-LEVEL list facts; their link to the Rust [ExactSizeIterator] /
    [DoubleEndedIterator] implementations is established by correspondence only).
    On a reachable storage every id slice handed out as an iterator resolves, so the
    premises below hold for [children], [follows_from], [root_spans], [events], [root_events]
    (and trivially for the arena iterators [all_spans], [all_events]). *)
Theorem C17_span_slices_resolve : forall (SP EP : Type) (st : storage SP EP), reachable st ->
  forall it, (exists s, children_it st s = Done it \/ follows_from_it st s = Done it) \/ it = root_spans_it st ->
  forall i, In i it -> resolve_span st i = Done tt.
Proof. exact @R_span_slices_resolve. Qed.

Theorem C17_event_slices_resolve : forall (SP EP : Type) (st : storage SP EP), reachable st ->
  forall it, (exists s, events_it st s = Done it) \/ it = root_events_it st ->
  forall i, In i it -> resolve_event st i = Done tt.
Proof. exact @R_event_slices_resolve. Qed.

Theorem C17_iter_forward : forall resolve it,
  (forall i, In i it -> resolve i = Done tt) -> it_collect resolve it = Done it.
Proof. exact it_collect_done. Qed.

Theorem C17_iter_backward_is_reverse : forall resolve it,
  (forall i, In i it -> resolve i = Done tt) -> it_collect_back resolve it = Done (rev it).
Proof. exact it_collect_back_done. Qed.

Theorem C17_iter_any_interleaving : forall resolve front n it k,
  List.length it = n -> (forall i, In i it -> resolve i = Done tt) ->
  exists l, it_drain resolve (S n) front k it = Done l /\ Permutation l it.
Proof. exact it_drain_mixed. Qed.

Theorem C17_iter_len_exact : forall resolve it,
  it_len it = N.of_nat (List.length it) /\
  (forall i it', it_next resolve it = Done (Some (i, it')) -> it_len it = it_len it' + 1) /\
  (forall i it', it_next_back resolve it = Done (Some (i, it')) -> it_len it = it_len it' + 1) /\
  (it_next resolve it = Done None <-> it_len it = 0) /\
  (it_next_back resolve it = Done None <-> it_len it = 0).
Proof.
  exact (fun resolve it =>
    conj eq_refl (conj (it_next_len resolve it) (conj (it_next_back_len resolve it)
      (conj (it_next_none resolve it) (it_next_back_none resolve it))))).
Qed.

(** ** Non-vacuity: a concrete forest of depth 4 with two roots, events at four levels and a
    follows-from edge.  Spans: 0 root, 1 in 0, 2 root, 3 in 1, 4 in 0, 5 in 3, 6 in 2.
    Events: 0 root, 1 in span 0, 2 in span 3, 3 in span 5, 4 in span 1, 5 root, 6 in span 6.
    The last three clauses show that the hypothesis on the ids passed to the mutations is needed:
    a parent id beyond the arena panics ([unwrap] of [get_mut]); the id of the span being created
    is accepted by the code (the span is allocated before its parent is looked up) and yields a
    span that is its own parent, on which the ancestor walk does not terminate. *)
Example C17_example :
  let ops : list (op unit unit) :=
    [OpPushSpan tt None; OpPushEvent tt None; OpPushSpan tt (Some 0); OpPushEvent tt (Some 0);
     OpPushSpan tt None; OpPushSpan tt (Some 1); OpPushEvent tt (Some 3); OpPushSpan tt (Some 0);
     OpPushSpan tt (Some 3); OpPushEvent tt (Some 5); OpPushEvent tt (Some 1); OpPushEvent tt None;
     OpFollowsFrom 4 1; OpPushSpan tt (Some 2); OpPushEvent tt (Some 6); OpSpanUpdate 3 (fun x => x)] in
  valid_ops empty_storage ops = true /\
  exists st, run empty_storage ops = Done st /\
    all_spans st = Done [0; 1; 2; 3; 4; 5; 6] /\
    root_spans st = Done [0; 2] /\ root_events st = Done [0; 5] /\
    children st 0 = Done [1; 4] /\ parent st 5 = Done (Some 3) /\ follows_from st 4 = Done [1] /\
    ancestors st 5 = Done [3; 1; 0] /\ event_ancestors st 3 = Done [5; 3; 1; 0] /\
    descendants st 0 = Done [1; 3; 5; 4] /\ descendants st 2 = Done [6] /\ descendants st 5 = Done [] /\
    descendant_events st 0 = Done [4; 2; 3] /\ events st 0 = Done [1] /\
    parent st 7 = Panic /\
    (do a <- span_key st 0 1; do b <- span_key st 0 3; Done (key_eq a b, key_cmp a b)) = Done (false, Some Lt) /\
    (do a <- span_key st 0 1; do b <- span_key st 1 1; Done (key_eq a b, key_cmp a b)) = Done (false, None) /\
    push_span st tt (Some 9) = Panic /\
    op_valid st (OpPushSpan tt (Some 7)) = false /\
    (do r <- push_span st tt (Some 7); ancestors (fst r) 7) = OutOfFuel.
Proof. vm_compute. split; [reflexivity|]. eexists. repeat split. Qed.
