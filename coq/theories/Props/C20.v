(** C20 — normalization is a canonical, collision-free renaming.
    Property theorems only; every proof is [exact <lemma>].
    Vocabulary ([cs_id_of], [cs_ids], [rename_event], [erase_event], [untouched], [erased_ev],
    [same_up_to], [relabel], [first_occ], [nseq], [norm_ok]) is defined in [Tunnel/Normalize.v]. *)
From TT Require Import Tunnel.Normalize Tunnel.NormalizeProofs.

(** Normalization is the renaming of call-site ids by ONE function that is injective on the ids
    occurring in the stream (announced or not), plus the erasure of lines and event call-site
    names.  No well-formedness of the stream is assumed. *)
Theorem C20_renaming : forall evs,
  exists f, inj_on f (cs_ids evs) /\ normalize evs = map (rename_event f) evs.
Proof. exact normalize_renaming. Qed.

(** Consistency: any two positions that carry a call-site id (announcement, new span, new event)
    carry equal ids after normalization iff they carried equal ids before — re-announcements
    and references to never-announced ids included. *)
Theorem C20_consistent : forall evs i j ei ej ei' ej' a b a' b',
  nth_error evs i = Some ei -> nth_error evs j = Some ej ->
  nth_error (normalize evs) i = Some ei' -> nth_error (normalize evs) j = Some ej' ->
  cs_id_of ei = Some a -> cs_id_of ej = Some b ->
  cs_id_of ei' = Some a' -> cs_id_of ej' = Some b' ->
  (a' = b' <-> a = b).
Proof. exact normalize_consistent. Qed.

(** Canonical numbering: the distinct normalized ids, in order of first occurrence, are exactly
    0, 1, ..., k-1, where k is the number of distinct call-site ids of the input. *)
Theorem C20_canonical : forall evs,
  first_occ (cs_ids (normalize evs)) = nseq 0 (List.length (first_occ (cs_ids evs))).
Proof. exact normalize_first_occ. Qed.

(** The result is identical for any two sequences that differ only in the concrete id values
    (in a one-to-one way), line numbers, or event call-site names. *)
Theorem C20_same_up_to : forall evs1 evs2,
  same_up_to evs1 evs2 -> normalize evs1 = normalize evs2.
Proof. exact normalize_same_up_to. Qed.

(** ... in particular for every relabelling of the ids by a function injective on the ids that
    occur, combined with arbitrary per-position changes of the line of an announcement and of the
    name of an announced event call site. *)
Theorem C20_relabel_invariant : forall g eds evs,
  inj_on g (cs_ids evs) -> normalize (relabel g eds evs) = normalize evs.
Proof. exact normalize_relabel. Qed.

Theorem C20_idempotent : forall evs, normalize (normalize evs) = normalize evs.
Proof. exact normalize_idempotent. Qed.

(** more generally, every canonically numbered stream without lines / event names is a fixed point *)
Theorem C20_canonical_streams_fixed : forall evs,
  canon_b 0 (cs_ids evs) = true -> Forall erased_ev evs -> normalize evs = evs.
Proof. exact normalize_fix. Qed.

(** Untouched: number and order of events, their variants, span ids (own, parent, follows-from),
    values, and every call-site attribute other than the line and the name of event call sites. *)
Theorem C20_length : forall evs, List.length (normalize evs) = List.length evs.
Proof. exact normalize_length. Qed.

Theorem C20_untouched : forall evs, Forall2 untouched evs (normalize evs).
Proof. exact normalize_untouched. Qed.

(** Erased: no announcement keeps a line; every event call site is named "event". *)
Theorem C20_erased : forall evs, Forall erased_ev (normalize evs).
Proof. exact normalize_erased. Qed.

(** The executable statement used by the correspondence judge on the implementation's own output
    (untouched + erased + id consistency + canonical numbering) holds exactly of the model's
    output, and the executable "differ only in ..." relation is the relation of [C20_same_up_to]. *)
Theorem C20_executable_statement : forall input output,
  norm_ok input output = true <-> output = normalize input.
Proof. exact norm_ok_iff. Qed.

Theorem C20_same_up_to_executable : forall evs1 evs2,
  same_up_to_b evs1 evs2 = true <-> same_up_to evs1 evs2.
Proof. exact same_up_to_b_spec. Qed.

Theorem C20_canonical_executable : forall l,
  canon_b 0 l = true <-> first_occ l = nseq 0 (List.length (first_occ l)).
Proof. exact canon_b_first_occ. Qed.

(** * The repaired defect, and non-vacuity.
    A = 7 is announced twice (a second subscriber was created while the sender was live), B = 9
    once; then one span per call site.  The algorithm before the fix numbered the second
    announcement of A and the announcement of B both 1, and split A into 0 and 1. *)
Definition span_cs (name : string) (line : option N) : cs_data :=
  mk_cs KSpan name "t"%string LInfo None None line [].
Definition witness : list event :=
  [ENewCallSite 7 (span_cs "a" (Some 10)); ENewCallSite 7 (span_cs "a" (Some 10));
   ENewCallSite 9 (span_cs "b" (Some 20)); ENewSpan 1 None 7 []; ENewSpan 2 None 9 []]%string.

Example C20_old_consistency_refuted :
  cs_ids witness = [7; 7; 9; 7; 9]
  /\ cs_ids (normalize_old witness) = [0; 1; 1; 1; 1]
  /\ consistent_b (combine (cs_ids witness) (cs_ids (normalize_old witness))) = false
  /\ (exists i j a b a' b',
        nth_error (cs_ids witness) i = Some a /\ nth_error (cs_ids witness) j = Some b
        /\ nth_error (cs_ids (normalize_old witness)) i = Some a'
        /\ nth_error (cs_ids (normalize_old witness)) j = Some b'
        /\ a <> b /\ a' = b')
  /\ normalize_old (normalize_old witness) <> normalize_old witness.
Proof.
  vm_compute. repeat split.
  - exists 1%nat, 2%nat, 7, 9, 1, 1. repeat split. discriminate.
  - discriminate.
Qed.

Example C20_example :
  normalize witness =
    [ENewCallSite 0 (span_cs "a" None); ENewCallSite 0 (span_cs "a" None);
     ENewCallSite 1 (span_cs "b" None); ENewSpan 1 None 0 []; ENewSpan 2 None 1 []]%string
  /\ norm_ok witness (normalize witness) = true
  /\ norm_ok witness (normalize_old witness) = false
  /\ normalize (relabel (fun k => 1000 - k) (fun i => mk_edit (Some (N.of_nat i)) "x") witness)
     = normalize witness
  /\ relabel (fun k => 1000 - k) (fun i => mk_edit (Some (N.of_nat i)) "x") witness <> witness
  /\ normalize [ENewEvent 5 None []; ENewCallSite 5 (mk_cs KEvent "event src/lib.rs:7" "t" LWarn None None (Some 7) ["message"])]%string
     = [ENewEvent 0 None []; ENewCallSite 0 (mk_cs KEvent "event" "t" LWarn None None None ["message"])]%string.
Proof. vm_compute. repeat split. discriminate. Qed.
