(** C11 - link between the property theorems and what the check evaluates ([Judge/C11.v]); proofs in
    [Judge/C11Proofs.v].  Theorems only; every proof is [exact <lemma>].

    For each of the eight judges: [X_ok_of_corr] - whenever the judge's correspondence component holds
    of the implementation's outputs, so does its executable statement (the inputs of [ok] that [corr]
    leaves undetermined appear as hypotheses; Judge/C11Proofs.v shows by examples that each is needed),
    so a [PropFail] without a [Mismatch] is impossible; [judge_X_model] - the verdict on the model's own
    outputs is [Agree] inside the judge's hypothesis and [OutOfScope] outside it. *)
From TT Require Import Wire.Codec Wire.CodecProofs Judge.C11 Judge.C11Proofs.
From Coq Require Import Permutation.

Theorem C11_enc_event_ok_of_corr : forall e impl redec reenc floats_ok,
  wf_event e = true ->
  enc_event_corr e impl redec = true ->
  floats_ok = true ->
  option_eqb json_eqb (option_map enc_event redec) reenc = true ->
  enc_event_ok e impl redec reenc floats_ok = true.
Proof. exact enc_event_ok_of_corr. Qed.

Theorem C11_judge_enc_event_model : forall e,
  judge_enc_event e (enc_event e) (dec_event (enc_event e))
                  (option_map enc_event (dec_event (enc_event e))) true
  = if wf_event e then Agree else OutOfScope.
Proof. exact judge_enc_event_model. Qed.

Theorem C11_nonfinite_ok_of_corr : forall bits impl impl_dec,
  f64_finite bits = false ->
  nonfinite_corr bits impl impl_dec = true ->
  nonfinite_ok impl impl_dec = true.
Proof. exact nonfinite_ok_of_corr. Qed.

Theorem C11_judge_nonfinite_value_model : forall bits,
  judge_nonfinite_value bits (enc_value (VFloat bits)) (dec_value (enc_value (VFloat bits)))
  = if negb (f64_finite bits) && (bits <? 2 ^ 64) then Agree else OutOfScope.
Proof. exact judge_nonfinite_value_model. Qed.

Theorem C11_enc_spans_ok_of_corr : forall m doc impl impl_len,
  wf_spans m = true ->
  enc_spans_corr m doc impl = true ->
  impl_len = N.of_nat (List.length m) ->
  enc_spans_ok m doc impl impl_len = true.
Proof. exact enc_spans_ok_of_corr. Qed.

Theorem C11_judge_enc_spans_model : forall m,
  judge_enc_spans m (enc_spans m) (option_map enc_spans (dec_spans (enc_spans m)))
                  (opt_len (dec_spans (enc_spans m)))
  = if wf_spans m then Agree else OutOfScope.
Proof. exact judge_enc_spans_model. Qed.

Theorem C11_judge_enc_spans_model_any_order : forall m ms,
  wf_spans m = true -> Permutation ms (members (enc_spans m)) ->
  judge_enc_spans m (JObj ms) (option_map enc_spans (dec_spans (JObj ms)))
                  (opt_len (dec_spans (JObj ms))) = Agree.
Proof. exact judge_enc_spans_model_any_order. Qed.

Theorem C11_real_spans_ok_of_corr : forall t reenc,
  conforms_spans t = true ->
  real_spans_reenc_corr t reenc = true ->
  real_spans_ok t reenc = true.
Proof. exact real_spans_ok_of_corr. Qed.

Theorem C11_judge_real_spans_model : forall m,
  wf_spans m = true ->
  judge_real_spans (enc_spans m) (option_map enc_spans (dec_spans (enc_spans m))) = Agree.
Proof. exact judge_real_spans_model. Qed.

Theorem C11_enc_metadata_ok_of_corr : forall m impl redec reenc,
  wf_metadata m = true ->
  enc_metadata_corr m impl redec = true ->
  enc_metadata_reenc_corr redec reenc = true ->
  enc_metadata_ok m impl redec reenc = true.
Proof. exact enc_metadata_ok_of_corr. Qed.

Theorem C11_judge_enc_metadata_model : forall m,
  judge_enc_metadata m (enc_metadata m) (option_map pm_sort (dec_metadata (enc_metadata m)))
                     (option_map enc_metadata (dec_metadata (enc_metadata m)))
  = if wf_metadata m then Agree else OutOfScope.
Proof. exact judge_enc_metadata_model. Qed.

Theorem C11_dec_event_ok_of_corr : forall benign expect doc impl,
  dec_event_corr doc impl = true ->
  dec_event_expected benign expect doc ->
  dec_event_ok benign expect impl = true.
Proof. exact dec_event_ok_of_corr. Qed.

Theorem C11_judge_dec_event_model : forall benign expect doc,
  dec_event_expected benign expect doc ->
  judge_dec_event benign expect doc (dec_event doc) = Agree.
Proof. exact judge_dec_event_model. Qed.

Theorem C11_judge_dec_event_model_benign : forall e tag ms ms',
  wf_event e = true ->
  enc_event e = JObj [(tag, JObj ms)] ->
  (forall f, In f (event_fields tag) -> field_sim f ms ms') ->
  judge_dec_event true (Some e) (JObj [(tag, JObj ms')]) (dec_event (JObj [(tag, JObj ms')]))
  = Agree.
Proof. exact judge_dec_event_model_benign. Qed.

Theorem C11_dec_spans_ok_of_corr : forall benign expect doc impl impl_len,
  dec_spans_corr doc impl impl_len = true ->
  dec_pmap_expected dec_spans benign expect doc ->
  dec_spans_ok benign expect impl = true.
Proof. exact dec_spans_ok_of_corr. Qed.

Theorem C11_judge_dec_spans_model : forall benign expect doc,
  dec_pmap_expected dec_spans benign expect doc ->
  judge_dec_spans benign expect doc (option_map enc_spans (dec_spans doc))
                  (opt_len (dec_spans doc)) = Agree.
Proof. exact judge_dec_spans_model. Qed.

Theorem C11_judge_dec_spans_model_benign : forall m ms1 ms,
  wf_spans m = true ->
  Permutation ms1 (members (enc_spans m)) ->
  same_entries dec_span_data ms1 ms ->
  judge_dec_spans true (Some m) (JObj ms) (option_map enc_spans (dec_spans (JObj ms)))
                  (opt_len (dec_spans (JObj ms))) = Agree.
Proof. exact judge_dec_spans_model_benign. Qed.

Theorem C11_dec_metadata_ok_of_corr : forall benign expect doc impl,
  dec_metadata_corr doc impl = true ->
  dec_pmap_expected dec_metadata benign expect doc ->
  dec_metadata_ok benign expect impl = true.
Proof. exact dec_metadata_ok_of_corr. Qed.

Theorem C11_judge_dec_metadata_model : forall benign expect doc,
  dec_pmap_expected dec_metadata benign expect doc ->
  judge_dec_metadata benign expect doc (option_map pm_sort (dec_metadata doc)) = Agree.
Proof. exact judge_dec_metadata_model. Qed.

Theorem C11_judge_dec_metadata_model_benign : forall m ms1 ms,
  wf_metadata m = true ->
  Permutation ms1 (members (enc_metadata m)) ->
  same_entries dec_cs ms1 ms ->
  judge_dec_metadata true (Some m) (JObj ms) (option_map pm_sort (dec_metadata (JObj ms)))
  = Agree.
Proof. exact judge_dec_metadata_model_benign. Qed.
