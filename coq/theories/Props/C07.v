(** C07 — a rejected event has no effect.  Property theorems only. *)
From TT Require Import Tunnel.ReceiverAbs Tunnel.ReceiverInv Tunnel.ReceiverAbsProofs Tunnel.ReceiverMisc.
From TT Require Import Judge.Recv Judge.RecvOk Judge.RecvOkProofs Judge.RecvOkOfCorr Judge.C07.
From stdpp Require Import gmap.
Local Open Scope N_scope.

(** A rejected event changes neither the receiver state nor the world (host id counter, arena)
    and makes no host call.  No invariant is needed: this holds in every state. *)
Theorem C07_reject_no_effect : forall st w ev e st' w' calls,
  try_receive st w ev = (Rejected e, st', w', calls) -> st' = st /\ w' = w /\ calls = [].
Proof. exact reject_no_effect. Qed.

(** Hence the host observation and the final state of any stream, from any state, equal those of
    the same stream with the rejected events removed. *)
Theorem C07_stream_equals_filtered_stream : forall st w evs,
  crun st w (crun_accepted st w evs) = crun st w evs.
Proof. exact crun_filter. Qed.

(** The same at the level of the persistable state and the acceptance results. *)
Theorem C07_filtered_stream_abstract : forall a evs,
  let '(os, a') := arun a evs in
  arun a (accepted_only a evs) =
  (List.filter (fun o => match o with Accepted => true | _ => false end) os, a').
Proof. exact arun_filter. Qed.

(** Link to the check: the model's own observations pass [ok_c07] (a rejected step makes no call
    and leaves the snapshot unchanged) on every history from every state. *)
Theorem C07_judge_ok_on_model : forall steps h,
  ok_c07 (snap_of (h_st h)) (map iobs_of (hist_run h steps)) = true.
Proof. exact ok_c07_model. Qed.

(** ... and so do the observations of ANY run the correspondence check accepts: a [PropFail]
    without a [Mismatch] is impossible (no scope hypothesis is needed here). *)
Theorem C07_judge_ok_whenever_corr : forall steps impl,
  corr_history steps impl = true -> ok_c07 snap_empty impl = true.
Proof. exact ok_c07_of_corr. Qed.

Theorem C07_judge_agrees_whenever_corr : forall steps impl,
  corr_history steps impl = true -> judge_c07 steps impl = Agree.
Proof. exact judge_c07_agree_of_corr. Qed.

Example C07_example :
  crun rs_default (mk_w 0 []) [ESpanEntered 3; ENewSpan 1 None 9 []; ESpanDropped 1]
  = (rs_default, mk_w 0 [], []).
Proof. vm_compute. reflexivity. Qed.
