(** C09 — call-site data reaches the host unchanged and is interned once per value.
    Property theorems only; every proof is [exact <lemma>].  Every statement is universally
    quantified over the bucketing function [hash : cs_data -> N]: arbitrary collisions included.

    Vocabulary (Tunnel/Arena.v): [metadata] = address [m_ptr] + what tracing-core's [Metadata] holds;
    [to_data] = [CallSiteData::from(&Metadata)]; [alloc_seq hash arena_empty ds] = any sequence of
    [Arena::alloc_metadata] calls of the process (by whichever receivers, under whichever ids),
    returning for each call the metadata and the [is_new] flag; [world_run hash aw_init steps] = any
    history of announcements / restores / uses / persists over any number of receivers sharing the
    arena; [None] would be a panic.  [spec_run], [distinct_descs], [distinct_strs], [new_flags],
    [history_descs] are the arena-free reference definitions at the end of Tunnel/Arena.v. *)
From TT Require Import Tunnel.Arena Tunnel.ArenaProofs.
From stdpp Require Import gmap.
Local Open Scope N_scope.

(** [eq_metadata] (eight comparisons) decides content equality: dropping any comparison breaks this *)
Theorem C09_eq_metadata_spec : forall d m, eq_metadata d m = true <-> to_data m = d.
Proof. exact eq_metadata_spec. Qed.

(** no sequence of allocations and no history panics *)
Theorem C09_alloc_total : forall hash ds, exists a res, alloc_seq hash arena_empty ds = Some (a, res).
Proof. exact alloc_total. Qed.
Theorem C09_world_total : forall hash steps, exists w obs, world_run hash aw_init steps = Some (w, obs).
Proof. exact world_total. Qed.

(** the object returned for [d] has exactly [d]'s eight attributes (field names in order), and it is
    the object stored at its address; the first half holds in any arena state whatsoever *)
Theorem C09_alloc_content : forall hash ds a res d a' m b,
  alloc_seq hash arena_empty ds = Some (a, res) ->
  alloc_metadata hash a d = Some (a', m, b) ->
  to_data m = d /\ deref a' (m_ptr m) = Some m.
Proof. exact alloc_content. Qed.
Theorem C09_alloc_content_any_arena : forall hash a d a' m b,
  alloc_metadata hash a d = Some (a', m, b) -> to_data m = d.
Proof. exact alloc_content_any. Qed.
Theorem C09_alloc_seq_content : forall hash ds a res i m b d,
  alloc_seq hash arena_empty ds = Some (a, res) ->
  res !! i = Some (m, b) -> ds !! i = Some d ->
  to_data m = d /\ m ∈ heap a /\ new_flags [] ds !! i = Some b.
Proof. exact alloc_seq_result. Qed.
Theorem C09_alloc_seq_length : forall hash ds a res,
  alloc_seq hash arena_empty ds = Some (a, res) -> List.length res = List.length ds.
Proof. exact alloc_seq_length. Qed.

(** over any sequence of allocations: same address iff same description (and same address = same object) *)
Theorem C09_alloc_identity : forall hash ds a res i j mi bi mj bj di dj,
  alloc_seq hash arena_empty ds = Some (a, res) ->
  res !! i = Some (mi, bi) -> res !! j = Some (mj, bj) ->
  ds !! i = Some di -> ds !! j = Some dj ->
  (m_ptr mi = m_ptr mj <-> di = dj) /\ (m_ptr mi = m_ptr mj -> mi = mj).
Proof. exact alloc_identity. Qed.

(** [is_new] is true exactly at the first occurrence of each distinct description; at most one
    [true] per description; the heap holds one object per distinct description (memory bound) and the
    number of [true] flags (host registrations) is the number of distinct descriptions *)
Theorem C09_alloc_new_once : forall hash ds a res,
  alloc_seq hash arena_empty ds = Some (a, res) ->
  (forall i m b d, res !! i = Some (m, b) -> ds !! i = Some d -> (b = true <-> d ∉ take i ds))
  /\ (forall i j mi mj d, ds !! i = Some d -> ds !! j = Some d ->
        res !! i = Some (mi, true) -> res !! j = Some (mj, true) -> i = j)
  /\ to_data <$> heap a = distinct_descs ds
  /\ List.length (heap a) = List.length (distinct_descs ds)
  /\ count_true res.*2 = List.length (distinct_descs ds).
Proof. exact alloc_new_once. Qed.
(** [distinct_descs ds] is duplicate-free and has exactly the elements of [ds] *)
Theorem C09_distinct_descs_nodup : forall ds, NoDup (distinct_descs ds).
Proof. exact NoDup_distinct_descs. Qed.
Theorem C09_distinct_descs_elements : forall ds x, x ∈ distinct_descs ds <-> x ∈ ds.
Proof. exact elem_of_distinct_descs. Qed.

(** the interned strings: exactly the strings of the distinct descriptions, each once *)
Theorem C09_strings_bounded : forall hash ds a res,
  alloc_seq hash arena_empty ds = Some (a, res) ->
  strings a = distinct_strs [] (strs_of_all (distinct_descs ds))
  /\ NoDup (strings a)
  /\ (forall s, s ∈ strings a <-> exists d, d ∈ ds /\ s ∈ strs_of d)
  /\ (List.length (strings a) <= List.length (strs_of_all (distinct_descs ds)))%nat.
Proof. exact strings_bounded. Qed.

(** descriptions that differ in (at least) one attribute get distinct objects *)
Theorem C09_single_attribute_difference : forall hash ds a res i j mi bi mj bj di dj,
  alloc_seq hash arena_empty ds = Some (a, res) ->
  res !! i = Some (mi, bi) -> res !! j = Some (mj, bj) ->
  ds !! i = Some di -> ds !! j = Some dj ->
  (cs_kind di <> cs_kind dj \/ cs_name di <> cs_name dj \/ cs_target di <> cs_target dj
   \/ cs_level di <> cs_level dj \/ cs_module di <> cs_module dj \/ cs_file di <> cs_file dj
   \/ cs_line di <> cs_line dj \/ cs_fields di <> cs_fields dj) ->
  m_ptr mi <> m_ptr mj /\ mi <> mj.
Proof. exact single_attribute_difference. Qed.

(** the arena refines the list of descriptions seen so far ([w_arena] of Tunnel/Receiver.v):
    abstraction = content of the heap; [is_new] = "not seen before"; the list grows by [d] iff new *)
Theorem C09_arena_refines_seen_list : forall hash ds a res d,
  alloc_seq hash arena_empty ds = Some (a, res) ->
  let seen := to_data <$> heap a in
  seen = distinct_descs ds
  /\ exists a' m,
       alloc_metadata hash a d = Some (a', m, negb (existsb (cs_data_eqb d) seen))
       /\ to_data <$> heap a' = (if negb (existsb (cs_data_eqb d) seen) then seen ++ [d] else seen)
       /\ alloc_seq hash arena_empty (ds ++ [d])
          = Some (a', res ++ [(m, negb (existsb (cs_data_eqb d) seen))]).
Proof. exact arena_refines_seen_list. Qed.

(** after any history, [persist_metadata] of every receiver is the map "id -> latest description" *)
Theorem C09_persist_metadata_content : forall hash steps w obs r,
  world_run hash aw_init steps = Some (w, obs) ->
  persist_meta (recv_of w r) = spec_recv (spec_run steps) r.
Proof. exact persist_metadata_content. Qed.
(** ... where "latest" means: *)
Theorem C09_spec_announce_latest : forall steps r id d r' id',
  spec_recv (spec_run (steps ++ [AAnnounce r id d])) r' !! id'
  = if decide (r' = r /\ id' = id) then Some d else spec_recv (spec_run steps) r' !! id'.
Proof. exact spec_announce_latest. Qed.
Theorem C09_spec_restore_data : forall steps dst es r',
  spec_recv (spec_run (steps ++ [ARestoreData dst es])) r'
  = if decide (r' = dst) then insert_all es ∅ else spec_recv (spec_run steps) r'.
Proof. exact spec_restore_data. Qed.
Theorem C09_spec_restore_from : forall steps dst src r',
  spec_recv (spec_run (steps ++ [ARestoreFrom dst src])) r'
  = if decide (r' = dst) then spec_recv (spec_run steps) src else spec_recv (spec_run steps) r'.
Proof. exact spec_restore_from. Qed.

(** across receivers and ids: same address iff same content; the content is the latest description *)
Theorem C09_world_identity : forall hash steps w obs r1 id1 m1 r2 id2 m2,
  world_run hash aw_init steps = Some (w, obs) ->
  recv_of w r1 !! id1 = Some m1 -> recv_of w r2 !! id2 = Some m2 ->
  (m_ptr m1 = m_ptr m2 <-> to_data m1 = to_data m2)
  /\ (m_ptr m1 = m_ptr m2 -> m1 = m2)
  /\ spec_recv (spec_run steps) r1 !! id1 = Some (to_data m1)
  /\ deref (aw_arena w) (m_ptr m1) = Some m1.
Proof. exact world_identity. Qed.

(** memory retained is bounded by the distinct descriptions of the history (announced or restored),
    not by the number of steps; every leaked object is registered with the host exactly once *)
Theorem C09_world_memory_bound : forall hash steps w obs,
  world_run hash aw_init steps = Some (w, obs) ->
  to_data <$> heap (aw_arena w) = distinct_descs (history_descs steps)
  /\ List.length (heap (aw_arena w)) = List.length (distinct_descs (history_descs steps))
  /\ List.concat (map ao_regs obs) = heap (aw_arena w)
  /\ strings (aw_arena w) = distinct_strs [] (strs_of_all (distinct_descs (history_descs steps))).
Proof. exact world_memory_bound. Qed.

(** the metadata handed to the host with a span / event is the held object; its content is the
    latest description of the id *)
Theorem C09_host_sees_latest : forall hash steps w obs r id,
  world_run hash aw_init steps = Some (w, obs) ->
  exists o, world_step hash w (AUse r id) = Some (w, o)
            /\ ao_seen o = opt_list (recv_of w r !! id)
            /\ to_data <$> ao_seen o = opt_list (spec_recv (spec_run steps) r !! id).
Proof. exact host_sees_latest. Qed.

(** Non-vacuity: everything collides ([hash = fun _ => 0]); [d2] swaps two field names, [d3] drops
    the line, [d4] has one more (empty) field name. *)
Example C09_example :
  let h := fun _ : cs_data => 0 in
  let d1 := mk_cs KSpan "s" "t" LInfo None (Some "f.rs"%string) (Some 1) ["a"; "b"]%string in
  let d2 := mk_cs KSpan "s" "t" LInfo None (Some "f.rs"%string) (Some 1) ["b"; "a"]%string in
  let d3 := mk_cs KSpan "s" "t" LInfo None (Some "f.rs"%string) None ["a"; "b"]%string in
  let d4 := mk_cs KSpan "s" "t" LInfo None (Some "f.rs"%string) (Some 1) ["a"; "b"; ""]%string in
  match alloc_seq h arena_empty [d1; d2; d1; d3; d2; d4; d1] with
  | Some (a, res) =>
      map (fun mb => (m_ptr (fst mb), snd mb)) res
      = [(0, true); (1, true); (0, false); (2, true); (1, false); (3, true); (0, false)]
      /\ map to_data (heap a) = [d1; d2; d3; d4]
      /\ buckets a !! 0 = Some (heap a)
      /\ strings a = ["a"; "b"; "s"; "t"; "f.rs"; ""]%string
  | None => False
  end.
Proof. vm_compute. repeat split. Qed.

(** Non-vacuity at the receiver level: two receivers, re-announcement under another id and with a
    new description under the same id, restore, under the colliding hash. *)
Example C09_example_receivers :
  let h := fun _ : cs_data => 0 in
  let d1 := mk_cs KEvent "e" "t" LWarn (Some "m"%string) None None [] in
  let d2 := mk_cs KEvent "e" "t" LWarn None None None [] in
  match world_run h aw_init
          [AAnnounce 0 7 d1; AAnnounce 1 9 d1; AAnnounce 0 7 d2; ARestoreFrom 2 0; AUse 2 7;
           ARestoreData 3 [(1, d2); (2, d1)]] with
  | Some (w, obs) =>
      map (fun o => map m_ptr (ao_regs o)) obs = [[0]; []; [1]; []; []; []]
      /\ map (fun o => map m_ptr (ao_seen o)) obs = [[]; []; []; []; [1]; []]
      /\ map_to_list (persist_meta (recv_of w 2)) = [(7, d2)]
      /\ option_map m_ptr (recv_of w 1 !! 9) = Some 0
      /\ option_map m_ptr (recv_of w 3 !! 2) = Some 0
      /\ List.length (heap (aw_arena w)) = 2%nat
  | None => False
  end.
Proof. vm_compute. repeat split. Qed.
