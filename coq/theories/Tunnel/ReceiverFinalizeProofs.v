(** C04: lifetime bookkeeping, what finalisation emits, balance of enters and exits, the host
    stack, rollback and retry.  Proofs. *)
From TT Require Import Tunnel.TypesProofs Tunnel.ReceiverSpec Tunnel.ReceiverInv Tunnel.ReceiverHistInv
  Tunnel.ReceiverFinalize.
From stdpp Require Import gmap.
Arguments firstn : simpl never.
Arguments skipn : simpl never.
Arguments chunks : simpl never.
Arguments extend : simpl never.
Arguments host_vals : simpl never.

(** * Pure facts about call lists *)

Lemma bal_from_app n a b h : bal_from n (a ++ b) h = bal_from (bal_from n a h) b h.
Proof. unfold bal_from. apply fold_left_app. Qed.
Lemma bal_app a b h : bal (a ++ b) h = bal_from (bal a h) b h.
Proof. apply bal_from_app. Qed.
Lemma bal_from_cons n c l h : bal_from n (c :: l) h = bal_from (bal_step h n c) l h.
Proof. done. Qed.

Lemma ee_ids_app a b : ee_ids (a ++ b) = ee_ids a ++ ee_ids b.
Proof. unfold ee_ids. apply flat_map_app. Qed.
Lemma ee_ids_cons c l : ee_ids (c :: l) = ee_ids [c] ++ ee_ids l.
Proof. apply (ee_ids_app [c] l). Qed.
Lemma ee_ids_records h l : ee_ids (map (HRecord h) l) = [].
Proof. induction l as [|x l IH]; [done|]. done. Qed.

Lemma bal_from_notin n l h : h ∉ ee_ids l → bal_from n l h = n.
Proof.
  revert n. induction l as [|c l IH]; intros n Hn; [done|].
  rewrite ee_ids_cons in Hn. apply not_elem_of_app in Hn as [Hc Hl].
  rewrite bal_from_cons, (IH _ Hl). destruct c; try done; simpl in *.
  - destruct (N.eqb_spec h0 h) as [->|]; [|done]. exfalso. apply Hc. by left.
  - destruct (N.eqb_spec h0 h) as [->|]; [|done]. exfalso. apply Hc. by left.
Qed.
Lemma bal_from_neutral n l h : ee_ids l = [] → bal_from n l h = n.
Proof. intros E. apply bal_from_notin. rewrite E. apply not_elem_of_nil. Qed.

Lemma n_exits_app h a b : n_exits h (a ++ b) = (n_exits h a + n_exits h b)%N.
Proof. unfold n_exits. rewrite List.filter_app, app_length. lia. Qed.
Lemma n_exits_repeat h x k :
  n_exits h (repeat (HExit x) k) = if (x =? h)%N then N.of_nat k else 0%N.
Proof.
  unfold n_exits. induction k as [|k IH]; [by destruct (x =? h)%N|].
  cbn [repeat List.filter]. destruct (x =? h)%N; cbn [List.length] in *; lia.
Qed.

Lemma bal_from_exits n F h :
  forallb is_exit_call F = true → bal_from n F h = (n - n_exits h F)%N.
Proof.
  revert n. induction F as [|c F IH]; intros n HF.
  - unfold n_exits. simpl. lia.
  - simpl in HF. apply andb_true_iff in HF as [Hc HF]. destruct c; try done.
    rewrite bal_from_cons, (IH _ HF). change (HExit h0 :: F) with ([HExit h0] ++ F).
    rewrite n_exits_app. unfold n_exits at 2. simpl.
    destruct (h0 =? h)%N; simpl; lia.
Qed.
Lemma ee_ids_closes C : forallb is_close_call C = true → ee_ids C = [].
Proof.
  induction C as [|c C IH]; [done|]. simpl. intros H. apply andb_true_iff in H as [Hc HC].
  destruct c; try done. by apply IH.
Qed.

(** * The host stack *)
Definition cnt (h : N) (s : list N) : N := N.of_nat (List.length (List.filter (N.eqb h) s)).

Lemma cnt_cons h x s : cnt h (x :: s) = ((if (h =? x)%N then 1 else 0) + cnt h s)%N.
Proof. unfold cnt. simpl. destruct (h =? x)%N; simpl; lia. Qed.

Lemma cnt_remove_top h x s :
  cnt h (remove_top x s) = if (x =? h)%N then N.pred (cnt h s) else cnt h s.
Proof.
  induction s as [|y s IH]; simpl.
  - by destruct (x =? h)%N.
  - destruct (N.eqb_spec y x) as [->|Hyx].
    + rewrite cnt_cons. destruct (N.eqb_spec x h) as [->|Hn].
      * rewrite N.eqb_refl. lia.
      * destruct (N.eqb_spec h x); [congruence | lia].
    + rewrite !cnt_cons, IH. destruct (N.eqb_spec x h) as [->|Hn]; [|done].
      destruct (N.eqb_spec h y); [congruence|]. lia.
Qed.

Lemma cnt_stack h s calls : cnt h (stack_apply s calls) = bal_from (cnt h s) calls h.
Proof.
  revert s. induction calls as [|c calls IH]; intros s; [done|].
  unfold stack_apply in *. cbn [fold_left]. rewrite IH, bal_from_cons. f_equal.
  destruct c; try done; simpl.
  - rewrite cnt_cons. rewrite (N.eqb_sym h h0). destruct (h0 =? h)%N; lia.
  - apply cnt_remove_top.
Qed.

Lemma cnt_zero_nil s : (∀ h, cnt h s = 0%N) → s = [].
Proof.
  destruct s as [|x s]; [done|]. intros H. specialize (H x). rewrite cnt_cons, N.eqb_refl in H. lia.
Qed.

Lemma remove_top_frame h s stk : h ∉ stk → remove_top h (s ++ stk) = remove_top h s ++ stk.
Proof.
  intros Hn. induction s as [|x s IH]; simpl.
  - induction stk as [|y stk IHs]; [done|]. simpl.
    apply not_elem_of_cons in Hn as [Hy Hn]. destruct (N.eqb_spec y h); [congruence|].
    f_equal. by apply IHs.
  - destruct (x =? h)%N; [done|]. by rewrite IH.
Qed.

Lemma stack_apply_frame s stk calls :
  (∀ h, h ∈ ee_ids calls → h ∉ stk) →
  stack_apply (s ++ stk) calls = stack_apply s calls ++ stk.
Proof.
  revert s. induction calls as [|c calls IH]; intros s Hn; [done|].
  unfold stack_apply in *. cbn [fold_left].
  assert (stack_step (s ++ stk) c = stack_step s c ++ stk) as ->.
  { destruct c; try done. simpl. apply remove_top_frame, Hn. rewrite ee_ids_cons. apply elem_of_app. left. by left. }
  apply IH. intros h Hh. apply Hn. rewrite ee_ids_cons. apply elem_of_app. by right.
Qed.

(** A call list whose enter/exit balance is 0 for every host id it mentions, none of which is on
    the stack beforehand, leaves the stack as it was. *)
Lemma stack_restored_pure stk calls :
  (∀ h, h ∈ ee_ids calls → h ∉ stk ∧ bal calls h = 0%N) →
  stack_apply stk calls = stk.
Proof.
  intros H. change stk with ([] ++ stk) at 1. rewrite stack_apply_frame by (intros h Hh; by apply H).
  rewrite (cnt_zero_nil (stack_apply [] calls)); [done|].
  intros h. rewrite cnt_stack. change (cnt h []) with 0%N.
  destruct (decide (h ∈ ee_ids calls)) as [Hin|Hn]; [by apply H | by apply bal_from_notin].
Qed.

(** the stack with stored duplicate flags *)
Lemma fpop_erase h s : map fst (fpop h s) = remove_top h (map fst s).
Proof. induction s as [|x s IH]; [done|]. simpl. destruct (fst x =? h)%N; [done|]. simpl. by rewrite IH. Qed.

Lemma fstack_apply_erase s calls : map fst (fstack_apply s calls) = stack_apply (map fst s) calls.
Proof.
  revert s. induction calls as [|c calls IH]; intros s; [done|].
  unfold fstack_apply, stack_apply in *. cbn [fold_left]. rewrite IH. f_equal.
  destruct c; try done. apply fpop_erase.
Qed.

Lemma on_stack_remove_top_ne x h s : x ≠ h → on_stack x (remove_top h s) = on_stack x s.
Proof.
  intros Hn. induction s as [|y s IH]; [done|]. simpl. destruct (N.eqb_spec y h) as [->|Hy].
  - destruct (N.eqb_spec x h); [congruence | done].
  - simpl. by rewrite IH.
Qed.

Lemma fpop_flags_ok h s : flags_ok s → flags_ok (fpop h s).
Proof.
  induction s as [|x s IH]; [done|]. intros [Hx Hs]. simpl.
  destruct (N.eqb_spec (fst x) h) as [E|Hn]; [done|]. split; [|by apply IH].
  rewrite fpop_erase. rewrite on_stack_remove_top_ne; done.
Qed.

Lemma fstack_apply_flags_ok s calls : flags_ok s → flags_ok (fstack_apply s calls).
Proof.
  revert s. induction calls as [|c calls IH]; intros s Hs; [done|].
  unfold fstack_apply in *. cbn [fold_left]. apply IH. destruct c; try done; simpl.
  by apply fpop_flags_ok.
Qed.

Lemma fstack_flags_determined s s' : flags_ok s → flags_ok s' → map fst s = map fst s' → s = s'.
Proof.
  revert s'. induction s as [|[x b] s IH]; intros [|[x' b'] s']; try done.
  simpl. intros [Hb Hs] [Hb' Hs'] E. injection E as -> E. rewrite (IH s') by done.
  subst b b'. by rewrite E.
Qed.

Lemma fcurrent_erase s : flags_ok s → fcurrent s = current (map fst s).
Proof.
  induction s as [|[x b] s IH]; [done|]. simpl. intros [-> Hs]. rewrite IH by done. done.
Qed.

Lemma fstack_restored_pure (stk : fstack) calls :
  flags_ok stk →
  (∀ h, h ∈ ee_ids calls → h ∉ map fst stk ∧ bal calls h = 0%N) →
  fstack_apply stk calls = stk.
Proof.
  intros Hf H. apply fstack_flags_determined; [by apply fstack_apply_flags_ok | done |].
  rewrite fstack_apply_erase. by apply stack_restored_pure.
Qed.

(** * One step of the model *)

Lemma not_accepted_no_effect st w ev o st' w' calls :
  try_receive st w ev = (o, st', w', calls) → o ≠ Accepted → st' = st ∧ w' = w ∧ calls = [].
Proof.
  unfold try_receive, reject, on_new_call_site. intros H Ho.
  destruct ev; repeat (case_match; simplify_eq/=); try done.
Qed.

(** the alive spans evolve by the reference fold of C02 *)
Lemma step_spans st w ev st' w' calls :
  try_receive st w ev = (Accepted, st', w', calls) → r_spans st' = spec_step (r_spans st) ev.
Proof.
  unfold try_receive, reject, on_new_call_site. intros H.
  destruct ev; repeat (case_match; simplify_eq/=); try done.
Qed.

Lemma step_unc st w ev st' w' calls :
  try_receive st w ev = (Accepted, st', w', calls) →
  r_uncommitted st' =
    match ev with
    | ENewSpan id _ _ _ => {[id]} ∪ r_uncommitted st
    | _ => match last_drop (r_spans st) ev with
           | Some id => r_uncommitted st ∖ {[id]}
           | None => r_uncommitted st
           end
    end.
Proof.
  unfold try_receive, reject, on_new_call_site, last_drop. intros H.
  destruct ev; repeat (case_match; simplify_eq/=); try done.
Qed.

Lemma default_pred_entered (e : gmap N N) id c i :
  e !! id = Some c →
  default 0%N ((if (c - 1 =? 0)%N then delete id e else <[id:=(c - 1)%N]> e) !! i)
  = if (id =? i)%N then N.pred c else default 0%N (e !! i).
Proof.
  intros Hc. destruct (N.eqb_spec id i) as [<-|Hn].
  - destruct (N.eqb_spec (c - 1) 0) as [E|E].
    + rewrite lookup_delete. simpl. lia.
    + rewrite lookup_insert. simpl. lia.
  - destruct (c - 1 =? 0)%N; [by rewrite lookup_delete_ne | by rewrite lookup_insert_ne].
Qed.

Lemma step_entered st w ev st' w' calls id :
  try_receive st w ev = (Accepted, st', w', calls) →
  default 0%N (r_entered st' !! id)
  = ref_entered_step (r_spans st) ev id (default 0%N (r_entered st !! id)).
Proof.
  unfold try_receive, reject, on_new_call_site, ref_entered_step, last_drop. intros H.
  destruct ev as [i d|i p m vs|a b|i|i|i|i|i vs|m p vs]; simpl.
  - by simplify_eq.
  - repeat (case_match; simplify_eq/=); done.
  - repeat (case_match; simplify_eq/=); done.
  - assert (r_entered st' = <[i:=(default 0 (r_entered st !! i) + 1)%N]> (r_entered st)) as ->
      by (repeat (case_match; simplify_eq/=); done).
    destruct (N.eqb_spec i id) as [->|Hn]; [by rewrite lookup_insert | by rewrite lookup_insert_ne].
  - destruct (map_span_id st i); [simplify_eq|]. simplify_eq. simpl.
    destruct (r_entered st !! i) as [c|] eqn:Ec.
    + rewrite (default_pred_entered _ _ _ id Ec). destruct (N.eqb_spec i id) as [->|]; [by rewrite Ec | done].
    + destruct (N.eqb_spec i id) as [->|]; [by rewrite Ec | done].
  - repeat (case_match; simplify_eq/=); done.
  - destruct (r_spans st !! i) as [d|] eqn:Es; [|simplify_eq].
    destruct (sd_refs d =? 0)%N; [simplify_eq|].
    destruct (sd_refs d - 1 =? 0)%N; simplify_eq; simpl; [|done].
    destruct (N.eqb_spec i id) as [->|Hn]; [by rewrite lookup_delete | by rewrite lookup_delete_ne].
  - repeat (case_match; simplify_eq/=); done.
  - repeat (case_match; simplify_eq/=); done.
Qed.

(** * Runs of a lifetime *)

Lemma lrun_cons st w ev r :
  lrun st w (ev :: r) =
  let '(o, st1, w1, c1) := try_receive st w ev in
  let '(st2, w2, os, c2) := lrun st1 w1 r in (st2, w2, (ev, o) :: os, c1 ++ c2).
Proof. done. Qed.

Lemma lrun_Inv evs st w st' w' os T :
  Inv st → lscope st w evs → lrun st w evs = (st', w', os, T) → Inv st'.
Proof.
  revert st w os T. induction evs as [|ev r IH]; intros st w os T HI Hsc H.
  - simpl in H. by simplify_eq.
  - rewrite lrun_cons in H. destruct Hsc as [Hre Hsc].
    destruct (try_receive st w ev) as [[[o st1] w1] c1] eqn:E.
    destruct (lrun st1 w1 r) as [[[st2 w2] os2] c2] eqn:E2. simplify_eq.
    eapply IH; [|exact Hsc|exact E2]. by eapply try_receive_Inv.
Qed.

Lemma accepted_cons ev o os :
  accepted ((ev, o) :: os) = if is_accepted o then ev :: accepted os else accepted os.
Proof. unfold accepted. simpl. by destruct (is_accepted o). Qed.

(** the alive spans at the end of a lifetime are the reference fold over its accepted events *)
Lemma lrun_spans evs st w st' w' os T :
  lrun st w evs = (st', w', os, T) → r_spans st' = fold_left spec_step (accepted os) (r_spans st).
Proof.
  revert st w os T. induction evs as [|ev r IH]; intros st w os T H.
  - simpl in H. by simplify_eq.
  - rewrite lrun_cons in H.
    destruct (try_receive st w ev) as [[[o st1] w1] c1] eqn:E.
    destruct (lrun st1 w1 r) as [[[st2 w2] os2] c2] eqn:E2. simplify_eq.
    rewrite accepted_cons, (IH _ _ _ _ E2). destruct o; simpl.
    + by rewrite (step_spans _ _ _ _ _ _ E).
    + by apply not_accepted_no_effect in E as (-> & _ & _).
    + by apply not_accepted_no_effect in E as (-> & _ & _).
Qed.

Lemma lrun_entered evs st w st' w' os T id :
  lrun st w evs = (st', w', os, T) →
  default 0%N (r_entered st' !! id)
  = ref_entered (r_spans st) (accepted os) id (default 0%N (r_entered st !! id)).
Proof.
  revert st w os T. induction evs as [|ev r IH]; intros st w os T H.
  - simpl in H. by simplify_eq.
  - rewrite lrun_cons in H.
    destruct (try_receive st w ev) as [[[o st1] w1] c1] eqn:E.
    destruct (lrun st1 w1 r) as [[[st2 w2] os2] c2] eqn:E2. simplify_eq.
    rewrite accepted_cons, (IH _ _ _ _ E2). destruct o; simpl.
    + by rewrite (step_spans _ _ _ _ _ _ E), (step_entered _ _ _ _ _ _ id E).
    + by apply not_accepted_no_effect in E as (-> & _ & _).
    + by apply not_accepted_no_effect in E as (-> & _ & _).
Qed.

(** ** A (i): the unmatched-enter map is the reference fold *)
Theorem entered_is_fold_lifetime st0 w0 evs st w os T :
  Inv st0 → r_entered st0 = ∅ → lscope st0 w0 evs → lrun st0 w0 evs = (st, w, os, T) →
  ∀ id, r_entered st !! id = nz (ref_entered (r_spans st0) (accepted os) id 0).
Proof.
  intros HI He Hsc H id. pose proof (lrun_entered _ _ _ _ _ _ _ id H) as Hd.
  rewrite He, lookup_empty in Hd. simpl in Hd. rewrite <- Hd.
  pose proof (lrun_Inv _ _ _ _ _ _ _ HI Hsc H) as HI'.
  destruct (r_entered st !! id) as [c|] eqn:Ec; simpl; [|done].
  apply (inv_entered_pos _ HI') in Ec. unfold nz. destruct (N.eqb_spec c 0); [lia | done].
Qed.

(** ** A (ii): the uncommitted set = born in this lifetime and still alive *)
Lemma spec_step_dom_new sp ev id :
  sp !! id = None → is_Some (spec_step sp ev !! id) → is_new_span id ev = true.
Proof.
  intros Hn Hs. destruct ev as [i d|i p m vs|a b|i|i|i|i|i vs|m p vs]; simpl in *;
    try (rewrite Hn in Hs; by destruct Hs).
  - destruct (N.eqb_spec i id); [done|]. rewrite lookup_insert_ne, Hn in Hs by done. by destruct Hs.
  - destruct (sp !! i) eqn:E; [|rewrite Hn in Hs; by destruct Hs].
    destruct (decide (i = id)) as [->|]; [congruence|]. rewrite lookup_insert_ne, Hn in Hs by done. by destruct Hs.
  - destruct (sp !! i) eqn:E; [|rewrite Hn in Hs; by destruct Hs].
    destruct (decide (i = id)) as [->|]; [congruence|].
    destruct (sd_refs s - 1 =? 0)%N.
    + rewrite lookup_delete_ne, Hn in Hs by done. by destruct Hs.
    + rewrite lookup_insert_ne, Hn in Hs by done. by destruct Hs.
  - destruct (sp !! i) eqn:E; [|rewrite Hn in Hs; by destruct Hs].
    destruct (decide (i = id)) as [->|]; [congruence|]. rewrite lookup_insert_ne, Hn in Hs by done. by destruct Hs.
Qed.

Lemma fold_spec_born acc sp id :
  sp !! id = None → is_Some (fold_left spec_step acc sp !! id) → born_in acc id = true.
Proof.
  revert sp. induction acc as [|ev acc IH]; intros sp Hn Hs; simpl in *.
  - rewrite Hn in Hs. by destruct Hs.
  - destruct (is_new_span id ev) eqn:En; [done|]. simpl. apply (IH (spec_step sp ev)); [|done].
    destruct (spec_step sp ev !! id) eqn:E; [|done]. exfalso.
    assert (is_new_span id ev = true) by (eapply spec_step_dom_new; eauto). congruence.
Qed.

Lemma lrun_unc evs st w st' w' os T id :
  Inv st → lscope st w evs → lrun st w evs = (st', w', os, T) →
  id ∈ r_uncommitted st' ↔
  is_Some (r_spans st' !! id) ∧ (born_in (accepted os) id = true ∨ id ∈ r_uncommitted st).
Proof.
  revert st w os T. induction evs as [|ev r IH]; intros st w os T HI Hsc H.
  - simpl in H. simplify_eq. simpl. split; [|by intros [_ [?|?]]].
    intros Hu. split; [|by right]. apply (inv_uncommitted _ HI) in Hu. by apply elem_of_dom in Hu.
  - rewrite lrun_cons in H. destruct Hsc as [Hre Hsc].
    destruct (try_receive st w ev) as [[[o st1] w1] c1] eqn:E.
    destruct (lrun st1 w1 r) as [[[st2 w2] os2] c2] eqn:E2. simplify_eq.
    pose proof (try_receive_Inv _ _ _ _ _ _ _ HI Hre E) as HI1.
    rewrite (IH _ _ _ _ HI1 Hsc E2), accepted_cons.
    destruct o; simpl;
      [| by apply not_accepted_no_effect in E as (-> & _ & _)
       | by apply not_accepted_no_effect in E as (-> & _ & _)].
    pose proof (step_unc _ _ _ _ _ _ E) as Hu. pose proof (step_spans _ _ _ _ _ _ E) as Hs.
    pose proof (lrun_spans _ _ _ _ _ _ _ E2) as Hend.
    assert (∀ i, is_new_span id ev = false ∨ True) as _ by (intros; by right).
    destruct (is_new_span id ev) eqn:En; simpl.
    + destruct ev; try done. simpl in En. apply N.eqb_eq in En as ->. rewrite Hu.
      split; intros [? _]; (split; [done|]); [by left | right; set_solver].
    + assert (id ∈ r_uncommitted st1 ↔
              id ∈ r_uncommitted st ∧ last_drop (r_spans st) ev ≠ Some id) as Hiff.
      { rewrite Hu. destruct ev as [i d|i p m vs|a b|i|i|i|i|i vs|m p vs]; simpl in *; try (split; [by intros ? | by intros [? _]]).
        - apply N.eqb_neq in En. set_solver.
        - destruct (r_spans st !! i) as [d|]; [|split; [by intros ? | by intros [? _]]].
          destruct (sd_refs d - 1 =? 0)%N; [|split; [by intros ? | by intros [? _]]].
          split; [intros Hx | intros [Hx Hne]].
          + apply elem_of_difference in Hx as [Hx Hne]. split; [done|]. intros [= ->]. set_solver.
          + apply elem_of_difference. split; [done|]. intros Hs'. apply elem_of_singleton in Hs'. congruence. }
      rewrite Hiff. split; intros [Ha Hb]; (split; [done|]); destruct Hb as [Hb|Hb]; try (by left).
      * right. tauto.
      * destruct (decide (last_drop (r_spans st) ev = Some id)) as [Hd|Hd]; [|right; done].
        (* the span died at this step and is alive at the end: it was born again *)
        left. rewrite Hend in Ha. apply (fold_spec_born _ (r_spans st1)); [|done].
        rewrite Hs. unfold last_drop in Hd.
        destruct ev; try done. simpl. destruct (r_spans st !! id0) as [d|] eqn:Ed; [|done].
        destruct (sd_refs d - 1 =? 0)%N; [|done]. simplify_eq. by rewrite lookup_delete.
Qed.

(** * The lifetime invariant linking the state to the calls emitted so far

    [n0], [l0]: the host's id counter and the local span map when the lifetime started;
    [T]: the calls emitted since. *)
Definition origin (n0 : N) (l0 : gmap N N) (h : N) : Prop :=
  (n0 < h)%N ∨ ∃ id0, l0 !! id0 = Some h.

Record LInv (n0 : N) (l0 : gmap N N) (st : rstate) (w : world) (T : list hcall) : Prop := mk_LInv {
  li_ent_local : dom (r_entered st) ⊆ dom (r_local st);
  li_unc_local : r_uncommitted st ⊆ dom (r_local st);
  li_bound : local_bounded st w;
  li_inj : local_inj st;
  li_mono : (n0 <= w_next w)%N;
  li_unc_new : ∀ id h, id ∈ r_uncommitted st → r_local st !! id = Some h →
               (n0 < h)%N ∧ ∃ md p vs, HNewSpan h md p vs ∈ T;
  li_bal : ∀ id h, r_local st !! id = Some h → bal T h = default 0%N (r_entered st !! id);
  li_fresh : ∀ h, (w_next w < h)%N → bal T h = 0%N;
  li_origin : ∀ id h, r_local st !! id = Some h → origin n0 l0 h;
  li_ids : ∀ h, h ∈ ee_ids T → origin n0 l0 h }.

(** every host id that is not the host span of an alive guest span is balanced *)
Definition Dead (st : rstate) (T : list hcall) : Prop :=
  ∀ h, (∀ id, r_local st !! id ≠ Some h) → bal T h = 0%N.

Lemma LInv_neutral n0 l0 st w T st1 w1 cs :
  LInv n0 l0 st w T →
  r_local st1 = r_local st → r_entered st1 = r_entered st → r_uncommitted st1 = r_uncommitted st →
  w_next w1 = w_next w → ee_ids cs = [] →
  LInv n0 l0 st1 w1 (T ++ cs).
Proof.
  intros [A B C D E F G H I J] El Ee Eu Ew Ec.
  split; unfold local_bounded, local_inj in *; rewrite ?El, ?Ee, ?Eu, ?Ew; try done.
  - intros id h Hu Hl. destruct (F _ _ Hu Hl) as [? (md & p & vs & Hin)]. split; [done|].
    exists md, p, vs. apply elem_of_app. by left.
  - intros id h Hl. rewrite bal_app, bal_from_neutral by done. by apply G.
  - intros h Hh. rewrite bal_app, bal_from_neutral by done. by apply H.
  - intros h Hh. rewrite ee_ids_app, Ec, app_nil_r in Hh. by apply J.
Qed.

Lemma Dead_neutral st T st1 cs :
  Dead st T → r_local st1 = r_local st → ee_ids cs = [] → Dead st1 (T ++ cs).
Proof.
  intros HD El Ec h Hh. rewrite bal_app, bal_from_neutral by done. apply HD. by rewrite <- El.
Qed.

(** a host span is created for guest span [id] *)
Lemma LInv_new n0 l0 st w T st1 w1 cs id h :
  LInv n0 l0 st w T →
  r_local st !! id = None → h = (w_next w + 1)%N → w_next w1 = h → ee_ids cs = [] →
  (∃ md p vs, HNewSpan h md p vs ∈ cs) →
  r_local st1 = <[id:=h]> (r_local st) → r_entered st1 = r_entered st →
  r_uncommitted st1 ⊆ {[id]} ∪ r_uncommitted st →
  LInv n0 l0 st1 w1 (T ++ cs).
Proof.
  intros [A B C D E F G H I J] Hn Hh Ew Ec Hnew El Ee Eu.
  assert (∀ j x, r_local st !! j = Some x → x ≠ h) as Hlt.
  { intros j x Hj. apply C in Hj. lia. }
  assert (r_entered st !! id = None) as Hent.
  { apply not_elem_of_dom. intros Hd. apply A in Hd. apply elem_of_dom in Hd as [? Hd]. congruence. }
  split; unfold local_bounded, local_inj in *; rewrite ?El, ?Ee, ?Ew.
  - rewrite dom_insert. clear -A. set_solver.
  - rewrite dom_insert. clear -B Eu. set_solver.
  - intros j x Hj. apply lookup_insert_Some in Hj as [[<- <-]|[? Hj]]; [lia|]. apply C in Hj. lia.
  - intros i j x Hi Hj.
    apply lookup_insert_Some in Hi as [[<- <-]|[? Hi]]; apply lookup_insert_Some in Hj as [[<- Ej]|[? Hj]];
      try done.
    + exfalso. by eapply Hlt.
    + exfalso. subst x. by eapply Hlt.
    + by eapply D.
  - lia.
  - intros j x Hu Hj. apply lookup_insert_Some in Hj as [[<- <-]|[Hne Hj]].
    + split; [lia|]. destruct Hnew as (md & p & vs & Hin). exists md, p, vs. apply elem_of_app. by right.
    + assert (j ∈ r_uncommitted st) as Hu' by set_solver.
      destruct (F _ _ Hu' Hj) as [? (md & p & vs & Hin)]. split; [done|].
      exists md, p, vs. apply elem_of_app. by left.
  - intros j x Hj. rewrite bal_app, bal_from_neutral by done.
    apply lookup_insert_Some in Hj as [[<- <-]|[Hne Hj]]; [|by apply G].
    rewrite Hent. simpl. apply H. lia.
  - intros x Hx. rewrite bal_app, bal_from_neutral by done. apply H. lia.
  - intros j x Hj. apply lookup_insert_Some in Hj as [[<- <-]|[Hne Hj]]; [left; lia | by eapply I].
  - intros x Hx. rewrite ee_ids_app, Ec, app_nil_r in Hx. by apply J.
Qed.

Lemma Dead_new st T st1 cs id h :
  Dead st T → r_local st !! id = None → r_local st1 = <[id:=h]> (r_local st) → ee_ids cs = [] →
  Dead st1 (T ++ cs).
Proof.
  intros HD Hn El Ec x Hx. rewrite bal_app, bal_from_neutral by done. apply HD.
  intros j Hj. apply (Hx j). rewrite El. rewrite lookup_insert_ne; [done|]. intros <-. congruence.
Qed.

(** a span that has a host span is entered *)
Lemma LInv_enter n0 l0 st w T st1 id h :
  LInv n0 l0 st w T → r_local st !! id = Some h →
  r_local st1 = r_local st → r_uncommitted st1 = r_uncommitted st →
  r_entered st1 = <[id:=(default 0 (r_entered st !! id) + 1)%N]> (r_entered st) →
  LInv n0 l0 st1 w (T ++ [HEnter h]).
Proof.
  intros [A B C D E F G H I J] Hl El Eu Ee.
  split; unfold local_bounded, local_inj in *; rewrite ?El, ?Ee, ?Eu; try done.
  - rewrite dom_insert. apply elem_of_dom_2 in Hl. clear -A Hl. set_solver.
  - intros j x Hu Hj. destruct (F _ _ Hu Hj) as [? (md & p & vs & Hin)]. split; [done|].
    exists md, p, vs. apply elem_of_app. by left.
  - intros j x Hj. rewrite bal_app. cbn [bal_from fold_left bal_step].
    destruct (N.eqb_spec h x) as [->|Hne].
    + rewrite (D _ _ _ Hj Hl), lookup_insert. simpl. by rewrite (G _ _ Hl).
    + rewrite lookup_insert_ne by (intros <-; congruence). by apply G.
  - intros x Hx. rewrite bal_app. cbn [bal_from fold_left bal_step].
    destruct (N.eqb_spec h x) as [->|Hne]; [|by apply H]. apply C in Hl. lia.
  - intros x Hx. rewrite ee_ids_app in Hx. apply elem_of_app in Hx as [Hx|Hx]; [by apply J|].
    simpl in Hx. apply elem_of_list_singleton in Hx as ->. by eapply I.
Qed.

Lemma Dead_ee st T st1 c h id :
  Dead st T → r_local st !! id = Some h → r_local st1 = r_local st → ee_ids [c] = [h] →
  Dead st1 (T ++ [c]).
Proof.
  intros HD Hl El Ec x Hx. rewrite bal_app, bal_from_notin.
  - apply HD. by rewrite <- El.
  - rewrite Ec. intros Hin. apply elem_of_list_singleton in Hin as ->. apply (Hx id). by rewrite El.
Qed.

(** a span that has a host span is exited *)
Lemma LInv_exit n0 l0 st w T st1 id h :
  LInv n0 l0 st w T → r_local st !! id = Some h →
  r_local st1 = r_local st → r_uncommitted st1 = r_uncommitted st →
  r_entered st1 = match r_entered st !! id with
                  | Some c => if (c - 1 =? 0)%N then delete id (r_entered st)
                              else <[id:=(c - 1)%N]> (r_entered st)
                  | None => r_entered st
                  end →
  LInv n0 l0 st1 w (T ++ [HExit h]).
Proof.
  intros [A B C D E F G H I J] Hl El Eu Ee.
  assert (dom (r_entered st1) ⊆ dom (r_entered st)) as Hdom.
  { rewrite Ee. destruct (r_entered st !! id) as [c|] eqn:Ec; [|done].
    destruct (c - 1 =? 0)%N; [rewrite dom_delete; set_solver|].
    rewrite dom_insert. apply elem_of_dom_2 in Ec. set_solver. }
  split; unfold local_bounded, local_inj in *; rewrite ?El, ?Eu; try done.
  - set_solver.
  - intros j x Hu Hj. destruct (F _ _ Hu Hj) as [? (md & p & vs & Hin)]. split; [done|].
    exists md, p, vs. apply elem_of_app. by left.
  - intros j x Hj. rewrite bal_app. cbn [bal_from fold_left bal_step]. rewrite Ee.
    destruct (N.eqb_spec h x) as [->|Hne].
    + rewrite (D _ _ _ Hj Hl), (G _ _ Hl). destruct (r_entered st !! id) as [c|] eqn:Ec.
      * rewrite (default_pred_entered _ _ _ id Ec), N.eqb_refl. done.
      * by rewrite Ec.
    + rewrite (G _ _ Hj). assert (id ≠ j) as Hij by (intros <-; congruence).
      destruct (r_entered st !! id) as [c|] eqn:Ec; [|done].
      rewrite (default_pred_entered _ _ _ j Ec). by destruct (N.eqb_spec id j).
  - intros x Hx. rewrite bal_app. cbn [bal_from fold_left bal_step].
    destruct (N.eqb_spec h x) as [->|Hne]; [|by apply H]. apply C in Hl. lia.
  - intros x Hx. rewrite ee_ids_app in Hx. apply elem_of_app in Hx as [Hx|Hx]; [by apply J|].
    simpl in Hx. apply elem_of_list_singleton in Hx as ->. by eapply I.
Qed.

(** the last handle of a span is dropped *)
Lemma LInv_dead n0 l0 st w T st1 cs id :
  LInv n0 l0 st w T →
  r_local st1 = delete id (r_local st) → r_entered st1 = delete id (r_entered st) →
  r_uncommitted st1 = r_uncommitted st ∖ {[id]} → ee_ids cs = [] →
  LInv n0 l0 st1 w (T ++ cs).
Proof.
  intros [A B C D E F G H I J] El Ee Eu Ec.
  split; unfold local_bounded, local_inj in *; rewrite ?El, ?Ee, ?Eu; try done.
  - rewrite !dom_delete. set_solver.
  - rewrite dom_delete. set_solver.
  - intros j x Hj. apply lookup_delete_Some in Hj as [_ Hj]. by eapply C.
  - intros i j x Hi Hj. apply lookup_delete_Some in Hi as [_ Hi]. apply lookup_delete_Some in Hj as [_ Hj].
    by eapply D.
  - intros j x Hu Hj. apply lookup_delete_Some in Hj as [_ Hj]. apply elem_of_difference in Hu as [Hu _].
    destruct (F _ _ Hu Hj) as [? (md & p & vs & Hin)]. split; [done|].
    exists md, p, vs. apply elem_of_app. by left.
  - intros j x Hj. apply lookup_delete_Some in Hj as [Hne Hj].
    rewrite bal_app, bal_from_neutral by done. rewrite lookup_delete_ne by done. by apply G.
  - intros x Hx. rewrite bal_app, bal_from_neutral by done. by apply H.
  - intros j x Hj. apply lookup_delete_Some in Hj as [_ Hj]. by eapply I.
  - intros x Hx. rewrite ee_ids_app, Ec, app_nil_r in Hx. by apply J.
Qed.

Lemma Dead_dead n0 l0 st w T st1 cs id :
  LInv n0 l0 st w T → Dead st T → r_entered st !! id = None →
  r_local st1 = delete id (r_local st) → ee_ids cs = [] → Dead st1 (T ++ cs).
Proof.
  intros HL HD Hent El Ec x Hx. rewrite bal_app, bal_from_neutral by done.
  destruct (decide (r_local st !! id = Some x)) as [Hl|Hl].
  - rewrite (li_bal _ _ _ _ _ HL _ _ Hl), Hent. done.
  - apply HD. intros j Hj. destruct (decide (j = id)) as [->|Hne]; [done|].
    apply (Hx j). rewrite El, lookup_delete_ne; done.
Qed.

Lemma cls_shape st w d b h w1 cs :
  create_local_span st w d b = inr (h, w1, cs) →
  h = (w_next w + 1)%N ∧ w_next w1 = h ∧ ee_ids cs = [] ∧ ∃ md p vs, HNewSpan h md p vs ∈ cs.
Proof.
  unfold create_local_span. intros H. repeat (case_match; simplify_eq/=);
    (split_and!; [done | done | apply ee_ids_records | eexists _, _, _; by left]).
Qed.

Lemma local_none_of_dead st id : Inv st → r_spans st !! id = None → r_local st !! id = None.
Proof.
  intros HI Hs. destruct (r_local st !! id) eqn:E; [|done]. exfalso.
  assert (id ∈ dom (r_spans st)) as Hd by (apply (inv_local _ HI); by apply elem_of_dom).
  apply elem_of_dom in Hd as [? Hd]. congruence.
Qed.

Lemma LInv_nil_r n0 l0 st w T : LInv n0 l0 st w T → LInv n0 l0 st w (T ++ []).
Proof. by rewrite app_nil_r. Qed.

Ltac inj3 H := cbv zeta beta in H; injection H as <- <- <-.

Lemma step_LInv n0 l0 st w T ev o st' w' calls :
  Inv st → no_reannounce st ev = true → LInv n0 l0 st w T →
  try_receive st w ev = (o, st', w', calls) →
  LInv n0 l0 st' w' (T ++ calls) ∧
  (Dead st T → (is_accepted o = true → wf_drop_ev st ev = true) → Dead st' (T ++ calls)).
Proof.
  intros HI Hre HL H.
  destruct o as [|e|];
    [| apply not_accepted_no_effect in H as (-> & -> & ->); [|done]; rewrite app_nil_r; split; [done | by intros]
     | apply not_accepted_no_effect in H as (-> & -> & ->); [|done]; rewrite app_nil_r; split; [done | by intros]].
  destruct ev as [id d|id p m vs|a b|id|id|id|id|id vs|m p vs]; simpl in H.
  - (* NewCallSite *)
    unfold on_new_call_site in H. inj3 H.
    assert (ee_ids (if negb (existsb (cs_data_eqb d) (w_arena w)) then [HRegister d] else []) = []) as Hc
      by (by destruct (negb _)).
    split; [apply (LInv_neutral _ _ st w); try done; by destruct (negb _) | intros HD _; by eapply Dead_neutral].
  - (* NewSpan *)
    apply negb_true_iff, alive_false in Hre. pose proof (local_none_of_dead _ _ HI Hre) as Hl.
    rewrite Hl in H. destruct (too_many vs); [unfold reject in H; simplify_eq|].
    destruct (create_local_span st w (mk_sd m p 1 vs) true) as [e|[[h w1] cs]] eqn:Ec;
      [unfold reject in H; simplify_eq|].
    apply cls_shape in Ec as (Hh & Hw & Hee & Hnew). inj3 H. split.
    + eapply (LInv_new _ _ st w T _ w1 cs id); try done.
    + intros HD _. by eapply (Dead_new st T _ cs id).
  - (* FollowsFrom *)
    destruct (map_span_id st a) as [e|la]; [unfold reject in H; simplify_eq|].
    destruct (map_span_id st b) as [e|lb]; [unfold reject in H; simplify_eq|]. inj3 H.
    assert (ee_ids (match la, lb with Some a0, Some b0 => [HFollows a0 b0] | _, _ => [] end) = []) as Hc
      by (by destruct la, lb).
    split; [by apply (LInv_neutral _ _ st w) | intros HD _; by eapply Dead_neutral].
  - (* Entered *)
    pose proof (map_span_id_spec st id) as Hs.
    destruct (map_span_id st id) as [e|[h|]]; [unfold reject in H; simplify_eq| |].
    + inj3 H. split; [by eapply (LInv_enter _ _ st w T _ id h) |].
      intros HD _. by eapply (Dead_ee st T _ _ h id).
    + destruct Hs as [Hl [d Hd]]. rewrite Hd in H.
      destruct (create_local_span st w d false) as [e|[[h w1] cs]] eqn:Ec;
        [unfold reject in H; simplify_eq|].
      apply cls_shape in Ec as (Hh & Hw & Hee & Hnew). inj3 H.
      rewrite app_assoc.
      set (st1 := set_local st (<[id:=h]> (r_local st))).
      assert (LInv n0 l0 st1 w1 (T ++ cs)) as HL1
        by (eapply (LInv_new _ _ st w T st1 w1 cs id); subst st1; simpl; try done; apply union_subseteq_r).
      split.
      * eapply (LInv_enter _ _ st1 w1 _ _ id); subst st1; simpl; try done. by rewrite lookup_insert.
      * intros HD _. eapply (Dead_ee st1 _ _ _ _ id); subst st1; simpl; try done.
        -- by eapply (Dead_new st T _ cs id).
        -- by rewrite lookup_insert.
  - (* Exited *)
    pose proof (map_span_id_spec st id) as Hs.
    destruct (map_span_id st id) as [e|[h|]]; [unfold reject in H; simplify_eq| |]; inj3 H.
    + split; [by eapply (LInv_exit _ _ st w T _ id h) | intros HD _; by eapply (Dead_ee st T _ _ h id)].
    + destruct Hs as [Hl _].
      assert (r_entered st !! id = None) as Hent.
      { apply not_elem_of_dom. intros Hd. apply (li_ent_local _ _ _ _ _ HL) in Hd.
        apply elem_of_dom in Hd as [? Hd]. congruence. }
      rewrite Hent. split; [apply (LInv_neutral _ _ st w); done | intros HD _; by eapply Dead_neutral].
  - (* Cloned *)
    destruct (r_spans st !! id); [|unfold reject in H; simplify_eq]. inj3 H.
    split; [apply (LInv_neutral _ _ st w); done | intros HD _; by eapply Dead_neutral].
  - (* Dropped *)
    destruct (r_spans st !! id) as [d|] eqn:Es; [|unfold reject in H; simplify_eq].
    destruct (sd_refs d =? 0)%N; [simplify_eq|].
    destruct (sd_refs d - 1 =? 0)%N eqn:Ez; inj3 H.
    + assert (ee_ids (match r_local st !! id with Some h => [HTryClose h] | None => [] end) = []) as Hc
        by (by destruct (r_local st !! id)).
      split; [by eapply (LInv_dead _ _ st w T _ _ id) |].
      intros HD Hwf. specialize (Hwf eq_refl). unfold wf_drop_ev, last_drop in Hwf. rewrite Es, Ez in Hwf.
      apply bool_decide_eq_true in Hwf. by eapply (Dead_dead _ _ st w T _ _ id).
    + split; [apply (LInv_neutral _ _ st w); done | intros HD _; by eapply Dead_neutral].
  - (* ValuesRecorded *)
    destruct (too_many vs); [unfold reject in H; simplify_eq|].
    destruct (map_span_id st id) as [e|lid]; [unfold reject in H; simplify_eq|].
    assert (∃ cs s1, calls = cs ∧ ee_ids cs = [] ∧ st' = set_spans st s1 ∧ w' = w) as (cs & s1 & -> & Hc & -> & ->).
    { repeat (case_match; simplify_eq/=); eexists _, _; split_and!; done. }
    split; [apply (LInv_neutral _ _ st w); done | intros HD _; by eapply Dead_neutral].
  - (* NewEvent *)
    assert (∃ cs, calls = cs ∧ ee_ids cs = [] ∧ st' = st ∧ w' = w) as (cs & -> & Hc & -> & ->).
    { unfold reject in H. repeat (case_match; simplify_eq/=); eexists; split_and!; done. }
    split; [apply (LInv_neutral _ _ st w); done | intros HD _; by eapply Dead_neutral].
Qed.

(** the invariant along a lifetime *)
Lemma lrun_LInv n0 l0 evs st w T st' w' os cs :
  Inv st → lscope st w evs → LInv n0 l0 st w T → lrun st w evs = (st', w', os, cs) →
  LInv n0 l0 st' w' (T ++ cs) ∧ (Dead st T → wf_drop st w evs = true → Dead st' (T ++ cs)).
Proof.
  revert st w T os cs. induction evs as [|ev r IH]; intros st w T os cs HI Hsc HL H.
  - simpl in H. simplify_eq. rewrite app_nil_r. split; [done | by intros].
  - rewrite lrun_cons in H. destruct Hsc as [Hre Hsc]. cbn [wf_drop].
    destruct (try_receive st w ev) as [[[o st1] w1] c1] eqn:E.
    destruct (lrun st1 w1 r) as [[[st2 w2] os2] c2] eqn:E2. simplify_eq.
    pose proof (try_receive_Inv _ _ _ _ _ _ _ HI Hre E) as HI1.
    destruct (step_LInv _ _ _ _ _ _ _ _ _ _ HI Hre HL E) as [HL1 HD1].
    destruct (IH _ _ _ _ _ HI1 Hsc HL1 E2) as [HL2 HD2]. rewrite app_assoc. split; [done|].
    intros HD Hwf. apply andb_true_iff in Hwf as [Hwf1 Hwf2]. apply HD2; [|done]. apply HD1; [done|].
    intros Ha. by rewrite Ha in Hwf1.
Qed.

(** a receiver as created by [new] / [default] *)
Record LStart (st : rstate) (w : world) : Prop := mk_LStart {
  ls_inv : Inv st;
  ls_unc : r_uncommitted st = ∅;
  ls_ent : r_entered st = ∅;
  ls_bound : local_bounded st w;
  ls_inj : local_inj st }.

Lemma LInv_start st w : LStart st w → LInv (w_next w) (r_local st) st w [] ∧ Dead st [].
Proof.
  intros [HI Hu He Hb Hj]. split; [|by intros h _]. split; rewrite ?Hu, ?He; try done.
  - intros id h Hl. right. eauto.
  - intros h Hh. by apply elem_of_nil in Hh.
Qed.

Lemma lifetime_LInv st0 w0 evs st w os T :
  LStart st0 w0 → lscope st0 w0 evs → lrun st0 w0 evs = (st, w, os, T) →
  LInv (w_next w0) (r_local st0) st w T ∧ (wf_drop st0 w0 evs = true → Dead st T).
Proof.
  intros HS Hsc H. destruct (LInv_start _ _ HS) as [HL HD].
  destruct (lrun_LInv _ _ _ _ _ _ _ _ _ _ (ls_inv _ _ HS) Hsc HL H) as [HL' HD']. simpl in *.
  split; [done | by apply HD'].
Qed.

(** * B: what finalisation emits *)
Definition exit_batch (loc : gmap N N) (kv : N * N) : list hcall :=
  match loc !! kv.1 with Some h => repeat (HExit h) (N.to_nat kv.2) | None => [] end.
Lemma exits_of_eq ent loc : exits_of ent loc = flat_map (exit_batch loc) (map_to_list ent).
Proof. unfold exits_of. apply flat_map_ext. by intros [id c]. Qed.

Lemma exit_batch_all_exits loc kv : forallb is_exit_call (exit_batch loc kv) = true.
Proof.
  unfold exit_batch. destruct (loc !! kv.1); [|done]. induction (N.to_nat kv.2); [done|]. done.
Qed.
Lemma exits_of_all_exits ent loc : forallb is_exit_call (exits_of ent loc) = true.
Proof.
  rewrite exits_of_eq. induction (map_to_list ent) as [|kv l IH]; [done|]. simpl.
  rewrite forallb_app, exit_batch_all_exits. done.
Qed.

Lemma n_exits_flat loc (L : list (N * N)) id h :
  (∀ i j x, loc !! i = Some x → loc !! j = Some x → i = j) → loc !! id = Some h → NoDup L.*1 →
  n_exits h (flat_map (exit_batch loc) L) = default 0%N ((list_to_map L : gmap N N) !! id).
Proof.
  intros Hinj Hl. induction L as [|[i c] L IH]; intros Hnd; [done|].
  rewrite fmap_cons in Hnd. apply NoDup_cons in Hnd as [Hni Hnd]. simpl in Hni.
  cbn [flat_map list_to_map]. rewrite n_exits_app, (IH Hnd). unfold exit_batch at 1. simpl.
  destruct (decide (i = id)) as [->|Hne].
  - rewrite Hl, n_exits_repeat, N.eqb_refl, lookup_insert, N2Nat.id.
    rewrite (not_elem_of_list_to_map_1 _ _ Hni). simpl. lia.
  - rewrite lookup_insert_ne by done. destruct (loc !! i) as [x|] eqn:Ei; [|done].
    rewrite n_exits_repeat. destruct (N.eqb_spec x h) as [->|]; [|done]. exfalso. apply Hne. by eapply Hinj.
Qed.

Lemma n_exits_exits_of ent loc id h :
  (∀ i j x, loc !! i = Some x → loc !! j = Some x → i = j) → loc !! id = Some h →
  n_exits h (exits_of ent loc) = default 0%N (ent !! id).
Proof.
  intros Hinj Hl. rewrite exits_of_eq, (n_exits_flat _ _ id) by (try done; apply NoDup_fst_map_to_list).
  by rewrite list_to_map_to_list.
Qed.

Lemma ee_ids_exits_of ent loc x :
  x ∈ ee_ids (exits_of ent loc) → ∃ id c, loc !! id = Some x ∧ ent !! id = Some c.
Proof.
  rewrite exits_of_eq. intros Hx.
  assert (∃ kv, kv ∈ map_to_list ent ∧ x ∈ ee_ids (exit_batch loc kv)) as ([id c] & Hin & Hx').
  { induction (map_to_list ent) as [|kv l IH]; [by apply elem_of_nil in Hx|].
    cbn [flat_map] in Hx. rewrite ee_ids_app in Hx. apply elem_of_app in Hx as [Hx|Hx].
    - exists kv. split; [by left | done].
    - destruct (IH Hx) as (kv' & ? & ?). exists kv'. split; [by right | done]. }
  apply elem_of_map_to_list in Hin. exists id, c. split; [|done].
  unfold exit_batch in Hx'. simpl in Hx'. destruct (loc !! id) as [h|]; [|by apply elem_of_nil in Hx'].
  induction (N.to_nat c) as [|k IH]; [by apply elem_of_nil in Hx'|].
  cbn [repeat] in Hx'. rewrite ee_ids_cons in Hx'. apply elem_of_app in Hx' as [Hx'|Hx']; [|by apply IH].
  simpl in Hx'. by apply elem_of_list_singleton in Hx' as ->.
Qed.

Definition close_batch (loc : gmap N N) (id : N) : list hcall :=
  match loc !! id with Some h => [HTryClose h] | None => [] end.
Lemma closes_of_eq unc loc : closes_of unc loc = flat_map (close_batch loc) (elements unc).
Proof. done. Qed.

Lemma closes_of_all_closes unc loc : forallb is_close_call (closes_of unc loc) = true.
Proof.
  rewrite closes_of_eq. induction (elements unc) as [|i l IH]; [done|]. cbn [flat_map].
  rewrite forallb_app, IH. unfold close_batch. by destruct (loc !! i).
Qed.

Lemma close_ids_flat loc (l : list N) x :
  x ∈ close_ids (flat_map (close_batch loc) l) ↔ ∃ id, id ∈ l ∧ loc !! id = Some x.
Proof.
  induction l as [|i l IH]; cbn [flat_map].
  - split; [intros H; by apply elem_of_nil in H | intros (? & H & _); by apply elem_of_nil in H].
  - unfold close_ids in *. rewrite flat_map_app, elem_of_app, IH. unfold close_batch at 1. split.
    + intros [H|(id & ? & ?)].
      * destruct (loc !! i) as [h|] eqn:E; simpl in H; [|by apply elem_of_nil in H].
        apply elem_of_list_singleton in H as ->. exists i. split; [by left | done].
      * exists id. split; [by right | done].
    + intros (id & Hin & Hl). apply elem_of_cons in Hin as [->|Hin].
      * left. rewrite Hl. simpl. by left.
      * right. eauto.
Qed.

Lemma close_ids_flat_NoDup loc (l : list N) :
  (∀ i j x, loc !! i = Some x → loc !! j = Some x → i = j) → NoDup l →
  NoDup (close_ids (flat_map (close_batch loc) l)).
Proof.
  intros Hinj. induction l as [|i l IH]; intros Hnd; cbn [flat_map]; [constructor|].
  apply NoDup_cons in Hnd as [Hni Hnd]. unfold close_ids in *. rewrite flat_map_app.
  unfold close_batch at 1. destruct (loc !! i) as [h|] eqn:E; simpl; [|by apply IH].
  apply NoDup_cons. split; [|by apply IH].
  intros Hin. apply (close_ids_flat loc l h) in Hin as (j & Hj & Hl). apply Hni.
  by rewrite (Hinj _ _ _ E Hl).
Qed.

Lemma default_nz c : default 0%N (nz c) = c.
Proof. unfold nz. destruct (N.eqb_spec c 0); simpl; lia. Qed.

(** ** [persist]: exactly the forced exits, nothing else *)
Theorem persist_exits_lifetime st0 w0 evs st w os T :
  LStart st0 w0 → lscope st0 w0 evs → lrun st0 w0 evs = (st, w, os, T) →
  let F := snd (persist st) in
  forallb is_exit_call F = true ∧
  (∀ id h, r_local st !! id = Some h →
     n_exits h F = ref_entered (r_spans st0) (accepted os) id 0) ∧
  (∀ x, x ∈ ee_ids F → ∃ id, r_local st !! id = Some x ∧
                             ref_entered (r_spans st0) (accepted os) id 0 ≠ 0%N).
Proof.
  intros HS Hsc H F. subst F. unfold persist. simpl.
  destruct (lifetime_LInv _ _ _ _ _ _ _ HS Hsc H) as [HL _].
  pose proof (entered_is_fold_lifetime _ _ _ _ _ _ _ (ls_inv _ _ HS) (ls_ent _ _ HS) Hsc H) as He.
  split_and!.
  - apply exits_of_all_exits.
  - intros id h Hl. rewrite (n_exits_exits_of _ _ id) by (try done; apply (li_inj _ _ _ _ _ HL)).
    by rewrite He, default_nz.
  - intros x Hx. apply ee_ids_exits_of in Hx as (id & c & Hl & Hc). exists id. split; [done|].
    rewrite He in Hc. unfold nz in Hc. destruct (N.eqb_spec (ref_entered (r_spans st0) (accepted os) id 0) 0); [done | done].
Qed.

Theorem persist_closes_nothing st : close_ids (snd (persist st)) = [] ∧ forallb is_exit_call (snd (persist st)) = true.
Proof.
  unfold persist. simpl. pose proof (exits_of_all_exits (r_entered st) (r_local st)) as H. split; [|done].
  induction (exits_of (r_entered st) (r_local st)) as [|c l IH]; [done|]. simpl in H.
  apply andb_true_iff in H as [Hc H]. destruct c; try done. simpl. by apply IH.
Qed.

(** ** [Drop]: the same exits, then one close per span born in this lifetime and still alive *)
Theorem drop_exits_then_closes_lifetime st0 w0 evs st w os T :
  LStart st0 w0 → lscope st0 w0 evs → lrun st0 w0 evs = (st, w, os, T) →
  ∃ C, drop_calls st = snd (persist st) ++ C ∧
       forallb is_close_call C = true ∧ NoDup (close_ids C) ∧
       (∀ x, x ∈ close_ids C ↔
             ∃ id, born_in (accepted os) id = true ∧ is_Some (r_spans st !! id) ∧ r_local st !! id = Some x) ∧
       (∀ x, x ∈ close_ids C → (w_next w0 < x)%N ∧ ∃ md p vs, HNewSpan x md p vs ∈ T).
Proof.
  intros HS Hsc H. exists (closes_of (r_uncommitted st) (r_local st)).
  destruct (lifetime_LInv _ _ _ _ _ _ _ HS Hsc H) as [HL _].
  pose proof (fun id => lrun_unc _ _ _ _ _ _ _ id (ls_inv _ _ HS) Hsc H) as Hu.
  split_and!; [done | apply closes_of_all_closes | | |].
  - rewrite closes_of_eq. apply close_ids_flat_NoDup; [apply (li_inj _ _ _ _ _ HL) | apply NoDup_elements].
  - intros x. rewrite closes_of_eq, close_ids_flat. split.
    + intros (id & Hin & Hl). apply elem_of_elements in Hin. apply Hu in Hin as [Ha [Hb|Hb]].
      * exists id. done.
      * rewrite (ls_unc _ _ HS) in Hb. by apply elem_of_empty in Hb.
    + intros (id & Hb & Ha & Hl). exists id. split; [|done]. apply elem_of_elements, Hu. split; [done | by left].
  - intros x Hx. rewrite closes_of_eq in Hx. apply close_ids_flat in Hx as (id & Hin & Hl).
    apply elem_of_elements in Hin. by apply (li_unc_new _ _ _ _ _ HL id x).
Qed.

(** ** A (ii), stated for the state: the uncommitted set and its host spans *)
Theorem uncommitted_is_born_alive_lifetime st0 w0 evs st w os T :
  LStart st0 w0 → lscope st0 w0 evs → lrun st0 w0 evs = (st, w, os, T) →
  (∀ id, id ∈ r_uncommitted st ↔ born_in (accepted os) id = true ∧ is_Some (r_spans st !! id)) ∧
  (∀ id, id ∈ r_uncommitted st →
         ∃ h, r_local st !! id = Some h ∧ (w_next w0 < h)%N ∧ ∃ md p vs, HNewSpan h md p vs ∈ T).
Proof.
  intros HS Hsc H. destruct (lifetime_LInv _ _ _ _ _ _ _ HS Hsc H) as [HL _].
  pose proof (fun id => lrun_unc _ _ _ _ _ _ _ id (ls_inv _ _ HS) Hsc H) as Hu. split.
  - intros id. rewrite Hu, (ls_unc _ _ HS). split; [intros [? [?|Hx]]; [done | by apply elem_of_empty in Hx] | intros [? ?]; split; [done | by left]].
  - intros id Hin. pose proof (li_unc_local _ _ _ _ _ HL _ Hin) as Hd. apply elem_of_dom in Hd as [h Hl].
    exists h. split; [done|]. by apply (li_unc_new _ _ _ _ _ HL id h).
Qed.

(** ** balance of enters and exits *)
Lemma fin_calls_split st fin :
  is_recv fin = false →
  ∃ C, fin_calls st fin = exits_of (r_entered st) (r_local st) ++ C ∧ forallb is_close_call C = true.
Proof.
  destruct fin; [done| |]; intros _; simpl.
  - exists []. by rewrite app_nil_r.
  - exists (closes_of (r_uncommitted st) (r_local st)). split; [done | apply closes_of_all_closes].
Qed.

Lemma bal_fin st T fin h :
  is_recv fin = false →
  bal (T ++ fin_calls st fin) h = (bal T h - n_exits h (exits_of (r_entered st) (r_local st)))%N.
Proof.
  intros Hf. destruct (fin_calls_split st fin Hf) as (C & -> & HC).
  rewrite bal_app, bal_from_app, (bal_from_exits _ _ _ (exits_of_all_exits _ _)).
  apply bal_from_neutral. by apply ee_ids_closes.
Qed.

Theorem balance_zero_alive_lifetime st0 w0 evs st w os T fin :
  LStart st0 w0 → lscope st0 w0 evs → lrun st0 w0 evs = (st, w, os, T) → is_recv fin = false →
  ∀ id h, r_local st !! id = Some h → bal (T ++ fin_calls st fin) h = 0%N.
Proof.
  intros HS Hsc H Hf id h Hl. destruct (lifetime_LInv _ _ _ _ _ _ _ HS Hsc H) as [HL _].
  rewrite bal_fin by done. rewrite (n_exits_exits_of _ _ id) by (try done; apply (li_inj _ _ _ _ _ HL)).
  rewrite (li_bal _ _ _ _ _ HL _ _ Hl). lia.
Qed.

Theorem balance_zero_wf_lifetime st0 w0 evs st w os T fin :
  LStart st0 w0 → lscope st0 w0 evs → lrun st0 w0 evs = (st, w, os, T) → is_recv fin = false →
  wf_drop st0 w0 evs = true →
  ∀ h, bal (T ++ fin_calls st fin) h = 0%N.
Proof.
  intros HS Hsc H Hf Hwf h. destruct (lifetime_LInv _ _ _ _ _ _ _ HS Hsc H) as [HL HD].
  specialize (HD Hwf).
  destruct (decide (Exists (λ kv, kv.2 = h) (map_to_list (r_local st)))) as [Hex|Hnex].
  - apply Exists_exists in Hex as ([id x] & Hin & Hx). simpl in Hx. subst x.
    apply elem_of_map_to_list in Hin. by eapply balance_zero_alive_lifetime.
  - rewrite bal_fin by done. rewrite HD; [lia|]. intros id Hl. apply Hnex, Exists_exists.
    exists (id, h). split; [by apply elem_of_map_to_list | done].
Qed.

(** ** the host stack *)
Lemma fin_ids_origin n0 l0 st w T fin x :
  LInv n0 l0 st w T → x ∈ ee_ids (T ++ fin_calls st fin) → origin n0 l0 x.
Proof.
  intros HL Hx. rewrite ee_ids_app in Hx. apply elem_of_app in Hx as [Hx|Hx]; [by eapply li_ids|].
  destruct fin as [ev|k|]; simpl in Hx; [by apply elem_of_nil in Hx| |].
  - apply ee_ids_exits_of in Hx as (id & c & Hl & _). by eapply li_origin.
  - unfold drop_calls in Hx. rewrite ee_ids_app, (ee_ids_closes _ (closes_of_all_closes _ _)), app_nil_r in Hx.
    apply ee_ids_exits_of in Hx as (id & c & Hl & _). by eapply li_origin.
Qed.

Theorem stack_restored_lifetime st0 w0 evs st w os T fin stk :
  LStart st0 w0 → lscope st0 w0 evs → lrun st0 w0 evs = (st, w, os, T) → is_recv fin = false →
  wf_drop st0 w0 evs = true →
  (∀ h, h ∈ ee_ids (T ++ fin_calls st fin) → h ∉ stk) →
  stack_apply stk (T ++ fin_calls st fin) = stk.
Proof.
  intros HS Hsc H Hf Hwf Hstk. apply stack_restored_pure. intros h Hh. split; [by apply Hstk|].
  by eapply balance_zero_wf_lifetime.
Qed.

(** the same with the side condition stated before the lifetime starts: the host spans the
    receiver was given are not entered, and the stack holds only ids the host has issued *)
Theorem stack_restored_lifetime' st0 w0 evs st w os T fin stk :
  LStart st0 w0 → lscope st0 w0 evs → lrun st0 w0 evs = (st, w, os, T) → is_recv fin = false →
  wf_drop st0 w0 evs = true →
  (∀ id h, r_local st0 !! id = Some h → h ∉ stk) → (∀ h, h ∈ stk → (h <= w_next w0)%N) →
  stack_apply stk (T ++ fin_calls st fin) = stk ∧
  current (stack_apply stk (T ++ fin_calls st fin)) = current stk.
Proof.
  intros HS Hsc H Hf Hwf Hloc Hold.
  assert (stack_apply stk (T ++ fin_calls st fin) = stk) as E; [|by rewrite E].
  eapply stack_restored_lifetime; try done. intros h Hh Hin.
  destruct (lifetime_LInv _ _ _ _ _ _ _ HS Hsc H) as [HL _].
  destruct (fin_ids_origin _ _ _ _ _ fin h HL Hh) as [Hlt|[id Hl]].
  - apply Hold in Hin. lia.
  - by apply (Hloc id h).
Qed.

(** the stack as the code stores it (with duplicate flags): restored, hence the same current span *)
Theorem fstack_restored_lifetime st0 w0 evs st w os T fin (stk : fstack) :
  LStart st0 w0 → lscope st0 w0 evs → lrun st0 w0 evs = (st, w, os, T) → is_recv fin = false →
  wf_drop st0 w0 evs = true → flags_ok stk →
  (∀ id h, r_local st0 !! id = Some h → h ∉ map fst stk) → (∀ h, h ∈ map fst stk → (h <= w_next w0)%N) →
  fstack_apply stk (T ++ fin_calls st fin) = stk ∧
  fcurrent (fstack_apply stk (T ++ fin_calls st fin)) = fcurrent stk.
Proof.
  intros HS Hsc H Hf Hwf Hfl Hloc Hold.
  assert (fstack_apply stk (T ++ fin_calls st fin) = stk) as E; [|by rewrite E].
  apply fstack_flags_determined; [by apply fstack_apply_flags_ok | done |].
  rewrite fstack_apply_erase. by eapply stack_restored_lifetime'.
Qed.

(** * Lifetimes inside histories *)

Lemma step_no_panic h s : HInv h → step_scope h s → is_panic (snd (hist_step h s)) = false.
Proof.
  intros HH Hs. destruct s as [ev|k|]; simpl.
  - destruct (try_receive (h_st h) (h_w h) ev) as [[[o st'] w'] calls] eqn:E. simpl.
    destruct o; try done. exfalso. eapply recv_total; [apply HH | exact E | done].
  - unfold persist. destruct (restore _ _ _ _) as [[? ?] ?]. done.
  - destruct (restore _ _ _ _) as [[? ?] ?]. done.
Qed.

Lemma hist_final_cons h s r :
  HInv h → step_scope h s → hist_final h (s :: r) = hist_final (fst (hist_step h s)) r.
Proof.
  intros HH Hs. pose proof (step_no_panic h s HH Hs) as Hp. simpl.
  destruct (hist_step h s) as [h' o]. simpl in *. by rewrite Hp.
Qed.
Lemma hist_run_cons h s r :
  HInv h → step_scope h s →
  hist_run h (s :: r) = snd (hist_step h s) :: hist_run (fst (hist_step h s)) r.
Proof.
  intros HH Hs. pose proof (step_no_panic h s HH Hs) as Hp. simpl.
  destruct (hist_step h s) as [h' o]. simpl in *. by rewrite Hp.
Qed.

Lemma hist_app h a b :
  HInv h → hist_scope h (a ++ b) →
  hist_scope h a ∧ hist_scope (hist_final h a) b ∧
  hist_final h (a ++ b) = hist_final (hist_final h a) b ∧
  hist_run h (a ++ b) = hist_run h a ++ hist_run (hist_final h a) b.
Proof.
  revert h. induction a as [|s a IH]; intros h HH Hsc; [done|].
  destruct Hsc as [Hs Hsc]. pose proof (hist_step_HInv h s HH Hs) as HH'.
  destruct (IH _ HH' Hsc) as (A & B & C & D).
  rewrite <- app_comm_cons, !hist_final_cons, !hist_run_cons by done.
  split_and!; try done. by rewrite D.
Qed.

Lemma hist_scopeb_spec h steps : hist_scopeb h steps = true ↔ hist_scope h steps.
Proof.
  revert h. induction steps as [|s r IH]; intros h; simpl; [done|].
  rewrite andb_true_iff, IH.
  assert (step_scopeb h s = true ↔ step_scope h s) as Hs by (destruct s; simpl; split; done).
  by rewrite Hs.
Qed.

(** the invariant of host ids along whole histories *)
Definition HL (h : hist) : Prop := HInv h ∧ ∃ n0 l0 T, LInv n0 l0 (h_st h) (h_w h) T.

Lemma LStart_init : LStart (h_st hist_init) (h_w hist_init).
Proof.
  split; simpl; try done; try apply Inv_default; unfold local_bounded, local_inj; simpl;
    intros *; rewrite lookup_empty; done.
Qed.

Lemma HL_of_LStart h : HInv h → LStart (h_st h) (h_w h) → HL h.
Proof. intros HH HS. split; [done|]. destruct (LInv_start _ _ HS) as [HLi _]. eauto. Qed.

Lemma hist_step_HL h s :
  HL h → step_scope h s →
  HL (fst (hist_step h s)) ∧
  (is_recv s = false → LStart (h_st (fst (hist_step h s))) (h_w (fst (hist_step h s)))).
Proof.
  intros [HH (n0 & l0 & T & HLi)] Hs. pose proof (hist_step_HInv h s HH Hs) as HH'.
  destruct s as [ev|keep|]; simpl in *.
  - destruct (try_receive (h_st h) (h_w h) ev) as [[[o st'] w'] calls] eqn:E. simpl in *.
    split; [|done]. split; [done|]. exists n0, l0, (T ++ calls).
    by apply (step_LInv _ _ _ _ _ _ _ _ _ _ (hinv_st _ HH) Hs HLi E).
  - unfold persist, persist_metadata in *.
    pose proof (restore_spec (h_w h) (r_meta (h_st h) ∪ h_md h) (r_spans (h_st h))
                  (if keep then r_local (h_st h) else ∅)) as Hr.
    destruct (restore _ _ _ _) as [[st' w'] regs]. simpl in *.
    destruct Hr as (E1 & E2 & E3 & E4 & E5 & E6 & _).
    assert (LStart st' w') as HS.
    { split; [apply HH' | done | done | |]; unfold local_bounded, local_inj; rewrite E3, ?E6.
      - destruct keep; [apply (li_bound _ _ _ _ _ HLi) | intros *; by rewrite lookup_empty].
      - destruct keep; [apply (li_inj _ _ _ _ _ HLi) | intros *; by rewrite lookup_empty]. }
    split; [by apply (HL_of_LStart (mk_hist st' w' _ _)) | done].
  - pose proof (restore_spec (h_w h) (h_md h) (h_spans h) ∅) as Hr.
    destruct (restore _ _ _ _) as [[st' w'] regs]. simpl in *.
    destruct Hr as (E1 & E2 & E3 & E4 & E5 & E6 & _).
    assert (LStart st' w') as HS.
    { split; [apply HH' | done | done | |]; unfold local_bounded, local_inj; rewrite E3;
        intros *; by rewrite lookup_empty. }
    split; [by apply (HL_of_LStart (mk_hist st' w' _ _)) | done].
Qed.

Lemma hist_final_HL steps h : HL h → hist_scope h steps → HL (hist_final h steps).
Proof.
  revert h. induction steps as [|s r IH]; intros h HLh Hsc; [done|].
  destruct Hsc as [Hs Hsc]. rewrite hist_final_cons by (done || apply HLh).
  apply IH; [|done]. by apply hist_step_HL.
Qed.

Lemma HL_init : HL hist_init.
Proof. apply HL_of_LStart; [apply HInv_init | apply LStart_init]. Qed.

Lemma boundary_LStart pre :
  hist_scope hist_init pre → boundary pre →
  LStart (h_st (hist_final hist_init pre)) (h_w (hist_final hist_init pre)).
Proof.
  intros Hsc [->|(p & s & -> & Hs)]; [apply LStart_init|].
  destruct (hist_app hist_init p [s] HInv_init Hsc) as (A & B & C & _). rewrite C.
  pose proof (hist_final_HL p hist_init HL_init A) as HLp. destruct B as [B _].
  rewrite hist_final_cons by (done || apply HLp). simpl.
  by apply (hist_step_HL _ s HLp B).
Qed.

(** a lifetime run inside a history *)
Lemma lrun_hist evs h st w os T :
  HInv h → hist_scope h (map SRecv evs) → lrun (h_st h) (h_w h) evs = (st, w, os, T) →
  lscope (h_st h) (h_w h) evs ∧
  hist_final h (map SRecv evs) = mk_hist st w (h_md h) (h_spans h) ∧
  flat_map obs_calls (hist_run h (map SRecv evs)) = T ∧
  map commit_of (hist_run h (map SRecv evs)) = map (λ eo, CRecv (snd eo)) os.
Proof.
  revert h os T. induction evs as [|ev r IH]; intros h os T HH Hsc H.
  - simpl in *. simplify_eq. by destruct h.
  - rewrite lrun_cons in H. cbn [map] in *. destruct Hsc as [Hs Hsc].
    rewrite hist_final_cons, hist_run_cons by done.
    pose proof (hist_step_HInv h _ HH Hs) as HH'. simpl in Hs, Hsc, HH' |- *.
    destruct (try_receive (h_st h) (h_w h) ev) as [[[o st1] w1] c1] eqn:E. simpl in *.
    destruct (lrun st1 w1 r) as [[[st2 w2] os2] c2] eqn:E2. simplify_eq.
    destruct (IH (mk_hist st1 w1 (h_md h) (h_spans h)) _ _ HH' Hsc E2) as (A & B & C & D).
    simpl in *. split_and!; try done.
    + by rewrite C.
    + by rewrite D.
Qed.

(** the decomposition used by every history-level theorem *)
Lemma lifetime_start steps pre evs fin :
  hist_scope hist_init steps → is_lifetime steps pre evs fin →
  let h0 := hist_final hist_init pre in
  LStart (h_st h0) (h_w h0) ∧ lscope (h_st h0) (h_w h0) evs ∧
  ∀ st w os T, lrun (h_st h0) (h_w h0) evs = (st, w, os, T) →
    ∃ ofin rest,
      hist_run hist_init steps = hist_run hist_init pre ++ hist_run h0 (map SRecv evs) ++ ofin :: rest ∧
      flat_map obs_calls (hist_run h0 (map SRecv evs)) = T ∧
      map commit_of (hist_run h0 (map SRecv evs)) = map (λ eo, CRecv (snd eo)) os ∧
      obs_calls ofin = fin_calls st fin.
Proof.
  intros Hsc (Hb & Hf & post & ->) h0.
  destruct (hist_app hist_init pre _ HInv_init Hsc) as (A & B & C & D). fold h0 in B, C, D.
  pose proof (hist_final_HInv pre hist_init HInv_init A) as HH0. fold h0 in HH0.
  destruct (hist_app h0 (map SRecv evs) _ HH0 B) as (A1 & B1 & C1 & D1).
  split; [by apply boundary_LStart|].
  destruct (lrun (h_st h0) (h_w h0) evs) as [[[st w] os] T] eqn:E.
  destruct (lrun_hist _ _ _ _ _ _ HH0 A1 E) as (L1 & L2 & L3 & L4).
  split; [done|]. intros st' w' os' T' [= <- <- <- <-].
  rewrite D, D1. destruct B1 as [Bs B1].
  pose proof (hist_final_HInv _ _ HH0 A1) as HH1.
  rewrite hist_run_cons by done.
  eexists _, _. split_and!; [done | done | done |].
  rewrite L2. destruct fin as [ev|k|]; [done| |]; simpl.
  - unfold persist. destruct (restore _ _ _ _) as [[? ?] ?]. done.
  - destruct (restore _ _ _ _) as [[? ?] ?]. done.
Qed.

(** * History-level statements of A and B: for every lifetime of every history in scope *)
Section history.
  Context (steps pre : list hstep) (evs : list event) (fin : hstep).
  Context (Hsc : hist_scope hist_init steps) (Hlt : is_lifetime steps pre evs fin).
  Let h0 := hist_final hist_init pre.
  Context (st : rstate) (w : world) (os : list (event * outcome)) (T : list hcall).
  Context (Hrun : lrun (h_st h0) (h_w h0) evs = (st, w, os, T)).

  Let HS : LStart (h_st h0) (h_w h0) := proj1 (lifetime_start _ _ _ _ Hsc Hlt).
  Let HLs : lscope (h_st h0) (h_w h0) evs := proj1 (proj2 (lifetime_start _ _ _ _ Hsc Hlt)).
  Let Hfin : is_recv fin = false := proj1 (proj2 Hlt).

  Theorem entered_is_fold :
    ∀ id, r_entered st !! id = nz (ref_entered (r_spans (h_st h0)) (accepted os) id 0).
  Proof. exact (entered_is_fold_lifetime _ _ _ _ _ _ _ (ls_inv _ _ HS) (ls_ent _ _ HS) HLs Hrun). Qed.

  Theorem uncommitted_is_born_alive :
    (∀ id, id ∈ r_uncommitted st ↔ born_in (accepted os) id = true ∧ is_Some (r_spans st !! id)) ∧
    (∀ id, id ∈ r_uncommitted st →
           ∃ h, r_local st !! id = Some h ∧ (w_next (h_w h0) < h)%N ∧ ∃ md p vs, HNewSpan h md p vs ∈ T).
  Proof. exact (uncommitted_is_born_alive_lifetime _ _ _ _ _ _ _ HS HLs Hrun). Qed.

  Theorem alive_is_spec_fold : r_spans st = fold_left spec_step (accepted os) (r_spans (h_st h0)).
  Proof. exact (lrun_spans _ _ _ _ _ _ _ Hrun). Qed.

  Theorem persist_exits :
    let F := snd (persist st) in
    forallb is_exit_call F = true ∧
    (∀ id h, r_local st !! id = Some h →
       n_exits h F = ref_entered (r_spans (h_st h0)) (accepted os) id 0) ∧
    (∀ x, x ∈ ee_ids F → ∃ id, r_local st !! id = Some x ∧
                               ref_entered (r_spans (h_st h0)) (accepted os) id 0 ≠ 0%N).
  Proof. exact (persist_exits_lifetime _ _ _ _ _ _ _ HS HLs Hrun). Qed.

  Theorem drop_exits_then_closes :
    ∃ C, drop_calls st = snd (persist st) ++ C ∧
         forallb is_close_call C = true ∧ NoDup (close_ids C) ∧
         (∀ x, x ∈ close_ids C ↔
               ∃ id, born_in (accepted os) id = true ∧ is_Some (r_spans st !! id) ∧ r_local st !! id = Some x) ∧
         (∀ x, x ∈ close_ids C → (w_next (h_w h0) < x)%N ∧ ∃ md p vs, HNewSpan x md p vs ∈ T).
  Proof. exact (drop_exits_then_closes_lifetime _ _ _ _ _ _ _ HS HLs Hrun). Qed.

  Theorem balance_zero_alive :
    ∀ id h, r_local st !! id = Some h → bal (T ++ fin_calls st fin) h = 0%N.
  Proof. exact (balance_zero_alive_lifetime _ _ _ _ _ _ _ _ HS HLs Hrun Hfin). Qed.

  Theorem balance_zero :
    wf_drop (h_st h0) (h_w h0) evs = true → ∀ h, bal (T ++ fin_calls st fin) h = 0%N.
  Proof. exact (balance_zero_wf_lifetime _ _ _ _ _ _ _ _ HS HLs Hrun Hfin). Qed.

  Theorem stack_restored stk :
    wf_drop (h_st h0) (h_w h0) evs = true →
    (∀ id h, r_local (h_st h0) !! id = Some h → h ∉ stk) → (∀ h, h ∈ stk → (h <= w_next (h_w h0))%N) →
    stack_apply stk (T ++ fin_calls st fin) = stk ∧
    current (stack_apply stk (T ++ fin_calls st fin)) = current stk.
  Proof. exact (stack_restored_lifetime' _ _ _ _ _ _ _ _ stk HS HLs Hrun Hfin). Qed.

  Theorem stack_restored_ids stk :
    wf_drop (h_st h0) (h_w h0) evs = true →
    (∀ h, h ∈ ee_ids (T ++ fin_calls st fin) → h ∉ stk) →
    stack_apply stk (T ++ fin_calls st fin) = stk.
  Proof. exact (stack_restored_lifetime _ _ _ _ _ _ _ _ stk HS HLs Hrun Hfin). Qed.

  Theorem fstack_restored (stk : fstack) :
    wf_drop (h_st h0) (h_w h0) evs = true → flags_ok stk →
    (∀ id h, r_local (h_st h0) !! id = Some h → h ∉ map fst stk) →
    (∀ h, h ∈ map fst stk → (h <= w_next (h_w h0))%N) →
    fstack_apply stk (T ++ fin_calls st fin) = stk ∧
    fcurrent (fstack_apply stk (T ++ fin_calls st fin)) = fcurrent stk.
  Proof. exact (fstack_restored_lifetime _ _ _ _ _ _ _ _ stk HS HLs Hrun Hfin). Qed.

  (** [T] and the finalisation batch are what the history makes observable *)
  Theorem lifetime_observed :
    ∃ ofin rest,
      hist_run hist_init steps = hist_run hist_init pre ++ hist_run h0 (map SRecv evs) ++ ofin :: rest ∧
      flat_map obs_calls (hist_run h0 (map SRecv evs)) = T ∧
      map commit_of (hist_run h0 (map SRecv evs)) = map (λ eo, CRecv (snd eo)) os ∧
      obs_calls ofin = fin_calls st fin.
  Proof. exact (proj2 (proj2 (lifetime_start _ _ _ _ Hsc Hlt)) _ _ _ _ Hrun). Qed.
End history.

(** * The host's span context over a whole history of lifetimes

    The side conditions of [stack_restored] propagate from one lifetime to the next: the host
    spans a receiver is given by [new] come from the previous lifetime, whose finalisation left
    none of them entered. *)
Lemma stack_apply_app s a b : stack_apply s (a ++ b) = stack_apply (stack_apply s a) b.
Proof. unfold stack_apply. apply fold_left_app. Qed.

Lemma fin_step_local h fin :
  is_recv fin = false →
  let h' := fst (hist_step h fin) in
  (∀ id x, r_local (h_st h') !! id = Some x → r_local (h_st h) !! id = Some x) ∧
  w_next (h_w h') = w_next (h_w h) ∧
  obs_calls (snd (hist_step h fin)) = fin_calls (h_st h) fin.
Proof.
  destruct fin as [ev|k|]; [done| |]; intros _; simpl.
  - unfold persist, persist_metadata.
    pose proof (restore_spec (h_w h) (r_meta (h_st h) ∪ h_md h) (r_spans (h_st h))
                  (if k then r_local (h_st h) else ∅)) as R.
    destruct (restore _ _ _ _) as [[st' w'] regs]. simpl. destruct R as (_ & _ & E3 & _ & _ & E6 & _).
    split_and!; [|done|done]. intros id x. rewrite E3. destruct k; [done | by rewrite lookup_empty].
  - pose proof (restore_spec (h_w h) (h_md h) (h_spans h) ∅) as R.
    destruct (restore _ _ _ _) as [[st' w'] regs]. simpl. destruct R as (_ & _ & E3 & _ & _ & E6 & _).
    split_and!; [|done|done]. intros id x. rewrite E3. by rewrite lookup_empty.
Qed.

Theorem host_context_restored_from ls : ∀ h0 stk,
  HL h0 → LStart (h_st h0) (h_w h0) →
  (∀ id h, r_local (h_st h0) !! id = Some h → h ∉ stk) → (∀ h, h ∈ stk → (h <= w_next (h_w h0))%N) →
  Forall (λ l : life, is_recv (snd l) = false) ls →
  hist_scope h0 (lives_steps ls) → wf_drop_lives h0 ls = true →
  stack_apply stk (all_calls (hist_run h0 (lives_steps ls))) = stk.
Proof.
  induction ls as [|[evs fin] ls IH]; intros h0 stk HLh HS Hloc Hold Hfin Hsc Hwf; [done|].
  apply Forall_cons in Hfin as [Hf Hfin]. simpl in Hf.
  cbn [lives_steps flat_map wf_drop_lives] in *. fold (lives_steps ls) in *.
  apply andb_true_iff in Hwf as [Hwf1 Hwf]. cbn [fst] in Hwf1.
  destruct HLh as [HH0 HLi0]. pose proof (conj HH0 HLi0 : HL h0) as HLh.
  destruct (hist_app h0 _ _ HH0 Hsc) as (A & B & _ & D). rewrite D.
  unfold life_steps in A |- *. cbn [fst snd] in A |- *.
  destruct (hist_app h0 _ _ HH0 A) as (A1 & [B1 _] & C1 & D1).
  destruct (lrun (h_st h0) (h_w h0) evs) as [[[st w] os] T] eqn:E.
  destruct (lrun_hist _ _ _ _ _ _ HH0 A1 E) as (L1 & L2 & L3 & _).
  pose proof (hist_final_HL _ _ HLh A1) as HL1.
  set (h1 := hist_final h0 (map SRecv evs)) in *.
  destruct (fin_step_local h1 fin Hf) as (P1 & P2 & P3).
  destruct (hist_step_HL h1 fin HL1 B1) as [HL2 HS2]. specialize (HS2 Hf).
  assert (hist_final h0 (map SRecv evs ++ [fin]) = fst (hist_step h1 fin)) as Ef.
  { rewrite C1. fold h1. rewrite hist_final_cons by (done || apply HL1). done. }
  unfold life_steps in B, Hwf. cbn [fst snd] in B, Hwf. rewrite Ef in B, Hwf |- *.
  destruct (lifetime_LInv _ _ _ _ _ _ _ HS L1 E) as [HLi _].
  assert (all_calls (hist_run h0 (map SRecv evs ++ [fin])) = T ++ fin_calls st fin) as Ec.
  { rewrite D1. fold h1. unfold all_calls. rewrite flat_map_app, L3.
    rewrite hist_run_cons by (done || apply HL1). simpl. rewrite app_nil_r, P3. subst h1. by rewrite L2. }
  unfold all_calls in *. rewrite flat_map_app, Ec, stack_apply_app.
  assert (stack_apply stk (T ++ fin_calls st fin) = stk) as ->
    by (apply (proj1 (stack_restored_lifetime' _ _ evs st w os T fin stk HS L1 E Hf Hwf1 Hloc Hold))).
  assert (r_local (h_st h1) = r_local st ∧ w_next (h_w h1) = w_next w) as [El Ew]
    by (subst h1; by rewrite L2).
  apply IH; try done.
  - intros id x Hx. apply P1 in Hx. rewrite El in Hx.
    destruct (li_origin _ _ _ _ _ HLi _ _ Hx) as [Hlt|[id0 Hl0]].
    + intros Hin. apply Hold in Hin. lia.
    + by eapply Hloc.
  - intros x Hx. rewrite P2, Ew. apply Hold in Hx. pose proof (li_mono _ _ _ _ _ HLi). lia.
Qed.

(** From the very beginning: whatever the host thread had entered before the receiver processed
    anything (ids the host issued earlier: in the model the counter starts at 0) is what it has
    entered after every finalisation. *)
Theorem host_context_restored ls stk :
  Forall (λ l : life, is_recv (snd l) = false) ls →
  hist_scope hist_init (lives_steps ls) → wf_drop_lives hist_init ls = true →
  (∀ h, h ∈ stk → (h <= w_next (h_w hist_init))%N) →
  stack_apply stk (all_calls (hist_run hist_init (lives_steps ls))) = stk ∧
  current (stack_apply stk (all_calls (hist_run hist_init (lives_steps ls)))) = current stk.
Proof.
  intros Hf Hsc Hwf Hold.
  assert (stack_apply stk (all_calls (hist_run hist_init (lives_steps ls))) = stk) as E; [|by rewrite E].
  apply host_context_restored_from; try done; try apply HL_init; try apply LStart_init.
Qed.

(** * C: rollback and retry *)

Lemma alive_in_some sp id d : sp !! id = Some d → alive_in sp id = true.
Proof. intros H. apply bool_decide_eq_true. eauto. Qed.
Lemma alive_in_none sp id : sp !! id = None → alive_in sp id = false.
Proof. intros H. apply bool_decide_eq_false. rewrite H. by intros [? ?]. Qed.
Lemma known_in_some md m d : md !! m = Some d → known_in md m = true.
Proof. intros H. apply bool_decide_eq_true. eauto. Qed.
Lemma known_in_none md m : md !! m = None → known_in md m = false.
Proof. intros H. apply bool_decide_eq_false. rewrite H. by intros [? ?]. Qed.

Lemma msi_check st id k :
  Inv st →
  match map_span_id st id with
  | inl e => check_span (r_spans st) id k = Rejected e
  | inr _ => check_span (r_spans st) id k = k
  end.
Proof.
  intros HI. unfold check_span. destruct (map_span_id st id) as [e|lid] eqn:E.
  - apply (msi_inl _ _ _ HI) in E as [Ha ->]. unfold alive in Ha. unfold alive_in. by rewrite Ha.
  - apply (msi_inr _ _ _ HI) in E. unfold alive in E. unfold alive_in. by rewrite E.
Qed.

(** the outcome of an event is a function of the metadata and the alive spans *)
Theorem try_receive_outcome st w ev o st' w' calls :
  Inv st → no_reannounce st ev = true → try_receive st w ev = (o, st', w', calls) →
  o = ref_outcome (r_meta st) (r_spans st) ev.
Proof.
  intros HI Hre H. destruct ev as [id d|id p m vs|a b|id|id|id|id|id vs|m p vs]; simpl in *.
  - unfold on_new_call_site in H. by simplify_eq.
  - apply negb_true_iff, alive_false in Hre. pose proof (local_none_of_dead _ _ HI Hre) as Hl.
    rewrite Hl in H. unfold too_many, check_len in *.
    destruct (MAX_VALUES <? len vs)%N; [unfold reject in H; by simplify_eq|].
    unfold create_local_span, check_meta in *. cbn [sd_meta sd_parent] in H.
    destruct (r_meta st !! m) as [md|] eqn:Em;
      [rewrite (known_in_some _ _ _ Em) | rewrite (known_in_none _ _ Em); unfold reject in H; by simplify_eq].
    destruct p as [q|]; simpl in *; [|by simplify_eq].
    pose proof (msi_check st q Accepted HI) as Hq.
    destruct (map_span_id st q) as [e|lq]; unfold reject in H; simplify_eq; by rewrite Hq.
  - pose proof (msi_check st a (check_span (r_spans st) b Accepted) HI) as Ha.
    pose proof (msi_check st b Accepted HI) as Hb.
    destruct (map_span_id st a) as [e|la]; [unfold reject in H; simplify_eq; by rewrite Ha|].
    rewrite Ha. destruct (map_span_id st b) as [e|lb]; unfold reject in H; simplify_eq; by rewrite Hb.
  - pose proof (msi_check st id Accepted HI) as Ha. pose proof (map_span_id_spec st id) as Hs.
    destruct (map_span_id st id) as [e|[h|]]; [unfold reject in H; simplify_eq; by rewrite Ha | simplify_eq; by rewrite Ha|].
    destruct Hs as [_ [d Hd]]. rewrite Hd in H.
    destruct (cls_lazy_ok st w id d HI Hd) as [[[h w1] cs] Hc]. rewrite Hc in H. simplify_eq. by rewrite Ha.
  - pose proof (msi_check st id Accepted HI) as Ha.
    destruct (map_span_id st id) as [e|lid]; unfold reject in H; simplify_eq; by rewrite Ha.
  - unfold check_span. destruct (r_spans st !! id) as [d|] eqn:Es; unfold reject in H.
    + rewrite (alive_in_some _ _ _ Es). by simplify_eq.
    + rewrite (alive_in_none _ _ Es). by simplify_eq.
  - unfold check_span. destruct (r_spans st !! id) as [d|] eqn:Es; unfold reject in H.
    + rewrite (alive_in_some _ _ _ Es). pose proof (inv_refs _ HI _ _ Es) as Hr.
      destruct (N.eqb_spec (sd_refs d) 0); [lia|]. destruct (sd_refs d - 1 =? 0)%N; by simplify_eq.
    + rewrite (alive_in_none _ _ Es). by simplify_eq.
  - unfold too_many, check_len in *.
    destruct (MAX_VALUES <? len vs)%N; [unfold reject in H; by simplify_eq|].
    pose proof (msi_check st id Accepted HI) as Ha.
    destruct (map_span_id st id) as [e|lid] eqn:Em; [unfold reject in H; simplify_eq; by rewrite Ha|].
    rewrite Ha. pose proof (msi_inr _ _ _ HI Em) as Hal. apply alive_true in Hal as [d Hd]. rewrite Hd in H.
    destruct (inv_meta _ HI _ _ Hd) as [md Hmd]. rewrite Hmd in H. destruct lid; by simplify_eq.
  - unfold too_many, check_len in *.
    destruct (MAX_VALUES <? len vs)%N; [unfold reject in H; by simplify_eq|].
    unfold check_meta.
    destruct (r_meta st !! m) as [md|] eqn:Em;
      [rewrite (known_in_some _ _ _ Em) | rewrite (known_in_none _ _ Em); unfold reject in H; by simplify_eq].
    destruct p as [q|]; simpl in *; [|by simplify_eq].
    pose proof (msi_check st q Accepted HI) as Hq.
    destruct (map_span_id st q) as [e|lq]; unfold reject in H; simplify_eq; by rewrite Hq.
Qed.

Lemma step_spans_any st w ev o st' w' calls :
  try_receive st w ev = (o, st', w', calls) →
  r_spans st' = if is_accepted o then spec_step (r_spans st) ev else r_spans st.
Proof.
  intros H. destruct o; simpl.
  - by eapply step_spans.
  - by apply not_accepted_no_effect in H as (-> & _ & _).
  - by apply not_accepted_no_effect in H as (-> & _ & _).
Qed.

(** ** C (i): outcome and committed state depend only on the committed state *)
Theorem outcome_depends_on_committed st1 w1 st2 w2 ev o1 st1' w1' c1 o2 st2' w2' c2 :
  Inv st1 → Inv st2 → r_meta st1 = r_meta st2 → r_spans st1 = r_spans st2 →
  no_reannounce st1 ev = true →
  try_receive st1 w1 ev = (o1, st1', w1', c1) → try_receive st2 w2 ev = (o2, st2', w2', c2) →
  o1 = o2 ∧ r_meta st1' = r_meta st2' ∧ r_spans st1' = r_spans st2'.
Proof.
  intros HI1 HI2 Em Es Hre H1 H2.
  assert (no_reannounce st2 ev = true) as Hre2.
  { destruct ev; try done. simpl in *. unfold alive in *. by rewrite <- Es. }
  pose proof (try_receive_outcome _ _ _ _ _ _ _ HI1 Hre H1) as E1.
  pose proof (try_receive_outcome _ _ _ _ _ _ _ HI2 Hre2 H2) as E2.
  rewrite <- Em, <- Es in E2. split_and!; [congruence | |].
  - rewrite (try_receive_meta _ _ _ _ _ _ _ H1), (try_receive_meta _ _ _ _ _ _ _ H2). by rewrite Em.
  - rewrite (step_spans_any _ _ _ _ _ _ _ H1), (step_spans_any _ _ _ _ _ _ _ H2), Es. by subst.
Qed.

(** ** simulation of two histories with the same committed data *)
Lemma sim_step h1 h2 s :
  HInv h1 → HInv h2 → same_committed h1 h2 → step_scope h1 s →
  same_committed (fst (hist_step h1 s)) (fst (hist_step h2 s)) ∧
  commit_of (snd (hist_step h1 s)) = commit_of (snd (hist_step h2 s)) ∧
  step_scope h2 s.
Proof.
  intros HH1 HH2 (Em & Es & Emd & Esp) Hs. destruct s as [ev|k|]; simpl in *.
  - destruct (try_receive (h_st h1) (h_w h1) ev) as [[[o1 st1] w1] c1] eqn:E1.
    destruct (try_receive (h_st h2) (h_w h2) ev) as [[[o2 st2] w2] c2] eqn:E2. simpl.
    destruct (outcome_depends_on_committed _ _ _ _ _ _ _ _ _ _ _ _ _ (hinv_st _ HH1) (hinv_st _ HH2) Em Es Hs E1 E2)
      as (-> & Em' & Es').
    split_and!; try done. destruct ev; try done. simpl in *. unfold alive in *. by rewrite <- Es.
  - unfold persist, persist_metadata.
    pose proof (restore_spec (h_w h1) (r_meta (h_st h1) ∪ h_md h1) (r_spans (h_st h1))
                  (if k then r_local (h_st h1) else ∅)) as R1.
    pose proof (restore_spec (h_w h2) (r_meta (h_st h2) ∪ h_md h2) (r_spans (h_st h2))
                  (if k then r_local (h_st h2) else ∅)) as R2.
    destruct (restore (h_w h1) _ _ _) as [[st1 w1] r1]. destruct (restore (h_w h2) _ _ _) as [[st2 w2] r2].
    simpl. destruct R1 as (A1 & B1 & _). destruct R2 as (A2 & B2 & _).
    unfold same_committed. simpl. rewrite A1, A2, B1, B2, Em, Es, Emd. done.
  - pose proof (restore_spec (h_w h1) (h_md h1) (h_spans h1) ∅) as R1.
    pose proof (restore_spec (h_w h2) (h_md h2) (h_spans h2) ∅) as R2.
    destruct (restore (h_w h1) _ _ _) as [[st1 w1] r1]. destruct (restore (h_w h2) _ _ _) as [[st2 w2] r2].
    simpl. destruct R1 as (A1 & B1 & _). destruct R2 as (A2 & B2 & _).
    unfold same_committed. simpl. rewrite A1, A2, B1, B2, Emd, Esp. done.
Qed.

Lemma sim_run steps h1 h2 :
  HInv h1 → HInv h2 → same_committed h1 h2 → hist_scope h1 steps →
  hist_scope h2 steps ∧
  map commit_of (hist_run h1 steps) = map commit_of (hist_run h2 steps) ∧
  same_committed (hist_final h1 steps) (hist_final h2 steps).
Proof.
  revert h1 h2. induction steps as [|s r IH]; intros h1 h2 HH1 HH2 HR Hsc; [done|].
  destruct Hsc as [Hs Hsc]. destruct (sim_step _ _ s HH1 HH2 HR Hs) as (HR' & Hc & Hs2).
  pose proof (hist_step_HInv _ _ HH1 Hs) as HH1'. pose proof (hist_step_HInv _ _ HH2 Hs2) as HH2'.
  destruct (IH _ _ HH1' HH2' HR' Hsc) as (A & B & C).
  rewrite !hist_final_cons, !hist_run_cons by done. cbn [map hist_scope]. rewrite Hc, B. done.
Qed.

(** what is saved by a persist is the committed state of the receiver it creates *)
Lemma persist_committed h k :
  let h' := fst (hist_step h (SPersist k)) in
  r_meta (h_st h') = h_md h' ∧ r_spans (h_st h') = h_spans h' ∧
  h_md h' = r_meta (h_st h) ∪ h_md h ∧ h_spans h' = r_spans (h_st h).
Proof.
  simpl. unfold persist, persist_metadata.
  pose proof (restore_spec (h_w h) (r_meta (h_st h) ∪ h_md h) (r_spans (h_st h))
                (if k then r_local (h_st h) else ∅)) as R.
  destruct (restore _ _ _ _) as [[st' w'] regs]. simpl. destruct R as (A & B & _). done.
Qed.

(** steps other than persist do not touch the saved state *)
Lemma saved_unchanged seg h :
  HInv h → hist_scope h seg → forallb (λ s, negb (is_persist s)) seg = true →
  h_md (hist_final h seg) = h_md h ∧ h_spans (hist_final h seg) = h_spans h.
Proof.
  revert h. induction seg as [|s r IH]; intros h HH Hsc Hnp; [done|].
  destruct Hsc as [Hs Hsc]. simpl in Hnp. apply andb_true_iff in Hnp as [Hn Hnp].
  rewrite hist_final_cons by done. pose proof (hist_step_HInv _ _ HH Hs) as HH'.
  destruct (IH _ HH' Hsc Hnp) as [-> ->]. destruct s as [ev|k|]; [|done|]; simpl.
  - by destruct (try_receive _ _ _) as [[[? ?] ?] ?].
  - by destruct (restore _ _ _ _) as [[? ?] ?].
Qed.

Lemma drop_committed h :
  let h' := fst (hist_step h SDrop) in
  r_meta (h_st h') = h_md h ∧ r_spans (h_st h') = h_spans h ∧ h_md h' = h_md h ∧ h_spans h' = h_spans h.
Proof.
  simpl. pose proof (restore_spec (h_w h) (h_md h) (h_spans h) ∅) as R.
  destruct (restore _ _ _ _) as [[st' w'] regs]. simpl. destruct R as (A & B & _). done.
Qed.

Lemma hist_scope_app_intro a b h :
  HInv h → hist_scope h a → hist_scope (hist_final h a) b → hist_scope h (a ++ b).
Proof.
  revert h. induction a as [|s r IH]; intros h HH Ha Hb; [done|].
  destruct Ha as [Hs Ha]. rewrite hist_final_cons in Hb by done. split; [done|].
  apply IH; [by apply hist_step_HInv | done | done].
Qed.

(** ** C (ii): a discarded segment leaves no trace in acceptance results and committed state *)
Theorem retry_equivalent pre k k' seg rest :
  forallb (λ s, negb (is_persist s)) seg = true →
  hist_scope hist_init (pre ++ [SPersist k] ++ seg ++ [SDrop] ++ rest) →
  let A1 := pre ++ [SPersist k] ++ seg ++ [SDrop] in
  let A2 := pre ++ [SPersist k'] in
  let h1 := hist_final hist_init A1 in
  let h2 := hist_final hist_init A2 in
  hist_scope hist_init (A2 ++ rest) ∧
  hist_run hist_init (A1 ++ rest) = hist_run hist_init A1 ++ hist_run h1 rest ∧
  hist_run hist_init (A2 ++ rest) = hist_run hist_init A2 ++ hist_run h2 rest ∧
  map commit_of (hist_run h1 rest) = map commit_of (hist_run h2 rest) ∧
  same_committed (hist_final hist_init (A1 ++ rest)) (hist_final hist_init (A2 ++ rest)).
Proof.
  intros Hnp Hsc A1 A2 h1 h2.
  assert (pre ++ [SPersist k] ++ seg ++ [SDrop] ++ rest = A1 ++ rest) as EA
    by (subst A1; by rewrite <- !app_assoc).
  rewrite EA in Hsc.
  destruct (hist_app hist_init A1 rest HInv_init Hsc) as (S1 & S1r & F1 & R1). fold h1 in S1r, F1, R1.
  (* the common prefix *)
  subst A1 A2. 
  destruct (hist_app hist_init pre _ HInv_init S1) as (Sp & Sp1 & Fp & _).
  set (hp := hist_final hist_init pre) in *.
  pose proof (hist_final_HInv _ _ HInv_init Sp) as HHp. fold hp in HHp.
  destruct Sp1 as [_ Sp1]. 
  set (hk := fst (hist_step hp (SPersist k))) in *.
  set (hk' := fst (hist_step hp (SPersist k'))).
  assert (HInv hk) as HHk by (by apply hist_step_HInv).
  assert (HInv hk') as HHk' by (by apply hist_step_HInv).
  destruct (persist_committed hp k) as (K1 & K2 & K3 & K4). fold hk in K1, K2, K3, K4.
  destruct (persist_committed hp k') as (K1' & K2' & K3' & K4'). fold hk' in K1', K2', K3', K4'.
  (* the discarded segment *)
  destruct (hist_app hk seg [SDrop] HHk Sp1) as (Ss & [Sd _] & Fs & _).
  pose proof (hist_final_HInv _ _ HHk Ss) as HHs.
  destruct (saved_unchanged seg hk HHk Ss Hnp) as [M1 M2].
  destruct (drop_committed (hist_final hk seg)) as (D1 & D2 & D3 & D4).
  assert (h1 = fst (hist_step (hist_final hk seg) SDrop)) as Eh1.
  { subst h1. rewrite Fp. change ([SPersist k] ++ seg ++ [SDrop]) with (SPersist k :: seg ++ [SDrop]).
    rewrite hist_final_cons by done. fold hk. rewrite Fs.
    by rewrite hist_final_cons. }
  assert (hist_scope hist_init (pre ++ [SPersist k'])) as S2
    by (apply hist_scope_app_intro; [apply HInv_init | done | done]).
  assert (h2 = hk') as Eh2.
  { subst h2. destruct (hist_app hist_init pre [SPersist k'] HInv_init S2) as (_ & _ & -> & _).
    fold hp. by rewrite hist_final_cons. }
  assert (same_committed h1 h2) as HR.
  { rewrite Eh1, Eh2. unfold same_committed. rewrite D1, D2, D3, D4, M1, M2, K1', K2', K3, K3', K4, K4'. done. }
  assert (HInv h1) as HH1 by (rewrite Eh1; by apply hist_step_HInv).
  assert (HInv h2) as HH2 by (by rewrite Eh2).
  destruct (sim_run rest h1 h2 HH1 HH2 HR S1r) as (S2r & Hc & HRf).
  assert (hist_scope hist_init ((pre ++ [SPersist k']) ++ rest)) as S2full
    by (apply hist_scope_app_intro; [apply HInv_init | done | done]).
  destruct (hist_app hist_init _ rest HInv_init S2full) as (_ & _ & F2 & R2). fold h2 in F2, R2.
  split_and!; try done. by rewrite F1, F2.
Qed.
