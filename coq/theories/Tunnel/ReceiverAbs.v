(** The abstract receiver: what the guest's event history alone determines (known call sites and
    alive spans with call site, explicit parent, handle count and accumulated values).  It knows
    nothing of host ids, local span maps, lifetimes or the host.  Definitions only. *)
From stdpp Require Import gmap.
From TT Require Export Tunnel.ReceiverSpec.

Record astate := mk_a { a_meta : gmap N cs_data; a_spans : gmap N span_data }.
Definition abs (st : rstate) : astate := mk_a (r_meta st) (r_spans st).
Definition a_init : astate := mk_a ∅ ∅.

Definition a_alive (a : astate) (id : N) : bool := bool_decide (is_Some (a_spans a !! id)).
Definition a_known (a : astate) (m : N) : bool := bool_decide (is_Some (a_meta a !! m)).

Definition check_parent (a : astate) (p : option N) : outcome :=
  match p with
  | Some q => if a_alive a q then Accepted else Rejected (UnknownSpan q)
  | None => Accepted
  end.
Definition check_span (a : astate) (id : N) : outcome :=
  if a_alive a id then Accepted else Rejected (UnknownSpan id).

(** the outcome: the first failing check, in the order value count, call site, spans *)
Definition ref_outcome (a : astate) (ev : event) : outcome :=
  match ev with
  | ENewCallSite _ _ => Accepted
  | ENewSpan _ p m vs | ENewEvent m p vs =>
      if negb (fits vs) then Rejected (TooMany (len vs))
      else if negb (a_known a m) then Rejected (UnknownMeta m)
      else check_parent a p
  | EFollowsFrom x y =>
      if negb (a_alive a x) then Rejected (UnknownSpan x) else check_span a y
  | ESpanEntered id | ESpanExited id | ESpanCloned id | ESpanDropped id => check_span a id
  | EValuesRecorded id vs =>
      if negb (fits vs) then Rejected (TooMany (len vs)) else check_span a id
  end.

Definition astep (a : astate) (ev : event) : outcome * astate :=
  let o := ref_outcome a ev in
  (o, match o with
      | Accepted =>
          mk_a (match ev with ENewCallSite id d => <[id := d]> (a_meta a) | _ => a_meta a end)
               (spec_step (a_spans a) ev)
      | _ => a
      end).

(** plain event streams *)
Fixpoint arun (a : astate) (evs : list event) : list outcome * astate :=
  match evs with
  | [] => ([], a)
  | ev :: r => let '(o, a') := astep a ev in let '(os, a'') := arun a' r in (o :: os, a'')
  end.

(** histories: a persist commits the current state, a drop rolls back to the committed one;
    the [keep] flag, host and local spans do not exist at this level *)
Record ahist := mk_ah { ah_cur : astate; ah_saved : astate }.
Definition ah_init : ahist := mk_ah a_init a_init.

Definition ahist_step (h : ahist) (s : hstep) : ahist * option outcome :=
  match s with
  | SRecv ev => let '(o, a') := astep (ah_cur h) ev in (mk_ah a' (ah_saved h), Some o)
  | SPersist _ =>
      let a := mk_a (a_meta (ah_cur h) ∪ a_meta (ah_saved h)) (a_spans (ah_cur h)) in
      (mk_ah a a, None)
  | SDrop => (mk_ah (ah_saved h) (ah_saved h), None)
  end.

Fixpoint ahist_run (h : ahist) (steps : list hstep) : list (option outcome) * ahist :=
  match steps with
  | [] => ([], h)
  | s :: r => let '(h', o) := ahist_step h s in
              let '(os, h'') := ahist_run h' r in (o :: os, h'')
  end.

(** projection of a concrete run *)
Definition outcome_of (m : mobs) : option outcome :=
  match m with MRecv o _ _ => Some o | _ => None end.
Definition absh (h : hist) : ahist := mk_ah (abs (h_st h)) (mk_a (h_md h) (h_spans h)).

Definition events_of (steps : list hstep) : list event :=
  flat_map (fun s => match s with SRecv ev => [ev] | _ => [] end) steps.
Definition no_drop (steps : list hstep) : bool :=
  forallb (fun s => match s with SDrop => false | _ => true end) steps.
