(** [TracingEventReceiver::new] in any iteration order of the persisted metadata, and whole
    histories in which every restore and every finalisation batch uses an order chosen by an oracle
    (definitions: [ReceiverRestoreOrder.v]).

    - [restore_in_order_spec]: restoring in any order of the entries yields the same receiver, an
      equivalent world (same id counter, same set of interned call sites) and a permutation of the
      same registrations;
    - [try_receive_arena_equiv]: the receiver cannot tell equivalent worlds apart;
    - [hist_run_ord_reorder]: for every oracle that returns permutations, the run in the oracle's
      orders is step-wise [obs_reorder]-related to the model's run;
    - C04 / C08 for every choice of iteration orders, with no reference to [obs_reorder]. *)
From Coq Require Import Sorting.Permutation.
From TT Require Import Tunnel.TypesProofs Tunnel.ReceiverSpec Tunnel.ReceiverInv Tunnel.ReceiverHistInv
  Tunnel.ReceiverFinalize Tunnel.ReceiverFinalizeProofs Tunnel.ReceiverTrack Tunnel.ReceiverOrder
  Tunnel.ReceiverOrderProofs Tunnel.ReceiverRestoreOrder.
From stdpp Require Import gmap.
Arguments firstn : simpl never.
Arguments skipn : simpl never.
Arguments chunks : simpl never.
Arguments extend : simpl never.
Arguments host_vals : simpl never.

(** * the arena is only looked at through the membership test *)
Lemma arena_mem d a : existsb (cs_data_eqb d) a = true ↔ In d a.
Proof.
  rewrite existsb_exists. split.
  - intros (x & Hx & E). apply cs_data_eqb_spec in E. by subst.
  - intros H. exists d. split; [done|]. by apply cs_data_eqb_spec.
Qed.

Lemma arena_mem_equiv w1 w2 d :
  arena_equiv w1 w2 →
  existsb (cs_data_eqb d) (w_arena w1) = existsb (cs_data_eqb d) (w_arena w2).
Proof. intros [_ H]. apply Bool.eq_true_iff_eq. rewrite !arena_mem. apply H. Qed.

Lemma arena_equiv_refl w : arena_equiv w w.
Proof. split; [done | tauto]. Qed.
Lemma arena_equiv_sym w1 w2 : arena_equiv w1 w2 → arena_equiv w2 w1.
Proof. intros [H1 H2]. split; [done|]. intros d. by rewrite H2. Qed.
Lemma arena_equiv_trans w1 w2 w3 : arena_equiv w1 w2 → arena_equiv w2 w3 → arena_equiv w1 w3.
Proof. intros [H1 H2] [H3 H4]. split; [congruence|]. intros d. by rewrite H2, H4. Qed.

(** * (a) the restore fold over any list *)

(** The registrations of a fold over [l] from arena [a]: one [HRegister d] for every distinct [d]
    occurring in [l] that is not in [a]; these [d] are what is appended to the arena. *)
Lemma restore_fold_regs l st0 w0 c0 :
  let '(st, w, calls) := fold_left restore_step l (st0, w0, c0) in
  ∃ ds, w_arena w = w_arena w0 ++ ds ∧ calls = c0 ++ map HRegister ds ∧ NoDup ds ∧
        (∀ d, In d ds ↔ In d (map snd l) ∧ ¬ In d (w_arena w0)) ∧ w_next w = w_next w0.
Proof.
  revert st0 w0 c0. induction l as [|[id d] l IH]; intros st0 w0 c0.
  - cbn [fold_left]. exists []. rewrite !app_nil_r. split_and!; try done; [constructor|].
    intros d. cbn. tauto.
  - cbn [fold_left]. unfold restore_step at 2. unfold on_new_call_site. cbn [fst snd].
    set (st1 := mk_rs (<[id:=d]> (r_meta st0)) (r_spans st0) (r_local st0) (r_uncommitted st0)
                  (r_entered st0)).
    destruct (existsb (cs_data_eqb d) (w_arena w0)) eqn:Ex; cbn [negb].
    + apply arena_mem in Ex.
      specialize (IH st1 w0 (c0 ++ [])). destruct (fold_left restore_step l _) as [[st w] calls].
      destruct IH as (ds & E1 & E2 & E3 & E4 & E5). exists ds. rewrite app_nil_r in E2.
      split_and!; try done.
      intros d'. rewrite E4. cbn [map snd In]. split; [tauto|].
      intros [[<-|H] Hn]; [done | tauto].
    + assert (¬ In d (w_arena w0)) as Hnd.
      { intros H. apply arena_mem in H. congruence. }
      specialize (IH st1 (mk_w (w_next w0) (w_arena w0 ++ [d])) (c0 ++ [HRegister d])).
      destruct (fold_left restore_step l _) as [[st w] calls].
      destruct IH as (ds & E1 & E2 & E3 & E4 & E5). simpl in E1, E4, E5.
      exists (d :: ds). split_and!.
      * by rewrite E1, <- app_assoc.
      * by rewrite E2, <- app_assoc.
      * apply NoDup_cons. split; [|done]. rewrite elem_of_list_In, E4, in_app_iff. cbn. tauto.
      * intros d'. cbn [map snd In]. rewrite E4, in_app_iff. cbn [In].
        destruct (cs_data_eqb d d') eqn:Ed.
        -- apply cs_data_eqb_spec in Ed. subst d'. tauto.
        -- assert (d ≠ d') as Hne.
           { intros ->. assert (cs_data_eqb d' d' = true) as Ht by by apply cs_data_eqb_spec. congruence. }
           tauto.
      * done.
Qed.

(** the general statement: equivalent start worlds, permuted entries *)
Lemma restore_fold_perm l1 l2 st0 w1 w2 c0 :
  NoDup l1.*1 → l1 ≡ₚ l2 → arena_equiv w1 w2 →
  let '(st, w, calls) := fold_left restore_step l1 (st0, w1, c0) in
  let '(st', w', calls') := fold_left restore_step l2 (st0, w2, c0) in
  st' = st ∧ arena_equiv w w' ∧
  ∃ R R', calls = c0 ++ R ∧ calls' = c0 ++ R' ∧ reg_reorder R R'.
Proof.
  intros Hnd HP [Hn Ha].
  assert (NoDup l2.*1) as Hnd2 by by rewrite <- HP.
  pose proof (restore_fold_spec l1 st0 w1 c0 Hnd) as S1.
  pose proof (restore_fold_spec l2 st0 w2 c0 Hnd2) as S2.
  pose proof (restore_fold_regs l1 st0 w1 c0) as R1.
  pose proof (restore_fold_regs l2 st0 w2 c0) as R2.
  destruct (fold_left restore_step l1 _) as [[st w] calls].
  destruct (fold_left restore_step l2 _) as [[st' w'] calls'].
  destruct S1 as (A1 & A2 & A3 & A4 & A5 & _). destruct S2 as (B1 & B2 & B3 & B4 & B5 & _).
  destruct R1 as (ds & E1 & E2 & E3 & E4 & E5). destruct R2 as (ds' & F1 & F2 & F3 & F4 & F5).
  assert (∀ d, In d ds ↔ In d ds') as Hds.
  { intros d. rewrite E4, F4, Ha.
    assert (In d (map snd l1) ↔ In d (map snd l2)) as ->; [|done].
    split; apply Permutation_in; apply Permutation_map; [done | by symmetry]. }
  split_and!.
  - destruct st, st'. simpl in A1, A2, A3, A4, A5, B1, B2, B3, B4, B5.
    f_equal; try congruence. rewrite A1, B1. f_equal. symmetry. by apply list_to_map_proper.
  - split; [congruence|]. intros d. rewrite E1, F1, !in_app_iff, Ha, Hds. done.
  - exists (map HRegister ds), (map HRegister ds'). split_and!; try done.
    split.
    + clear. by induction ds.
    + apply Permutation_map. apply NoDup_Permutation; try done.
      intros d. rewrite !elem_of_list_In. apply Hds.
Qed.

Lemma restore_in_order_equiv w1 w2 md pi spans local :
  arena_equiv w1 w2 → pi ≡ₚ map_to_list md →
  let '(st, w', regs) := restore w1 md spans local in
  let '(st2, w2', regs2) := restore_in_order w2 pi spans local in
  st2 = st ∧ arena_equiv w' w2' ∧ reg_reorder regs regs2.
Proof.
  intros Hw HP. unfold restore, restore_in_order.
  pose proof (restore_fold_perm (map_to_list md) pi (mk_rs ∅ spans local ∅ ∅) w1 w2 []
                (NoDup_fst_map_to_list md) (symmetry HP) Hw) as H.
  destruct (fold_left restore_step (map_to_list md) _) as [[st w'] regs].
  destruct (fold_left restore_step pi _) as [[st2 w2'] regs2].
  destruct H as (H1 & H2 & R & R' & -> & -> & H3). done.
Qed.

(** (a) [TracingEventReceiver::new] iterating the metadata in any order *)
Theorem restore_in_order_spec w md pi spans local :
  pi ≡ₚ map_to_list md →
  let '(st, w', regs) := restore w md spans local in
  let '(st2, w2, regs2) := restore_in_order w pi spans local in
  st2 = st ∧ arena_equiv w' w2 ∧ reg_reorder regs regs2.
Proof. intros HP. apply restore_in_order_equiv; [apply arena_equiv_refl | done]. Qed.

(** * (b) the receiver cannot tell equivalent worlds apart *)
Lemma on_new_call_site_arena_equiv st w1 w2 id d :
  arena_equiv w1 w2 →
  let '(st1, w1', c1) := on_new_call_site st w1 id d in
  let '(st2, w2', c2) := on_new_call_site st w2 id d in
  st1 = st2 ∧ c1 = c2 ∧ arena_equiv w1' w2'.
Proof.
  intros Hw. unfold on_new_call_site. rewrite (arena_mem_equiv w1 w2 d Hw).
  destruct (existsb (cs_data_eqb d) (w_arena w2)); cbn [negb]; split_and!; try done.
  destruct Hw as [Hn Ha]. split; [done|]. intros d'. simpl. by rewrite !in_app_iff, Ha.
Qed.

Lemma create_local_span_arena_equiv st w1 w2 d b :
  arena_equiv w1 w2 →
  match create_local_span st w1 d b, create_local_span st w2 d b with
  | inl e1, inl e2 => e1 = e2
  | inr (h1, w1', c1), inr (h2, w2', c2) => h1 = h2 ∧ c1 = c2 ∧ arena_equiv w1' w2'
  | _, _ => False
  end.
Proof.
  intros [Hn Ha]. unfold create_local_span. rewrite Hn.
  destruct (r_meta st !! sd_meta d) as [md|]; [|done].
  destruct (match sd_parent d with Some p => _ | None => _ end) as [e|lp]; [done|].
  split_and!; try done.
Qed.

Theorem try_receive_arena_equiv st w1 w2 ev o st' w1' c :
  arena_equiv w1 w2 → try_receive st w1 ev = (o, st', w1', c) →
  ∃ w2', try_receive st w2 ev = (o, st', w2', c) ∧ arena_equiv w1' w2'.
Proof.
  intros Hw H.
  assert (∀ d b, match create_local_span st w1 d b, create_local_span st w2 d b with
                 | inl e1, inl e2 => e1 = e2
                 | inr (h1, w1', c1), inr (h2, w2', c2) => h1 = h2 ∧ c1 = c2 ∧ arena_equiv w1' w2'
                 | _, _ => False
                 end) as Hc by (intros; by apply create_local_span_arena_equiv).
  destruct ev as [id d|id parent meta vals|id f|id|id|id|id|id vals|meta parent vals].
  - cbn [try_receive] in *. pose proof (on_new_call_site_arena_equiv st w1 w2 id d Hw) as Hs.
    destruct (on_new_call_site st w1 id d) as [[st1 w1''] c1].
    destruct (on_new_call_site st w2 id d) as [[st2 w2''] c2].
    destruct Hs as (-> & -> & Hs). simplify_eq. eauto.
  - cbn [try_receive] in *. unfold reject in *.
    destruct (too_many vals); [simplify_eq; eauto|].
    destruct (r_local st !! id); [simplify_eq; eauto|].
    specialize (Hc (mk_sd meta parent 1 vals) true).
    destruct (create_local_span st w1 _ true) as [e1|[[h1 w1''] c1]],
             (create_local_span st w2 _ true) as [e2|[[h2 w2''] c2]]; try done.
    + simplify_eq. eauto.
    + destruct Hc as (-> & -> & Hc). simplify_eq. eauto.
  - cbn [try_receive] in *. unfold reject in *. repeat case_match; simplify_eq; eauto.
  - cbn [try_receive] in *. unfold reject in *.
    destruct (map_span_id st id) as [e|[h|]]; [simplify_eq; eauto..|].
    destruct (r_spans st !! id) as [d|]; [|simplify_eq; eauto].
    specialize (Hc d false).
    destruct (create_local_span st w1 d false) as [e1|[[h1 w1''] c1]],
             (create_local_span st w2 d false) as [e2|[[h2 w2''] c2]]; try done.
    + simplify_eq. eauto.
    + destruct Hc as (-> & -> & Hc). simplify_eq. eauto.
  - cbn [try_receive] in *. unfold reject in *. repeat case_match; simplify_eq; eauto.
  - cbn [try_receive] in *. unfold reject in *. repeat case_match; simplify_eq; eauto.
  - cbn [try_receive] in *. unfold reject in *. repeat case_match; simplify_eq; eauto.
  - cbn [try_receive] in *. unfold reject in *. repeat case_match; simplify_eq; eauto.
  - cbn [try_receive] in *. unfold reject in *. repeat case_match; simplify_eq; eauto.
Qed.

(** * (c) whole histories *)
Lemma obs_reorder_is_panic m m' : obs_reorder m m' → is_panic m' = is_panic m.
Proof.
  destruct m as [o c st|e sp md rg st|c rg st], m' as [o' c' st'|e' sp' md' rg' st'|c' rg' st'];
    try done. by intros (-> & _).
Qed.

Lemma finalize_ord_reorder o st :
  order_ok o →
  fin_reorder (drop_calls st) (finalize_ord o st true) ∧
  fin_reorder (exits_of (r_entered st) (r_local st)) (finalize_ord o st false).
Proof.
  intros (_ & He & Hu). unfold finalize_ord.
  exact (finalize_in_order_reorder st _ _ (He _) (Hu _)).
Qed.

(** one step: the simulation invariant is kept and the observations are [obs_reorder]-related *)
Lemma hist_step_ord_equiv o h1 h2 s :
  order_ok o → hist_equiv h1 h2 →
  hist_equiv (hist_step h1 s).1 (hist_step_ord o h2 s).1 ∧
  obs_reorder (hist_step h1 s).2 (hist_step_ord o h2 s).2.
Proof.
  intros Ho (Hst & Hmd & Hsp & Hw).
  destruct h1 as [st w1 md sp], h2 as [st2 w2 md2 sp2]. cbn [h_st h_w h_md h_spans] in *. subst st2 md2 sp2.
  destruct (finalize_ord_reorder o st Ho) as [Hfd Hfp]. destruct Ho as (Hm & _ & _).
  destruct s as [ev|keep|]; cbn [hist_step hist_step_ord h_st h_w h_md h_spans].
  - destruct (try_receive st w1 ev) as [[[oc st'] w1'] calls] eqn:E.
    destruct (try_receive_arena_equiv _ _ _ _ _ _ _ _ Hw E) as (w2' & -> & Hw').
    cbn [fst snd obs_reorder]. unfold hist_equiv. cbn [h_st h_w h_md h_spans]. done.
  - unfold persist, persist_metadata.
    pose proof (restore_in_order_equiv w1 w2 (r_meta st ∪ md) (ord_meta o (map_to_list (r_meta st ∪ md)))
                  (r_spans st) (if keep then r_local st else ∅) Hw (Hm _)) as Hr.
    destruct (restore w1 _ _ _) as [[st' w1'] regs].
    destruct (restore_in_order w2 _ _ _) as [[st2' w2'] regs2].
    destruct Hr as (-> & Hw' & Hr).
    cbn [fst snd obs_reorder]. unfold hist_equiv. cbn [h_st h_w h_md h_spans]. done.
  - pose proof (restore_in_order_equiv w1 w2 md (ord_meta o (map_to_list md)) sp ∅ Hw (Hm _)) as Hr.
    destruct (restore w1 _ _ _) as [[st' w1'] regs].
    destruct (restore_in_order w2 _ _ _) as [[st2' w2'] regs2].
    destruct Hr as (-> & Hw' & Hr).
    cbn [fst snd obs_reorder]. unfold hist_equiv. cbn [h_st h_w h_md h_spans]. done.
Qed.

Lemma hist_equiv_refl h : hist_equiv h h.
Proof. unfold hist_equiv. split_and!; first [done | apply arena_equiv_refl]. Qed.

Lemma hist_run_ord_equiv steps orc h1 h2 :
  oracle_ok orc → hist_equiv h1 h2 →
  Forall2 obs_reorder (hist_run h1 steps) (hist_run_ord orc h2 steps) ∧
  hist_equiv (hist_final h1 steps) (hist_final_ord orc h2 steps).
Proof.
  revert orc h1 h2. induction steps as [|s r IH]; intros orc h1 h2 Ho Hh;
    cbn [hist_run hist_run_ord hist_final hist_final_ord]; [by split|].
  destruct (hist_step_ord_equiv (orc 0%nat) h1 h2 s (Ho _) Hh) as [Hh' Hm].
  destruct (hist_step h1 s) as [h1' m1]. destruct (hist_step_ord (orc 0%nat) h2 s) as [h2' m2].
  cbn [fst snd] in *. rewrite (obs_reorder_is_panic _ _ Hm).
  destruct (is_panic m1).
  - split; [|done]. constructor; [done | constructor].
  - destruct (IH (oracle_tail orc) h1' h2' (λ n, Ho (S n)) Hh') as [IH1 IH2].
    split; [|done]. by constructor.
Qed.

(** (c) For every oracle that returns permutations: the run that restores every receiver and emits
    every finalisation batch in the oracle's orders makes observable, step by step, what the model
    makes observable up to [obs_reorder] - same outcomes, same receiver states, same persisted data,
    the finalisation batch and the registrations permuted within their blocks. *)
Theorem hist_run_ord_reorder orc steps :
  oracle_ok orc →
  Forall2 obs_reorder (hist_run hist_init steps) (hist_run_ord orc hist_init steps).
Proof. intros Ho. apply hist_run_ord_equiv; [done | apply hist_equiv_refl]. Qed.

(** ... and ends in the same receiver, with the same saved data, in an equivalent world *)
Theorem hist_final_ord_equiv orc steps :
  oracle_ok orc → hist_equiv (hist_final hist_init steps) (hist_final_ord orc hist_init steps).
Proof. intros Ho. apply hist_run_ord_equiv; [done | apply hist_equiv_refl]. Qed.

(** the model is the run with the identity oracle (so [hist_step_ord] adds nothing but the orders) *)
Lemma restore_in_order_id w md spans local :
  restore_in_order w (map_to_list md) spans local = restore w md spans local.
Proof. done. Qed.

Lemma order_id_ok : order_ok order_id.
Proof. by split_and!. Qed.

Lemma hist_step_ord_id h s : hist_step_ord order_id h s = hist_step h s.
Proof.
  destruct s as [ev|keep|]; cbn [hist_step hist_step_ord]; [done| |].
  - unfold persist, finalize_ord, finalize_in_order, order_id. cbn [ord_meta ord_entered ord_uncommitted id].
    by rewrite <- exits_of_in_order, app_nil_r.
  - unfold drop_calls, finalize_ord, finalize_in_order, order_id. cbn [ord_meta ord_entered ord_uncommitted id].
    by rewrite <- exits_of_in_order.
Qed.

Lemma hist_run_ord_id steps h : hist_run_ord (λ _, order_id) h steps = hist_run h steps.
Proof.
  revert h. induction steps as [|s r IH]; intros h; cbn [hist_run hist_run_ord]; [done|].
  rewrite hist_step_ord_id. destruct (hist_step h s) as [h' o]. by rewrite <- IH.
Qed.

(** * (d) C04 and C08 for every choice of iteration orders *)

(** C04: whatever orders the code picks (restores and finalisation batches), the host thread's span
    context is restored. *)
Theorem host_context_restored_every_order orc ls stk :
  oracle_ok orc →
  Forall (λ l : life, is_recv (snd l) = false) ls →
  hist_scope hist_init (lives_steps ls) → wf_drop_lives hist_init ls = true →
  (∀ h, h ∈ stk → (h <= w_next (h_w hist_init))%N) →
  let obs' := hist_run_ord orc hist_init (lives_steps ls) in
  stack_apply stk (all_calls obs') = stk ∧ current (stack_apply stk (all_calls obs')) = current stk.
Proof.
  intros Ho Hf Hsc Hwf Hold obs'.
  exact (host_context_restored_any_order ls stk obs' Hf Hsc Hwf Hold (hist_run_ord_reorder orc _ Ho)).
Qed.

(** ... and enters and exits balance on every host id *)
Theorem balance_every_order orc steps h :
  oracle_ok orc →
  bal (all_calls (hist_run_ord orc hist_init steps)) h = bal (all_calls (hist_run hist_init steps)) h.
Proof. intros Ho. apply balance_any_order. by apply hist_run_ord_reorder. Qed.

(** C08: whatever orders the code picks, the strict tracker accepts every host call of the run, and
    its invariant holds for the receiver and world that run ends in. *)
Theorem hist_ids_valid_every_order orc steps :
  oracle_ok orc → hist_scope hist_init steps →
  ∃ opn, track_all ∅ (flat_map mobs_calls (hist_run_ord orc hist_init steps)) = Some opn ∧
         TInv (h_st (hist_final_ord orc hist_init steps)) (h_w (hist_final_ord orc hist_init steps)) opn.
Proof.
  intros Ho Hsc.
  destruct (hist_ids_valid_any_order steps _ Hsc (hist_run_ord_reorder orc steps Ho)) as (opn & Ht & HT).
  exists opn. split; [done|].
  destruct (hist_final_ord_equiv orc steps Ho) as (Hst & _ & _ & Hn & _).
  unfold TInv in *. by rewrite <- Hst, <- Hn.
Qed.

Theorem hist_close_once_every_order orc steps :
  oracle_ok orc → hist_scope hist_init steps →
  NoDup (closed (flat_map mobs_calls (hist_run_ord orc hist_init steps))).
Proof.
  intros Ho Hsc. exact (hist_close_once_any_order steps _ Hsc (hist_run_ord_reorder orc steps Ho)).
Qed.

Print Assumptions restore_in_order_spec.
Print Assumptions try_receive_arena_equiv.
Print Assumptions hist_run_ord_reorder.
Print Assumptions hist_final_ord_equiv.
Print Assumptions host_context_restored_every_order.
Print Assumptions balance_every_order.
Print Assumptions hist_ids_valid_every_order.
Print Assumptions hist_close_once_every_order.
