(** Model of [tunnel/src/sender.rs]: [TracingEventSender] as a [Subscriber].  Definitions only.

    The sender keeps one piece of state, [next_span_id : AtomicU32] (initially 1), and sends exactly
    one [TracingEvent] from every [Subscriber] method it implements:
    [register_callsite] -> [NewCallSite {id = address of the metadata, data = CallSiteData::from(metadata)}],
    [new_span] -> [fetch_add(1, SeqCst)], widen with [u64::from], send [NewSpan], then [Id::from_u64],
    which panics for 0; [record] -> [ValuesRecorded]; [record_follows_from] -> [FollowsFrom];
    [event] -> [NewEvent]; [enter] / [exit] -> [SpanEntered] / [SpanExited]; [clone_span] ->
    [SpanCloned]; [try_close] -> [SpanDropped]; [enabled] = true, [register_callsite] answers
    [Interest::always()].  The explicit parent is [span.parent().map(Id::into_u64)]: contextual and
    explicit-root spans / events both travel as [None]. *)
From TT Require Export Guest.Front.

(** * The 32-bit span id counter *)
Definition U32 : N := 2 ^ 32.

(** [AtomicU32::fetch_add(1, SeqCst)]: returns the previous value; the addition wraps. *)
Definition fetch_add (ctr : N) : N * N := (ctr, (ctr + 1) mod U32).

(** the id part of [new_span]: [Some id] is what [Id::from_u64] returns, [None] its panic on 0
    (the [NewSpan] event carrying 0 has been sent by then) *)
Definition sender_new_id (ctr : N) : option N * N :=
  let '(old, ctr') := fetch_add ctr in (if old =? 0 then None else Some old, ctr').

(** closed form: the id returned by the n-th [new_span] call (n = 0, 1, ...) of a sender whose
    counter started at [start]; [TracingEventSender::new] starts at 1,
    [verif_with_next_span_id(_, start)] at [start] *)
Definition sender_alloc_from (start n : N) : option N :=
  let x := (start + n) mod U32 in if x =? 0 then None else Some x.
Definition sender_alloc : N -> option N := sender_alloc_from 1.

(** Known finding (F9): the class of allocations made when [2^32 - 1] or more spans have already
    been created under the sender.  A sender whose counter is at [start] behaves as a sender that
    has created [start - 1] spans. *)
Definition known_id_wrap (n_spans_created_before : N) : bool := U32 - 1 <=? n_spans_created_before.

(** a program run under a sender whose counter starts at [start] makes an allocation of the class *)
Definition prog_wraps (start : N) (p : prog) : bool :=
  let m := spans_created (p_ops p) in
  (0 <? m) && known_id_wrap (start - 1 + (m - 1)).

(** * One event per subscriber call

    [mid cs] is the [MetadataId] of call site [cs]: the address of its [Metadata] in the code, any
    injective function here.  [CallSiteData::from(&Metadata)] copies the eight attributes; a
    [Metadata] is represented by its description, so the conversion is the identity. *)
Definition cs_none : cs_data := mk_cs KEvent "" "" LTrace None None None [].
Definition site_data (sites : list cs_data) (cs : nat) : cs_data := nth cs sites cs_none.

Definition sender_parent (p : sparent) : option N :=
  match p with SPExplicit id => Some id | SPCtx | SPRoot => None end.

Definition sender_event (mid : nat -> N) (sites : list cs_data) (c : scall) : event :=
  match c with
  | SRegister cs => ENewCallSite (mid cs) (site_data sites cs)
  | SNewSpan id cs p vals => ENewSpan id (sender_parent p) (mid cs) vals
  | SRecord id vals => EValuesRecorded id vals
  | SEnter id => ESpanEntered id
  | SExit id => ESpanExited id
  | SClone id => ESpanCloned id
  | STryClose id => ESpanDropped id
  | SFollows id f => EFollowsFrom id f
  | SEvent cs p vals => ENewEvent (mid cs) (sender_parent p) vals
  end.

(** the stream a guest program produces under a sender ([enabled] is constantly true) *)
Definition sender_run_from (start : N) (mid : nat -> N) (p : prog) : list event :=
  map (sender_event mid (p_sites p)) (fst (front_run (sender_alloc_from start) all_enabled p)).
Definition sender_panicked_from (start : N) (p : prog) : bool :=
  snd (front_run (sender_alloc_from start) all_enabled p).
Definition sender_run : (nat -> N) -> prog -> list event := sender_run_from 1.
Definition sender_panicked : prog -> bool := sender_panicked_from 1.

Definition is_announce (e : event) : bool := match e with ENewCallSite _ _ => true | _ => false end.
Definition op_events (evs : list event) : list event := filter (fun e => negb (is_announce e)) evs.

(** the call site a span / event refers to *)
Definition event_meta (e : event) : option N :=
  match e with ENewSpan _ _ m _ | ENewEvent m _ _ => Some m | _ => None end.
Definition new_span_ids (evs : list event) : list N :=
  flat_map (fun e => match e with ENewSpan id _ _ _ => [id] | _ => [] end) evs.

(** * Reference statement of "one event per operation, carrying the operation's span ids, explicit
    parent and values" (independent of the front end and of the counter): under a fresh sender the
    span with creation index k has id k + 1; the values are the specification's capture of C14. *)
Definition id_of_index (k : nat) : N := N.of_nat k + 1.
Definition captured (names : list string) (vals : valset) : tvalues := denote (provided_spec names vals).

Definition spec_id (n k : nat) : option N := if Nat.ltb k n then Some (id_of_index k) else None.
Definition spec_parent (n : nat) (p : parent_kind) : option N :=
  match p with PKExplicit k => spec_id n k | PKCtx | PKRoot => None end.

(** [spans] = call sites of the spans created before this op, in creation order *)
Definition spec_event (mid : nat -> N) (sites : list cs_data) (spans : list nat) (o : op) : option event :=
  let n := List.length spans in
  match o with
  | ONewSpan cs p vals =>
      Some (ENewSpan (id_of_index n) (spec_parent n p) (mid cs) (captured (site_fields sites cs) vals))
  | ORecord k vals =>
      match nth_error spans k with
      | Some cs => Some (EValuesRecorded (id_of_index k) (captured (site_fields sites cs) vals))
      | None => None
      end
  | OEnter k => option_map ESpanEntered (spec_id n k)
  | OExit k => option_map ESpanExited (spec_id n k)
  | OClone k => option_map ESpanCloned (spec_id n k)
  | ODrop k => option_map ESpanDropped (spec_id n k)
  | OFollows k (FLive j) =>
      match spec_id n k, spec_id n j with
      | Some a, Some b => Some (EFollowsFrom a b)
      | _, _ => None
      end
  | OFollows k (FStale raw) => option_map (fun a => EFollowsFrom a raw) (spec_id n k)
  | OEvent cs p vals => Some (ENewEvent (mid cs) (spec_parent n p) (captured (site_fields sites cs) vals))
  end.

Definition spans_after (spans : list nat) (o : op) : list nat :=
  match o with ONewSpan cs _ _ => spans ++ [cs] | _ => spans end.

(** one entry per op, in program order; [None] only for an op on a span that was never created *)
Fixpoint spec_events (mid : nat -> N) (sites : list cs_data) (spans : list nat) (ops : list (nat * op))
  : list (option event) :=
  match ops with
  | [] => []
  | o :: r => spec_event mid sites spans (snd o) :: spec_events mid sites (spans_after spans (snd o)) r
  end.

Definition somes {A} (l : list (option A)) : list A :=
  flat_map (fun x => match x with Some a => [a] | None => [] end) l.

(** the alive spans the abstract receiver must end with: the spans with live handles, with the
    program's handle counts ([st] = final symbolic state of the program) *)
Definition live_refs (st : sym_state) (id : N) : option N :=
  if id =? 0 then None
  else let h := handles st (N.to_nat (id - 1)) in if 0 <? h then Some h else None.

(** * The counter shared by threads: interleaving semantics at the granularity of the atomic
    [fetch_add].  A schedule is the sequence of thread ids performing the successive atomic steps
    (a thread performs as many allocations as it occurs in the schedule); the result lists the
    ids handed out, each with the thread that received it, in the order of the atomic steps. *)
Record cstate := mk_c { c_ctr : N; c_out : list (nat * N) }.
Definition cstep (s : cstate) (t : nat) : cstate :=
  let '(old, new) := fetch_add (c_ctr s) in mk_c new (c_out s ++ [(t, old)]).
Definition crun_from (start : N) (sched : list nat) : list (nat * N) :=
  c_out (fold_left cstep sched (mk_c start [])).
Definition crun : list nat -> list (nat * N) := crun_from 1.
(** the ids thread [t] received, in its program order *)
Definition ids_of (t : nat) (out : list (nat * N)) : list N :=
  map snd (filter (fun x => Nat.eqb (fst x) t) out).
