(** Histories of receiver lifetimes: receive / persist (keeping or losing the local span map) /
    drop-and-roll-back, as driven by the correspondence harness.  Definitions only. *)
From stdpp Require Import gmap.
From TT Require Export Tunnel.Receiver.

Inductive hstep :=
| SRecv (ev : event)
| SPersist (keep : bool)     (* persist_metadata + persist, serde round trip, new(); keep = local map kept *)
| SDrop.                     (* drop without persisting, then new() from the last persisted state, no local map *)

(** What a step makes observable. *)
Inductive mobs :=
| MRecv (o : outcome) (calls : list hcall) (st : rstate)
| MPersist (exits : list hcall) (spans : gmap N span_data) (md : gmap N cs_data)
           (regs : list hcall) (st : rstate)
| MDrop (calls : list hcall) (regs : list hcall) (st : rstate).

Record hist := mk_hist {
  h_st : rstate;
  h_w : world;
  h_md : gmap N cs_data;          (* metadata persisted so far *)
  h_spans : gmap N span_data }.   (* spans as of the last persist *)

Definition hist_init : hist := mk_hist rs_default (mk_w 0 []) ∅ ∅.

Definition hist_step (h : hist) (s : hstep) : hist * mobs :=
  match s with
  | SRecv ev =>
      let '(o, st', w', calls) := try_receive (h_st h) (h_w h) ev in
      (mk_hist st' w' (h_md h) (h_spans h), MRecv o calls st')
  | SPersist keep =>
      let md := persist_metadata (h_st h) ∪ h_md h in
      let '(spans, local, exits) := persist (h_st h) in
      let '(st', w', regs) := restore (h_w h) md spans (if keep then local else ∅) in
      (mk_hist st' w' md spans, MPersist exits spans md regs st')
  | SDrop =>
      let calls := drop_calls (h_st h) in
      let '(st', w', regs) := restore (h_w h) (h_md h) (h_spans h) ∅ in
      (mk_hist st' w' (h_md h) (h_spans h), MDrop calls regs st')
  end.

Definition is_panic (o : mobs) : bool :=
  match o with MRecv Panicked _ _ => true | _ => false end.

(** run a history; a panic ends it (the receiver is not usable afterwards) *)
Fixpoint hist_run (h : hist) (steps : list hstep) : list mobs :=
  match steps with
  | [] => []
  | s :: r => let '(h', o) := hist_step h s in
              o :: (if is_panic o then [] else hist_run h' r)
  end.

Fixpoint hist_final (h : hist) (steps : list hstep) : hist :=
  match steps with
  | [] => h
  | s :: r => let '(h', o) := hist_step h s in if is_panic o then h' else hist_final h' r
  end.
