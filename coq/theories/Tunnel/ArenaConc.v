(** Concurrent view of the call-site arena ([tunnel/src/receiver/arena.rs]): several threads, each with
    its own receiver, announce call-site descriptions at the same time (C10).  Definitions only.

    Two levels.

    1. ATOMIC level ([cstate], [step], [run_sched]).  One step = one lock-protected critical section of
       [Arena::alloc_metadata]:
         [step_phase1] = everything done under [self.metadata.read()]  (bucket scan; return on a match,
                         else remember [scanned_bucket_len]) = [Arena.phase1];
         [step_phase2] = everything done under [self.metadata.write()] ([entry(hash).or_default()],
                         re-scan of [bucket[scanned_bucket_len..]], else [leak_metadata] (which interns
                         every string through [alloc_string] under the strings lock, nested inside the
                         metadata write lock) and [push]) = [Arena.phase2].
       That a critical section executes atomically with respect to the critical sections of the other
       threads is the ASSUMPTION of this level (it is what [RwLock] is for); it is what makes C10 a
       partial result.  Read-locked sections of different threads may overlap in reality; they do not
       write, so any overlap is equivalent to either order of the two atomic steps.
       A schedule is a [list tid]: whose critical section runs next.  An entry naming a thread that
       has finished all its announcements (or a thread that does not exist) is SKIPPED (a no-op), so
       every list is a schedule; [None] is reserved for the panic of the tail slice.

    2. LOCK level ([lstate], [lstep], [lrun]).  The two [RwLock]s are explicit (who holds a read guard,
       who holds the write guard); a thread's step is an acquisition (possible only if the lock state
       allows it: [LBlocked] otherwise) or a lock-protected piece of work followed by the release,
       in the order of the code: metadata.read / release / metadata.write / for each string:
       strings.read / release / strings.write / release / finally push / release metadata.write.
       This level carries the progress (no deadlock) clause.

    The bucketing hash is a [Section] variable: an arbitrary function. *)
From stdpp Require Import gmap.
From TT Require Export Tunnel.Arena.

Notation tid := nat (only parsing).   (* a thread is named by its position in the thread list *)

(** the bucket for a hash value ([lock.get(&hash)] / [entry(hash).or_default()]: a missing bucket
    is the empty one) *)
Definition bucket_of (a : arena) (h : N) : list metadata := default [] (buckets a !! h).

(** * Atomic level *)

(** where a thread is inside [alloc_metadata] between two critical sections *)
Inductive pc :=
| Idle                                    (* the next announcement has not started *)
| Scanned (d : cs_data) (h : N) (n : nat).
    (* read phase done without a match: description, its hash ([hash_value]), [scanned_bucket_len] *)

Record thread := mk_thread {
  t_todo : list cs_data;                  (* announcements not started yet *)
  t_pc : pc;
  t_res : list (metadata * bool) }.       (* results of the finished announcements, in order:
                                             the metadata reference and the [is_new] flag *)

(** history variable (no step reads it): one entry per finished announcement, appended by the
    step that finished it; [e_pos] = index of the announcement in the thread's list *)
Record lentry := mk_lentry {
  e_tid : tid; e_pos : nat; e_desc : cs_data; e_md : metadata; e_new : bool }.

Record cstate := mk_cstate {
  c_arena : arena;                        (* the process-global arena *)
  c_threads : list thread;                (* thread [i] is the element at position [i] *)
  c_log : list lentry }.

Definition thread_init (ds : list cs_data) : thread := mk_thread ds Idle [].
Definition conc_init (lists : list (list cs_data)) : cstate :=
  mk_cstate arena_empty (thread_init <$> lists) [].

Definition thread_done (t : thread) : bool :=
  match t_pc t, t_todo t with Idle, [] => true | _, _ => false end.
Definition all_done (st : cstate) : bool := forallb thread_done (c_threads st).

(** linearization: descriptions and results in the order in which the announcements finished *)
Definition log_descs (log : list lentry) : list cs_data := e_desc <$> log.
Definition log_results (log : list lentry) : list (metadata * bool) := (fun e => (e_md e, e_new e)) <$> log.

Inductive step_result := SRok (st : cstate) | SRskip | SRpanic.

Section hash.
  Variable hash : cs_data -> N.

  (** the read-locked critical section of thread [i] for description [d] *)
  Definition do_phase1 (st : cstate) (i : tid) (t : thread) (d : cs_data) (rest : list cs_data) : cstate :=
    match phase1 hash (c_arena st) d with
    | P1Found m =>                        (* [return (metadata, false)] *)
        mk_cstate (c_arena st)
                  (<[i := mk_thread rest Idle (t_res t ++ [(m, false)])]> (c_threads st))
                  (c_log st ++ [mk_lentry i (List.length (t_res t)) d m false])
    | P1Scanned n =>
        mk_cstate (c_arena st) (<[i := mk_thread rest (Scanned d (hash d) n) (t_res t)]> (c_threads st))
                  (c_log st)
    end.

  (** the write-locked critical section; [None] = "range start index out of range for slice" *)
  Definition do_phase2 (st : cstate) (i : tid) (t : thread) (d : cs_data) (n : nat) : option cstate :=
    match phase2 hash (c_arena st) d n with
    | Some (a', m, is_new) =>
        Some (mk_cstate a' (<[i := mk_thread (t_todo t) Idle (t_res t ++ [(m, is_new)])]> (c_threads st))
                        (c_log st ++ [mk_lentry i (List.length (t_res t)) d m is_new]))
    | None => None
    end.

  Definition step_phase1 (st : cstate) (i : tid) : step_result :=
    match c_threads st !! i with
    | Some t =>
        match t_pc t, t_todo t with
        | Idle, d :: rest => SRok (do_phase1 st i t d rest)
        | _, _ => SRskip
        end
    | None => SRskip
    end.

  Definition step_phase2 (st : cstate) (i : tid) : step_result :=
    match c_threads st !! i with
    | Some t =>
        match t_pc t with
        | Scanned d _ n =>
            match do_phase2 st i t d n with Some st' => SRok st' | None => SRpanic end
        | Idle => SRskip
        end
    | None => SRskip
    end.

  (** the next critical section of thread [i] *)
  Definition step (st : cstate) (i : tid) : step_result :=
    match c_threads st !! i with
    | Some t => match t_pc t with Idle => step_phase1 st i | Scanned _ _ _ => step_phase2 st i end
    | None => SRskip
    end.

  (** which phase the next step of thread [i] is (1 = read-locked, 2 = write-locked); [None] = the
      thread has finished or does not exist *)
  Definition next_phase (st : cstate) (i : tid) : option N :=
    match c_threads st !! i with
    | Some t =>
        match t_pc t, t_todo t with
        | Idle, [] => None
        | Idle, _ :: _ => Some 1%N
        | Scanned _ _ _, _ => Some 2%N
        end
    | None => None
    end.

  Fixpoint run_sched (st : cstate) (sch : list tid) : option cstate :=
    match sch with
    | [] => Some st
    | i :: rest =>
        match step st i with
        | SRok st' => run_sched st' rest
        | SRskip => run_sched st rest
        | SRpanic => None
        end
    end.

  (** the same run, also returning the entries that were not skipped, with their phase *)
  Fixpoint run_trace (st : cstate) (sch : list tid) : option (cstate * list (tid * N)) :=
    match sch with
    | [] => Some (st, [])
    | i :: rest =>
        match step st i with
        | SRok st' =>
            match run_trace st' rest with
            | Some (st'', tr) => Some (st'', (i, default 0%N (next_phase st i)) :: tr)
            | None => None
            end
        | SRskip => run_trace st rest
        | SRpanic => None
        end
    end.
End hash.

(** "announcement number [p] of thread [i] was [d] and has finished with result [(m, is_new)]" *)
Definition finished_with (lists : list (list cs_data)) (st : cstate)
    (i : tid) (p : nat) (d : cs_data) (m : metadata) (is_new : bool) : Prop :=
  exists t l, c_threads st !! i = Some t /\ lists !! i = Some l /\ l !! p = Some d
              /\ t_res t !! p = Some (m, is_new).

(** [d] is one of the descriptions to announce *)
Definition announced (lists : list (list cs_data)) (d : cs_data) : Prop :=
  exists i l, lists !! i = Some l /\ d ∈ l.

(** a schedule that gives every thread at least two turns per announcement (it needs at most two) *)
Definition count_tid (i : tid) (sch : list tid) : nat := List.length (List.filter (Nat.eqb i) sch).
Definition enough_turns (lists : list (list cs_data)) (sch : list tid) : bool :=
  forallb (fun i => (2 * List.length (default [] (lists !! i)) <=? count_tid i sch)%nat)
          (seq 0 (List.length lists)).

(** * Lock level *)

(** [std::sync::RwLock]: any number of read guards or one write guard.  No fairness / queueing policy is
    modelled: a request is grantable whenever it is compatible with the guards that exist. *)
Record rwlock := mk_rw { rw_readers : list tid; rw_writer : option tid }.
Definition rw_free : rwlock := mk_rw [] None.
Definition can_read (l : rwlock) : bool := match rw_writer l with None => true | Some _ => false end.
Definition can_write (l : rwlock) : bool :=
  match rw_writer l, rw_readers l with None, [] => true | _, _ => false end.
Fixpoint remove1 (i : tid) (l : list tid) : list tid :=
  match l with
  | [] => []
  | j :: r => if Nat.eqb i j then r else j :: remove1 i r
  end.
Definition acq_read (i : tid) (l : rwlock) : rwlock := mk_rw (i :: rw_readers l) (rw_writer l).
Definition rel_read (i : tid) (l : rwlock) : rwlock := mk_rw (remove1 i (rw_readers l)) (rw_writer l).
Definition acq_write (i : tid) (l : rwlock) : rwlock := mk_rw (rw_readers l) (Some i).
Definition rel_write (l : rwlock) : rwlock := mk_rw (rw_readers l) None.

(** program points of [alloc_metadata] / [leak_metadata] / [alloc_string]; the comment says which
    guards the thread holds there and what its next step is *)
Inductive lpc :=
| LIdle
    (* holds nothing; next: request metadata.read() for the next announcement *)
| LRead (d : cs_data) (h : N)
    (* holds metadata.read; next: scan the bucket, drop the guard *)
| LScanned (d : cs_data) (h : N) (n : nat)
    (* holds nothing ("metadata:before_write"); next: request metadata.write() *)
| LWrite (d : cs_data) (h : N) (n : nat)
    (* holds metadata.write; next: entry(h).or_default(), scan bucket[n..]; on a match drop the guard *)
| LLeak (d : cs_data) (h : N) (todo : list string)
    (* holds metadata.write, inside leak_metadata; next: request strings.read() for the head of
       [todo], or, with nothing left to intern, leak the Metadata, push, drop the guard *)
| LStrRead (d : cs_data) (h : N) (s : string) (todo : list string)
    (* holds metadata.write + strings.read; next: look [s] up, drop the strings guard *)
| LStrScanned (d : cs_data) (h : N) (s : string) (todo : list string)
    (* holds metadata.write ("strings:before_write"); next: request strings.write() *)
| LStrWrite (d : cs_data) (h : N) (s : string) (todo : list string).
    (* holds metadata.write + strings.write; next: re-check, insert, drop the strings guard *)

Record lthread := mk_lthread {
  lt_todo : list cs_data;
  lt_pc : lpc;
  lt_res : list (metadata * bool) }.

Record lstate := mk_lstate {
  l_arena : arena;
  l_md : rwlock;                           (* Arena::metadata *)
  l_str : rwlock;                          (* Arena::strings *)
  l_threads : list lthread }.

Definition lthread_init (ds : list cs_data) : lthread := mk_lthread ds LIdle [].
Definition lock_init (lists : list (list cs_data)) : lstate :=
  mk_lstate arena_empty rw_free rw_free (lthread_init <$> lists).

Definition lthread_done (t : lthread) : bool :=
  match lt_pc t, lt_todo t with LIdle, [] => true | _, _ => false end.
Definition lall_done (L : lstate) : bool := forallb lthread_done (l_threads L).

(** "announcement number [p] of thread [i] was [d] and has finished with result [(m, is_new)]" *)
Definition lfinished_with (lists : list (list cs_data)) (L : lstate)
    (i : tid) (p : nat) (d : cs_data) (m : metadata) (is_new : bool) : Prop :=
  exists t l, l_threads L !! i = Some t /\ lists !! i = Some l /\ l !! p = Some d
              /\ lt_res t !! p = Some (m, is_new).

(** the guards a thread holds, read off its program point *)
Definition holds_md_read (p : lpc) : bool := match p with LRead _ _ => true | _ => false end.
Definition holds_md_write (p : lpc) : bool :=
  match p with
  | LWrite _ _ _ | LLeak _ _ _ | LStrRead _ _ _ _ | LStrScanned _ _ _ _ | LStrWrite _ _ _ _ => true
  | _ => false
  end.
Definition holds_str_read (p : lpc) : bool := match p with LStrRead _ _ _ _ => true | _ => false end.
Definition holds_str_write (p : lpc) : bool := match p with LStrWrite _ _ _ _ => true | _ => false end.

(** inside [leak_metadata]: the description, its hash, the strings still to intern (the one in
    progress included) *)
Definition leak_rest (p : lpc) : option (cs_data * N * list string) :=
  match p with
  | LLeak d h todo => Some (d, h, todo)
  | LStrRead d h s todo | LStrScanned d h s todo | LStrWrite d h s todo => Some (d, h, s :: todo)
  | _ => None
  end.

(** an upper bound on the micro-steps a thread still has to take (termination measure) *)
Definition desc_cost (d : cs_data) : nat := (5 + 4 * List.length (strs_of d))%nat.
Definition lpc_cost (p : lpc) : nat :=
  match p with
  | LIdle => 0
  | LRead d _ => desc_cost d - 1
  | LScanned d _ _ => desc_cost d - 2
  | LWrite d _ _ => desc_cost d - 3
  | LLeak _ _ todo => 4 * List.length todo + 1
  | LStrRead _ _ _ todo => 4 * List.length todo + 4
  | LStrScanned _ _ _ todo => 4 * List.length todo + 3
  | LStrWrite _ _ _ todo => 4 * List.length todo + 2
  end%nat.
Definition lthread_cost (t : lthread) : nat :=
  (lpc_cost (lt_pc t) + fold_right Nat.add 0 (desc_cost <$> lt_todo t))%nat.
Definition lcost (L : lstate) : nat := fold_right Nat.add 0%nat (lthread_cost <$> l_threads L).

(** the program points at which the next step is a lock request *)
Definition requests_md (t : lthread) : bool :=
  match lt_pc t, lt_todo t with
  | LIdle, _ :: _ => true               (* metadata.read() *)
  | LScanned _ _ _, _ => true           (* metadata.write() *)
  | _, _ => false
  end.
Definition requests_str (t : lthread) : bool :=
  match lt_pc t with
  | LLeak _ _ (_ :: _) => true          (* strings.read() *)
  | LStrScanned _ _ _ _ => true         (* strings.write() *)
  | _ => false
  end.

(** thread [i] holds some guard of the lock *)
Definition holds_lock (lk : rwlock) (i : tid) : Prop := i ∈ rw_readers lk \/ rw_writer lk = Some i.

Inductive lstep_result :=
| LSok (L : lstate)
| LSblocked                                (* the lock request cannot be granted now: the thread waits *)
| LSskip                                   (* finished / no such thread *)
| LSpanic.

(** the Metadata that [leak_metadata] builds once every string is interned ([alloc_string] returns a
    string with the content it was given) *)
Definition fresh_md (a : arena) (d : cs_data) : metadata :=
  mk_md (N.of_nat (List.length (heap a))) (cs_kind d) (cs_name d) (cs_target d) (cs_level d)
        (cs_module d) (cs_file d) (cs_line d) (cs_fields d).

Section lock_level.
  Variable hash : cs_data -> N.

  Definition lset (L : lstate) (a : arena) (md str : rwlock) (i : tid) (t : lthread) : lstate :=
    mk_lstate a md str (<[i := t]> (l_threads L)).

  Definition lstep (L : lstate) (i : tid) : lstep_result :=
    match l_threads L !! i with
    | None => LSskip
    | Some t =>
        let a := l_arena L in
        let goto p := mk_lthread (lt_todo t) p (lt_res t) in
        let finish m b := mk_lthread (lt_todo t) LIdle (lt_res t ++ [(m, b)]) in
        match lt_pc t with
        | LIdle =>
            match lt_todo t with
            | [] => LSskip
            | d :: rest =>                 (* let hash_value = hash_metadata(&data); self.lock_metadata() *)
                if can_read (l_md L)
                then LSok (lset L a (acq_read i (l_md L)) (l_str L) i
                                (mk_lthread rest (LRead d (hash d)) (lt_res t)))
                else LSblocked
            end
        | LRead d h =>                     (* the scan; the guard is dropped at the end of the block *)
            let md' := rel_read i (l_md L) in
            match buckets a !! h with
            | Some bucket =>
                match scan d bucket with
                | Some m => LSok (lset L a md' (l_str L) i (finish m false))
                | None => LSok (lset L a md' (l_str L) i (goto (LScanned d h (List.length bucket))))
                end
            | None => LSok (lset L a md' (l_str L) i (goto (LScanned d h 0)))
            end
        | LScanned d h n =>                (* self.lock_metadata_mut() *)
            if can_write (l_md L)
            then LSok (lset L a (acq_write i (l_md L)) (l_str L) i (goto (LWrite d h n)))
            else LSblocked
        | LWrite d h n =>                  (* entry(h).or_default(); for &metadata in &bucket[n..] *)
            let bucket := bucket_of a h in
            let a1 := mk_arena (heap a) (<[h := bucket]> (buckets a)) (strings a) in
            if (n <=? List.length bucket)%nat then
              match scan d (drop n bucket) with
              | Some m => LSok (lset L a1 (rel_write (l_md L)) (l_str L) i (finish m false))
              | None => LSok (lset L a1 (l_md L) (l_str L) i (goto (LLeak d h (strs_of d))))
              end
            else LSpanic
        | LLeak d h [] =>                  (* Box::leak(Box::new(metadata)); bucket.push(metadata) *)
            let m := fresh_md a d in
            let a' := mk_arena (heap a ++ [m]) (<[h := bucket_of a h ++ [m]]> (buckets a)) (strings a) in
            LSok (lset L a' (rel_write (l_md L)) (l_str L) i (finish m true))
        | LLeak d h (s :: todo) =>         (* alloc_string: self.lock_strings() *)
            if can_read (l_str L)
            then LSok (lset L a (l_md L) (acq_read i (l_str L)) i (goto (LStrRead d h s todo)))
            else LSblocked
        | LStrRead d h s todo =>           (* .get(s).copied(); the temporary guard is dropped *)
            let str' := rel_read i (l_str L) in
            match str_get (strings a) s with
            | Some _ => LSok (lset L a (l_md L) str' i (goto (LLeak d h todo)))
            | None => LSok (lset L a (l_md L) str' i (goto (LStrScanned d h s todo)))
            end
        | LStrScanned d h s todo =>        (* self.lock_strings_mut() *)
            if can_write (l_str L)
            then LSok (lset L a (l_md L) (acq_write i (l_str L)) i (goto (LStrWrite d h s todo)))
            else LSblocked
        | LStrWrite d h s todo =>          (* re-check; leak; insert; the guard is dropped on return *)
            let ss' := match str_get (strings a) s with
                       | Some _ => strings a
                       | None => strings a ++ [s]
                       end in
            LSok (lset L (mk_arena (heap a) (buckets a) ss') (l_md L) (rel_write (l_str L)) i
                       (goto (LLeak d h todo)))
        end
    end.

  (** thread [i] can take its next step now *)
  Definition lenabled (L : lstate) (i : tid) : bool :=
    match lstep L i with LSok _ => true | _ => false end.

  (** a micro-schedule: an entry naming a blocked thread leaves the state as it is (the thread keeps
      waiting), as does an entry naming a finished thread *)
  Fixpoint lrun (L : lstate) (msch : list tid) : option lstate :=
    match msch with
    | [] => Some L
    | i :: rest =>
        match lstep L i with
        | LSok L' => lrun L' rest
        | LSblocked | LSskip => lrun L rest
        | LSpanic => None
        end
    end.

  (** the number of entries of a micro-schedule that were steps (not waiting, not skipped) *)
  Fixpoint lsteps (L : lstate) (msch : list tid) : nat :=
    match msch with
    | [] => 0
    | i :: rest =>
        match lstep L i with
        | LSok L' => S (lsteps L' rest)
        | LSblocked | LSskip => lsteps L rest
        | LSpanic => 0
        end
    end.
End lock_level.

