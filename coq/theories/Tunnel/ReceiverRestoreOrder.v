(** The iteration order of [TracingEventReceiver::new] (and of the finalisation batches) as a
    parameter of the model.

    [restore] ([Tunnel/Receiver.v]) folds [restore_step] over [map_to_list md], i.e. ascending keys;
    the Rust code iterates a [HashMap], i.e. any order of the same entries.  The order matters for
    more than the order of the [HRegister] calls: it decides in which order the call sites are
    appended to the process-global arena, hence the [world] every later step starts from.

    - [restore_in_order w pi spans local]: the fold of [restore] over an arbitrary list [pi];
    - [arena_equiv w1 w2]: same host id counter, same set of interned call sites (the only way the
      model looks at the arena is the membership test of [on_new_call_site]);
    - [order]: one choice of iteration orders (metadata map, entered map, uncommitted set), given as
      functions from the model's (ascending) enumeration to the enumeration the code uses;
    - [oracle := nat -> order]: one such choice per step of a history (the same container may be
      iterated in different orders at different times);
    - [hist_step_ord] / [hist_run_ord] / [hist_final_ord]: [hist_step] / [hist_run] / [hist_final]
      with every [restore] done by [restore_in_order] and every finalisation batch emitted by
      [finalize_in_order] ([Tunnel/ReceiverOrder.v]) in the orders chosen by the oracle.

    Definitions only; proofs in [ReceiverRestoreOrderProofs.v]. *)
From stdpp Require Import gmap.
From TT Require Export Tunnel.ReceiverOrder.

Definition restore_in_order (w : world) (pi : list (N * cs_data)) (spans : gmap N span_data)
    (local : gmap N N) : rstate * world * list hcall :=
  fold_left restore_step pi (mk_rs ∅ spans local ∅ ∅, w, []).

Definition arena_equiv (w1 w2 : world) : Prop :=
  w_next w1 = w_next w2 ∧ ∀ d, In d (w_arena w1) ↔ In d (w_arena w2).

(** one choice of iteration orders *)
Record order := mk_order {
  ord_meta : list (N * cs_data) → list (N * cs_data);     (* [HashMap] of persisted metadata *)
  ord_entered : list (N * N) → list (N * N);              (* [HashMap] of entered spans *)
  ord_uncommitted : list N → list N }.                    (* [HashSet] of uncommitted spans *)

Definition order_ok (o : order) : Prop :=
  (∀ l, ord_meta o l ≡ₚ l) ∧ (∀ l, ord_entered o l ≡ₚ l) ∧ (∀ l, ord_uncommitted o l ≡ₚ l).

(** the model's own choice *)
Definition order_id : order := mk_order id id id.

(** one choice per step of a history *)
Definition oracle := nat → order.
Definition oracle_ok (orc : oracle) : Prop := ∀ n, order_ok (orc n).
Definition oracle_tail (orc : oracle) : oracle := λ n, orc (S n).

Definition finalize_ord (o : order) (st : rstate) (with_closes : bool) : list hcall :=
  finalize_in_order st with_closes
    (ord_entered o (map_to_list (r_entered st))) (ord_uncommitted o (elements (r_uncommitted st))).

Definition hist_step_ord (o : order) (h : hist) (s : hstep) : hist * mobs :=
  match s with
  | SRecv ev =>
      let '(oc, st', w', calls) := try_receive (h_st h) (h_w h) ev in
      (mk_hist st' w' (h_md h) (h_spans h), MRecv oc calls st')
  | SPersist keep =>
      let md := persist_metadata (h_st h) ∪ h_md h in
      let spans := r_spans (h_st h) in
      let local := r_local (h_st h) in
      let exits := finalize_ord o (h_st h) false in
      let '(st', w', regs) :=
        restore_in_order (h_w h) (ord_meta o (map_to_list md)) spans (if keep then local else ∅) in
      (mk_hist st' w' md spans, MPersist exits spans md regs st')
  | SDrop =>
      let calls := finalize_ord o (h_st h) true in
      let '(st', w', regs) :=
        restore_in_order (h_w h) (ord_meta o (map_to_list (h_md h))) (h_spans h) ∅ in
      (mk_hist st' w' (h_md h) (h_spans h), MDrop calls regs st')
  end.

(** run a history in the orders chosen by the oracle: step [n] uses [orc n] *)
Fixpoint hist_run_ord (orc : oracle) (h : hist) (steps : list hstep) : list mobs :=
  match steps with
  | [] => []
  | s :: r => let '(h', o) := hist_step_ord (orc 0%nat) h s in
              o :: (if is_panic o then [] else hist_run_ord (oracle_tail orc) h' r)
  end.

Fixpoint hist_final_ord (orc : oracle) (h : hist) (steps : list hstep) : hist :=
  match steps with
  | [] => h
  | s :: r => let '(h', o) := hist_step_ord (orc 0%nat) h s in
              if is_panic o then h' else hist_final_ord (oracle_tail orc) h' r
  end.

(** the two runs are related by: same receiver, same saved metadata and spans, equivalent worlds *)
Definition hist_equiv (h1 h2 : hist) : Prop :=
  h_st h1 = h_st h2 ∧ h_md h1 = h_md h2 ∧ h_spans h1 = h_spans h2 ∧ arena_equiv (h_w h1) (h_w h2).
