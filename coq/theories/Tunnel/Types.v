(** Model of [tunnel/src/types.rs]: call-site data and the nine [TracingEvent] variants.
    Definitions only (plus decidable equalities used by the correspondence judges). *)
From TT Require Export Values.Values.

Inductive level := LError | LWarn | LInfo | LDebug | LTrace.
Inductive cskind := KSpan | KEvent.

Record cs_data := mk_cs {
  cs_kind : cskind;
  cs_name : string;
  cs_target : string;
  cs_level : level;
  cs_module : option string;
  cs_file : option string;
  cs_line : option N;          (* u32 *)
  cs_fields : list string }.

(** ids are [u64] in the code; the model uses unbounded [N] *)
Inductive event :=
| ENewCallSite (id : N) (data : cs_data)
| ENewSpan (id : N) (parent : option N) (meta : N) (values : tvalues)
| EFollowsFrom (id follows : N)
| ESpanEntered (id : N)
| ESpanExited (id : N)
| ESpanCloned (id : N)
| ESpanDropped (id : N)
| EValuesRecorded (id : N) (values : tvalues)
| ENewEvent (meta : N) (parent : option N) (values : tvalues).

Definition level_eqb (a b : level) : bool :=
  match a, b with
  | LError, LError | LWarn, LWarn | LInfo, LInfo | LDebug, LDebug | LTrace, LTrace => true
  | _, _ => false
  end.
Definition cskind_eqb (a b : cskind) : bool :=
  match a, b with KSpan, KSpan | KEvent, KEvent => true | _, _ => false end.

Definition cs_data_eqb (a b : cs_data) : bool :=
  cskind_eqb (cs_kind a) (cs_kind b) && String.eqb (cs_name a) (cs_name b)
  && String.eqb (cs_target a) (cs_target b) && level_eqb (cs_level a) (cs_level b)
  && option_eqb String.eqb (cs_module a) (cs_module b)
  && option_eqb String.eqb (cs_file a) (cs_file b)
  && option_eqb N.eqb (cs_line a) (cs_line b)
  && list_eqb String.eqb (cs_fields a) (cs_fields b).

Definition event_eqb (a b : event) : bool :=
  match a, b with
  | ENewCallSite i d, ENewCallSite j e => N.eqb i j && cs_data_eqb d e
  | ENewSpan i p m v, ENewSpan j q n w =>
      N.eqb i j && option_eqb N.eqb p q && N.eqb m n && tvalues_eqb v w
  | EFollowsFrom i f, EFollowsFrom j g => N.eqb i j && N.eqb f g
  | ESpanEntered i, ESpanEntered j | ESpanExited i, ESpanExited j
  | ESpanCloned i, ESpanCloned j | ESpanDropped i, ESpanDropped j => N.eqb i j
  | EValuesRecorded i v, EValuesRecorded j w => N.eqb i j && tvalues_eqb v w
  | ENewEvent m p v, ENewEvent n q w => N.eqb m n && option_eqb N.eqb p q && tvalues_eqb v w
  | _, _ => false
  end.
