(** Model of [tunnel/src/receiver/mod.rs]: [TracingEventReceiver].  Definitions only.

    Every arm of [try_receive] is transcribed in the order of the Rust code.  The step function
    returns the state reached when the Rust function returns, *including on the error path*, so
    "a rejected event has no effect" is a theorem about this model, not an artefact of it. *)
From stdpp Require Import gmap.
From TT Require Export Tunnel.Types.

(** [SpanData] *)
Record span_data := mk_sd {
  sd_meta : N;
  sd_parent : option N;
  sd_refs : N;                 (* usize; unbounded in the model *)
  sd_values : tvalues }.

(** Receiver state.  [r_meta] maps guest metadata ids to the interned metadata, represented by its
    content (pointer identity is the subject of C09/C10).  [r_entered] counts the enters of the
    current lifetime that have not been matched by an exit. *)
Record rstate := mk_rs {
  r_meta : gmap N cs_data;
  r_spans : gmap N span_data;
  r_local : gmap N N;
  r_uncommitted : gset N;
  r_entered : gmap N N }.

Definition rs_default : rstate := mk_rs ∅ ∅ ∅ ∅ ∅.

(** Calls on the host [Subscriber], as seen by a recording subscriber. *)
Inductive pkind := PCtx | PRoot | PExplicit (h : N).
Inductive hcall :=
| HRegister (md : cs_data)
| HNewSpan (h : N) (md : cs_data) (p : pkind) (vals : tvalues)      (* h = id returned by the host *)
| HRecord (h : N) (vals : tvalues)
| HFollows (h f : N)
| HEvent (md : cs_data) (p : pkind) (vals : tvalues)
| HEnter (h : N)
| HExit (h : N)
| HTryClose (h : N).

(** The environment: the host issues span ids [w_next + 1, w_next + 2, ...]; the process-global
    arena holds the call-site descriptions interned so far. *)
Record world := mk_w { w_next : N; w_arena : list cs_data }.

Inductive rerror := UnknownMeta (id : N) | UnknownSpan (id : N) | TooMany (actual : N).
Inductive outcome := Accepted | Rejected (e : rerror) | Panicked.

Definition MAX_VALUES : N := 32.

(** [ensure_values_len] *)
Definition too_many (vs : tvalues) : option rerror :=
  if (MAX_VALUES <? len vs)%N then Some (TooMany (len vs)) else None.

(** [map_span_id]: [inl e] = Err, [inr None] = alive but not presented to this host yet. *)
Definition map_span_id (st : rstate) (id : N) : rerror + option N :=
  match r_local st !! id with
  | Some h => inr (Some h)
  | None => if decide (is_Some (r_spans st !! id)) then inr None else inl (UnknownSpan id)
  end.

(** [generate_fields] + the host's view of the resulting value set: the values whose name is a
    field of the call site, in value order. *)
Definition host_vals (md : cs_data) (vs : tvalues) : tvalues :=
  List.filter (fun kv => existsb (String.eqb (fst kv)) (cs_fields md)) vs.

Fixpoint chunks (fuel : nat) (vs : tvalues) : list tvalues :=
  match fuel with
  | O => []
  | S f => match vs with
           | [] => []
           | _ => firstn 32 vs :: chunks f (skipn 32 vs)
           end
  end.

(** [on_new_call_site]: intern in the arena; register with the host iff newly interned. *)
Definition on_new_call_site (st : rstate) (w : world) (id : N) (d : cs_data)
  : rstate * world * list hcall :=
  let is_new := negb (existsb (cs_data_eqb d) (w_arena w)) in
  (mk_rs (<[id := d]> (r_meta st)) (r_spans st) (r_local st) (r_uncommitted st) (r_entered st),
   if is_new then mk_w (w_next w) (w_arena w ++ [d]) else w,
   if is_new then [HRegister d] else []).

(** [create_local_span]: [inl e] = Err; otherwise the host id, the new world and the calls. *)
Definition create_local_span (st : rstate) (w : world) (d : span_data) (is_new : bool)
  : rerror + (N * world * list hcall) :=
  match r_meta st !! sd_meta d with
  | None => inl (UnknownMeta (sd_meta d))
  | Some md =>
      let parent : rerror + option N :=
        match sd_parent d with
        | Some p =>
            if negb is_new && negb (bool_decide (is_Some (r_spans st !! p))) then inr None
            else map_span_id st p
        | None => inr None
        end in
      match parent with
      | inl e => inl e
      | inr lp =>
          let all := host_vals md (sd_values d) in
          let h := (w_next w + 1)%N in
          inr (h, mk_w h (w_arena w),
               HNewSpan h md (match lp with Some ph => PExplicit ph | None => PCtx end) (firstn 32 all)
               :: map (HRecord h) (chunks (List.length all) (skipn 32 all)))
      end
  end.

Definition set_spans (st : rstate) (s : gmap N span_data) : rstate :=
  mk_rs (r_meta st) s (r_local st) (r_uncommitted st) (r_entered st).
Definition set_local (st : rstate) (l : gmap N N) : rstate :=
  mk_rs (r_meta st) (r_spans st) l (r_uncommitted st) (r_entered st).
Definition set_uncommitted (st : rstate) (u : gset N) : rstate :=
  mk_rs (r_meta st) (r_spans st) (r_local st) u (r_entered st).
Definition set_entered (st : rstate) (e : gmap N N) : rstate :=
  mk_rs (r_meta st) (r_spans st) (r_local st) (r_uncommitted st) e.

Definition result := (outcome * rstate * world * list hcall)%type.
Definition reject (e : rerror) (st : rstate) (w : world) : result := (Rejected e, st, w, []).

(** [try_receive] *)
Definition try_receive (st : rstate) (w : world) (ev : event) : result :=
  match ev with
  | ENewCallSite id d =>
      let '(st', w', calls) := on_new_call_site st w id d in (Accepted, st', w', calls)

  | ENewSpan id parent meta vals =>
      match too_many vals with
      | Some e => reject e st w
      | None =>
          let d := mk_sd meta parent 1 vals in
          let finish (st1 : rstate) (w1 : world) (calls : list hcall) : result :=
            (Accepted,
             set_uncommitted (set_spans st1 (<[id := d]> (r_spans st1))) ({[id]} ∪ r_uncommitted st1),
             w1, calls) in
          match r_local st !! id with
          | Some _ => finish st w []
          | None =>
              match create_local_span st w d true with
              | inl e => reject e st w
              | inr (h, w1, calls) => finish (set_local st (<[id := h]> (r_local st))) w1 calls
              end
          end
      end

  | EFollowsFrom id follows =>
      match map_span_id st id with
      | inl e => reject e st w
      | inr lid =>
          match map_span_id st follows with
          | inl e => reject e st w
          | inr lf =>
              (Accepted, st, w,
               match lid, lf with Some a, Some b => [HFollows a b] | _, _ => [] end)
          end
      end

  | ESpanEntered id =>
      let enter (st1 : rstate) (w1 : world) (calls : list hcall) (h : N) : result :=
        (Accepted,
         set_entered st1 (<[id := (default 0 (r_entered st1 !! id) + 1)%N]> (r_entered st1)),
         w1, calls ++ [HEnter h]) in
      match map_span_id st id with
      | inl e => reject e st w
      | inr (Some h) => enter st w [] h
      | inr None =>
          match r_spans st !! id with
          | None => reject (UnknownSpan id) st w
          | Some d =>
              match create_local_span st w d false with
              | inl e => reject e st w
              | inr (h, w1, calls) => enter (set_local st (<[id := h]> (r_local st))) w1 calls h
              end
          end
      end

  | ESpanExited id =>
      match map_span_id st id with
      | inl e => reject e st w
      | inr lid =>
          let ent :=
            match r_entered st !! id with
            | Some c => if (c - 1 =? 0)%N then delete id (r_entered st)
                        else <[id := (c - 1)%N]> (r_entered st)
            | None => r_entered st
            end in
          (Accepted, set_entered st ent, w, match lid with Some h => [HExit h] | None => [] end)
      end

  | ESpanCloned id =>
      match r_spans st !! id with
      | None => reject (UnknownSpan id) st w
      | Some d =>
          (Accepted,
           set_spans st (<[id := mk_sd (sd_meta d) (sd_parent d) (sd_refs d + 1) (sd_values d)]> (r_spans st)),
           w, [])
      end

  | ESpanDropped id =>
      match r_spans st !! id with
      | None => reject (UnknownSpan id) st w
      | Some d =>
          if (sd_refs d =? 0)%N then (Panicked, st, w, [])        (* usize underflow *)
          else if (sd_refs d - 1 =? 0)%N then
            (Accepted,
             mk_rs (r_meta st) (delete id (r_spans st)) (delete id (r_local st))
                   (r_uncommitted st ∖ {[id]}) (delete id (r_entered st)),
             w, match r_local st !! id with Some h => [HTryClose h] | None => [] end)
          else
            (Accepted,
             set_spans st (<[id := mk_sd (sd_meta d) (sd_parent d) (sd_refs d - 1) (sd_values d)]> (r_spans st)),
             w, [])
      end

  | EValuesRecorded id vals =>
      match too_many vals with
      | Some e => reject e st w
      | None =>
          match map_span_id st id with
          | inl e => reject e st w
          | inr lid =>
              (* the host call, when a host span exists *)
              let rec : outcome + list hcall :=
                match lid with
                | None => inr []
                | Some h =>
                    match r_spans st !! id with
                    | None => inl Panicked                           (* self.spans.inner[&id] *)
                    | Some d =>
                        match r_meta st !! sd_meta d with
                        | None => inl (Rejected (UnknownMeta (sd_meta d)))
                        | Some md => inr [HRecord h (host_vals md vals)]
                        end
                    end
                end in
              match rec with
              | inl o => (o, st, w, [])
              | inr calls =>
                  match r_spans st !! id with
                  | None => (Rejected (UnknownSpan id), st, w, calls)
                  | Some d =>
                      (Accepted,
                       set_spans st (<[id := mk_sd (sd_meta d) (sd_parent d) (sd_refs d)
                                                   (extend (sd_values d) vals)]> (r_spans st)),
                       w, calls)
                  end
              end
          end
      end

  | ENewEvent meta parent vals =>
      match too_many vals with
      | Some e => reject e st w
      | None =>
          match r_meta st !! meta with
          | None => reject (UnknownMeta meta) st w
          | Some md =>
              let lp : rerror + option N :=
                match parent with Some p => map_span_id st p | None => inr None end in
              match lp with
              | inl e => reject e st w
              | inr lp =>
                  (Accepted, st, w,
                   [HEvent md (match lp with Some h => PExplicit h | None => PCtx end)
                           (host_vals md vals)])
              end
          end
      end
  end.

(** [finalize]: forced exits (one per unmatched enter) for entered spans that have a host span,
    then [try_close] for uncommitted spans that have a host span.  The Rust code iterates hash
    containers; the model fixes ascending key order and the harness sorts each batch. *)
Definition exits_of (entered : gmap N N) (local : gmap N N) : list hcall :=
  flat_map (fun '(id, c) => match local !! id with
                            | Some h => repeat (HExit h) (N.to_nat c)
                            | None => []
                            end) (map_to_list entered).
Definition closes_of (uncommitted : gset N) (local : gmap N N) : list hcall :=
  flat_map (fun id => match local !! id with Some h => [HTryClose h] | None => [] end)
           (elements uncommitted).

(** [persist]: returns (persisted spans, local spans) and the forced exits. *)
Definition persist (st : rstate) : gmap N span_data * gmap N N * list hcall :=
  (r_spans st, r_local st, exits_of (r_entered st) (r_local st)).

(** [Drop] without persisting. *)
Definition drop_calls (st : rstate) : list hcall :=
  exits_of (r_entered st) (r_local st) ++ closes_of (r_uncommitted st) (r_local st).

(** [persist_metadata] *)
Definition persist_metadata (st : rstate) : gmap N cs_data := r_meta st.

(** [new]: re-intern all metadata (registering what the arena has not seen), adopt the rest. *)
Definition restore_step (acc : rstate * world * list hcall) (kv : N * cs_data)
  : rstate * world * list hcall :=
  let '(st, w, calls) := acc in
  let '(st', w', c) := on_new_call_site st w (fst kv) (snd kv) in (st', w', calls ++ c).

Definition restore (w : world) (md : gmap N cs_data) (spans : gmap N span_data) (local : gmap N N)
  : rstate * world * list hcall :=
  fold_left restore_step (map_to_list md) (mk_rs ∅ spans local ∅ ∅, w, []).
